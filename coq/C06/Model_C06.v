(* Model_C06.v — executable model of the normal forms pkgcore derives from a restriction tree
   (src/pkgcore/restrictions/boolean.py: AndRestriction.iter_dnf_solutions / cnf_solutions /
   iter_cnf_solutions, OrRestriction.iter_dnf_solutions / cnf_solutions, boolean.base and
   AtMostOneOfRestriction defaults `[[self]]`; ebuild/atom.py: atom.iter_dnf_solutions /
   iter_cnf_solutions / cnf_solutions).  `match` itself is C06.Restr.eval.  No proofs here.

   Literals of a clause are restrictions (pkgcore's clause lists hold restriction OBJECTS: leaves,
   JustOne/AtMostOne nodes, un-expanded atoms, and `Negate(child)` wrappers made by the negate
   branches).

   The model is of the REPAIRED OrRestriction.iter_dnf_solutions (fixes/C06-negated-or-dnf.patch:
   `return` after the negate branch).  On the pinned tree the negate branch falls through and
   additionally yields the un-negated clauses. *)
From Coq Require Import List NArith ZArith Bool.
Import ListNotations.
From Verif Require Import Base.Val C06.Restr.

Inductive nf_err : Type :=
| ENotImpl      (* NotImplementedError: negated And/Or in cnf_solutions *)
| EAssert.      (* `assert s2` in AndRestriction.iter_dnf_solutions (a child with no solutions) *)
Definition nf : Type := (list clause + nf_err)%type.

(* AndRestriction.iter_dnf_solutions: def f(arg, *others) — the product of the optionals *)
Definition cross (a b : list clause) : list clause :=
  flat_map (fun n => map (fun n2 => n ++ n2) b) a.
Fixpoint product (a : list clause) (others : list (list clause)) : list clause :=
  match others with
  | [] => a
  | o :: os => cross a (product o os)
  end.

(* the hardreqs/optionals loop; l pairs each child with its own dnf_solutions(fse) *)
Fixpoint and_dnf_loop (hard : clause) (opts : list (list clause)) (l : list (restr * nf)) : nf :=
  match l with
  | [] => inl (product [hard] opts)
  | (c, d) :: l' =>
      if has_nf c then
        match d with
        | inr e => inr e
        | inl [] => inr EAssert
        | inl [cl] => and_dnf_loop (hard ++ cl) opts l'
        | inl s2 => and_dnf_loop hard (opts ++ [s2]) l'
        end
      else and_dnf_loop (hard ++ [c]) opts l'
  end.

(* `for x in restrictions: yield [x]  /  yield from x.iter_..._solutions(fse)`
   (OrRestriction.iter_dnf_solutions, AndRestriction.cnf_solutions / iter_cnf_solutions) *)
Fixpoint concat_nf (l : list (restr * nf)) : nf :=
  match l with
  | [] => inl []
  | (c, d) :: l' =>
      match (if has_nf c then d else inl [[c]]) with
      | inr e => inr e
      | inl s => match concat_nf l' with
                 | inr e => inr e
                 | inl s' => inl (s ++ s')
                 end
      end
  end.

(* AndRestriction.iter_dnf_solutions(self, fse); ds = children paired with their dnf *)
Definition and_dnf (n : bool) (cs : list restr) (ds : list (restr * nf)) : nf :=
  if n then
    (* OrRestriction of [Negate(x) for x in restrictions].iter_dnf_solutions(): Negate wrappers
       have no iter_dnf_solutions, so each is its own clause; no children: `yield []` *)
    inl (match cs with [] => [[]] | _ => map (fun c => [Neg c]) cs end)
  else
    match cs with
    | [] => inl [[]]
    | _ => and_dnf_loop [] [] ds
    end.

(* OrRestriction.iter_dnf_solutions(self, fse) — REPAIRED (returns after the negate branch) *)
Definition or_dnf (n : bool) (cs : list restr) (ds : list (restr * nf)) : nf :=
  if n then
    (* AndRestriction of [Negate(x) ...].iter_dnf_solutions(): all hardreqs, one clause *)
    inl [map Neg cs]
  else
    match cs with
    | [] => inl [[]]
    | _ => concat_nf ds
    end.

Fixpoint dnf (fse : bool) (r : restr) : nf :=
  match r with
  | Node k n cs =>
      let ds := map (fun c => (c, dnf fse c)) cs in
      match k with
      | KAnd => and_dnf n cs ds
      | KAtom => if fse then and_dnf n cs ds else inl [[r]]
      | KOr => or_dnf n cs ds
      | KJustOne | KAtMostOne => inl [[r]]
      end
  | _ => inl [[r]]     (* leaves have no such method; a parent treats them as one literal *)
  end.

(* OrRestriction.cnf_solutions: split the children's DNF clauses into single literals (dcnf)
   and conjunctions (cnf) ... *)
Fixpoint or_cnf_split (dcnf : clause) (cnf : list clause) (s2 : list clause) : clause * list clause :=
  match s2 with
  | [] => (dcnf, cnf)
  | y :: r =>
      match y with
      | [x] => or_cnf_split (dcnf ++ [x]) cnf r
      | _ => or_cnf_split dcnf (cnf ++ [y]) r
      end
  end.
(* ... `dcnf = [y + [x] for x in andreq for y in dcnf]` *)
Definition distribute (acc : list clause) (andreq : clause) : list clause :=
  flat_map (fun x => map (fun y => y ++ [x]) acc) andreq.
Fixpoint or_cnf_loop (dcnf : clause) (cnf : list clause) (l : list (restr * nf)) : nf :=
  match l with
  | [] => inl (fold_left distribute cnf [dcnf])
  | (c, d) :: l' =>
      if has_nf c then
        match d with
        | inr e => inr e
        | inl [cl] => or_cnf_loop dcnf (cnf ++ [cl]) l'
        | inl s2 => let '(dc, cn) := or_cnf_split dcnf cnf s2 in or_cnf_loop dc cn l'
        end
      else or_cnf_loop (dcnf ++ [c]) cnf l'
  end.

Definition and_cnf (n : bool) (cs_cnf : list (restr * nf)) : nf :=
  if n then inr ENotImpl else concat_nf cs_cnf.
Definition or_cnf (n : bool) (cs : list restr) (ds : list (restr * nf)) : nf :=
  if n then inr ENotImpl
  else match cs with
       | [] => inl []
       | _ => or_cnf_loop [] [] ds
       end.

Fixpoint cnf (fse : bool) (r : restr) : nf :=
  match r with
  | Node k n cs =>
      match k with
      | KAnd => and_cnf n (map (fun c => (c, cnf fse c)) cs)
      | KAtom => if fse then and_cnf n (map (fun c => (c, cnf fse c)) cs) else inl [[r]]
      | KOr => or_cnf n cs (map (fun c => (c, dnf fse c)) cs)
      | KJustOne | KAtMostOne => inl [[r]]
      end
  | _ => inl [[r]]
  end.

(* ---------------------------------------------------------------- comparison for the harness *)
Definition kind_eqb (a b : kind) : bool :=
  match a, b with
  | KAnd, KAnd | KOr, KOr | KJustOne, KJustOne | KAtMostOne, KAtMostOne | KAtom, KAtom => true
  | _, _ => false
  end.
Fixpoint restr_eqb (a b : restr) : bool :=
  match a, b with
  | Leaf n i, Leaf m j => Bool.eqb n m && N.eqb i j
  | Always x, Always y => Bool.eqb x y
  | Neg x, Neg y => restr_eqb x y
  | Node k n cs, Node k' n' cs' =>
      kind_eqb k k' && Bool.eqb n n' &&
      (fix go (x y : list restr) : bool :=
         match x, y with
         | [], [] => true
         | a' :: x', b' :: y' => restr_eqb a' b' && go x' y'
         | _, _ => false
         end) cs cs'
  | _, _ => false
  end.

(* clause lists are compared as sets of sets of literals (order and repetition of clauses and of
   literals inside a clause carry no meaning) *)
Definition subsetb {A} (eq : A -> A -> bool) (a b : list A) : bool :=
  forallb (fun x => existsb (eq x) b) a.
Definition seteqb {A} (eq : A -> A -> bool) (a b : list A) : bool :=
  subsetb eq a b && subsetb eq b a.
Definition clauses_same (a b : list clause) : bool := seteqb (seteqb restr_eqb) a b.

(* the implementation's answer: None = an exception the model does not know *)
Definition nf_same (model : nf) (impl : option nf) : bool :=
  match impl, model with
  | Some (inl s), inl s' => clauses_same s' s
  | Some (inr ENotImpl), inr ENotImpl => true
  | Some (inr EAssert), inr EAssert => true
  | _, _ => false
  end.

(* the harness names a literal of the implementation's clause lists by its position in the
   pre-order list of subterms of the tree (followed by a table of literals that are no subterm):
   code = 2 * position (+ 1 for a `Negate(...)` wrapper the code made around it) *)
Fixpoint subterms (r : restr) : list restr :=
  r :: match r with
       | Neg r' => subterms r'
       | Node _ _ cs => flat_map subterms cs
       | _ => []
       end.
Definition decode_lit (tbl : list restr) (c : N) : restr :=
  let r := nth (N.to_nat (N.div2 c)) tbl (Always false) in
  if N.odd c then Neg r else r.
Definition nfc : Type := (list (list N) + nf_err)%type.
Definition decode_nf (tbl : list restr) (x : option nfc) : option nf :=
  match x with
  | None => None
  | Some (inr e) => Some (inr e)
  | Some (inl s) => Some (inl (map (map (decode_lit tbl)) s))
  end.

(* r.match(p) for each package p of a universe, the package given by its leaf-truth mask;
   the answers packed as bits of one number (bit i = i-th package) *)
Fixpoint pack_bits (i : N) (bs : list bool) : N :=
  match bs with
  | [] => 0%N
  | b :: r => N.lor (if b then N.shiftl 1 i else 0%N) (pack_bits (N.succ i) r)
  end.
Definition run_match (i : restr * list N) : val :=
  VZ (Z.of_N (pack_bits 0 (map (fun m => eval (env_of_mask m) (fst i)) (snd i)))).

(* ---------------------------------------------------------------- construction glue (malformed stream)
   boolean.base.__init__ / add_restriction: with a node_type every child must carry a `type`
   attribute that is None or equal to it; unknown keywords are refused; add_restriction needs at
   least one argument and an unfinalised node.  Every refusal is a TypeError.
   child type: None = the object has no `type` attribute; Some None = type None; Some (Some t). *)
Definition child_type_ok (nt : option N) (c : option (option N)) : bool :=
  match nt, c with
  | None, _ => true
  | Some _, None => false
  | Some _, Some None => true
  | Some t, Some (Some t') => N.eqb t t'
  end.
Definition e_type : val := VErr [84;121;112;101;69;114;114;111;114]%N.  (* TypeError *)
(* mode 0: Cls(children..., node_type=nt [, bogus=1]); 1: add_restriction(children...) on an
   unfinalised node; 2: add_restriction(children...) on a finalised node *)
Definition run_ctor (i : N * option N * list (option (option N)) * bool) : val :=
  let '(mode, nt, cts, bogus) := i in
  let types_ok := forallb (child_type_ok nt) cts in
  let ok := match mode with
            | 0%N => types_ok && negb bogus
            | 1%N => negb (match cts with [] => true | _ => false end) && types_ok
            | _ => false
            end in
  if ok then VB true else e_type.
