(* Spec_C26.v — the property's statement, written from the statement and from the documented
   container format (the comment at the top of xpak.py:
     XPAKPACKIIIIDDDD[index][data]XPAKSTOPOOOOSTOP, all ints big endian; index items: 4 bytes key
     length, the key, 2 longs: offset relative to the data block and length; trailing magic,
     4 bytes offset, 'STOP'),
   not from the algorithm.  The magic strings are LITERALS here (not the regenerated table; the table is only used to name the reader's alias keys in known_class):
   Proofs_C26.encode_is_format ties the table-driven model to this documented format.

   Text is modelled as code points, files as bytes; str.encode()/bytes.decode() are the UTF-8
   functions of Model_C26 (cross-checked against Python's codec by the correspondence). *)
From Coq Require Import List NArith ZArith Bool.
Import ListNotations.
From Verif Require Import Base.Val gen.Tables_xpak C26.Model_C26.
Local Open Scope N_scope.

Definition lit_XPAKPACK : bytes := [88;80;65;75;80;65;67;75].
Definition lit_XPAKSTOP : bytes := [88;80;65;75;83;84;79;80].
Definition lit_STOP : bytes := [83;84;79;80].
Definition lit_environment : bytes := [101;110;118;105;114;111;110;109;101;110;116].

(* ---- the documented byte format of a segment holding the (key, value) byte strings kvs *)
Fixpoint fmt_index (kvs : list kv) (pos : N) : bytes :=
  match kvs with
  | [] => []
  | (k, v) :: r => be32 (len k) ++ k ++ be32 pos ++ be32 (len v) ++ fmt_index r (pos + len v)
  end.
Definition fmt_data (kvs : list kv) : bytes := concat (map snd kvs).
Definition xpak_format (kvs : list kv) : bytes :=
  let i := fmt_index kvs 0 in
  let d := fmt_data kvs in
  lit_XPAKPACK ++ be32 (len i) ++ be32 (len d) ++ i ++ d
  ++ lit_XPAKSTOP ++ be32 (len i + len d + 24) ++ lit_STOP.

(* every length the format stores fits its 4-byte field ("lengths < 2^32") *)
Definition fits (kvs : list kv) : Prop :=
  len (fmt_index kvs 0) + len (fmt_data kvs) + 24 < 4294967296.

(* ---- what reading back must return: the same keys, in order; text values decoded,
        values of keys starting with "environment" as bytes *)
Definition ascii (s : list N) : Prop := Forall (fun b => b < 128) s.
Definition ascii_b (s : list N) : bool := forallb (fun b => b <? 128) s.
Definition is_env (k : list N) : bool := startswith lit_environment k.

(* byte level: value bytes as stored; [bool] = "is text" *)
Definition expect_b (kvs : list kv) : list (bytes * (bool * bytes)) :=
  map (fun x => (fst x, (negb (is_env (fst x)), snd x))) kvs.

(* typed level *)
Definition key_str (k : pystr) : list N := match k with PS c => c | PB b => b end.
Definition spec_item (k : list N) (v : pystr) : option item :=
  if is_env k then match py_encode v with Some b => Some (IBytes b) | None => None end
  else match v with
       | PS c => Some (IText c)
       | PB b => match utf8_decode b with Some c => Some (IText c) | None => None end
       end.
Fixpoint spec_items (data : list (pystr * pystr)) : option (list (list N * item)) :=
  match data with
  | [] => Some []
  | (k, v) :: r =>
      match spec_item (key_str k) v, spec_items r with
      | Some i, Some t => Some ((key_str k, i) :: t)
      | _, _ => None
      end
  end.

Fixpoint nodup_b (l : list (list N)) : bool :=
  match l with
  | [] => true
  | x :: r => negb (existsb (str_eqb x) r) && nodup_b r
  end.

(* the domain of the statement: ASCII keys, pairwise different, every value encodable, text
   values being text (valid UTF-8 when given as bytes) *)
Definition spec_dom (data : list (pystr * pystr)) : bool :=
  forallb (fun x => ascii_b (key_str (fst x))) data
  && nodup_b (map (fun x => key_str (fst x)) data)
  && match to_bytes data with Some _ => true | None => false end
  && match spec_items data with Some _ => true | None => false end.

(* ---- vocabulary of the theorem statements (Prop_C26.v) *)
(* the arguments have exactly the shape the format asks for (no padding / truncation) *)
Fixpoint args_exact (fmt : list (option N)) (args : list arg) : Prop :=
  match fmt, args with
  | [], [] => True
  | Some n :: f, AS b :: a => len b = n /\ args_exact f a
  | None :: f, AL _ :: a => args_exact f a
  | _, _ => False
  end.

Definition keys_ascii (kvs : list kv) : Prop := Forall (fun x => ascii (fst x)) kvs.

(* values as stored -> what items() yields: text is decoded, environment* stays bytes *)
Definition finish (x : bool * bytes) : res item :=
  if fst x then match utf8_decode (snd x) with Some c => Ok (IText c) | None => Err EUnicodeDec end
  else Ok (IBytes (snd x)).
Fixpoint finish_all (l : list (bytes * (bool * bytes))) : res (list (bytes * item)) :=
  match l with
  | [] => Ok []
  | (k, x) :: r =>
      match finish x with
      | Err e => Err e
      | Ok i => match finish_all r with Ok t => Ok ((k, i) :: t) | Err e => Err e end
      end
  end.
(* what was written, as the reader names it: alias applied, text flag from the (aliased) key *)
Definition expect_rw (kvs : list kv) : list (bytes * (bool * bytes)) :=
  map (fun x => (rw (fst x), (is_text (rw (fst x)), snd x))) kvs.

Definition aliased (k : bytes) : bool :=
  match assoc k key_rewrites with Some _ => true | None => false end.
Definition known_class (kvs : list kv) : bool := existsb aliased (map fst kvs).

(* the statement at byte level, full strength: the same keys, in order *)
Definition C26_roundtrip_full_statement : Prop :=
  forall pre kvs e, encode kvs = Some e -> keys_ascii kvs -> NoDup (map fst kvs) ->
  decode (pre ++ e) = match finish_all (expect_b kvs) with Ok l => Ok (len pre, l) | Err x => Err x end.

Fixpoint rewrite_all (file : bytes) (news : list (list kv)) : res bytes :=
  match news with
  | [] => Ok file
  | n :: r => match rewrite (Some file) n with Ok f => rewrite_all f r | Err e => Err e end
  end.

Definition crash_class (file : bytes) : bool :=
  match parse file with Err EStruct | Err EUnicodeDec => true | _ => false end.

(* full statement: rewriting ANY existing file with a mapping that fits succeeds and yields
   <prefix of the old file> ++ <segment> *)
Definition C26_rewrite_total_full_statement : Prop :=
  forall file kvs, fits kvs ->
  exists s, s <= len file /\ rewrite (Some file) kvs = Ok (firstn (N.to_nat s) file ++ xpak_format kvs).

(* "tar" ++ XPAKPACK be32(7) be32(0) be32(8) XPAKSTOP be32(28) STOP *)
Definition crafted_tail : bytes :=
  [116;97;114; 88;80;65;75;80;65;67;75; 0;0;0;7; 0;0;0;0; 0;0;0;8; 88;80;65;75;83;84;79;80; 0;0;0;28; 83;84;79;80].

Definition typed_dom (data : list (pystr * pystr)) : Prop :=
  Forall (fun x => ascii (key_str (fst x))) data
  /\ NoDup (map (fun x => key_str (fst x)) data)
  /\ Forall (fun x => aliased (key_str (fst x)) = false) data.

(* ---- executable acceptors evaluated on the IMPLEMENTATION's recorded results (comparison B) *)
Fixpoint ends_with (suf s : bytes) : bool :=
  str_eqb suf s || match s with [] => false | _ :: r => ends_with suf r end.

Definition nat_sub_len (out seg : bytes) : nat := length out - length seg.

(* write: the new file is a prefix of the old file followed by exactly the documented segment *)
Definition spec_write_ok (i : option bytes * list (pystr * pystr)) (r : val) : bool :=
  match r with
  | VErr _ => true                       (* refusals are judged by the model comparison *)
  | VS out =>
      match to_bytes (snd i), fst i with
      | Some kvs, Some f =>
          let seg := xpak_format kvs in
          let n := nat_sub_len out seg in
          (length seg <=? length out)%nat && (n <=? length f)%nat
          && str_eqb (skipn n out) seg && str_eqb (firstn n out) (firstn n f)
      | _, _ => false
      end
  | _ => false
  end.

(* roundtrip: write into a file that has no segment (it does not end with "STOP"), read back *)
Definition spec_roundtrip_ok (i : bytes * list (pystr * pystr)) (r : val) : bool :=
  if ends_with lit_STOP (fst i) || negb (spec_dom (snd i)) then true
  else match spec_items (snd i) with
       | Some l => val_eqb r (VL [VZ (Z.of_N (len (fst i))); enc_items l])
       | None => true
       end.

(* seq: every successful rewrite of a file that started without a segment is prefix ++ segment *)
Fixpoint seq_ok (pre : bytes) (ds : list (list (pystr * pystr))) (rs : list val) : bool :=
  match ds, rs with
  | [], [] => true
  | d :: ds', r :: rs' =>
      match to_bytes d, r with
      | Some kvs, VS out => str_eqb out (pre ++ xpak_format kvs)
      | None, VErr _ => true
      | _, _ => false
      end && seq_ok pre ds' rs'
  | _, _ => false
  end.
Definition spec_seq_ok (i : option bytes * list (list (pystr * pystr))) (r : val) : bool :=
  match fst i, r with
  | Some pre, VL rs => if ends_with lit_STOP pre then true else seq_ok pre (snd i) rs
  | _, _ => true
  end.
