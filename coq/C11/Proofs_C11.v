(* Proofs_C11.v — proofs of the property theorems of C11 (re-stated in Prop_C11.v), refutation
   witnesses for the three finding classes, and non-vacuity examples. *)
From Coq Require Import List NArith ZArith Bool Lia.
Import ListNotations.
From Verif Require Import Base.Val C11.Model_C11 C11.Spec_C11 C11.Sem_C11 C11.Class_C11 C11.Inv_C11.
Open Scope N_scope.

(* ------------------------------------------------------------------ incremental_chunked = fold *)
Theorem chunked_is_fold_proof : forall items p pre,
  same_set (render_list items p pre) (apply_history items p pre).
Proof.
  unfold render_list, apply_history.
  induction items as [|c items IH]; intros p pre.
  - intro; tauto.
  - cbn [fold_left]. destruct (applies (sc c) p).
    + assert (G : forall its a b, same_set a b ->
        same_set (fold_left (fun s c0 => if applies (sc c0) p then apply_chunk c0 s else s) its a)
                 (fold_left (fun s c0 => if applies (sc c0) p then apply_chunk c0 s else s) its b)).
      { induction its as [|c0 its IH2]; intros a b Hab; [exact Hab|].
        cbn [fold_left]. apply IH2. destruct (applies (sc c0) p); [apply apply_chunk_ext|]; exact Hab. }
      intro f. rewrite <- (IH p (apply_entry c pre) f).
      apply G. intro x. symmetry. apply apply_entry_chunk.
    + apply IH.
Qed.

(* ------------------------------------------------------------------ collapsing keeps the fold *)
Theorem collapse_is_fold_partial_proof : forall seq restrict p pre,
  (forall c, In c seq -> lockable c = true -> applies (sc c) p = true) ->
  (forall c, In c seq -> applies (sc c) p = true -> good c = true) ->
  (forall c1 c2 x, In c1 seq -> In c2 seq -> lockable c1 = false -> lockable c2 = false ->
     applies (sc c1) p = true -> applies (sc c2) p = true -> In x (neg c1) -> In x (pos c2) -> False) ->
  applies restrict p = true ->
  same_set (render_list (build seq restrict) p pre) (apply_history seq p pre).
Proof.
  intros seq r p pre H1 H2 H3 Hr f.
  rewrite <- (chunked_is_fold_proof seq p pre f).
  apply effl_render_same. intro g. apply build_effl; [split; assumption | exact H3 | exact Hr].
Qed.

(* ------------------------------------------------------------------ the op-sequence theorem *)
Lemma add_atom d c k : atomkey c = Some k -> add d c = add_key d k c.
Proof. unfold add, atomkey. destruct (sc c); try discriminate; intro H; injection H as <-; reflexivity. Qed.
Lemma add_glob d c : atomkey c = None -> add d c = add_global d c.
Proof. unfold add, atomkey. destruct (sc c); try discriminate; reflexivity. Qed.

Section Run.
  Variable Hall : list chunk.
  Variable p : pkg.
  Hypothesis A1 : forall e, In e Hall -> applies (sc e) p = true -> good e = true.
  Hypothesis A2 : forall x, sneg Hall p x = true -> spos Hall p x = true -> False.

  Lemma inv_run : forall pr d, run pr = Some d -> incl (entries_of pr) Hall ->
    ~ In (fst p) (s_hz (stale pr)) -> Inv Hall p pr d.
  Proof.
    induction pr as [|pr IH c|pr IH q IHq|pr IH|pr IH u|pr IH]; intros d Hr Hin Hhz; cbn [run] in Hr.
    - injection Hr as <-. apply inv_new.
    - destruct (run pr) as [d0|] eqn:E0; [|discriminate]. cbn [entries_of] in Hin.
      assert (Hin0 : incl (entries_of pr) Hall) by (intros x Hx; apply Hin, in_app_iff; left; exact Hx).
      assert (Hc : In c Hall) by (apply Hin, in_app_iff; right; left; reflexivity).
      assert (Hhz0 : ~ In (fst p) (s_hz (stale pr))).
      { intro H. apply Hhz. cbn [stale]. destruct (atomkey c).
        - cbn [s_hz]. destruct (_ || _); [right|]; exact H.
        - destruct (empty_chunk c); exact H. }
      specialize (IH d0 eq_refl Hin0 Hhz0).
      destruct (atomkey c) as [k|] eqn:Ek.
      + rewrite (add_atom _ _ _ Ek) in Hr. eapply inv_add_key; eassumption.
      + rewrite (add_glob _ _ Ek) in Hr. eapply inv_add_global; try eassumption.
        apply atomkey_globalish. exact Ek.
    - destruct (run pr) as [d0|] eqn:E0; [|discriminate].
      destruct (run q) as [e0|] eqn:E1; [|discriminate]. cbn [entries_of] in Hin.
      assert (Hz : forall x, In x (s_hz (stale pr)) \/ In x (s_hz (stale q)) -> In x (s_hz (stale (PMerge pr q)))).
      { intros x Hx. cbn [stale]. destruct (has_globals (entries_of q)); cbn [s_hz];
          rewrite !in_app_iff; tauto. }
      eapply (inv_merge Hall p); try eassumption.
      + apply IH; [reflexivity | intros x Hx; apply Hin, in_app_iff; left; exact Hx | intro H; apply Hhz, Hz; left; exact H].
      + apply IHq; [reflexivity | intros x Hx; apply Hin, in_app_iff; right; exact Hx | intro H; apply Hhz, Hz; right; exact H].
    - destruct (run pr) as [d0|] eqn:E0; [|discriminate]. injection Hr as <-.
      apply inv_freeze. apply IH; [reflexivity | exact Hin | exact Hhz].
    - destruct (run pr) as [d0|] eqn:E0; [|discriminate]. injection Hr as <-.
      apply inv_clone. apply IH; [reflexivity | exact Hin |].
      intro H. apply Hhz. cbn [stale]. destruct (_ && _); exact H.
    - destruct (run pr) as [d0|] eqn:E0; [|discriminate]. injection Hr as <-.
      apply inv_opt; [exact A2|]. apply IH; [reflexivity | exact Hin | exact Hhz].
  Qed.
End Run.

Lemma has_wild_nowild c : has_wild c = false -> nowild c = true.
Proof.
  unfold has_wild, nowild. induction (neg c) as [|t l IH]; cbn [existsb forallb]; [reflexivity|].
  intro H. apply orb_false_iff in H as [H1 H2]. rewrite (IH H2), andb_true_r.
  apply N.leb_le. apply N.ltb_ge in H1. exact H1.
Qed.

Theorem render_is_fold_partial_proof : forall pr d p pre,
  run pr = Some d -> wf_prog pr = true -> known_class pr p = false ->
  same_set (render d p pre) (apply_history (entries_of pr) p pre).
Proof.
  intros pr d p pre Hr Hwf Hk.
  unfold known_class in Hk. apply orb_false_iff in Hk as [Hk Hc]. apply orb_false_iff in Hk as [Ha Hb].
  assert (A1 : forall e, In e (entries_of pr) -> applies (sc e) p = true -> good e = true).
  { intros e He Hap. unfold good. apply andb_true_iff. split.
    - apply has_wild_nowild. unfold class_a in Ha.
      destruct (has_wild e) eqn:E; [|reflexivity]. exfalso.
      assert (X : existsb (fun c => applies (sc c) p && has_wild c) (entries_of pr) = true).
      { apply existsb_exists. exists e. rewrite Hap, E. tauto. }
      congruence.
    - unfold wf_prog in Hwf. rewrite forallb_forall in Hwf. specialize (Hwf e He).
      unfold wf_chunk in Hwf. apply andb_true_iff in Hwf as [_ Hwf]. exact Hwf. }
  assert (A2 : forall x, sneg (entries_of pr) p x = true -> spos (entries_of pr) p x = true -> False).
  { intros x Hn Hp. unfold sneg in Hn. apply existsb_exists in Hn as [e [He Hn]].
    apply andb_true_iff in Hn as [Hn1 Hn2].
    assert (X : class_c pr p = true).
    { unfold class_c. apply existsb_exists. exists e. split; [exact He|]. rewrite Hn1. cbn [andb].
      apply existsb_exists. exists x. split; [apply mem_In; exact Hn2 | exact Hp]. }
    congruence. }
  assert (Hhz : ~ In (fst p) (s_hz (stale pr))).
  { unfold class_b in Hb. apply mem_false. exact Hb. }
  pose proof (inv_run (entries_of pr) p A1 A2 pr d Hr (incl_refl _) Hhz) as I.
  intro f. rewrite <- (chunked_is_fold_proof (entries_of pr) p pre f).
  unfold render. rewrite !render_effl.
  destruct (dget (dict d) (fst p)) as [l|] eqn:E.
  - rewrite (i_K _ _ _ _ I l E). tauto.
  - rewrite (i_G _ _ _ _ I), <- (effl_no_atom p (entries_of pr) f (i_N _ _ _ _ I E)). tauto.
Qed.

(* ------------------------------------------------------------------ the package.use line splitter *)
Lemma rule_neg_ext t a b : same_set a b -> same_set (rule_neg t a) (rule_neg t b).
Proof. intros H f. rewrite !rule_neg_In, (H f). tauto. Qed.
Lemma rule_pos_ext t a b : same_set a b -> same_set (rule_pos t a) (rule_pos t b).
Proof. intros H f. unfold rule_pos. rewrite !in_app_iff, (H f). tauto. Qed.

Lemma line_fold_ext : forall ts sec a b, same_set a b -> same_set (line_fold sec ts a) (line_fold sec ts b).
Proof.
  induction ts as [|t ts IH]; intros sec a b H; [exact H|].
  destruct t; cbn [line_fold]; apply IH; auto using rule_neg_ext, rule_pos_ext.
Qed.

Lemma out_fold_app a b s : out_fold (a ++ b) s = out_fold b (out_fold a s).
Proof. unfold out_fold. apply fold_left_app. Qed.

(* the buffered tokens of a USE_EXPAND section all carry that section's prefix *)
Definition buf_ok (p : N) (buf : list otok) : Prop :=
  forall t, In t buf -> exists b, (t = OPos (expand p b) \/ t = ONeg (expand p b)) /\ 10 <= b < 100.

Lemma expand_prefix p b : 0 < p < 10 -> 10 <= b < 100 -> expand p b / 100 = p /\ 10 <= expand p b.
Proof.
  intros Hp Hb. unfold expand. split; [|lia].
  replace (100 * p + (b - 10)) with ((b - 10) + p * 100) by lia.
  rewrite N.div_add by lia. rewrite N.div_small by lia. lia.
Qed.

Lemma drop_buffer p buf s : 0 < p < 10 -> buf_ok p buf ->
  same_set (rule_neg p (out_fold buf s)) (rule_neg p s).
Proof.
  intros Hp. revert s. induction buf as [|t buf IH]; intros s Hb; [intro; tauto|].
  cbn [out_fold fold_left]. fold (out_fold buf (otok_apply t s)).
  assert (Hb' : buf_ok p buf) by (intros x Hx; apply Hb; right; exact Hx).
  intro f. rewrite (IH _ Hb' f).
  destruct (Hb t (or_introl eq_refl)) as [b [[->| ->] Hr]]; cbn [otok_apply];
    destruct (expand_prefix p b Hp Hr) as [E1 E2];
    rewrite !rule_neg_In.
  - unfold rule_pos. rewrite in_app_iff. cbn [In]. split; [|tauto].
    intros [[H|[<-|[]]] H2]; [tauto|]. exfalso.
    unfold tclears, pre_clears in H2. rewrite E1, N.eqb_refl in H2.
    assert (X : (0 <? p) = true) by (apply N.ltb_lt; lia).
    assert (Y : (p <? 10) = true) by (apply N.ltb_lt; lia).
    rewrite X, Y in H2. cbn in H2. rewrite orb_true_r in H2. discriminate.
  - split; [tauto|]. intros [H1 H2]. split; [|exact H2]. split; [exact H1|].
    unfold tclears, pre_clears. 
    destruct (expand p b =? f) eqn:E; [|].
    + apply N.eqb_eq in E. subst f. exfalso.
      unfold tclears, pre_clears in H2. rewrite E1, N.eqb_refl in H2.
      assert (X : (0 <? p) = true) by (apply N.ltb_lt; lia).
      assert (Y : (p <? 10) = true) by (apply N.ltb_lt; lia).
      rewrite X, Y in H2. cbn in H2. rewrite orb_true_r in H2. discriminate.
    + assert (Z : (expand p b =? 0) = false) by (apply N.eqb_neq; lia).
      assert (W : (expand p b <? 10) = false) by (apply N.ltb_ge; lia).
      rewrite Z, W, andb_false_r. reflexivity.
Qed.

Lemma section_is_fold : forall ts p buf o s,
  forallb wf_tok ts = true -> 0 < p < 10 -> buf_ok p buf ->
  section p buf ts = Some o ->
  same_set (out_fold o s) (line_fold (Some p) ts (out_fold buf s)).
Proof.
  induction ts as [|t ts IH]; intros p buf o s Hwf Hp Hb Hs.
  - cbn in Hs. injection Hs as <-. intro; tauto.
  - cbn [forallb] in Hwf. apply andb_true_iff in Hwf as [Hw Hwf].
    destruct t as [b|b| |p'|]; cbn [section] in Hs; cbn [line_fold].
    + (* value *)
      assert (HB : buf_ok p (buf ++ [OPos (expand p b)])).
      { intros x Hx. apply in_app_iff in Hx as [Hx|[<-|[]]]; [apply Hb; exact Hx|].
        exists b. split; [left; reflexivity|]. cbn in Hw. apply andb_true_iff in Hw as [H1 H2].
        apply N.leb_le in H1. apply N.ltb_lt in H2. lia. }
      intro f. rewrite (IH p _ o s Hwf Hp HB Hs f), out_fold_app. reflexivity.
    + assert (HB : buf_ok p (buf ++ [ONeg (expand p b)])).
      { intros x Hx. apply in_app_iff in Hx as [Hx|[<-|[]]]; [apply Hb; exact Hx|].
        exists b. split; [right; reflexivity|]. cbn in Hw. apply andb_true_iff in Hw as [H1 H2].
        apply N.leb_le in H1. apply N.ltb_lt in H2. lia. }
      intro f. rewrite (IH p _ o s Hwf Hp HB Hs f), out_fold_app. reflexivity.
    + (* -* inside a section: the buffer is dropped, -P_* is emitted *)
      destruct (section p [] ts) as [o'|] eqn:E; [|discriminate]. cbn in Hs. injection Hs as <-.
      cbn [out_fold fold_left otok_apply]. fold (out_fold o' (rule_neg p s)).
      intro f. rewrite (IH p [] o' (rule_neg p s) Hwf Hp (fun _ H => match H with end) E f).
      cbn [out_fold fold_left]. apply line_fold_ext. intro g. symmetry. apply drop_buffer; assumption.
    + (* next section header: flush *)
      destruct (section p' [] ts) as [o'|] eqn:E; [|discriminate]. cbn in Hs. injection Hs as <-.
      rewrite out_fold_app.
      cbn in Hw. apply andb_true_iff in Hw as [H1 H2]. apply N.ltb_lt in H1. apply N.ltb_lt in H2.
      apply (IH p' [] o' (out_fold buf s) Hwf (conj H1 H2) (fun _ H => match H with end) E).
    + discriminate.
Qed.

Lemma plain_is_fold : forall ts acc o s,
  forallb wf_tok ts = true -> plain acc ts = Some o ->
  same_set (out_fold o s) (line_fold None ts (out_fold acc s)).
Proof.
  induction ts as [|t ts IH]; intros acc o s Hwf Hs.
  - cbn in Hs. injection Hs as <-. intro; tauto.
  - cbn [forallb] in Hwf. apply andb_true_iff in Hwf as [Hw Hwf].
    destruct t as [b|b| |p'|]; cbn [plain] in Hs; cbn [line_fold].
    + intro f. rewrite (IH _ o s Hwf Hs f), out_fold_app. reflexivity.
    + intro f. rewrite (IH _ o s Hwf Hs f), out_fold_app. reflexivity.
    + (* -* in the plain part: everything before it is dropped *)
      intro f. rewrite (IH _ o s Hwf Hs f). reflexivity.
    + destruct (section p' [] ts) as [o'|] eqn:E; [|discriminate]. cbn in Hs. injection Hs as <-.
      rewrite out_fold_app.
      cbn in Hw. apply andb_true_iff in Hw as [H1 H2]. apply N.ltb_lt in H1. apply N.ltb_lt in H2.
      apply (section_is_fold ts p' [] o' (out_fold acc s) Hwf (conj H1 H2) (fun _ H => match H with end) E).
    + discriminate.
Qed.

Theorem splitter_is_fold_proof : forall ts o s,
  forallb wf_tok ts = true -> split_line ts = Some o ->
  same_set (out_fold o s) (line_fold None ts s).
Proof. intros ts o s Hwf Hs. exact (plain_is_fold ts [] o s Hwf Hs). Qed.

(* a line is rejected exactly when it holds an invalid token *)
Theorem splitter_rejects_proof : forall ts,
  split_line ts = None <-> In TBad ts.
Proof.
  assert (S : forall ts p buf, section p buf ts = None <-> In TBad ts).
  { induction ts as [|t ts IH]; intros p buf; [cbn; split; [discriminate | tauto]|].
    destruct t; cbn [section In].
    - rewrite IH. split; [tauto | intros [H|H]; [discriminate | exact H]].
    - rewrite IH. split; [tauto | intros [H|H]; [discriminate | exact H]].
    - destruct (section p [] ts) eqn:E; cbn.
      + split; [discriminate|]. intros [H|H]; [discriminate|]. apply (IH p []) in H. rewrite E in H. discriminate.
      + split; [|reflexivity]. intros _. right. apply (IH p []). exact E.
    - destruct (section p0 [] ts) eqn:E; cbn.
      + split; [discriminate|]. intros [H|H]; [discriminate|]. apply (IH p0 []) in H. rewrite E in H. discriminate.
      + split; [|reflexivity]. intros _. right. apply (IH p0 []). exact E.
    - split; [tauto | reflexivity]. }
  unfold split_line. intro ts. generalize (@nil otok).
  induction ts as [|t ts IH]; intro acc; [cbn; split; [discriminate | tauto]|].
  destruct t; cbn [plain In].
  - rewrite IH. split; [tauto | intros [H|H]; [discriminate | exact H]].
  - rewrite IH. split; [tauto | intros [H|H]; [discriminate | exact H]].
  - rewrite IH. split; [tauto | intros [H|H]; [discriminate | exact H]].
  - destruct (section p [] ts) eqn:E; cbn.
    + split; [discriminate|]. intros [H|H]; [discriminate|]. apply (S ts p []) in H. rewrite E in H. discriminate.
    + split; [|reflexivity]. intros _. right. apply (S ts p []). exact E.
  - split; [tauto | reflexivity].
Qed.

(* ------------------------------------------------------------------ the full statement is false of the
   faithful model: one witness inside each finding class (and outside the two others) *)
Definition render_is_fold_full : Prop :=
  forall pr d p pre, run pr = Some d -> wf_prog pr = true ->
    same_set (render d p pre) (apply_history (entries_of pr) p pre).

Definition pr_a := PAdd (PAdd PNew (cA [] [10])) (cA [0] [11]).                       (* */* a ; */* -* b *)
Definition pr_b := PAdd (PAdd (PAdd (PAdd PNew (cA [] [10])) (cS 0 [10] [])) (cA [] [11])) (cS 0 [] [13]).
                                                               (* */* a ; cat/p -a ; */* b ; cat/p d *)
Definition pr_c := POpt (PFreeze (PAdd (PAdd (PAdd PNew (cA [10] [])) (cV 0 1 [] [10])) (cV 0 1 [10] []))).
                                                     (* */* -a ; =cat/p-1 a ; =cat/p-1 -a ; optimize *)

Lemma witness_refutes pr f :
  wf_prog pr = true ->
  match run pr with
  | Some d => mem f (render d (0, 1) []) = true /\ mem f (apply_history (entries_of pr) (0, 1) []) = false
  | None => False
  end -> ~ render_is_fold_full.
Proof.
  intros Hwf Hw Hfull. destruct (run pr) as [d|] eqn:E; [|exact Hw]. destruct Hw as [H1 H2].
  apply mem_In in H1. apply mem_false in H2. apply H2. apply (Hfull pr d (0, 1) [] E Hwf f). exact H1.
Qed.

Theorem render_is_fold_refuted_a_proof :
  ~ render_is_fold_full /\ class_a pr_a (0, 1) = true /\ class_b pr_a (0, 1) = false /\ class_c pr_a (0, 1) = false.
Proof. split; [apply (witness_refutes pr_a 10); vm_compute; auto | vm_compute; auto]. Qed.
Theorem render_is_fold_refuted_b_proof :
  ~ render_is_fold_full /\ class_a pr_b (0, 1) = false /\ class_b pr_b (0, 1) = true /\ class_c pr_b (0, 1) = false.
Proof. split; [apply (witness_refutes pr_b 10); vm_compute; auto | vm_compute; auto]. Qed.
Theorem render_is_fold_refuted_c_proof :
  ~ render_is_fold_full /\ class_a pr_c (0, 1) = false /\ class_b pr_c (0, 1) = false /\ class_c pr_c (0, 1) = true.
Proof. split; [apply (witness_refutes pr_c 10); vm_compute; auto | vm_compute; auto]. Qed.

(* optimize() on an unfrozen dict leaves tuples behind: the next entry for that key is refused *)
Theorem optimize_then_add_refused_proof :
  run (PAdd (POpt (PAdd PNew (cS 0 [] [10]))) (cS 0 [] [11])) = None.
Proof. reflexivity. Qed.

(* ------------------------------------------------------------------ non-vacuity *)
Definition pr_ex1 := POpt (PFreeze (PMerge (PAdd (PAdd PNew (cA [11] [10])) (cS 0 [10] [12]))
                                           (PFreeze (PAdd (PAdd PNew (cA [] [13])) (cV 0 1 [12] []))))).
Definition pr_ex2 := PAdd (PAdd (PClone (PFreeze (PAdd (PAdd PNew (cA [] [10; 100])) (cS 1 [100] []))) true)
                                (cS 1 [10] [11])) (cV 1 2 [] [10]).
Example partial_applies_1 :
  wf_prog pr_ex1 = true /\ known_class pr_ex1 (0, 1) = false /\ known_class pr_ex1 (0, 2) = false /\
  option_map (fun d => render d (0, 1) [14]) (run pr_ex1) = Some [14; 13] /\
  option_map (fun d => render d (0, 2) [14]) (run pr_ex1) = Some [14; 13; 12].
Proof. vm_compute. auto. Qed.
Example partial_applies_2 :
  wf_prog pr_ex2 = true /\ known_class pr_ex2 (1, 2) = false /\
  option_map (fun d => render d (1, 2) [14]) (run pr_ex2) = Some [14; 11; 10] /\
  option_map (fun d => render d (1, 1) [14]) (run pr_ex2) = Some [14; 11].
Proof. vm_compute. auto. Qed.
Example collapse_applies :
  build [cA [] [10; 11]; cV 0 1 [10] [12]; cS 0 [11] [13]; cV 0 2 [] [11]] (KSimple 0)
  = [cS 0 [11] [13; 10]; cV 0 1 [10] [12]; cV 0 2 [] [11]].
Proof. vm_compute. reflexivity. Qed.
Example splitter_applies :
  split_line [TPos 10; TStar; TNeg 11; THdr 1; TPos 10; TStar; TPos 11; THdr 2; TNeg 10]
  = Some [OStar; ONeg 11; ONegPre 1; OPos 101; ONeg 200].
Proof. vm_compute. reflexivity. Qed.

(* the tight form of class (a) used by the harness lies inside the class the theorem excludes *)
Lemma class_a_tight_l_sub : forall l before p,
  class_a_tight_l before l p = true -> existsb (fun c => applies (sc c) p && has_wild c) l = true.
Proof.
  induction l as [|c l IH]; intros before p; cbn [class_a_tight_l existsb]; [discriminate|].
  intro H. apply orb_true_iff in H as [H|H].
  - apply andb_true_iff in H as [Ha H]. rewrite Ha. cbn [andb]. apply orb_true_iff. left.
    unfold has_wild. apply existsb_exists in H as [w [Hw H]]. apply andb_true_iff in H as [H _].
    apply existsb_exists. exists w. tauto.
  - apply orb_true_iff. right. exact (IH _ _ H).
Qed.
Theorem class_a_tight_sub_proof : forall pr p, class_a_tight pr p = true -> class_a pr p = true.
Proof. intros pr p H. exact (class_a_tight_l_sub _ _ _ H). Qed.

(* ------------------------------------------------------------------ a package.use line as ONE chunk *)
Lemma uniq_In : forall l seen x, In x (uniq seen l) <-> In x l /\ ~ In x seen.
Proof.
  induction l as [|y l IH]; intros seen x; cbn [uniq]; [cbn; tauto|].
  destruct (mem y seen) eqn:E.
  - apply mem_In in E. rewrite IH. cbn [In]. split.
    + tauto.
    + intros [[Hy|H] Hn]; [subst; contradiction | tauto].
  - apply mem_false in E. cbn [In]. rewrite IH. cbn [In].
    destruct (N.eq_dec y x) as [Hyx|Hne].
    + subst. tauto.
    + split; [tauto|]. intros [[H|H] Hn]; [contradiction|]. right. split; [exact H|]. intros [H1|H1]; tauto.
Qed.
Lemma uniq_nil_In l x : In x (uniq [] l) <-> In x l.
Proof. rewrite uniq_In. cbn. tauto. Qed.
Lemma cleared_ext a b f : (forall x, In x a <-> In x b) -> cleared a f = cleared b f.
Proof.
  intro H. unfold cleared.
  destruct (existsb (fun t => tclears t f) a) eqn:Ea; destruct (existsb (fun t => tclears t f) b) eqn:Eb; try reflexivity.
  - apply existsb_exists in Ea as [x [Hx Hc]]. apply H in Hx.
    assert (X : existsb (fun t => tclears t f) b = true) by (apply existsb_exists; exists x; tauto). congruence.
  - apply existsb_exists in Eb as [x [Hx Hc]]. apply H in Hx.
    assert (X : existsb (fun t => tclears t f) a = true) by (apply existsb_exists; exists x; tauto). congruence.
Qed.
Lemma clears_negs r g : existsb (fun u => otok_clears u g) r = cleared (negs r) g.
Proof.
  unfold cleared. induction r as [|t r IH]; [reflexivity|].
  cbn [existsb negs flat_map]. rewrite existsb_app, IH.
  destruct t; cbn [otok_clears existsb app]; unfold tcl, tclears; rewrite ?orb_false_r; try reflexivity.
Qed.

Lemma line_chunk_raw : forall o s f, npc o = true ->
  (In f (out_fold o s) <-> In f (poss o) \/ (In f s /\ cleared (negs o) f = false)).
Proof.
  induction o as [|t o IH]; intros s f Hn.
  - cbn. tauto.
  - cbn [npc] in Hn. apply andb_true_iff in Hn as [Ht Hn].
    cbn [out_fold fold_left]. fold (out_fold o (otok_apply t s)). rewrite (IH _ f Hn).
    destruct t as [g|g| |q]; cbn [otok_apply poss negs flat_map app In].
    + (* a positive token: nothing after it clears it *)
      apply negb_true_iff in Ht. rewrite clears_negs in Ht.
      unfold rule_pos. rewrite in_app_iff. cbn [In].
      split; [|intros [[<-|H]|H]; [right; split; [tauto | exact Ht] | tauto | tauto]].
      intros [H|[[H|[<-|[]]] Hc]]; tauto.
    + rewrite rule_neg_In. unfold cleared. cbn [existsb]. rewrite orb_false_iff. tauto.
    + rewrite rule_neg_In. unfold cleared. cbn [existsb]. rewrite orb_false_iff. tauto.
    + rewrite rule_neg_In. unfold cleared. cbn [existsb]. rewrite orb_false_iff. tauto.
Qed.

(* PARTIAL: outside class (e) the one-chunk form of a token list means what the tokens mean *)
Theorem line_chunk_is_fold_partial_proof : forall o s,
  npc o = true -> same_set (apply_chunk (to_chunk o) s) (out_fold o s).
Proof.
  intros o s Hn f. rewrite apply_chunk_In, (line_chunk_raw o s f Hn). unfold to_chunk. cbn [neg pos].
  rewrite uniq_nil_In, (cleared_ext (uniq [] (negs o)) (negs o) f (uniq_nil_In (negs o))). tauto.
Qed.

Theorem line_is_fold_partial_proof : forall ts o s,
  forallb wf_tok ts = true -> split_line ts = Some o -> class_e ts = false ->
  same_set (apply_chunk (to_chunk o) s) (line_fold None ts s).
Proof.
  intros ts o s Hwf Hs He f. unfold class_e in He. rewrite Hs in He. apply negb_false_iff in He.
  rewrite (line_chunk_is_fold_partial_proof o s He f). apply splitter_is_fold_proof; assumption.
Qed.

Definition line_is_fold_full : Prop := forall ts o s,
  forallb wf_tok ts = true -> split_line ts = Some o ->
  same_set (apply_chunk (to_chunk o) s) (line_fold None ts s).
Theorem line_is_fold_refuted_proof : ~ line_is_fold_full /\ class_e [TPos 10; TNeg 10] = true.
Proof.
  split; [|reflexivity]. intro H.
  specialize (H [TPos 10; TNeg 10] [OPos 10; ONeg 10] [] eq_refl eq_refl 10).
  vm_compute in H. destruct H as [H _]. apply H. left. reflexivity.
Qed.
Example line_applies :
  class_e [TPos 10; TPos 11; TStar; TPos 12; THdr 1; TPos 10; TStar; TNeg 11] = false /\
  option_map to_chunk (split_line [TPos 10; TPos 11; TStar; TPos 12; THdr 1; TPos 10; TStar; TNeg 11])
  = Some (cA [0; 1; 101] [12]).
Proof. vm_compute. auto. Qed.
