(* Proofs_C45.v — lemmas and proofs for C45. *)
From Coq Require Import List NArith ZArith Bool Arith Lia.
Import ListNotations.
From Verif Require Import Base.Val C01.Model_C01 C04.Model_C04 C04.Spec_C04 C44.Model_C44 C45.Model_C45 C45.Spec_C45
  gen.Tables_C45.
From Verif Require C03.Model_C03.
Local Open Scope N_scope.

(* ------------------------------------------------------------------ the operator table of the source *)
(* every GLSA comparison operator is translated to the version operator the format gives it, and
   nothing else is in the table *)
Definition op_translate_stmt : Prop :=
  assoc [108; 116] op_translate = Some [60] /\ assoc [108; 101] op_translate = Some [60; 61]
  /\ assoc [101; 113] op_translate = Some [61] /\ assoc [103; 101] op_translate = Some [62; 61]
  /\ assoc [103; 116] op_translate = Some [62] /\ length op_translate = 5%nat.
Lemma op_translate_is_glsa_proof : op_translate_stmt.
Proof. repeat split; reflexivity. Qed.
