"""C07 — restrictions that compare equal are interchangeable (DESIGN §6 C07).

Every case is a PAIR of independently constructed restriction objects (the second one usually an
"equal-looking variant" of the first: negation moved between wrapper and value, `~`/negated
version operators, reordered / duplicated ContainmentMatch values and USE deps, strong vs weak
blockers, case-insensitive matchers spelled in another case, flipped if_missing, ...).

Streams (evaluated INSIDE Coq against C07.Model_C07 / C07.Spec_C07)
  pair   [a==b, b==a, hash(a)==hash(b), a.match(u) for u in universe, b.match(u) ...]
         (A) vs Model_C07.run_pair — the model term is built by the model's own constructor
             functions (mk_exact, mk_categorydep, mk_versionmatch, mk_staticusedep, atom_restrictions...)
             from the constructor call the generator made, so the constructor glue is inside the comparison
         (B) Spec_C07.spec_pair_ok on the implementation's recorded answers + the same oracle in Python:
             a == b  =>  hash(a) == hash(b)  and  identical match vectors
  eqst   [a==b, b==a] again after hash(a), and after hash(b): the `_hash` slot of the
         _HashedGenericEquality classes is a compared attribute, so == depends on which side has been
         hashed; the model term is read back from the live objects (introspection)
  intro  the introspected state-0 objects against the constructor-built model terms (Spec_C07.same_shape)
"""

import itertools
import json
import sys

from . import tables
from .common import VERIF, Check, Err, Raw, cN, cZ, cbool, clist, copt, cpair, cstr, cval, impl_call
from .tables import TableError

IMPORTS = ("From Coq Require Import List NArith ZArith Bool.\n"
           "From Verif Require Import Base.Val C06.Restr C07.Model_C07 C07.Spec_C07.")
ANCHORS = ["ebuild/restricts.py::_VersionMatch", "ebuild/restricts.py::_UseDepDefaultContainment",
           "ebuild/restricts.py::VersionMatch", "ebuild/restricts.py::StaticUseDep",
           "ebuild/restricts.py::UseDepDefault", "ebuild/restricts.py::_parse_nontransitive_use",
           "restrictions/values.py::_HashedGenericEquality", "restrictions/values.py::StrExactMatch",
           "restrictions/values.py::StrGlobMatch", "restrictions/values.py::StrRegex",
           "restrictions/values.py::ContainmentMatch.__init__", "restrictions/values.py::ContainmentMatch.match",
           "restrictions/packages.py::PackageRestriction", "restrictions/packages.py::PackageRestrictionMulti",
           "restrictions/packages.py::Conditional", "restrictions/boolean.py::base",
           "ebuild/atom.py::atom.__attr_comparison__", "ebuild/atom.py::atom.restrictions",
           "ebuild/conditionals.py::DepSet.__eq__", "ebuild/conditionals.py::DepSet.__hash__"]

KCOQ = {"and": "KAnd", "or": "KOr", "one": "KJustOne", "amo": "KAtMostOne"}
TYID = {None: 0, "values": 1, "package": 2}
OPS = ("<", "<=", "=", ">=", ">", "~")
OPVALS = {"<": (-1,), "<=": (-1, 0), "=": (0,), ">=": (0, 1), ">": (1,), "~": (0,)}
COMPL = {"<": ">=", ">=": "<", "<=": ">", ">": "<=", "=": "=", "~": "~"}


# --------------------------------------------------------------------------- tables (fail closed)
def gen_tables():
    """__attr_comparison__ tuples and the members of the hashed tuples, as written in the source."""
    out = []

    def attrs(rel, cls, name="__attr_comparison__"):
        t = tables.parse(rel)
        node = tables.find_assign(t, name, cls=cls)
        v = tables.literal(node)
        if not isinstance(v, tuple) or not all(isinstance(x, str) for x in v):
            raise TableError(f"{rel}:{cls}.{name} is not a tuple of strings")
        return v

    def hashed(rel, qual):
        """names X of the `self.X` members of the tuple in `return hash((self.X, ...))`"""
        import ast
        f = tables.find_func(tables.parse(rel), qual)
        rets = [n for n in ast.walk(f) if isinstance(n, ast.Return)]
        if len(rets) != 1:
            raise TableError(f"{qual}: expected one return")
        call = rets[0].value
        if not (isinstance(call, ast.Call) and isinstance(call.func, ast.Name) and call.func.id == "hash"
                and len(call.args) == 1 and isinstance(call.args[0], ast.Tuple)):
            raise TableError(f"{qual}: not `return hash((...))`")
        names = []
        for e in call.args[0].elts:
            if isinstance(e, ast.Attribute) and isinstance(e.value, ast.Name) and e.value.id == "self":
                names.append(e.attr)
            elif (isinstance(e, ast.Call) and isinstance(e.func, ast.Attribute)
                  and isinstance(e.func.value, ast.Name) and e.func.value.id == "self"):
                names.append(e.func.attr + "()")
            else:
                raise TableError(f"{qual}: unrecognised member of the hashed tuple")
        return tuple(names)

    rows = [
        ("tbl_StrExactMatch", attrs("restrictions/values.py", "StrExactMatch")),
        ("tbl_StrGlobMatch", attrs("restrictions/values.py", "StrGlobMatch")),
        ("tbl_StrRegex", attrs("restrictions/values.py", "StrRegex")),
        ("tbl_ContainmentMatch", attrs("restrictions/values.py", "ContainmentMatch")),
        ("tbl_PackageRestriction", attrs("restrictions/packages.py", "PackageRestriction")),
        ("tbl_Conditional", attrs("restrictions/packages.py", "Conditional")),
        ("tbl_boolean_base", attrs("restrictions/boolean.py", "base")),
        ("tbl_atom", attrs("ebuild/atom.py", "atom")),
        ("tbl_hash_VersionMatch", hashed("ebuild/restricts.py", "_VersionMatch.__hash__")),
        ("tbl_hash_PackageRestriction", hashed("restrictions/packages.py", "PackageRestriction.__hash__")),
        ("tbl_hash_Conditional", hashed("restrictions/packages.py", "Conditional.__hash__")),
    ]
    txt = tables.header("restrictions/{values,packages,boolean}.py, ebuild/{restricts,atom}.py "
                        "(__attr_comparison__ tuples, members of the hashed tuples)")
    for name, v in rows:
        txt += f"Definition {name} : list str := {clist([cstr(x) for x in v], 'str')}.\n"
    return {"Tables_C07.v": txt}


# --------------------------------------------------------------------------- universes
FLAGS = ("x", "y", "z", "w")
U_STR = ["a", "A", "ab", "Ab", "b", "foo", "FOO", "Foo", "foobar", "barfoo", "dev-libs", "Dev-Libs",
         "0", "1", "1.0", "1.0-r1", "2", "x", "", "xa"]
U_SET = [frozenset(s) for s in ((), ("x",), ("y",), ("x", "y"), ("z",), ("x", "z"), ("y", "z", "w"),
                                ("x", "y", "z"), ("x", "y", "z", "w"), ("w",), ("q",), ("x", "q"))]
U_PAIR = [(frozenset(i), frozenset(u)) for i, u in (
    ((), ()), (("x",), ()), (("x",), ("x",)), (("x", "y"), ("x",)), (("x", "y"), ("y",)), (("x", "y"), ("x", "y")),
    (("y",), ("y",)), (("y",), ()), (("x", "y", "z"), ("z",)), (("x", "y", "z"), ("x", "y", "z")),
    (("z",), ("z",)), (("x", "z"), ()), (("w",), ("w",)), (("x", "y", "z", "w"), ("x", "w")),
    (("y", "z"), ("y",)), (("x", "z"), ("x", "z")))]


class _Repo:
    def __init__(self, repo_id):
        self.repo_id = repo_id


class _Pkg:
    """a plain object with exactly the attributes given (missing ones raise AttributeError)"""

    def __init__(self, **kw):
        self.__dict__.update(kw)

    def __str__(self):
        return "pkg(%s)" % ",".join(f"{k}={v}" for k, v in sorted(self.__dict__.items(), key=lambda kv: kv[0]))


def _mkpkgs():
    out = []
    vers = [("1", None), ("1.0", None), ("1.00", None), ("1.0", 1), ("1.0", 2), ("2", None), ("1.5", 0),
            ("0.9", None), ("1.0_rc1", None), ("1.0_p1", 3), ("10", None), ("1.0a", None)]
    k = 0
    for cat, name in (("a", "b"), ("dev-libs", "foo")):
        for ver, rev in vers:
            fullver = ver if not rev else f"{ver}-r{rev}"
            d = dict(category=cat, package=name, version=ver, revision=rev, fullver=fullver,
                     slot=("0", "1", "2.1")[k % 3], subslot=("0", "2", "3")[(k // 2) % 3],
                     repo=_Repo(("gentoo", "other")[k % 2]),
                     use=U_PAIR[k % len(U_PAIR)][1], iuse_stripped=U_PAIR[k % len(U_PAIR)][0])
            if k % 7 == 3:
                del d["slot"]
            if k % 7 == 5:
                del d["repo"]
            if k % 11 == 6:
                del d["use"]
            if k % 12 == 8:
                d["version"] = None
            if k % 12 == 10:
                d["repo"] = _Pkg()          # repo without repo_id
            out.append(_Pkg(**d))
            k += 1
    return out


U_PKG = _mkpkgs()
ATTRS = ("category", "package", "fullver", "version", "slot", "subslot", "use", "iuse_stripped")


def c_strs(l):
    return clist([cstr(x) for x in l], "str")


def c_aval(v):
    if isinstance(v, str):
        return f"AStr {cstr(v)}"
    return f"ASet {c_strs(sorted(v))}"


def c_pkg(p):
    rows = []
    for a in ATTRS:
        if a in p.__dict__ and p.__dict__[a] is not None:
            rows.append(f"({clist([cstr(a)])}, {c_aval(p.__dict__[a])})")
    if "repo" in p.__dict__ and hasattr(p.repo, "repo_id"):
        rows.append(f"({clist([cstr('repo'), cstr('repo_id')])}, AStr {cstr(p.repo.repo_id)})")
    return ("{| pattrs := %s; pver := %s; prev := %s |}"
            % (clist(rows, "list str * aval"), copt(p.version, cstr, "str"),
               copt(p.revision, cN, "N")))


def preamble():
    u0 = clist([f"SVal (AStr {cstr(s)})" for s in U_STR], "subj")
    u1 = clist([f"SVal (ASet {c_strs(sorted(s))})" for s in U_SET], "subj")
    u2 = clist([f"SMulti [ASet {c_strs(sorted(i))}; ASet {c_strs(sorted(u))}]" for i, u in U_PAIR], "subj")
    u3 = clist([f"SPkg {c_pkg(p)}" for p in U_PKG], "subj")
    return ("Definition univ (u : N) : list subj :=\n  match u with\n"
            f"  | 0%N => {u0}\n  | 1%N => {u1}\n  | 2%N => {u2}\n  | 3%N => {u3}\n  | _ => []\n  end.\n")


UNIV = {0: U_STR, 1: U_SET, 2: [list(p) for p in U_PAIR], 3: U_PKG, 9: []}

# --------------------------------------------------------------------------- specs -> real objects / model terms
# A spec is a nested tuple describing ONE constructor call:
#  ('exact', s, cs, neg) ('glob', s, cs, prefix, neg) ('regex', s, cs, ismatch, neg)
#  ('cont', vals(tuple|str), all, neg) ('udc', ifm, vals, neg) ('ver', op, ver, rev, neg)
#  ('vnode', kind, neg, (specs...))                               values.And/OrRestriction
#  ('pr', attr, vspec, neg, ignore_missing) ('cat', s, neg) ('pkgdep', s, neg) ('slot', s, neg)
#  ('subslot', s, neg) ('repo', s, neg) ('vm', op, ver, rev, neg) ('static', false, true)
#  ('udd', ifm, false, true) ('multi', udcspec, neg) ('cond', vspec, (payload specs...), neg)
#  ('pnode', kind, neg, (specs...)) ('always', ty, b) ('negate', spec, tag) ('atom', text, negate_vers)
#  ('depset', text)
_CACHED = None


def _fresh():
    """forget every cached restriction instance, so that the next constructor call builds a new
    object (instance caching would otherwise hand back an object hashed in an earlier case)"""
    global _CACHED
    if _CACHED is None:
        from pkgcore.restrictions import restriction as R

        seen, todo = [], [R.base]
        while todo:
            c = todo.pop()
            if c in seen:
                continue
            seen.append(c)
            todo.extend(c.__subclasses__())
        _CACHED = [c for c in seen if getattr(c, "__instance_cache__", None) is not None]
    for c in _CACHED:
        c.__instance_cache__.clear()


def build(s):
    """spec -> real object (every sub-object newly built)"""
    from pkgcore.ebuild import restricts as E
    from pkgcore.ebuild.atom import atom
    from pkgcore.ebuild.conditionals import DepSet
    from pkgcore.restrictions import boolean as B
    from pkgcore.restrictions import packages as P
    from pkgcore.restrictions import restriction as R
    from pkgcore.restrictions import values as V

    k = s[0]
    if k == "exact":
        return V.StrExactMatch(s[1], case_sensitive=s[2], negate=s[3])
    if k == "glob":
        return V.StrGlobMatch(s[1], case_sensitive=s[2], prefix=s[3], negate=s[4])
    if k == "regex":
        return V.StrRegex(s[1], case_sensitive=s[2], match=s[3], negate=s[4])
    if k == "cont":
        return V.ContainmentMatch(s[1], match_all=s[2], negate=s[3])
    if k == "udc":
        return E._UseDepDefaultContainment(s[1], s[2], negate=s[3])
    if k == "ver":
        return E._VersionMatch(s[1], s[2], s[3], negate=s[4])
    if k == "vnode":
        cls = {"and": B.AndRestriction, "or": B.OrRestriction}[s[1]]
        return cls(*[build(c) for c in s[3]], node_type="values", negate=s[2])
    if k == "pr":
        return P.PackageRestriction(s[1], build(s[2]), negate=s[3], ignore_missing=s[4])
    if k == "cat":
        return E.CategoryDep(s[1], negate=s[2])
    if k == "pkgdep":
        return E.PackageDep(s[1], negate=s[2])
    if k == "slot":
        return E.SlotDep(s[1], negate=s[2])
    if k == "subslot":
        return E.SubSlotDep(s[1], negate=s[2])
    if k == "repo":
        return E.RepositoryDep(s[1], negate=s[2])
    if k == "vm":
        return E.VersionMatch(s[1], s[2], s[3], negate=s[4])
    if k == "static":
        return E.StaticUseDep(s[1], s[2])
    if k == "udd":
        return E.UseDepDefault(s[1], s[2], s[3])
    if k == "multi":
        return P.PackageRestrictionMulti(("iuse_stripped", "use"), build(s[1]), negate=s[2])
    if k == "multia":      # PackageRestrictionMulti over an arbitrary attribute tuple
        return P.PackageRestrictionMulti(tuple(s[1].split(",")), build(s[2]), negate=s[3])
    if k == "conda":       # Conditional over another attribute than "use"
        return P.Conditional(s[1], build(s[2]), tuple(build(c) for c in s[3]), negate=s[4])
    if k == "cond":
        return P.Conditional("use", build(s[1]), tuple(build(c) for c in s[2]), negate=s[3])
    if k == "rnode":        # as DepSet.parse builds the groups of REQUIRED_USE: no node_type
        cls = {"and": B.AndRestriction, "or": B.OrRestriction, "one": B.JustOneRestriction,
               "amo": B.AtMostOneOfRestriction}[s[1]]
        return cls(*[build(c) for c in s[3]], negate=s[2])
    if k == "reqset":
        def mk(data):
            if data[0] == "!":
                return V.ContainmentMatch(data[1:], negate=True)
            return V.ContainmentMatch(data)
        return DepSet.parse(s[1], V.ContainmentMatch,
                            operators={"||": B.OrRestriction, "": B.AndRestriction, "^^": B.JustOneRestriction,
                                       "??": B.AtMostOneOfRestriction}, element_func=mk, attr="REQUIRED_USE")
    if k == "pnode":
        cls = {"and": B.AndRestriction, "or": B.OrRestriction, "one": B.JustOneRestriction,
               "amo": B.AtMostOneOfRestriction}[s[1]]
        return cls(*[build(c) for c in s[3]], node_type="package", negate=s[2])
    if k == "always":
        return R.AlwaysBool(s[1], negate=s[2])
    if k == "negate":
        return R.Negate(build(s[1]))
    if k == "atom":
        _fresh()        # atom.restrictions is built lazily through the instance caches: build it now
        o = atom(s[1], negate_vers=s[2])
        o.restrictions
        return o
    if k == "depset":
        return DepSet.parse(s[1], atom)
    raise ValueError(s)


class Ids:
    """object identity -> small number (identity-compared classes)"""

    def __init__(self):
        self.d, self.keep = {}, []

    def __call__(self, o):
        if id(o) not in self.d:
            self.d[id(o)] = 10 + len(self.d)
            self.keep.append(o)
        return self.d[id(o)]


def c_vals(vals):
    vals = (vals,) if isinstance(vals, str) else tuple(vals)
    return c_strs(vals)


def c_rev(r):
    return copt(r, cN, "N")


def c_zlist(l):
    return clist([cZ(z) for z in l], "Z")


def c_atomrec(a, text):
    """the attributes of a real atom object (the atom parser is not modelled)"""
    rev = a.revision
    revn = None if rev is None or not rev.data else int(rev.data)
    ostr = lambda v: copt(v, cstr, "str")  # noqa: E731
    return ("{| a_text := %s; a_cpvstr := %s; a_op := %s; a_blocks := %s; a_strong := %s; a_negate_vers := %s; "
            "a_use := %s; a_slot := %s; a_subslot := %s; a_slotop := %s; a_repo := %s; "
            "a_cat := %s; a_pkg := %s; a_fullver := %s; a_ver := %s; a_rev := %s |}"
            % (cstr(text), cstr(a.cpvstr), cstr(a.op), cbool(a.blocks), cbool(a.blocks_strongly),
               cbool(a.negate_vers), copt(a.use, c_strs, "list str"), ostr(a.slot), ostr(a.subslot),
               ostr(a.slot_operator), ostr(a.repo_id), cstr(a.category), cstr(a.package), ostr(a.fullver),
               ostr(a.version), c_rev(revn)))


def render(s, obj, ids):
    """spec (+ the object built from it, for identity ids and parsed atoms) -> Coq term of type restr,
    written with the MODEL's constructor functions"""
    k = s[0]
    P = lambda t: "(" + t + ")"  # noqa: E731
    if k == "exact":
        return f"mk_exact {cstr(s[1])} {cbool(s[2])} {cbool(s[3])} {cbool(hasattr(obj, '_hash'))}"
    if k == "glob":
        return f"mk_glob {cstr(s[1])} {cbool(s[2])} {cbool(s[3])} {cbool(s[4])} {cbool(hasattr(obj, '_hash'))}"
    if k == "regex":
        return f"mk_regex {cstr(s[1])} {cbool(s[2])} {cbool(s[3])} {cbool(s[4])} {cbool(hasattr(obj, '_hash'))}"
    if k == "cont":
        return f"RCont {c_vals(s[1])} {cbool(s[2])} {cbool(s[3])}"
    if k == "udc":
        return f"RUdc {cbool(s[1])} {c_vals(s[2])} {cbool(s[3])}"
    if k == "ver":
        d = s[1] == "~"
        return f"RVer {cbool(d)} {cstr(s[2])} {c_rev(s[3])} {cbool(s[4])} {c_zlist(OPVALS[s[1]])}"
    if k in ("vnode", "pnode", "rnode"):
        kids = [P(render(c, o, ids)) for c, o in zip(s[3], obj.restrictions)]
        ty = {"vnode": 1, "pnode": 2, "rnode": 0}[k]
        return f"RNode {KCOQ[s[1]]} {cN(ty)} {cbool(s[2])} {clist(kids, 'restr')}"
    if k == "pr":
        return (f"RAttr 0 {cbool(s[3])} {clist([cstr(x) for x in s[1].split('.')])} "
                f"{P(render(s[2], obj.restriction, ids))}")
    if k in ("cat", "pkgdep", "slot", "subslot", "repo"):
        fn = {"cat": "mk_categorydep", "pkgdep": "mk_packagedep", "slot": "mk_slotdep",
              "subslot": "mk_subslotdep", "repo": "mk_repositorydep"}[k]
        return f"{fn} {cstr(s[1])} {cbool(s[2])} {cbool(hasattr(obj.restriction, '_hash'))}"
    if k == "vm":
        return (f"match mk_versionmatch {cstr(s[1])} {cstr(s[2])} {c_rev(s[3])} {cbool(s[4])} with "
                "Some r => r | None => RAlways 0 false end")
    if k == "static":
        return f"mk_staticusedep {c_strs(s[1])} {c_strs(s[2])}"
    if k == "udd":
        return f"mk_usedepdefault {cbool(s[1])} {c_strs(s[2])} {c_strs(s[3])}"
    if k == "multi":
        return (f"RMulti 8 {cbool(s[2])} [[{cstr('iuse_stripped')}]; [{cstr('use')}]] "
                f"{P(render(s[1], obj.restriction, ids))}")
    if k == "multia":
        attrs = clist([clist([cstr(x) for x in a.split(".")]) for a in s[1].split(",")], "list str")
        return f"RMulti 8 {cbool(s[3])} {attrs} {P(render(s[2], obj.restriction, ids))}"
    if k == "conda":
        kids = [P(render(c, o, ids)) for c, o in zip(s[3], obj.payload)]
        return (f"RCond {cbool(s[4])} {clist([cstr(x) for x in s[1].split('.')])} "
                f"{P(render(s[2], obj.restriction, ids))} {clist(kids, 'restr')}")
    if k == "cond":
        kids = [P(render(c, o, ids)) for c, o in zip(s[2], obj.payload)]
        return (f"RCond {cbool(s[3])} [{cstr('use')}] {P(render(s[1], obj.restriction, ids))} "
                f"{clist(kids, 'restr')}")
    if k == "always":
        return f"RAlways {cN(ids(obj))} {cbool(s[2])}"
    if k == "negate":
        return f"RNegate {cN(ids(obj))} {P(render(s[1], obj._restrict, ids))}"
    if k == "atom":
        return f"RAtom {c_atomrec(obj, s[1])}"
    if k in ("depset", "reqset"):
        return intro(obj, ids)
    raise ValueError(s)


PR_CLS = None


def intro(o, ids):
    """live object -> Coq term of type restr, read from the object's own attributes"""
    global PR_CLS
    from pkgcore.ebuild import restricts as E
    from pkgcore.ebuild.atom import atom
    from pkgcore.ebuild.conditionals import DepSet
    from pkgcore.restrictions import boolean as B
    from pkgcore.restrictions import packages as P
    from pkgcore.restrictions import restriction as R
    from pkgcore.restrictions import values as V

    if PR_CLS is None:
        PR_CLS = {P.PackageRestriction: 0, E.VersionMatch: 1, E.SlotDep: 2, E.SubSlotDep: 3, E.CategoryDep: 4,
                  E.PackageDep: 5, E.RepositoryDep: 6, E.StaticUseDep: 7, P.PackageRestrictionMulti: 8,
                  E.UseDepDefault: 9}
    Pn = lambda t: "(" + t + ")"  # noqa: E731
    c = type(o)
    h = cbool(hasattr(o, "_hash"))
    if c is V.StrExactMatch:
        return f"RExact {cstr(o.exact)} {cbool(o.case_sensitive)} {cbool(o.negate)} {h}"
    if c is V.StrGlobMatch:
        return f"RGlob {cstr(o.glob)} {cbool(o.prefix)} {cbool(o.negate)} {cbool(o.flags != 0)} {h}"
    if c is V.StrRegex:
        return f"RRegex {cstr(o.regex)} {cbool(o.negate)} {cbool(o.flags != 0)} {cbool(o.ismatch)} {h}"
    if c is V.ContainmentMatch:
        return f"RCont {c_strs(sorted(o.vals))} {cbool(o.all)} {cbool(o.negate)}"
    if c is E._UseDepDefaultContainment:
        return f"RUdc {cbool(o.if_missing)} {c_strs(sorted(o.vals))} {cbool(o.negate)}"
    if c is E._VersionMatch:
        rev = o.rev
        if rev is not None and not isinstance(rev, int):
            rev = int(rev.data) if rev.data else None
        return f"RVer {cbool(o.droprev)} {cstr(o.ver)} {c_rev(rev)} {cbool(o.negate)} {c_zlist(o.vals)}"
    if c is R.AlwaysBool:
        if o is V.AlwaysTrue:
            return "RAlways 1 true"
        return f"RAlways {cN(ids(o))} {cbool(o.negate)}"
    if c is R.Negate:
        return f"RNegate {cN(ids(o))} {Pn(intro(o._restrict, ids))}"
    if c is atom:
        return f"RAtom {c_atomrec(o, _TEXT[id(o)])}"
    if c is DepSet:
        return f"RDepSet {clist([Pn(intro(x, ids)) for x in o.restrictions], 'restr')}"
    if c in (B.AndRestriction, B.OrRestriction, B.JustOneRestriction, B.AtMostOneOfRestriction):
        kind = {B.AndRestriction: "KAnd", B.OrRestriction: "KOr", B.JustOneRestriction: "KJustOne",
                B.AtMostOneOfRestriction: "KAtMostOne"}[c]
        return (f"RNode {kind} {cN(TYID[o.type])} {cbool(o.negate)} "
                f"{clist([Pn(intro(x, ids)) for x in o.restrictions], 'restr')}")
    if c is P.Conditional:
        return (f"RCond {cbool(o.negate)} {clist([cstr(x) for x in o._attr_split])} "
                f"{Pn(intro(o.restriction, ids))} {clist([Pn(intro(x, ids)) for x in o.payload], 'restr')}")
    if c in PR_CLS and PR_CLS[c] in (8, 9):
        return (f"RMulti {cN(PR_CLS[c])} {cbool(o.negate)} "
                f"{clist([clist([cstr(x) for x in sp]) for sp in o._attr_split], 'list str')} "
                f"{Pn(intro(o.restriction, ids))}")
    if c in PR_CLS:
        return (f"RAttr {cN(PR_CLS[c])} {cbool(o.negate)} {clist([cstr(x) for x in o._attr_split])} "
                f"{Pn(intro(o.restriction, ids))}")
    raise TypeError(f"cannot introspect {c}")


# --------------------------------------------------------------------------- generator
S_EXACT = ("a", "A", "ab", "Ab", "foo", "FOO", "Foo", "dev-libs", "Dev-Libs", "0", "1", "b")
S_GLOB = ("a", "A", "fo", "FO", "bar", "dev", "Dev", "1", "1.0", "")
S_VER = ("1", "1.0", "1.00", "2", "1.5", "0.9", "1.0_rc1", "10")
S_REV = (None, None, 0, 1, 2)
ATOMS = ("a/b", "dev-libs/foo", "=a/b-1.0", "=a/b-1.0-r1", "~a/b-1.0", ">=a/b-1.0", "<a/b-1.5", "<=dev-libs/foo-2",
         ">dev-libs/foo-1", "=a/b-1*", "=dev-libs/foo-1.0*", "a/b:0", "a/b:1", "a/b:0/2", "a/b:0=", "a/b:=",
         "a/b::gentoo", "a/b:0::other", "a/b[x]", "a/b[-x]", "a/b[x,y]", "a/b[y,x]", "a/b[x,-y]", "a/b[-y,x]",
         "a/b[x(+)]", "a/b[x(-)]", "a/b[-x(+),y(+)]", "a/b[-x(-),y(-)]", "a/b[x,y(+),-z(-)]", "a/b[y(+),-z(-),x]",
         "=a/b-1.0[x,-w(+)]", "~dev-libs/foo-1.0:0[x]", "a/b[x,x]", "=a/b-1.0*", "=a/b-1.0-r1*", "=a/b-1-r0*",
         "=dev-libs/foo-1.00*", "=a/b-1.0-r2", ">=a/b-1.0-r1", "<dev-libs/foo-1.00-r0", "=a/b-1.5-r0*", "=a/b-1*:0")


def g_vals(rng, single_str_ok=True):
    n = rng.choice((1, 1, 2, 2, 3))
    vals = tuple(rng.sample(FLAGS, n))
    if single_str_ok and n == 1 and rng.random() < 0.3:
        return vals[0]
    return vals


def g_value(rng, subject):
    """a value-type restriction for subjects of kind 0 str / 1 set / 2 pair / 3 pkg"""
    if subject == 0:
        r = rng.random()
        if r < 0.4:
            return ("exact", rng.choice(S_EXACT), rng.random() < 0.6, rng.random() < 0.3)
        if r < 0.65:
            return ("glob", rng.choice(S_GLOB), rng.random() < 0.6, rng.random() < 0.7, rng.random() < 0.3)
        if r < 0.85:
            return ("regex", rng.choice(S_GLOB[:-1] + S_EXACT[:4]), rng.random() < 0.6, rng.random() < 0.5,
                    rng.random() < 0.3)
        return ("vnode", rng.choice(("and", "or")), rng.random() < 0.3,
                tuple(g_value(rng, 0) for _ in range(rng.choice((0, 1, 2, 2, 3)))))
    if subject == 1:
        if rng.random() < 0.8:
            return ("cont", g_vals(rng), rng.random() < 0.5, rng.random() < 0.4)
        return ("vnode", rng.choice(("and", "or")), rng.random() < 0.3,
                tuple(g_value(rng, 1) for _ in range(rng.choice((1, 2, 2)))))
    if subject == 2:
        if rng.random() < 0.8:
            return ("udc", rng.random() < 0.5, g_vals(rng, False), rng.random() < 0.4)
        return ("vnode", rng.choice(("and", "or")), rng.random() < 0.3,
                tuple(g_value(rng, 2) for _ in range(rng.choice((1, 2, 2)))))
    return ("ver", rng.choice(OPS), rng.choice(S_VER), rng.choice(S_REV), rng.random() < 0.45)


SET_ATTRS = ("iuse_stripped", "use")
STR_ATTRS = ("slot", "subslot", "category", "package", "repo.repo_id", "nosuch")
STR_VALS = ("0", "1", "2", "2.1", "a", "b", "gentoo", "x")


def g_multia(rng):
    """PackageRestrictionMulti over a VARYING attribute tuple: pairs of set-valued attributes around a
    _UseDepDefaultContainment tree, or 2-3 string-valued attributes around a ContainmentMatch of such values"""
    if rng.random() < 0.45:
        attrs = (rng.choice(SET_ATTRS), rng.choice(SET_ATTRS))
        child = g_value(rng, 2)
    else:
        attrs = tuple(rng.choice(STR_ATTRS) for _ in range(rng.choice((2, 2, 3))))
        vals = tuple(rng.sample(STR_VALS, rng.choice((1, 1, 2))))
        child = ("cont", vals, rng.random() < 0.4, rng.random() < 0.3)
    return ("multia", ",".join(attrs), child, rng.random() < 0.25)


def g_flags(rng):
    fl = list(FLAGS)
    rng.shuffle(fl)
    k = rng.choice((0, 1, 1, 2))
    j = rng.choice((0, 1, 1, 2))
    return tuple(fl[:k]), tuple(fl[k:k + j])


def g_pkg(rng, depth=2):
    r = rng.random()
    if r < 0.22:
        attr = rng.choice(("category", "package", "slot", "subslot", "fullver", "repo.repo_id", "nosuch"))
        return ("pr", attr, g_value(rng, 0), rng.random() < 0.35, rng.random() < 0.8)
    if r < 0.30:
        return ("pr", "use", g_value(rng, 1), rng.random() < 0.35, True)
    if r < 0.44:
        k = rng.choice(("cat", "pkgdep", "slot", "subslot", "repo"))
        pool = {"cat": ("a", "dev-libs", "A"), "pkgdep": ("b", "foo"), "slot": ("0", "1", "2.1"),
                "subslot": ("0", "2"), "repo": ("gentoo", "other")}[k]
        return (k, rng.choice(pool), rng.random() < 0.4)
    if r < 0.58:
        op = rng.choice(OPS)
        return ("vm", op, rng.choice(S_VER), None if op == "~" else rng.choice(S_REV), rng.random() < 0.45)
    if r < 0.66:
        f, t = g_flags(rng)
        return ("static", f, t)
    if r < 0.76:
        f, t = g_flags(rng)
        return ("udd", rng.random() < 0.5, f, t)
    if r < 0.78:
        return ("multi", g_value(rng, 2), rng.random() < 0.3)
    if r < 0.80:
        return g_multia(rng)
    if r < 0.86:
        return ("atom", rng.choice(ATOMS), rng.random() < 0.25)
    if depth <= 0:
        return ("always", "package", rng.random() < 0.5)
    if r < 0.90:
        return ("cond", ("cont", rng.choice(FLAGS), False, rng.random() < 0.4),
                tuple(g_pkg(rng, depth - 1) for _ in range(rng.choice((0, 1, 2)))), rng.random() < 0.2)
    if r < 0.93:
        return ("negate", g_pkg(rng, depth - 1))
    if r < 0.95:
        return ("always", "package", rng.random() < 0.5)
    return ("pnode", rng.choice(("and", "or", "and", "or", "one", "amo")), rng.random() < 0.3,
            tuple(g_pkg(rng, depth - 1) for _ in range(rng.choice((0, 1, 2, 2, 3)))))


def g_rnode(rng, depth=1):
    """a REQUIRED_USE style group: ^^ ?? || all-of over flags (ContainmentMatch leaves), possibly nested"""
    kids = []
    for _ in range(rng.choice((1, 2, 2, 3, 3))):
        if depth > 0 and rng.random() < 0.2:
            kids.append(g_rnode(rng, depth - 1))
        else:
            kids.append(("cont", rng.choice(FLAGS), False, rng.random() < 0.25))
    return ("rnode", rng.choice(("one", "amo", "or", "and", "one", "amo")), rng.random() < 0.15, tuple(kids))


REQSETS = ("^^ ( x y )", "^^ ( y x )", "^^ ( x x y )", "^^ ( x y y )", "?? ( x y )", "?? ( y x )", "?? ( x y x )",
           "|| ( x y )", "|| ( y x )", "|| ( x x y )", "x y", "y x", "x x y", "z? ( ^^ ( x y ) )",
           "z? ( ^^ ( y x ) )", "^^ ( x y ) ?? ( z w )", "?? ( z w ) ^^ ( x y )", "^^ ( x y ) ^^ ( x y )",
           "!x ^^ ( x y z )", "^^ ( z y x ) !x", "?? ( x ( y z ) )", "?? ( ( y z ) x )")


import re as _re

_ATOM_RE = _re.compile(r"^(!*)(<=|>=|[=<>~])([a-z-]+/[a-z]+)-([0-9][0-9a-z._]*)(-r[0-9]+)?(\*?)((?:[:\[].*)?)$")


def respellings(text):
    """other spellings of a versioned atom whose version compares equal under ver_cmp: a revision 0 written
    -r0 / -r00 / not at all, -r1 written -r01, a later dotted component that starts with 0 given another zero"""
    m = _ATOM_RE.match(text)
    if not m:
        return []
    bang, op, name, ver, rev, star, rest = m.groups()
    mk = lambda v, r: f"{bang}{op}{name}-{v}{r}{star}{rest}"  # noqa: E731
    out = []
    if op != "~":
        if not rev:
            out += [mk(ver, "-r0"), mk(ver, "-r00")]
        else:
            n = rev[2:]
            out.append(mk(ver, "-r0" + n))
            if n.startswith("0") and len(n) > 1:
                out.append(mk(ver, "-r" + n[1:]))
            if int(n) == 0:
                out.append(mk(ver, ""))
    parts = ver.split("_")[0].split(".")
    tail = ver[len(ver.split("_")[0]):]
    if len(parts) > 1 and parts[-1][:1] == "0" and parts[-1].isdigit():
        out.append(mk(".".join(parts[:-1] + [parts[-1] + "0"]) + tail, rev or ""))
        if len(parts[-1]) > 1 and parts[-1].endswith("0"):
            out.append(mk(".".join(parts[:-1] + [parts[-1][:-1]]) + tail, rev or ""))
    return [t for t in out if t != text]


def swapcase_some(rng, s):
    return "".join(ch.swapcase() if rng.random() < 0.6 else ch for ch in s)


def shuffled(rng, t):
    t = list(t)
    rng.shuffle(t)
    return tuple(t)


def flipat(s, i):
    return s[:i] + (not s[i],) + s[i + 1:]


def variant(rng, s):
    """an equal-looking variant of spec s (one local change somewhere in the tree, or none)"""
    k = s[0]
    r = rng.random()
    if k == "exact":
        return rng.choice([s, ("exact", swapcase_some(rng, s[1]), s[2], s[3]), flipat(s, 2), flipat(s, 3),
                           ("glob", s[1], s[2], True, s[3])])
    if k == "glob":
        return rng.choice([s, ("glob", swapcase_some(rng, s[1]), s[2], s[3], s[4]), flipat(s, 2), flipat(s, 3),
                           flipat(s, 4)])
    if k == "regex":
        return rng.choice([s, ("regex", swapcase_some(rng, s[1]), s[2], s[3], s[4]), flipat(s, 2), flipat(s, 3),
                           flipat(s, 4)])
    if k == "cont":
        vals = (s[1],) if isinstance(s[1], str) else s[1]
        return rng.choice([s, ("cont", shuffled(rng, vals), s[2], s[3]), ("cont", vals + vals[:1], s[2], s[3]),
                           ("cont", vals[0] if len(vals) == 1 else vals, s[2], s[3]), flipat(s, 2), flipat(s, 3),
                           ("cont", shuffled(rng, vals), s[2], s[3])])
    if k == "udc":
        return rng.choice([s, flipat(s, 1), flipat(s, 1), ("udc", s[1], shuffled(rng, s[2]), s[3]), flipat(s, 3),
                           ("udc", not s[1], shuffled(rng, s[2]), s[3])])
    if k == "ver":
        return rng.choice([s, flipat(s, 4), flipat(s, 4), ("ver", COMPL[s[1]], s[2], s[3], not s[4]),
                           ("ver", COMPL[s[1]], s[2], s[3], not s[4]), ("ver", COMPL[s[1]], s[2], s[3], s[4]),
                           ("ver", s[1], s[2], 0 if s[3] is None else None, s[4]),
                           ("ver", s[1], s[2], 1 if s[3] != 1 else 2, s[4]),
                           ("ver", "~" if s[1] == "=" else "=" if s[1] == "~" else s[1], s[2], s[3], s[4]),
                           ("ver", s[1], {"1.0": "1.00", "1.00": "1.0", "1": "1.0"}.get(s[2], s[2]), s[3], s[4])])
    if k in ("vnode", "pnode", "rnode"):
        kids = s[3]
        if k != "vnode" and kids and rng.random() < 0.45:
            # equal as SETS of children: another order, another multiplicity, or both
            r2 = rng.random()
            if r2 < 0.3:
                return (k, s[1], s[2], shuffled(rng, kids))
            if r2 < 0.65:
                return (k, s[1], s[2], kids + (rng.choice(kids),))
            return (k, s[1], s[2], shuffled(rng, kids + (rng.choice(kids),)))
        opts = [s, flipat(s, 2), (k, s[1], s[2], shuffled(rng, kids)),
                (k, {"and": "or", "or": "and", "one": "amo", "amo": "one"}[s[1]], s[2], kids)]
        if kids:
            i = rng.randrange(len(kids))
            opts += [(k, s[1], s[2], kids[:i] + (variant(rng, kids[i]),) + kids[i + 1:])] * 3
            opts.append((k, s[1], s[2], kids + kids[:1]))
        return rng.choice(opts)
    if k == "pr":
        inner = s[2]
        opts = [s, flipat(s, 3), flipat(s, 4), flipat(s, 4), ("pr", s[1], variant(rng, inner), s[3], s[4]),
                ("pr", s[1], variant(rng, inner), s[3], s[4])]
        other = {"slot": "subslot", "subslot": "slot", "category": "package", "package": "category",
                 "fullver": "slot", "repo.repo_id": "repo.location", "nosuch": "slot"}.get(s[1])
        if other:
            opts.append(("pr", other, inner, s[3], s[4]))
        if inner[0] in ("exact", "glob", "regex", "cont"):
            # move the negation between the wrapper and the value
            opts += [("pr", s[1], flipat(inner, len(inner) - 1), not s[3], s[4])] * 2
        if inner[0] == "exact" and inner[2] and s[1] in ("category", "package", "slot", "subslot", "repo.repo_id"):
            conv = {"category": "cat", "package": "pkgdep", "slot": "slot", "subslot": "subslot",
                    "repo.repo_id": "repo"}[s[1]]
            opts += [(conv, inner[1], inner[3] != s[3])] * 2
        return rng.choice(opts)
    if k in ("cat", "pkgdep", "slot", "subslot", "repo"):
        attr = {"cat": "category", "pkgdep": "package", "slot": "slot", "subslot": "subslot",
                "repo": "repo.repo_id"}[k]
        on_value = k in ("cat", "pkgdep")
        return rng.choice([s, s, flipat(s, 2),
                           ("pr", attr, ("exact", s[1], True, s[2] if on_value else False),
                            False if on_value else s[2], True),
                           ("pr", attr, ("exact", s[1], True, False if on_value else s[2]),
                            s[2] if on_value else False, True)])
    if k == "vm":
        return rng.choice([s, flipat(s, 4), ("vm", COMPL[s[1]], s[2], s[3], not s[4]),
                           ("vm", COMPL[s[1]], s[2], s[3], not s[4]),
                           ("vm", s[1], s[2], None if s[1] == "~" else (0 if s[3] is None else None), s[4]),
                           ("vm", s[1], s[2], None if s[1] == "~" else (1 if s[3] != 1 else 2), s[4]),
                           ("vm", "~" if s[1] == "=" and s[3] is None else s[1], s[2], s[3], s[4])])
    if k == "static":
        return rng.choice([s, ("static", shuffled(rng, s[1]), shuffled(rng, s[2])), ("static", s[2], s[1]),
                           ("udd", False, s[1], s[2]), ("static", s[1] + s[1][:1], s[2])])
    if k == "udd":
        return rng.choice([s, flipat(s, 1), flipat(s, 1), ("udd", s[1], shuffled(rng, s[2]), shuffled(rng, s[3])),
                           ("udd", not s[1], shuffled(rng, s[2]), shuffled(rng, s[3])), ("static", s[2], s[3])])
    if k == "multi":
        return rng.choice([s, flipat(s, 2), ("multi", variant(rng, s[1]), s[2]), ("multi", variant(rng, s[1]), s[2])])
    if k == "multia":
        attrs = s[1].split(",")
        pool = SET_ATTRS if all(a in SET_ATTRS for a in attrs) else STR_ATTRS
        i = rng.randrange(len(attrs))
        swapped = attrs[:i] + [rng.choice([a for a in pool if a != attrs[i]])] + attrs[i + 1:]
        opts = [s, ("multia", ",".join(reversed(attrs)), s[2], s[3]), ("multia", ",".join(reversed(attrs)), s[2], s[3]),
                ("multia", ",".join(swapped), s[2], s[3]), ("multia", ",".join(swapped), s[2], s[3]),
                ("multia", ",".join(shuffled(rng, attrs)), s[2], s[3]), flipat(s, 3),
                ("multia", s[1], variant(rng, s[2]), s[3])]
        if pool is STR_ATTRS:
            opts += [("multia", ",".join(attrs + attrs[:1]), s[2], s[3]), ("multia", ",".join(attrs[:-1] or attrs), s[2], s[3])]
        elif attrs == ["iuse_stripped", "use"] and s[2][0] == "udc":
            opts.append(("multi", s[2], s[3]))
        return rng.choice(opts)
    if k == "conda":
        other = "use" if s[1] != "use" else "iuse_stripped"
        return rng.choice([s, ("conda", other, s[2], s[3], s[4]), ("conda", other, s[2], s[3], s[4]), flipat(s, 4),
                           ("conda", s[1], variant(rng, s[2]), s[3], s[4])])
    if k == "cond":
        pl = s[2]
        opts = [s, flipat(s, 3), ("cond", variant(rng, s[1]), pl, s[3]), ("cond", s[1], shuffled(rng, pl), s[3]),
                ("conda", "iuse_stripped", s[1], pl, s[3])]
        if pl:
            i = rng.randrange(len(pl))
            opts += [("cond", s[1], pl[:i] + (variant(rng, pl[i]),) + pl[i + 1:], s[3])] * 2
        return rng.choice(opts)
    if k == "always":
        return rng.choice([s, flipat(s, 2)])
    if k == "negate":
        return rng.choice([s, ("negate", variant(rng, s[1]))])
    if k == "atom":
        t = s[1]
        resp = respellings(t)
        if resp and rng.random() < 0.5:
            return ("atom", rng.choice(resp), s[2])
        t = t.lstrip("!")
        opts = [s, s, flipat(s, 2), ("atom", "!" + t, s[2]), ("atom", "!!" + t, s[2]), ("atom", t, s[2])]
        if "[" in t:
            head, use = t[:-1].split("[")
            toks = use.split(",")
            bang = s[1][:len(s[1]) - len(t)]
            head = bang + head
            opts += [("atom", head + "[" + ",".join(shuffled(rng, toks)) + "]", s[2])] * 3
            opts.append(("atom", head + "[" + ",".join(
                (x[:-3] + ("(-)" if x.endswith("(+)") else "(+)")) if x.endswith(")") else x for x in toks) + "]",
                s[2]))
        else:
            opts.append(("atom", t + "[x]", s[2]))
        return rng.choice(opts)
    return s


DEPSETS = ("a/b dev-libs/foo", "dev-libs/foo a/b", "a/b a/b", "a/b", "|| ( a/b dev-libs/foo )",
           "|| ( dev-libs/foo a/b )", "x? ( a/b ) dev-libs/foo", "dev-libs/foo x? ( a/b )", "!a/b !!a/b",
           "!a/b", "!!a/b", "a/b[x,y] a/b[y,x]", "a/b[y,x]", "a/b[x,y]", ">=a/b-1.0 dev-libs/foo:0",
           "dev-libs/foo:0 >=a/b-1.0", "")

# witnesses of every class met so far, always run first
WITNESSES = [
    (("ver", "~", "1.0", None, False), ("ver", "~", "1.0", None, True), 3),
    (("ver", "<", "1.0", None, True), (("ver", ">=", "1.0", None, False)), 3),
    (("ver", "<=", "1.5", 1, True), (("ver", ">", "1.5", 1, False)), 3),
    (("ver", "=", "1.0", None, True), (("ver", "~", "1.0", None, True)), 3),
    (("udc", True, ("x",), False), ("udc", False, ("x",), False), 2),
    (("udc", True, ("x", "y"), True), ("udc", False, ("y", "x"), True), 2),
    (("udd", True, (), ("x",)), ("udd", False, (), ("x",)), 3),
    (("udd", True, ("y",), ("x",)), ("udd", False, ("y",), ("x",)), 3),
    (("cont", ("x",), True, False), ("udc", True, ("x",), False), 2),
    (("depset", "a/b dev-libs/foo"), ("depset", "dev-libs/foo a/b"), 9),
    (("depset", "a/b a/b"), ("depset", "a/b"), 9),
    (("depset", "!a/b"), ("depset", "!!a/b"), 9),
    (("atom", "!a/b", False), ("atom", "!!a/b", False), 3),
    (("atom", "a/b[x,y]", False), ("atom", "a/b[y,x]", False), 3),
    (("atom", "a/b[x(+)]", False), ("atom", "a/b[x(-)]", False), 3),
    (("atom", "a/b[-y(+),x(+)]", False), ("atom", "a/b[-y(-),x(-)]", False), 3),
    (("exact", "A", False, False), ("exact", "a", False, False), 0),
    (("glob", "Fo", False, True, False), ("glob", "fO", False, True, False), 0),
    (("cont", ("x", "y"), False, False), ("cont", ("y", "x", "y"), False, False), 1),
    (("cont", "x", True, False), ("cont", ("x",), True, False), 1),
    (("cat", "a", True), ("pr", "category", ("exact", "a", True, True), False, True), 3),
    (("repo", "gentoo", True), ("pr", "repo.repo_id", ("exact", "gentoo", True, False), True, True), 3),
    (("pr", "slot", ("exact", "0", True, True), False, True), ("pr", "slot", ("exact", "0", True, False), True, True), 3),
    (("pr", "slot", ("exact", "0", True, False), False, True), ("pr", "slot", ("exact", "0", True, False), False, False), 3),
    (("vm", "<", "1.0", None, True), ("vm", ">=", "1.0", None, False), 3),
    (("vm", "~", "1.0", None, False), ("vm", "~", "1.0", None, True), 3),
    # one pair per compared attribute: the two calls differ in exactly that attribute
    (("exact", "foo", True, False), ("exact", "foo", True, True), 0),
    (("exact", "foo", True, False), ("exact", "foo", False, False), 0),
    (("exact", "foo", True, False), ("exact", "Foo", True, False), 0),
    (("glob", "fo", True, True, False), ("glob", "fo", True, False, False), 0),
    (("glob", "fo", True, True, False), ("glob", "fo", True, True, True), 0),
    (("glob", "fo", True, True, False), ("glob", "fo", False, True, False), 0),
    (("regex", "fo", True, False, False), ("regex", "fo", True, True, False), 0),
    (("regex", "fo", True, False, False), ("regex", "fo", True, False, True), 0),
    (("regex", "fo", True, False, False), ("regex", "fo", False, False, False), 0),
    (("regex", "fo", True, False, False), ("regex", "oo", True, False, False), 0),
    (("cont", ("x", "y"), True, False), ("cont", ("x", "y"), False, False), 1),
    (("cont", ("x", "y"), True, False), ("cont", ("x", "y"), True, True), 1),
    (("cont", ("x", "y"), True, False), ("cont", ("x", "z"), True, False), 1),
    (("udc", True, ("x", "y"), False), ("udc", True, ("x", "y"), True), 2),
    (("ver", "=", "1.0", 1, False), ("ver", "=", "1.0", 2, False), 3),
    (("ver", "=", "1.0", None, False), ("ver", "=", "1.00", None, False), 3),
    (("ver", "=", "1.0", None, False), ("ver", "~", "1.0", None, False), 3),
    (("ver", "<", "1.0", None, False), ("ver", "<=", "1.0", None, False), 3),
    (("pr", "slot", ("exact", "0", True, False), False, True), ("pr", "subslot", ("exact", "0", True, False), False, True), 3),
    (("pr", "slot", ("exact", "0", True, False), False, True), ("pr", "slot", ("exact", "0", True, False), True, True), 3),
    (("pr", "slot", ("exact", "0", True, False), False, True), ("slot", "0", False), 3),
    (("slot", "0", False), ("slot", "0", True), 3),
    (("slot", "0", False), ("subslot", "0", False), 3),
    (("vm", "=", "1.0", 1, False), ("vm", "=", "1.0", 2, False), 3),
    (("multi", ("udc", True, ("x",), False), False), ("multi", ("udc", True, ("x",), False), True), 3),
    (("multi", ("udc", True, ("x",), False), False), ("udd", True, (), ("x",)), 3),
    (("vnode", "and", False, (("exact", "a", True, False), ("glob", "a", True, True, False))),
     ("vnode", "or", False, (("exact", "a", True, False), ("glob", "a", True, True, False))), 0),
    (("vnode", "and", False, (("exact", "a", True, False),)), ("vnode", "and", True, (("exact", "a", True, False),)), 0),
    (("pnode", "and", False, (("cat", "a", False), ("slot", "0", False))),
     ("pnode", "and", False, (("slot", "0", False), ("cat", "a", False))), 3),
    (("pnode", "one", False, (("cat", "a", False), ("slot", "0", False))),
     ("pnode", "amo", False, (("cat", "a", False), ("slot", "0", False))), 3),
    (("pnode", "or", False, (("cat", "a", False),)), ("pnode", "or", False, (("cat", "a", False), ("cat", "a", False))), 3),
    (("cond", ("cont", "x", False, False), (("cat", "a", False),), False),
     ("cond", ("cont", "x", False, False), (("cat", "dev-libs", False),), False), 3),
    (("cond", ("cont", "x", False, False), (("cat", "a", False),), False),
     ("cond", ("cont", "x", False, False), (("cat", "a", False),), True), 3),
    (("cond", ("cont", "x", False, False), (("cat", "a", False),), False),
     ("cond", ("cont", "y", False, False), (("cat", "a", False),), False), 3),
    (("rnode", "one", False, (("cont", "x", False, False), ("cont", "x", False, False), ("cont", "y", False, False))), ("rnode", "one", False, (("cont", "x", False, False), ("cont", "y", False, False))), 1),
    (("rnode", "one", False, (("cont", "x", False, False), ("cont", "y", False, False))), ("rnode", "one", False, (("cont", "y", False, False), ("cont", "x", False, False))), 1),
    (("rnode", "one", True, (("cont", "x", False, False), ("cont", "y", False, False), ("cont", "y", False, False))), ("rnode", "one", True, (("cont", "y", False, False), ("cont", "x", False, False))), 1),
    (("pnode", "one", False, (("cat", "a", False), ("slot", "0", False), ("cat", "a", False))),
     ("pnode", "one", False, (("cat", "a", False), ("slot", "0", False))), 3),
    (("pnode", "one", False, (("cat", "a", False), ("slot", "0", False))),
     ("pnode", "one", False, (("slot", "0", False), ("cat", "a", False))), 3),
    (("rnode", "amo", False, (("cont", "x", False, False), ("cont", "x", False, False), ("cont", "y", False, False))), ("rnode", "amo", False, (("cont", "x", False, False), ("cont", "y", False, False))), 1),
    (("rnode", "amo", False, (("cont", "x", False, False), ("cont", "y", False, False))), ("rnode", "amo", False, (("cont", "y", False, False), ("cont", "x", False, False))), 1),
    (("rnode", "amo", True, (("cont", "x", False, False), ("cont", "y", False, False), ("cont", "y", False, False))), ("rnode", "amo", True, (("cont", "y", False, False), ("cont", "x", False, False))), 1),
    (("pnode", "amo", False, (("cat", "a", False), ("slot", "0", False), ("cat", "a", False))),
     ("pnode", "amo", False, (("cat", "a", False), ("slot", "0", False))), 3),
    (("pnode", "amo", False, (("cat", "a", False), ("slot", "0", False))),
     ("pnode", "amo", False, (("slot", "0", False), ("cat", "a", False))), 3),
    (("rnode", "or", False, (("cont", "x", False, False), ("cont", "x", False, False), ("cont", "y", False, False))), ("rnode", "or", False, (("cont", "x", False, False), ("cont", "y", False, False))), 1),
    (("rnode", "or", False, (("cont", "x", False, False), ("cont", "y", False, False))), ("rnode", "or", False, (("cont", "y", False, False), ("cont", "x", False, False))), 1),
    (("rnode", "or", True, (("cont", "x", False, False), ("cont", "y", False, False), ("cont", "y", False, False))), ("rnode", "or", True, (("cont", "y", False, False), ("cont", "x", False, False))), 1),
    (("pnode", "or", False, (("cat", "a", False), ("slot", "0", False), ("cat", "a", False))),
     ("pnode", "or", False, (("cat", "a", False), ("slot", "0", False))), 3),
    (("pnode", "or", False, (("cat", "a", False), ("slot", "0", False))),
     ("pnode", "or", False, (("slot", "0", False), ("cat", "a", False))), 3),
    (("rnode", "and", False, (("cont", "x", False, False), ("cont", "x", False, False), ("cont", "y", False, False))), ("rnode", "and", False, (("cont", "x", False, False), ("cont", "y", False, False))), 1),
    (("rnode", "and", False, (("cont", "x", False, False), ("cont", "y", False, False))), ("rnode", "and", False, (("cont", "y", False, False), ("cont", "x", False, False))), 1),
    (("rnode", "and", True, (("cont", "x", False, False), ("cont", "y", False, False), ("cont", "y", False, False))), ("rnode", "and", True, (("cont", "y", False, False), ("cont", "x", False, False))), 1),
    (("pnode", "and", False, (("cat", "a", False), ("slot", "0", False), ("cat", "a", False))),
     ("pnode", "and", False, (("cat", "a", False), ("slot", "0", False))), 3),
    (("pnode", "and", False, (("cat", "a", False), ("slot", "0", False))),
     ("pnode", "and", False, (("slot", "0", False), ("cat", "a", False))), 3),
    (("vnode", "or", False, (("exact", "a", True, False), ("glob", "f", True, True, False), ("exact", "a", True, False))),
     ("vnode", "or", False, (("glob", "f", True, True, False), ("exact", "a", True, False))), 0),
    (("vnode", "and", False, (("exact", "a", True, False), ("glob", "f", True, True, False), ("exact", "a", True, False))),
     ("vnode", "and", False, (("glob", "f", True, True, False), ("exact", "a", True, False))), 0),
    (("reqset", "^^ ( x x y )"), ("reqset", "^^ ( x y )"), 9),
    (("reqset", "^^ ( x y )"), ("reqset", "^^ ( y x )"), 9),
    (("reqset", "?? ( x y x )"), ("reqset", "?? ( x y )"), 9),
    (("reqset", "?? ( x y )"), ("reqset", "?? ( y x )"), 9),
    (("reqset", "|| ( x x y )"), ("reqset", "|| ( y x )"), 9),
    (("reqset", "x x y"), ("reqset", "y x"), 9),
    (("reqset", "z? ( ^^ ( x y y ) )"), ("reqset", "z? ( ^^ ( y x ) )"), 9),
    (("reqset", "^^ ( x y ) ?? ( z w )"), ("reqset", "?? ( z w ) ^^ ( x y )"), 9),
    (("depset", "|| ( a/b a/b dev-libs/foo )"), ("depset", "|| ( dev-libs/foo a/b )"), 9),
    (("depset", "x? ( a/b dev-libs/foo a/b )"), ("depset", "x? ( dev-libs/foo a/b )"), 9),
    # versions that compare equal under ver_cmp but are spelled differently (the glob uses the TEXT)
    (("atom", "=a/b-1*", False), ("atom", "=a/b-1-r0*", False), 3),
    (("atom", "=a/b-1-r0*", False), ("atom", "=a/b-1-r00*", False), 3),
    (("atom", "=a/b-1.0*", False), ("atom", "=a/b-1.00*", False), 3),
    (("atom", "=a/b-1.0-r1*", False), ("atom", "=a/b-1.0-r01*", False), 3),
    (("atom", "=a/b-1.0*", False), ("atom", "=a/b-1.0-r0*", False), 3),
    (("atom", "=dev-libs/foo-1.0*", False), ("atom", "=dev-libs/foo-1.00*", False), 3),
    (("atom", "=a/b-1.5*", False), ("atom", "=a/b-1.5-r0*", False), 3),
    (("atom", "=a/b-1*:0", False), ("atom", "=a/b-1-r0*:0", False), 3),
    (("atom", "!=a/b-1.0*", False), ("atom", "!=a/b-1.00*", False), 3),
    (("atom", "=a/b-1.0", False), ("atom", "=a/b-1.00", False), 3),
    (("atom", "=a/b-1.0-r1", False), ("atom", "=a/b-1.0-r01", False), 3),
    (("atom", "=a/b-1.0", False), ("atom", "=a/b-1.0-r00", False), 3),
    (("atom", "<a/b-1.0", False), ("atom", "<a/b-1.00", False), 3),
    (("atom", "<a/b-1.0-r1", False), ("atom", "<a/b-1.0-r01", False), 3),
    (("atom", "<a/b-1.0", False), ("atom", "<a/b-1.0-r00", False), 3),
    (("atom", "<=a/b-1.0", False), ("atom", "<=a/b-1.00", False), 3),
    (("atom", "<=a/b-1.0-r1", False), ("atom", "<=a/b-1.0-r01", False), 3),
    (("atom", "<=a/b-1.0", False), ("atom", "<=a/b-1.0-r00", False), 3),
    (("atom", ">=a/b-1.0", False), ("atom", ">=a/b-1.00", False), 3),
    (("atom", ">=a/b-1.0-r1", False), ("atom", ">=a/b-1.0-r01", False), 3),
    (("atom", ">=a/b-1.0", False), ("atom", ">=a/b-1.0-r00", False), 3),
    (("atom", ">a/b-1.0", False), ("atom", ">a/b-1.00", False), 3),
    (("atom", ">a/b-1.0-r1", False), ("atom", ">a/b-1.0-r01", False), 3),
    (("atom", ">a/b-1.0", False), ("atom", ">a/b-1.0-r00", False), 3),
    (("atom", "~a/b-1.0", False), ("atom", "~a/b-1.00", False), 3),
    (("atom", "~dev-libs/foo-1.0", False), ("atom", "~dev-libs/foo-1.00", False), 3),
    (("atom", "=a/b-1.0*", True), ("atom", "=a/b-1.00*", True), 3),
    (("depset", "=a/b-1* dev-libs/foo"), ("depset", "dev-libs/foo =a/b-1-r0*"), 9),
    (("pnode", "or", False, (("atom", "=a/b-1*", False), ("cat", "dev-libs", False))),
     ("pnode", "or", False, (("atom", "=a/b-1-r0*", False), ("cat", "dev-libs", False))), 3),
    # round 4: the attribute tuple of the multi-attribute form / the attribute of a Conditional varies
    (("multia", "slot,subslot", ("cont", "0", False, False), False), ("multia", "slot,category", ("cont", "0", False, False), False), 3),
    (("multia", "slot,subslot", ("cont", "0", False, False), False), ("multia", "subslot,slot", ("cont", "0", False, False), False), 3),
    (("multia", "iuse_stripped,use", ("udc", True, ("x",), False), False), ("multia", "use,iuse_stripped", ("udc", True, ("x",), False), False), 3),
    (("multia", "iuse_stripped,use", ("udc", False, ("x", "y"), True), False), ("multia", "iuse_stripped,iuse_stripped", ("udc", False, ("x", "y"), True), False), 3),
    (("multia", "slot,subslot", ("cont", "0", False, False), True), ("multia", "slot,category", ("cont", "0", False, False), True), 3),
    (("multia", "slot,subslot", ("cont", "0", False, False), True), ("multia", "subslot,slot", ("cont", "0", False, False), True), 3),
    (("multia", "iuse_stripped,use", ("udc", True, ("x",), False), True), ("multia", "use,iuse_stripped", ("udc", True, ("x",), False), True), 3),
    (("multia", "iuse_stripped,use", ("udc", False, ("x", "y"), True), True), ("multia", "iuse_stripped,iuse_stripped", ("udc", False, ("x", "y"), True), True), 3),
    (("multia", "slot,subslot", ("cont", ("0", "2"), True, False), False), ("multia", "subslot,slot", ("cont", ("0", "2"), True, False), False), 3),
    (("multia", "slot,subslot", ("cont", "a", False, False), False), ("multia", "slot,subslot,category", ("cont", "a", False, False), False), 3),
    (("multia", "slot,subslot", ("cont", "0", False, False), False), ("multia", "slot,nosuch", ("cont", "0", False, False), False), 3),
    (("multia", "category,package", ("cont", "a", False, False), False), ("multia", "package,category", ("cont", "a", False, False), False), 3),
    (("multia", "slot,repo.repo_id", ("cont", "gentoo", False, False), False), ("multia", "slot,category", ("cont", "gentoo", False, False), False), 3),
    (("multia", "iuse_stripped,use", ("udc", True, ("x",), False), False), ("multi", ("udc", True, ("x",), False), False), 3),
    (("multia", "iuse_stripped,use", ("udc", True, ("x",), False), False), ("udd", True, (), ("x",)), 3),
    (("multia", "use,iuse_stripped", ("udc", True, ("x",), False), False), ("udd", True, (), ("x",)), 3),
    (("multia", "slot,subslot", ("cont", "0", False, False), False), ("multia", "slot,subslot", ("cont", "0", False, False), True), 3),
    (("multia", "slot,subslot", ("cont", "0", False, False), False), ("multia", "slot,subslot", ("cont", "2", False, False), False), 3),
    (("conda", "use", ("cont", "x", False, False), (("cat", "a", False),), False), ("conda", "iuse_stripped", ("cont", "x", False, False), (("cat", "a", False),), False), 3),
    (("cond", ("cont", "x", False, False), (("cat", "a", False),), False), ("conda", "iuse_stripped", ("cont", "x", False, False), (("cat", "a", False),), False), 3),
    (("cond", ("cont", "x", False, False), (("cat", "a", False),), False), ("conda", "use", ("cont", "x", False, False), (("cat", "a", False),), False), 3),
    (("atom", "=a/b-1.0", False), ("atom", "=a/b-1.0", True), 3),
    (("atom", ">=a/b-1.0", False), ("atom", ">=a/b-1.0", True), 3),
    (("atom", "~a/b-1.0", False), ("atom", "~a/b-1.0", True), 3),
    (("atom", "=a/b-1.0", False), ("atom", "~a/b-1.0", False), 3),
    (("atom", "=a/b-1.0", False), ("atom", "=a/b-1.00", False), 3),
    (("atom", "=a/b-1.0", False), ("atom", "=a/b-1.0-r0", False), 3),
    (("atom", "a/b:0", False), ("atom", "a/b:1", False), 3),
    (("atom", "a/b:0/0", False), ("atom", "a/b:0/2", False), 3),
    (("atom", "a/b:0", False), ("atom", "a/b:0=", False), 3),
    (("atom", "a/b", False), ("atom", "a/b:=", False), 3),
    (("atom", "a/b::gentoo", False), ("atom", "a/b::other", False), 3),
    (("atom", "a/b[x]", False), ("atom", "a/b[-x]", False), 3),
    (("atom", "a/b[x]", False), ("atom", "a/b[x(+)]", False), 3),
    (("atom", "a/b", False), ("atom", "!a/b", False), 3),
    (("atom", "a/b", False), ("atom", "dev-libs/foo", False), 3),
    (("atom", "=a/b-1*", False), ("atom", "=a/b-1", False), 3),
]


def subject_of(s):
    k = s[0]
    if k in ("exact", "glob", "regex"):
        return 0
    if k == "cont":
        return 1
    if k == "udc":
        return 2
    if k == "ver":
        return 3
    if k == "vnode":
        for c in s[3]:
            return subject_of(c)
        return 0
    if k == "rnode":
        return 1
    if k in ("depset", "reqset"):
        return 9
    return 3


def gen_pairs(chk):
    rng = chk.rng
    out = []
    n = chk.n(240, 5000)
    for i in range(n):
        r = rng.random()
        if r < 0.22:
            a = g_value(rng, 0)
        elif r < 0.30:
            a = g_value(rng, 1)
        elif r < 0.38:
            a = g_value(rng, 2)
        elif r < 0.50:
            a = g_value(rng, 3)
        elif r < 0.54:
            a = ("depset", rng.choice(DEPSETS))
        elif r < 0.57:
            a = ("reqset", rng.choice(REQSETS))
        elif r < 0.66:
            a = g_rnode(rng)
        elif r < 0.72:
            a = g_multia(rng)
        else:
            a = g_pkg(rng)
        r = rng.random()
        if a[0] == "depset":
            b = ("depset", rng.choice(DEPSETS)) if r < 0.8 else a
        elif a[0] == "reqset":
            b = ("reqset", rng.choice(REQSETS)) if r < 0.8 else a
        elif r < 0.12:
            b = a                                   # the same constructor call again (a distinct object)
        elif r < 0.90:
            b = variant(rng, a)
            if b == a or rng.random() < 0.25:
                b = variant(rng, b)
        elif a[0] == "rnode":
            b = g_rnode(rng)
        else:
            b = g_pkg(rng) if subject_of(a) == 3 and a[0] != "ver" else g_value(rng, subject_of(a))
        if a[0] == "udc" and rng.random() < 0.12:
            b = ("cont", shuffled(rng, a[2]), True, a[3] if rng.random() < 0.8 else not a[3])
        u = subject_of(a)
        if u != subject_of(b) and {u, subject_of(b)} == {1, 2}:
            u = 2
        out.append((a, b, u))
    return out


# --------------------------------------------------------------------------- classification of property failures
def spec_atoms(s, acc):
    if s[0] == "atom":
        acc.append(s)
    elif s[0] == "depset":
        for tok in s[1].split():
            if "/" in tok:
                acc.append(("atom", tok, False))
    else:
        for x in s[1:]:
            if isinstance(x, tuple) and x and isinstance(x[0], str) and x[0] in _KINDS:
                spec_atoms(x, acc)
            elif isinstance(x, tuple):
                for y in x:
                    if isinstance(y, tuple) and y and isinstance(y[0], str) and y[0] in _KINDS:
                        spec_atoms(y, acc)
    return acc


_KINDS = {"multia", "conda", "rnode", "reqset", "exact", "glob", "regex", "cont", "udc", "ver", "vnode", "pr", "cat", "pkgdep", "slot", "subslot", "repo",
          "vm", "static", "udd", "multi", "cond", "pnode", "always", "negate", "atom", "depset"}


def has_kind(s, kinds):
    if s[0] in kinds:
        return True
    if s[0] == "atom":
        return "udc" in kinds and "(" in s[1]
    if s[0] == "depset":
        return "udc" in kinds and "(" in s[1]
    for x in s[1:]:
        if isinstance(x, tuple):
            if x and isinstance(x[0], str) and x[0] in _KINDS:
                if has_kind(x, kinds):
                    return True
            else:
                for y in x:
                    if isinstance(y, tuple) and y and isinstance(y[0], str) and y[0] in _KINDS and has_kind(y, kinds):
                        return True
    return False


def _atom_split(text):
    t = text.lstrip("!")
    strength = len(text) - len(t)
    use = ()
    if t.endswith("]") and "[" in t:
        t, u = t[:-1].split("[", 1)
        use = tuple(u.split(","))
    return strength, t, use


def k_usedep_default_if_missing(a, b, keyed):
    """both sides contain a _UseDepDefaultContainment (directly, through UseDepDefault, or one side a
    ContainmentMatch compared with one) while if_missing is not part of its identity"""
    if keyed:
        return False
    ua = has_kind(a, {"udc", "udd"})
    ub = has_kind(b, {"udc", "udd"})
    return (ua and ub) or (ua and has_kind(b, {"cont"})) or (ub and has_kind(a, {"cont"}))


def k_atom_text(a, b):
    """hash-only failure between restrictions whose atoms, position by position (as sets for DepSets), have
    different texts that differ only in blocker strength (! vs !!) or in the order of the USE deps"""
    A, B = spec_atoms(a, []), spec_atoms(b, [])
    if not A or not B:
        return False
    norm = lambda s: (_atom_split(s[1])[1], tuple(sorted(_atom_split(s[1])[2])), min(_atom_split(s[1])[0], 1), s[2])  # noqa: E731
    if a[0] == "depset":
        return {norm(x) for x in A} == {norm(x) for x in B} and {x[1] for x in A} != {x[1] for x in B}
    return len(A) == len(B) and all(norm(x) == norm(y) for x, y in zip(A, B)) and any(
        x[1] != y[1] for x, y in zip(A, B))


# --------------------------------------------------------------------------- main
def ask(a, b, u):
    """the implementation's answers for one pair in its current state"""
    eq_ab = impl_call(lambda: bool(a == b))
    eq_ba = impl_call(lambda: bool(b == a))
    ma = [impl_call(lambda: bool(a.match(x))) for x in UNIV[u]]
    mb = [impl_call(lambda: bool(b.match(x))) for x in UNIV[u]]
    return eq_ab, eq_ba, ma, mb


def probe_cfg():
    from pkgcore.ebuild import restricts as E

    x = E._UseDepDefaultContainment(True, ("x",))
    y = E._UseDepDefaultContainment(False, ("x",))
    return not (x == y)


def main(chk: Check):
    import logging

    logging.getLogger("pkgcore").setLevel(logging.CRITICAL + 10)
    chk.rule("pairs of independently constructed restriction objects: a random constructor call tree "
             "(value matchers, _VersionMatch, PackageRestriction and its ebuild subclasses, Conditional, "
             "boolean nodes, Negate/AlwaysBool, atoms, DepSets) and an equal-looking variant of it (one or two "
             "local changes: negation moved between wrapper and value, complemented operator + negate, "
             "~ versions, reordered/duplicated values and USE deps, !/!! blockers, other letter case, flipped "
             "if_missing/ignore_missing, permuted children), 10% identical calls, 10% unrelated; every pair is "
             "asked ==, hash== and match on the 20-string / 12-set / 16-(iuse,use) / 24-package universe; "
             "non-trivial = the two objects are distinct objects built by different constructor calls")
    import time as _t
    _T = [_t.time()]

    def lap(what):
        _T.append(_t.time())
        chk.cov.setdefault("phase_s", {})[what] = round(_T[-1] - _T[-2], 1)

    tbl_ok = True
    try:
        tables.regenerate(sys.modules[__name__])
    except TableError as e:
        tbl_ok = False
        chk.violation("table", {"what": "an __attr_comparison__ tuple or a hashed tuple of the restriction classes "
                                        "is no longer a literal the extractor recognises", "error": str(e)}, True)
    ok = chk.build(["C07/Prop_C07.vo"])
    lap("tables+make (incl. waiting for the shared build lock)")
    if ok:
        chk.check_assumptions("C07/Prop_C07.v")
        model_ok = True
    else:
        # a proof obligation (typically a `tbl_*_ok` tie to a regenerated tuple) no longer checks: the model
        # and the spec do not depend on the generated tables, so the search for a concrete failing pair
        # (model vs implementation, spec on the implementation's answers) goes on without the proofs
        model_ok = chk.build(["C07/Spec_C07.vo"], what="model and spec (without the proofs)")
    chk.lint(["C07"])
    chk.check_fingerprint(ANCHORS)

    lap("assumptions+lint+fingerprint")
    keyed = probe_cfg()
    ccfg = "{| udc_keyed := %s |}" % cbool(keyed)
    chk.note(f"_UseDepDefaultContainment identity includes if_missing: {keyed}")
    ids = Ids()
    pairs = []
    corpus = VERIF / "corpus" / "C07"
    if corpus.is_dir():
        for f in sorted(corpus.glob("*.json")):
            d = json.loads(f.read_text())
            pairs.append((_detuple(d["a"]), _detuple(d["b"]), d["u"]))
    pairs += WITNESSES + gen_pairs(chk)

    pair_cases, eq_cases, intro_cases, atomr_cases, meta = [], [], [], [], []
    eq_meta, intro_meta, intro_seen = [], [], set()
    keep = []
    for a_s, b_s, u in pairs:
        _fresh()
        a = impl_call(lambda: build(a_s))
        _fresh()
        b = impl_call(lambda: build(b_s))
        if isinstance(a, Err) or isinstance(b, Err):
            chk.violation("harness-exception", {"what": "a generated constructor call was refused",
                                                "a": a_s, "b": b_s, "ra": a, "rb": b}, True)
            continue
        keep.append((a, b))
        _tag(a_s, a)
        _tag(b_s, b)
        for sp, ob in ((a_s, a), (b_s, b)):
            if sp[0] == "atom":
                atomr_cases.append((cpair(c_atomrec(ob, sp[1]),
                                          clist(["(" + intro(x, ids) + ")" for x in ob.restrictions], "restr")),
                                    True))
        ta, tb = render(a_s, a, ids), render(b_s, b, ids)
        ia, ib = intro(a, ids), intro(b, ids)
        eq_ab, eq_ba, ma, mb = ask(a, b, u)
        ha = impl_call(lambda: hash(a))
        eq1 = (impl_call(lambda: bool(a == b)), impl_call(lambda: bool(b == a)))
        ia1, ib1 = intro(a, ids), intro(b, ids)
        hb = impl_call(lambda: hash(b))
        eq2 = (impl_call(lambda: bool(a == b)), impl_call(lambda: bool(b == a)))
        ia2, ib2 = intro(a, ids), intro(b, ids)
        heq = (ha == hb) if not (isinstance(ha, Err) or isinstance(hb, Err)) else Err("hash")
        pair_cases.append((cpair(ccfg, f"({ta})", f"({tb})", cN(u), cbool(heq is True)),
                           [eq_ab, eq_ba, heq, ma, mb]))
        for t_, i_, w_ in ((ta, ia, "a"), (tb, ib, "b")):
            if (t_, i_) not in intro_seen:
                intro_seen.add((t_, i_))
                intro_cases.append((cpair(f"({t_})", f"({i_})"), True))
                intro_meta.append((len(meta), w_))
        # a later state is a new case only when hashing changed some `_hash` slot
        if (ia1, ib1) != (ia, ib):
            eq_cases.append((cpair(ccfg, f"({ia1})", f"({ib1})"), list(eq1)))
            eq_meta.append((len(meta), "after hash(a)"))
        if (ia2, ib2) != (ia1, ib1):
            eq_cases.append((cpair(ccfg, f"({ia2})", f"({ib2})"), list(eq2)))
            eq_meta.append((len(meta), "after hash(a), hash(b)"))
        meta.append({"a": a_s, "b": b_s, "u": u, "eq": [eq_ab, eq_ba], "eq_after_hash_a": list(eq1),
                     "eq_after_hash_both": list(eq2), "hash_eq": heq, "match_a": ma, "match_b": mb})
        if a is not b and a_s != b_s:
            chk.nontrivial(repr((a_s, b_s)))
    if not (chk.thorough or chk.fingerprint_changed) and len(intro_cases) > 300:
        # quick tier: the witnesses' terms and an evenly spread sample of the rest
        nw = 2 * len(WITNESSES)
        rest = list(range(nw, len(intro_cases)))
        pick = set(range(nw)) | set(rest[:: max(1, len(rest) // 150)])
        intro_cases = [c for i, c in enumerate(intro_cases) if i in pick]
        intro_meta = [c for i, c in enumerate(intro_meta) if i in pick]
    lap("drive implementation")
    chk.count("pair", len(pair_cases))
    chk.count("eqst", len(eq_cases))
    chk.count("intro", len(intro_cases))
    chk.count("atomr", len(atomr_cases))
    chk.cov["answers_compared"] = sum(3 + 2 * len(m["match_a"]) for m in meta) + 2 * len(eq_cases)
    chk.cov["equal_pairs"] = sum(1 for m in meta if m["eq"][0] is True)
    chk.cov["equal_pairs_from_different_calls"] = sum(1 for m in meta if m["eq"][0] is True and m["a"] != m["b"])
    hist = {}
    for m in meta:
        hist[m["a"][0]] = hist.get(m["a"][0], 0) + 1
    chk.cov["kinds"] = hist
    for m in meta[len(WITNESSES)::max(1, len(meta) // 5)][:5]:
        chk.sample({k: m[k] for k in ("a", "b", "eq", "hash_eq")})

    # ---- (B) in Python: a == b  =>  equal hashes and identical match vectors, in every hashed state
    fails = []
    for m in meta:
        for st in ("eq", "eq_after_hash_a", "eq_after_hash_both"):
            if True in m[st]:
                what = []
                if m["hash_eq"] is not True:
                    what.append("hashes differ")
                if m["match_a"] != m["match_b"]:
                    i = next(i for i, (x, y) in enumerate(zip(m["match_a"], m["match_b"])) if x != y)
                    what.append(f"match differs on universe[{m['u']}][{i}] = {UNIV[m['u']][i]!s}")
                if what:
                    fails.append((m, st, what))
                break
    reported = 0
    for m, st, what in fails:
        a_s, b_s = m["a"], m["b"]
        ex = {"a": a_s, "b": b_s, "state": st, "==": m[st], "what": what}
        only_hash = what == ["hashes differ"]
        if k_usedep_default_if_missing(a_s, b_s, keyed) and chk.known_finding("usedep-default-if-missing", ex):
            continue
        if only_hash and k_atom_text(a_s, b_s):
            A, B = spec_atoms(a_s, []), spec_atoms(b_s, [])
            strength = {(_atom_split(x[1])[0]) for x in A} != {(_atom_split(x[1])[0]) for x in B} or any(
                _atom_split(x[1])[0] != _atom_split(y[1])[0] for x, y in zip(A, B))
            cid = "atom-blocker-strength" if strength else "atom-use-order"
            if chk.known_finding(cid, ex):
                continue
        if reported < 5:
            chk.violation("property", {"what": "two restrictions compare equal but " + " and ".join(what),
                                       "input": {"a": a_s, "b": b_s, "universe": m["u"]}, "answers": m})
            reported += 1

    # ---- evaluate model and spec inside Coq (the four streams concurrently)
    any_prop = bool(reported)
    if model_ok:
        import concurrent.futures as cf

        pre = preamble()
        def deflist(name, ty, cases):
            rows = ";\n".join(f"  ({inp},\n   {cval(r_)})" for inp, r_ in cases)
            return (f"Definition {name} : list (({ty}) * val) := "
                    + (f"[\n{rows}\n]." if cases else f"(@nil (({ty}) * val)).") + "\n")

        glue_pre = (deflist("ecases", "cfg * restr * restr", eq_cases)
                    + deflist("acases", "atomrec * list restr", atomr_cases))
        jobs = {
            "pair": lambda: chk.coq_eval("pair", IMPORTS, "cfg * restr * restr * N * bool", pair_cases,
                                         ["mismatches (run_pair univ) cases",
                                          "where_ (fun i r => negb (spec_pair_ok r)) cases"],
                                         shard=chk.n(160, 300), preamble=pre),
            # one file: read-back terms vs constructor-built terms, atom.restrictions, == in later hashed states
            "glue": lambda: chk.coq_eval("glue", IMPORTS, "restr * restr", intro_cases,
                                         ["where_ (fun i _ => negb (same_shape (fst i) (snd i))) cases",
                                          "where_ (fun i _ => negb (atom_shape_ok (fst i) (snd i))) acases",
                                          "mismatches run_eq ecases"],
                                         shard=10 ** 6,
                                         preamble=glue_pre),
        }
        big = chk.thorough or chk.fingerprint_changed
        if big:       # too much for one file: the three glue lists as separate sharded streams
            del jobs["glue"]
            jobs["eqst"] = lambda: chk.coq_eval("eqst", IMPORTS, "cfg * restr * restr", eq_cases,
                                                ["mismatches run_eq cases"], shard=400)
            jobs["atomr"] = lambda: chk.coq_eval("atomr", IMPORTS, "atomrec * list restr", atomr_cases,
                                                 ["where_ (fun i _ => negb (atom_shape_ok (fst i) (snd i))) cases"],
                                                 shard=400)
            jobs["intro"] = lambda: chk.coq_eval("intro", IMPORTS, "restr * restr", intro_cases,
                                                 ["where_ (fun i _ => negb (same_shape (fst i) (snd i))) cases"],
                                                 shard=400)
        with cf.ThreadPoolExecutor(max_workers=4) as ex:
            futs = {k: ex.submit(f) for k, f in jobs.items()}
            res = {k: f.result() for k, f in futs.items()}
        lap("coq")
        if not big:
            g = res["glue"]
            res["intro"] = None if g is None else [g[0]]
            res["atomr"] = None if g is None else [g[1]]
            res["eqst"] = None if g is None else [g[2]]
        r = res["pair"]
        if r is not None:
            pyfail = {id(m) for m, _, _ in fails}
            for i in sorted(set(r[1])):
                if id(meta[i]) not in pyfail:
                    chk.violation("property", {"what": "Spec_C07.spec_pair_ok rejects the implementation's answers",
                                               "input": meta[i]})
                    any_prop = True
            for i in r[0][:4]:
                chk.violation("correspondence",
                              {"what": "implementation and Model_C07.run_pair disagree (==, hash== or match); the "
                                       "theorems of Prop_C07 no longer speak about this code",
                               "input": {"a": meta[i]["a"], "b": meta[i]["b"], "universe": meta[i]["u"]},
                               "implementation": {k: meta[i][k] for k in ("eq", "hash_eq", "match_a", "match_b")},
                               "model_term": pair_cases[i][0]}, no_input=not (any_prop or fails))
        r = res["eqst"]
        if r is not None:
            for i in r[0][:3]:
                chk.violation("correspondence",
                              {"what": "== after hashing one/both sides differs from Model_C07.run_eq",
                               "input": meta[eq_meta[i][0]], "state": eq_meta[i][1], "model_term": eq_cases[i][0]},
                              no_input=not (any_prop or fails))
        r = res["atomr"]
        if r is not None:
            for i in r[0][:3]:
                chk.violation("correspondence",
                              {"what": "atom.restrictions differs from Model_C07.atom_restrictions",
                               "terms": atomr_cases[i][0]}, no_input=not (any_prop or fails))
        r = res["intro"]
        if r is not None:
            for i in r[0][:3]:
                chk.violation("correspondence",
                              {"what": "the object built by the constructor differs from what the model's constructor "
                                       "function builds (negation placement, lowering, class, attribute, values)",
                               "input": meta[intro_meta[i][0]][intro_meta[i][1]], "terms": intro_cases[i][0]},
                              no_input=not (any_prop or fails))


def _spec_strings(s, acc):
    for x in s:
        if isinstance(x, str):
            acc.extend(x.split())
        elif isinstance(x, tuple):
            _spec_strings(x, acc)
    return acc


def _tag(s, o):
    """remember the text every reachable atom object was built from (atom.__hash__ hashes that text and the
    object does not keep it): the token of the spec whose hash is the atom's hash"""
    from pkgcore.ebuild.atom import atom

    toks = {hash(t): t for t in _spec_strings(s, [])}
    todo = [o]
    while todo:
        x = todo.pop()
        if isinstance(x, atom):
            _TEXT[id(x)] = toks.get(x._hash, str(x))
            _KEEP.append(x)
            continue
        for nm in ("restrictions", "payload"):
            v = getattr(x, nm, None)
            if isinstance(v, (tuple, list)):
                todo.extend(v)
        for nm in ("restriction", "_restrict"):
            v = getattr(x, nm, None)
            if v is not None and not isinstance(v, (tuple, list)):
                todo.append(v)


_TEXT, _KEEP = {}, []


def _detuple(x):
    if isinstance(x, list):
        return tuple(_detuple(i) for i in x)
    return x


def replay(chk, data):
    d = data.get("detail", {}).get("input", {})
    if not isinstance(d, dict) or "a" not in d:
        print("nothing to replay")
        return
    a_s, b_s, u = _detuple(d["a"]), _detuple(d["b"]), d.get("universe", d.get("u", 3))
    _fresh()
    a = build(a_s)
    _fresh()
    b = build(b_s)
    eq_ab, eq_ba, ma, mb = ask(a, b, u)
    print(json.dumps({"a": repr(a), "b": repr(b), "a==b": eq_ab, "b==a": eq_ba,
                      "hash==": hash(a) == hash(b), "match_a": ma, "match_b": mb}, default=repr, indent=1))
