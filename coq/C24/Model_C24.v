(* Model_C24.v — executable model of pkgcore.vdb.contents.ContentsFile
   (src/pkgcore/vdb/contents.py: _write / flush, _iter_contents) and of the staged write of
   snakeoil.fileutils.AtomicWriteFile it persists through.  No proofs here.

   Text is [str] = list of code points.  A CONTENTS line is
       obj <path> <md5 as >=32 lower-case hex digits> <mtime>      sym <path> -> <target> <mtime>
       dir <path>        dev <path>        fif <path>
   written with " ".join and read back with line.split(" ") / " ".join of token slices; the
   reader strips every line (readlines_utf8(..., True)), skips empty lines, takes the FIRST
   stand-alone "->" token of a sym line as the separator, and normalises every path
   (fs.fsBase.__init__: normpath).  A set is a dict keyed by location (insertion ordered, a later
   entry of the same location replaces the earlier one in place); the file is the lines of the
   entries sorted by location (code-point order), each followed by "\n".

   [dev] lines are modelled in the REPAIRED form (fixes/C24-dev-lookup-nonstrict.patch): reading a
   dev line yields a device entry at that path whatever the live filesystem holds (the pinned
   code raises TypeError unless the path is an existing device node of the RUNNING system).

   Not modelled: the extras of Python's int() literal syntax (underscores, surrounding
   whitespace, non-ASCII digits, a sign or "0x" prefix in the md5 field), lone surrogates
   (UnicodeEncodeError on write), the lstat of LookupFsDev (major/minor/mode of an existing
   device are not part of the round trip), data_source-backed ContentsFile objects. *)
From Coq Require Import List NArith ZArith Bool Arith Decimal Hexadecimal.
From Coq Require Strings.Byte.
Import ListNotations.
From Verif Require Import Base.Val C22.Model_C22 C18.Fs.

(* ------------------------------------------------------------------ tokens *)
Definition SP : N := 32%N.
Definition is_sp (c : N) : bool := N.eqb c 32.

Fixpoint split_sp (s : str) : list str :=        (* s.split(" ") *)
  match s with
  | [] => [[]]
  | c :: r =>
      if is_sp c then [] :: split_sp r
      else match split_sp r with
           | h :: t => (c :: h) :: t
           | [] => [[c]]
           end
  end.

Fixpoint join_sp (l : list str) : str :=         (* " ".join(l) *)
  match l with
  | [] => []
  | a :: r => match r with [] => a | _ => a ++ SP :: join_sp r end
  end.

(* ------------------------------------------------------------------ numerals *)
Fixpoint chars_of_uint (u : Decimal.uint) : str :=
  match u with
  | Decimal.Nil => []
  | Decimal.D0 r => 48%N :: chars_of_uint r | Decimal.D1 r => 49%N :: chars_of_uint r
  | Decimal.D2 r => 50%N :: chars_of_uint r | Decimal.D3 r => 51%N :: chars_of_uint r
  | Decimal.D4 r => 52%N :: chars_of_uint r | Decimal.D5 r => 53%N :: chars_of_uint r
  | Decimal.D6 r => 54%N :: chars_of_uint r | Decimal.D7 r => 55%N :: chars_of_uint r
  | Decimal.D8 r => 56%N :: chars_of_uint r | Decimal.D9 r => 57%N :: chars_of_uint r
  end.

Definition dec_digit (c : N) : option (Decimal.uint -> Decimal.uint) :=
  match c with
  | 48 => Some Decimal.D0 | 49 => Some Decimal.D1 | 50 => Some Decimal.D2 | 51 => Some Decimal.D3
  | 52 => Some Decimal.D4 | 53 => Some Decimal.D5 | 54 => Some Decimal.D6 | 55 => Some Decimal.D7
  | 56 => Some Decimal.D8 | 57 => Some Decimal.D9 | _ => None
  end%N.

Fixpoint uint_of_chars (s : str) : option Decimal.uint :=
  match s with
  | [] => Some Decimal.Nil
  | c :: r => match dec_digit c, uint_of_chars r with
              | Some d, Some u => Some (d u)
              | _, _ => None
              end
  end.

(* str(int) *)
Definition print_int (z : Z) : str :=
  match Z.to_int z with
  | Decimal.Pos u => chars_of_uint u
  | Decimal.Neg u => 45%N :: chars_of_uint u
  end.

Definition parse_nat (s : str) : option Z :=
  match s with
  | [] => None
  | _ => option_map Z.of_uint (uint_of_chars s)
  end.

(* int(s): optional sign, then one or more ASCII digits; None = ValueError *)
Definition parse_int (s : str) : option Z :=
  match s with
  | 45%N :: r => option_map Z.opp (parse_nat r)
  | 43%N :: r => parse_nat r
  | _ => parse_nat s
  end.

Fixpoint chars_of_hex (u : Hexadecimal.uint) : str :=
  match u with
  | Nil => []
  | D0 r => 48%N :: chars_of_hex r | D1 r => 49%N :: chars_of_hex r | D2 r => 50%N :: chars_of_hex r
  | D3 r => 51%N :: chars_of_hex r | D4 r => 52%N :: chars_of_hex r | D5 r => 53%N :: chars_of_hex r
  | D6 r => 54%N :: chars_of_hex r | D7 r => 55%N :: chars_of_hex r | D8 r => 56%N :: chars_of_hex r
  | D9 r => 57%N :: chars_of_hex r | Da r => 97%N :: chars_of_hex r | Db r => 98%N :: chars_of_hex r
  | Dc r => 99%N :: chars_of_hex r | Dd r => 100%N :: chars_of_hex r | De r => 101%N :: chars_of_hex r
  | Df r => 102%N :: chars_of_hex r
  end.

Definition hex_digit (c : N) : option (Hexadecimal.uint -> Hexadecimal.uint) :=
  match c with
  | 48 => Some D0 | 49 => Some D1 | 50 => Some D2 | 51 => Some D3 | 52 => Some D4
  | 53 => Some D5 | 54 => Some D6 | 55 => Some D7 | 56 => Some D8 | 57 => Some D9
  | 97 => Some Da | 98 => Some Db | 99 => Some Dc | 100 => Some Dd | 101 => Some De | 102 => Some Df
  | 65 => Some Da | 66 => Some Db | 67 => Some Dc | 68 => Some Dd | 69 => Some De | 70 => Some Df
  | _ => None
  end%N.

Fixpoint hex_of_chars (s : str) : option Hexadecimal.uint :=
  match s with
  | [] => Some Nil
  | c :: r => match hex_digit c, hex_of_chars r with
              | Some d, Some u => Some (d u)
              | _, _ => None
              end
  end.

(* md5_handler.long2str: ("%x" % val).rjust(32, "0") *)
Definition print_md5 (n : N) : str :=
  let d := chars_of_hex (N.to_hex_uint n) in repeat 48%N (32 - length d) ++ d.

(* int(s, 16) restricted to hex digits; None = ValueError *)
Definition parse_hex (s : str) : option N :=
  match s with
  | [] => None
  | _ => option_map N.of_hex_uint (hex_of_chars s)
  end.

(* ------------------------------------------------------------------ entries and lines *)
Inductive entry : Type :=
| EObj (loc : str) (md5 : N) (mtime : Z)
| ESym (loc tgt : str) (mtime : Z)
| EDir (loc : str)
| EDev (loc : str)
| EFif (loc : str).

Definition eloc (e : entry) : str :=
  match e with EObj l _ _ | ESym l _ _ | EDir l | EDev l | EFif l => l end.
Definition with_loc (e : entry) (l : str) : entry :=
  match e with
  | EObj _ m t => EObj l m t | ESym _ g t => ESym l g t
  | EDir _ => EDir l | EDev _ => EDev l | EFif _ => EFif l
  end.
(* fs.fsBase.__init__: the location of every fs object is normalised *)
Definition mk_entry (raw : entry) : entry := with_loc raw (normpath (eloc raw)).

Definition t_obj : str := [111;98;106]%N.
Definition t_sym : str := [115;121;109]%N.
Definition t_dir : str := [100;105;114]%N.
Definition t_dev : str := [100;101;118]%N.
Definition t_fif : str := [102;105;102]%N.
Definition arrow : str := [45;62]%N.

(* ContentsFile._write: the text of one entry, without the newline *)
Definition write_line (e : entry) : str :=
  match e with
  | EObj l m t => join_sp [t_obj; l; print_md5 m; print_int t]
  | ESym l g t => join_sp [t_sym; l; arrow; g; print_int t]
  | EDir l => t_dir ++ SP :: l
  | EDev l => t_dev ++ SP :: l
  | EFif l => t_fif ++ SP :: l
  end.

Inductive res (A : Type) : Type := Ok (a : A) | Er (kind : N).
Arguments Ok {A} a.
Arguments Er {A} kind.
Definition E_VALUE : N := 0%N.      (* ValueError *)
Definition E_INDEX : N := 1%N.      (* IndexError *)

Fixpoint index_of (x : str) (l : list str) : option nat :=      (* list.index *)
  match l with
  | [] => None
  | y :: r => if str_eqb y x then Some O else option_map S (index_of x r)
  end.

(* s[-2] *)
Definition second_last (l : list str) : option str :=
  match List.rev l with _ :: x :: _ => Some x | _ => None end.

(* ContentsFile._iter_contents on the tokens s = line.split(" ") of one stripped, non-empty line *)
Definition parse_tokens (s : list str) : res entry :=
  match s with
  | [] => Er E_VALUE
  | h :: rest =>
      if str_eqb h t_dir then Ok (EDir (normpath (join_sp rest)))
      else if str_eqb h t_dev then Ok (EDev (normpath (join_sp rest)))
      else if str_eqb h t_fif then Ok (EFif (normpath (join_sp rest)))
      else if str_eqb h t_obj then
        match second_last s with
        | None => Er E_INDEX
        | Some hx =>
            match parse_hex hx with
            | None => Er E_VALUE
            | Some m =>
                match parse_int (last s []) with
                | None => Er E_VALUE
                | Some t => Ok (EObj (normpath (join_sp (firstn (length s - 3) rest))) m t)
                end
            end
        end
      else if str_eqb h t_sym then
        match index_of arrow s with
        | None => Er E_VALUE
        | Some p =>
            match parse_int (last s []) with
            | None => Er E_VALUE
            | Some t => Ok (ESym (normpath (join_sp (firstn (p - 1) rest)))
                                 (join_sp (removelast (skipn (S p) s))) t)
            end
        end
      else Er E_VALUE
  end.
Definition parse_line (line : str) : res entry := parse_tokens (split_sp line).

(* ------------------------------------------------------------------ sets and files *)
(* contentsSet._dict[obj.location] = obj *)
Fixpoint dset (e : entry) (d : list entry) : list entry :=
  match d with
  | [] => [e]
  | x :: r => if str_eqb (eloc x) (eloc e) then e :: r else x :: dset e r
  end.
Definition cset_of (l : list entry) : list entry := fold_left (fun d e => dset e d) l [].

Fixpoint str_ltb (a b : str) : bool :=           (* Python str <, by code point *)
  match a, b with
  | _, [] => false
  | [], _ :: _ => true
  | x :: a', y :: b' => if N.ltb x y then true else if N.ltb y x then false else str_ltb a' b'
  end.
Fixpoint ins_sorted (e : entry) (l : list entry) : list entry :=
  match l with
  | [] => [e]
  | x :: r => if str_ltb (eloc e) (eloc x) then e :: l else x :: ins_sorted e r
  end.
Definition sort_entries (l : list entry) : list entry := fold_right ins_sorted [] l.

Definition NL : N := 10%N.
(* the text ContentsFile._write produces for the set d *)
Definition write_contents (d : list entry) : str :=
  concat (map (fun e => write_line e ++ [NL]) (sort_entries d)).

(* str.isspace() *)
Definition py_space (c : N) : bool :=
  (((9 <=? c) && (c <=? 13)) || ((28 <=? c) && (c <=? 32)) || (c =? 133) || (c =? 160)
  || (c =? 5760) || ((8192 <=? c) && (c <=? 8202)) || (c =? 8232) || (c =? 8233)
  || (c =? 8239) || (c =? 8287) || (c =? 12288))%N.
Definition lstrip (s : str) : str := drop_while py_space s.
Definition strip (s : str) : str := List.rev (drop_while py_space (List.rev (lstrip s))).

(* iteration of a text-mode file (universal newlines): "\n", "\r\n" and "\r" end a line.  The
   reader strips each line and skips the empty ones, so cutting at every "\n" and every "\r" is
   equivalent (the extra piece between "\r" and "\n" is empty). *)
Definition is_eol (c : N) : bool := N.eqb c 10 || N.eqb c 13.
Fixpoint split_lines (s : str) : list str :=
  match s with
  | [] => [[]]
  | c :: r =>
      if is_eol c then [] :: split_lines r
      else match split_lines r with
           | h :: t => (c :: h) :: t
           | [] => [[c]]
           end
  end.
Definition nonempty (s : str) : bool := match s with [] => false | _ => true end.
Definition content_lines (text : str) : list str := filter nonempty (map strip (split_lines text)).

Fixpoint read_lines (ls : list str) (d : list entry) : res (list entry) :=
  match ls with
  | [] => Ok d
  | l :: r => match parse_line l with
              | Ok e => read_lines r (dset e d)
              | Er k => Er k
              end
  end.
(* ContentsFile(path): the dict built from the text of the file *)
Definition read_contents (text : str) : res (list entry) := read_lines (content_lines text) [].

(* ------------------------------------------------------------------ UTF-8 (text-mode write) *)
Definition utf8_cp (c : N) : list N :=
  (if c <? 128 then [c]
   else if c <? 2048 then [192 + c / 64; 128 + c mod 64]
   else if c <? 65536 then [224 + c / 4096; 128 + (c / 64) mod 64; 128 + c mod 64]
   else [240 + c / 262144; 128 + (c / 4096) mod 64; 128 + (c / 64) mod 64; 128 + c mod 64])%N.
Definition utf8 (s : str) : list N := concat (map utf8_cp s).

(* ------------------------------------------------------------------ the staged write *)
(* AtomicWriteFile(fp, perms, uid, gid): open(tmp, "w") under umask 0200 (an existing regular tmp
   is truncated instead), chmod(tmp, perms), chown(tmp, uid, gid), one write call per element of
   [chunks], close: rename(tmp, fp).  tmp = dirname/.update.basename *)
Definition first_op (s : fs) (tmp : path) : op :=
  match lookup s tmp with
  | Some (File _ _ _ _ _ _) => Truncate tmp
  | _ => Create tmp 310%N                                  (* 0o666 & ~0o200 = 0o466 *)
  end.
Definition is_mid (tmp : path) (o : op) : Prop :=
  (exists d, o = Append tmp d) \/ perm_on tmp o.
Definition atomic_ops (s : fs) (tmp p : path) (perms : N) (uid gid : option N)
           (chunks : list (list N)) : list op :=
  first_op s tmp :: (Chmod tmp perms :: Chown tmp uid gid :: appends tmp chunks) ++ [Rename tmp p].

(* precondition on the temporary name: absent, or a regular file whose inode no other name shares *)
Definition tmp_ok (s : fs) (tmp : path) : Prop :=
  lookup s tmp = None \/
  exists d m u g t i, lookup s tmp = Some (File d m u g t i) /\
    forall q n, q <> tmp -> lookup s q = Some n -> ino_of n <> Some i.
(* "the complete new file": the whole data, the requested mode *)
Definition is_file_with (data : list N) (mode : N) (o : option node) : Prop :=
  exists u g t i, o = Some (File data mode u g t i).
Definition not_dir (o : option node) : Prop :=
  match o with Some n => is_dir_node n = false | None => True end.

(* a crash before op k; an OSError at op k is the same state followed by the cleanup of
   AtomicWriteFile.discard (unlink tmp) whenever the object had been initialised (k >= 1) *)
Definition fault_state (s : fs) (tmp : path) (ops : list op) (k : nat) (eio : bool) : fs :=
  let sk := run (firstn k ops) s in
  if eio && Nat.leb 1 k then run [Unlink tmp] sk else sk.

Fixpoint chunked_fuel (fuel c : nat) (d : list N) : list (list N) :=
  match fuel, d with
  | _, [] => []
  | O, _ => [d]
  | S f, _ => firstn c d :: chunked_fuel f c (skipn c d)
  end.
(* one write call of data d under fsx chunking c (0 = unchunked); empty data: no call *)
Definition chunked (c : nat) (d : list N) : list (list N) :=
  match c with O => match d with [] => [] | _ => [d] end | _ => chunked_fuel (length d) c d end.

Definition P_CONTENTS : path := [[67;79;78;84;69;78;84;83]%N].
Definition P_TMP : path := [[46;117;112;100;97;116;101;46;67;79;78;84;69;78;84;83]%N].
Definition P_OTHER : path := [[111;116;104;101;114]%N].

(* ContentsFile.flush(): one write per line; uid = gid = root (0), perms 0o644 *)
Definition contents_chunks (c : nat) (d : list entry) : list (list N) :=
  concat (map (fun e => chunked c (utf8 (write_line e ++ [NL]))) (sort_entries d)).
Definition flush_ops (s : fs) (c : nat) (d : list entry) : list op :=
  atomic_ops s P_TMP P_CONTENTS 420%N (Some 0%N) (Some 0%N) (contents_chunks c d).

(* ------------------------------------------------------------------ encoders for the harness *)
(* compact string literals: printable ASCII literally, anything else as \HEX; *)
Inductive bstr := BS (l : list Byte.byte).
Definition bs_parse (l : list Byte.byte) : bstr := BS l.
Definition bs_print (b : bstr) : list Byte.byte := match b with BS l => l end.
Declare Scope c24_scope.
Delimit Scope c24_scope with s.
String Notation bstr bs_parse bs_print : c24_scope.
Definition hexval (c : N) : N :=
  (if (48 <=? c) && (c <=? 57) then c - 48 else if (97 <=? c) && (c <=? 102) then c - 87 else 0)%N.
Fixpoint unesc (l : list N) (acc : option N) : str :=
  match l with
  | [] => []
  | c :: r =>
      match acc with
      | None => if (c =? 92)%N then unesc r (Some 0%N) else c :: unesc r None
      | Some v => if (c =? 59)%N then v :: unesc r None else unesc r (Some (16 * v + hexval c)%N)
      end
  end.
Definition s2l (b : bstr) : str := match b with BS l => unesc (map Byte.to_N l) None end.
Definition VT (s : bstr) : val := VS (s2l s).

Definition O_ (l : bstr) (m : N) (t : Z) : entry := EObj (s2l l) m t.
Definition L_ (l g : bstr) (t : Z) : entry := ESym (s2l l) (s2l g) t.
Definition D_ (l : bstr) : entry := EDir (s2l l).
Definition V_ (l : bstr) : entry := EDev (s2l l).
Definition F_ (l : bstr) : entry := EFif (s2l l).

Definition enc_entry (e : entry) : val :=
  match e with
  | EObj l m t => VL [VZ 0; VS l; VZ (Z.of_N m); VZ t]
  | ESym l g t => VL [VZ 1; VS l; VS g; VZ t]
  | EDir l => VL [VZ 2; VS l]
  | EDev l => VL [VZ 3; VS l]
  | EFif l => VL [VZ 4; VS l]
  end.
Definition enc_set (d : list entry) : val := VL (map enc_entry (sort_entries d)).
Definition enc_err (k : N) : val :=
  if N.eqb k E_INDEX then VErr [73;110;100;101;120;69;114;114;111;114]%N      (* IndexError *)
  else VErr [86;97;108;117;101;69;114;114;111;114]%N.                          (* ValueError *)
Definition enc_res (r : res (list entry)) : val :=
  match r with Ok d => enc_set d | Er k => enc_err k end.

(* stream "file": entries added in this order to an empty ContentsFile, flush, reopen.
   result = [file bytes; entries read back] *)
Definition the_set (raw : list entry) : list entry := cset_of (map mk_entry raw).
Definition run_file (raw : list entry) : val :=
  let text := write_contents (the_set raw) in
  VL [VS (utf8 text); enc_res (read_contents text)].

(* stream "parse": ContentsFile(path) over an arbitrary text *)
Definition run_parse (text : bstr) : val := enc_res (read_contents (s2l text)).

(* stream "fault": directory holding [old] as CONTENTS, [stale] as .update.CONTENTS and a
   bystander; flush of the set with a crash / EIO at attempted call k; result = the three nodes *)
Record fault_in := { f_old : option bstr; f_stale : option bstr; f_set : list entry;
                     f_chunk : nat; f_k : nat; f_eio : bool }.
Definition mkfile (ino : N) (mode : N) (b : bstr) : node := File (s2l b) mode 0%N 0%N 0%Z ino.
Definition init_fs (i : fault_in) : fs :=
  (match f_old i with Some b => [(P_CONTENTS, mkfile 1 384 b)] | None => [] end)      (* 0o600 *)
  ++ (match f_stale i with Some b => [(P_TMP, mkfile 2 416 b)] | None => [] end)      (* 0o640 *)
  ++ [(P_OTHER, mkfile 3 420 (BS []))].
Definition enc_node (o : option node) : val :=
  match o with
  | Some (File d m u g _ _) => VL [VS d; VZ (Z.of_N m); VZ (Z.of_N u); VZ (Z.of_N g)]
  | Some _ => VErr []
  | None => VNone
  end.
Definition enc_fs (s : fs) : val :=
  VL [enc_node (lookup s P_CONTENTS); enc_node (lookup s P_TMP); enc_node (lookup s P_OTHER)].
Definition run_fault (i : fault_in) : val :=
  let s := init_fs i in
  let ops := flush_ops s (f_chunk i) (the_set (f_set i)) in
  VL [VZ (Z.of_nat (length ops)); enc_fs (fault_state s P_TMP ops (f_k i) (f_eio i))].
