"""C18 — merging places exactly the package contents on the live filesystem (DESIGN §6 C18).

One stream, "merge": a random contents set is merged by the real
pkgcore.fs.ops.merge_contents into a random pre-existing root inside a scratch directory;
harness/fsx.py records every mutating syscall.  Compared, inside Coq, with
C18/Model_C18.merge evaluated on the snapshot of the pre-existing root:
  (A1) op trace  == merge_ops        (A2) how the merge ended == merge_err
  (A3) final snapshot == model state (A4) the planner's ops all succeed on the model fs
and (B) the statement of the property, checked directly on the real before/after snapshots
by `oracle` below (and by Spec_C18.spec_ok inside Coq on the same snapshots).
"""

from __future__ import annotations

import os
import shutil
import stat as statmod
import time

from . import fsx
from .common import Check, Raw, cN, cZ, cbool, clist, cnat, copt, cpair, cstr

IMPORTS = ("From Coq Require Import List NArith ZArith Bool.\n"
           "From Verif Require Import Base.Val C18.Fs C18.Model_C18 C18.Spec_C18.")
ANCHORS = ["fs/ops.py::merge_contents", "fs/ops.py::copyfile", "fs/ops.py::do_link", "fs/ops.py::ensure_perms",
           "fs/ops.py::mkdir", "fs/contents.py::change_offset_rewriter", "fs/contents.py::contentsSet.iterdirs",
           "fs/fs.py::fsFile._can_be_hardlinked", "fs/livefs.py::gen_obj"]
UMASK = 0o022
OLD_T = 1_000_000_000      # mtimes of the pre-existing root
NEW_T = 1_100_000_000      # recorded mtimes of contents-set entries
NAMES = ["a", "b", "c", "d", "lib", "lib64", "usr", "x y", "q#", "été", "f.txt", "#new", "z"]
E_KIND = {1: "CannotOverwrite", 2: "OSError", 3: "FailedCopy", 4: "TypeError"}


# --------------------------------------------------------------------------- Coq rendering
def c_path(p):
    return clist([cstr(c) for c in p], "str")


def c_optN(x):
    return copt(x, cN, "N")


def c_optZ(x):
    return copt(x, cZ, "Z")


def c_node(n, t0, inomap):
    k = n[0]
    if k == "file":
        _, data, mode, u, g, mt, ino = n
        i = inomap.setdefault(ino, len(inomap) + 1)
        return f"File {cstr(data)} {cN(mode)} {cN(u)} {cN(g)} {cZ(canon_t(mt, t0, False))} {cN(i)}"
    if k == "dir":
        _, mode, u, g, mt = n
        return f"Dir {cN(mode)} {cN(u)} {cN(g)} {cZ(canon_t(mt, t0, True))}"
    if k == "sym":
        _, tgt, u, g, mt = n
        return f"Sym {cstr(tgt)} {cN(u)} {cN(g)} {cZ(canon_t(mt, t0, False))}"
    if k == "fifo":
        _, mode, u, g, mt = n
        return f"Fifo {cN(mode)} {cN(u)} {cN(g)} {cZ(canon_t(mt, t0, False))}"
    _, m, u, g, mt, rdev = n
    return (f"Dev {cN(statmod.S_IMODE(m))} {cN(u)} {cN(g)} {cZ(canon_t(mt, t0, False))} "
            f"{cN(2 * rdev + (1 if statmod.S_ISBLK(m) else 0))}")


def canon_t(mt, t0, is_dir):
    """mtimes at/after the start of the run are 'now': NOW (-1), for a directory BUMPED (-2)."""
    if t0 is not None and mt >= t0:
        return -2 if is_dir else -1
    return mt


def c_fs(snap, t0):
    inomap = {}
    return clist([cpair(c_path(p), c_node(n, t0, inomap)) for p, n in sorted(snap.items())], "path * node")


def c_entry(e, prefix=()):
    k = e["kind"]
    if k == "dir":
        kk = "KDir"
    elif k == "file":
        kk = f"(KFile {cstr(e['data'])} {c_optN(e.get('hl'))})"
    elif k == "sym":
        kk = f"(KSym {cstr(e['target'])})"
    elif k == "fifo":
        kk = "KFifo"
    else:
        kk = f"(KDev {cN(2 * os.makedev(*e['dev']) + (1 if e.get('blk') else 0))})"
    return ("{| e_loc := %s; e_kind := %s; e_mode := %s; e_uid := %s; e_gid := %s; e_mtime := %s |}"
            % (c_path(tuple(prefix) + tuple(e["loc"])), kk, c_optN(e.get("mode")), c_optN(e.get("uid")), c_optN(e.get("gid")),
               c_optZ(e.get("mtime"))))


def c_input(case, pre):
    return ("{| i_umask := %s; i_offset := %s; i_cset := %s; i_fs := %s |}"
            % (cN(UMASK), copt(case["offset"], c_path, "path"),
               clist([c_entry(e, () if case["offset"] is not None else ("o",)) for e in case["cset"]], "entry"),
               c_fs(pre, None)))


def c_op(o):
    k = o[0]
    if k in ("Mkdir", "Create", "Mkfifo", "Chmod"):
        return f"{k} {c_path(o[1])} {cN(o[2])}"
    if k == "Append":
        return f"Append {c_path(o[1])} {cstr(o[2])}"
    if k == "Pwrite":
        return f"Pwrite {c_path(o[1])} {cnat(o[2])} {cstr(o[3])}"
    if k in ("Truncate", "Unlink", "Rmdir"):
        return f"{k} {c_path(o[1])}"
    if k in ("Rename", "Link"):
        return f"{k} {c_path(o[1])} {c_path(o[2])}"
    if k == "Symlink":
        return f"Symlink {cstr(o[1])} {c_path(o[2])}"
    if k == "Mknod":
        return f"Mknod {c_path(o[1])} {cN(o[2])} {cN(o[3])}"
    if k == "Chown":
        return f"Chown {c_path(o[1])} {c_optN(o[2])} {c_optN(o[3])}"
    if k == "Utime":
        return f"Utime {c_path(o[1])} {cZ(o[2])}"
    raise ValueError(o)


def trace_ops(trace):
    """successful traced calls -> model ops (tuples); None if a call is outside the model."""
    ops = []
    written = {}
    for c in trace:
        if not c.ok:
            continue
        k, a = c.kind, c.args
        cp, rp = c.cpaths, c.rpaths
        if any(x is None for x in cp):
            return None
        if k == "mkdir":
            ops.append(("Mkdir", cp[0], a[1]))
        elif k == "create":
            written[rp[0]] = 0
            ops.append(("Create", rp[0], a[1]))
        elif k == "write":
            off, data = a[1], a[2]
            if rp[0] in written and written[rp[0]] == off:
                ops.append(("Append", rp[0], data))
                written[rp[0]] += len(data)
            else:
                ops.append(("Pwrite", rp[0], off, data))
        elif k == "truncate":
            ops.append(("Truncate", rp[0]))
        elif k == "rename":
            ops.append(("Rename", cp[0], cp[1]))
        elif k == "link":
            ops.append(("Link", cp[0], cp[1]))
        elif k == "symlink":
            ops.append(("Symlink", a[0], cp[0]))
        elif k == "unlink":
            ops.append(("Unlink", cp[0]))
        elif k == "rmdir":
            ops.append(("Rmdir", cp[0]))
        elif k == "chmod":
            ops.append(("Chmod", rp[0], a[1] & 0o7777))
        elif k == "chown":
            ops.append(("Chown", rp[0] if a[3] else cp[0], None if a[1] == -1 else a[1], None if a[2] == -1 else a[2]))
        elif k == "utime":
            if len(a) > 2:
                return None
            ops.append(("Utime", rp[0], a[1]))
        elif k == "mkfifo":
            ops.append(("Mkfifo", cp[0], a[1]))
        elif k == "mknod":
            ops.append(("Mknod", cp[0], a[1] & 0o7777, 2 * a[2] + (1 if statmod.S_ISBLK(a[1]) else 0)))
        else:
            return None
    return ops


# --------------------------------------------------------------------------- generator
def gen_case(rng, root_user, big=False):
    """A contents set (entries with locations relative to the merge offset) + a recipe for the
    pre-existing root.  Everything is plain data so that a case can be replayed."""
    names = rng.sample(NAMES, rng.randint(3, 6))
    nent = rng.randint(2, 9 if big else 7)
    dirs = [()]
    ents = {}
    t = [NEW_T]

    def attrs(kind):
        a = {}
        if rng.random() < 0.9:
            a["mode"] = rng.choice([0o644, 0o755, 0o600, 0o640, 0o750, 0o444] + ([0o1777] if kind == "dir" else [0o4755]))
        if rng.random() < 0.85:
            if root_user:
                a["uid"] = rng.choice([0, 0, 1000, 1234])
                a["gid"] = rng.choice([0, 0, 100, 1234])
            else:
                a["uid"], a["gid"] = os.getuid(), os.getgid()
        elif rng.random() < 0.3:
            a["uid"] = rng.choice([1000, 0]) if root_user else os.getuid()     # only one side of the pair set
        if rng.random() < 0.93:
            t[0] += rng.randint(1, 50)
            a["mtime"] = t[0]
        return a

    for _ in range(nent):
        parent = rng.choice(dirs)
        if len(parent) >= 3:
            parent = parent[:2]
        if rng.random() < 0.12:
            parent = parent + (rng.choice(names),)      # a parent directory missing from the set
        loc = parent + (rng.choice(names),)
        if loc in ents or any(loc == tuple(d) for d in dirs):
            continue
        if any(ents.get(loc[:i], {}).get("kind") not in (None, "dir") for i in range(1, len(loc))):
            continue
        r = rng.random()
        if r >= 0.30 and any(tuple(o[:len(loc)]) == loc for o in list(ents) + dirs if len(o) > len(loc)):
            continue                        # a non-directory entry cannot sit above another entry of the set
        if r < 0.30:
            e = {"kind": "dir"}
            dirs.append(loc)
        elif r < 0.65:
            data = bytes(rng.randrange(256) for _ in range(rng.choice([0, 1, 3, 7, 12])))
            e = {"kind": "file", "data": data, "src": rng.choice(["mem", "disk"])}
        elif r < 0.85:
            tgt = rng.choice([rng.choice(names), "../" + rng.choice(names), rng.choice(names) + "/" + rng.choice(names),
                              "/nonexistent-c18/x", "./" + rng.choice(names), "."])
            e = {"kind": "sym", "target": tgt}
        elif r < 0.95 or not root_user:
            e = {"kind": "fifo"}
        else:
            e = {"kind": "dev", "dev": (1, rng.choice([3, 5])), "blk": False}
        e["loc"] = loc
        e.update(attrs(e["kind"]))
        if e["kind"] == "dev":
            # mknod would create the node WITH a set-uid bit and the following lchown clears it (kernel
            # semantics not modelled in Fs.v); every other kind gets such bits only from the final chmod
            e["mode"] = e.get("mode", 0o640) & 0o777
        ents[loc] = e
    # hard-link groups: clone a file entry under other names with the same key
    files = [e for e in ents.values() if e["kind"] == "file"]
    key = 1
    for f in files:
        if rng.random() < 0.45:
            f["hl"] = key
            for _ in range(rng.randint(1, 2)):
                parent = rng.choice(dirs)
                loc = parent + (rng.choice(names) + rng.choice(["", "2"]),)
                if loc in ents or loc in dirs:
                    continue
                if any(tuple(o[:len(loc)]) == loc for o in list(ents) + dirs if len(o) > len(loc)):
                    continue                    # a file cannot sit above another entry of the same set
                g = dict(f)
                g["loc"] = loc
                if rng.random() < 0.15:
                    g["mtime"] = f.get("mtime", 0) + 1      # same key but not linkable
                ents[loc] = g
            key += 1
    # twins WITHOUT inode information: hand-built / vdb-style file entries carry dev = inode = None and all
    # fall under the grouping key (None, None); files that agree in uid, gid, mode and mtime (also: all unset)
    # but differ in data must still be copied, never linked
    plain_files = [e for e in ents.values() if e["kind"] == "file" and "hl" not in e]
    if plain_files and rng.random() < 0.5:
        f = rng.choice(plain_files)
        if rng.random() < 0.25:
            for k in ("mode", "uid", "gid", "mtime"):
                f.pop(k, None)                          # the all-unset variant (mtime reads as 0 for both)
        for _ in range(rng.randint(1, 2)):
            parent = rng.choice(dirs)
            loc = parent + (rng.choice(names) + rng.choice(["", "3"]),)
            if loc in ents or loc in dirs or any(tuple(o[:len(loc)]) == loc for o in list(ents) + dirs if len(o) > len(loc)):
                continue
            if any(ents.get(loc[:i], {}).get("kind") not in (None, "dir") for i in range(1, len(loc))):
                continue
            g = dict(f)
            g["loc"] = loc
            g["data"] = bytes(rng.randrange(256) for _ in range(rng.choice([0, 2, 5, len(f["data"])])))
            if g["data"] == f["data"]:
                g["data"] += b"!"
            g["src"] = rng.choice(["mem", "disk"])
            ents[loc] = g
    cset = list(ents.values())
    rng.shuffle(cset)

    # ---- recipe for the pre-existing root: list of (loc, what)
    pre = []
    for e in cset:
        r = rng.random()
        loc = e["loc"]
        if r < 0.45:
            continue
        if r < 0.70:
            if e["kind"] == "file" and rng.random() < 0.6:
                # identical bytes but other mode/owner/mtime, or identical metadata but other bytes
                pre.append((loc, rng.choice(["file-samedata", "file-samedata", "file-samemeta",
                                             "file-setid", "file-setid-linked"])))
            else:
                pre.append((loc, "same"))
        elif r < 0.82:
            pre.append((loc, rng.choice(["file", "dir", "sym-dangling", "sym-dir", "fifo"])))
        elif r < 0.90 and e["kind"] != "dir":
            pre.append((loc[:-1] + (loc[-1] + "#new",), rng.choice(["file", "file-long", "file-linked"])))
            pre.append((loc, "same"))
        elif e["kind"] == "dir":
            pre.append((loc, "sym-dir"))
    for _ in range(rng.randint(0, 3)):
        parent = rng.choice(dirs)
        pre.append((parent + (rng.choice(names) + rng.choice(["", ".keep"]),), rng.choice(["file", "dir", "file"])))
    # state carried across the retry loop of merge_contents: a symlink entry that lands on a live directory
    # whose <location>/<target> is a directory is swallowed (CannotOverwrite tolerated) and the loop is
    # re-entered with the same iterator; put such an entry BETWEEN the members of a hard-link group (and
    # before other entries) so that everything remembered before the restart is needed after it
    hgroups = {}
    for idx, e in enumerate(cset):
        if e["kind"] == "file" and "hl" in e:
            hgroups.setdefault((e["hl"], e.get("mtime")), []).append(idx)
    straddle = [g for g in hgroups.values() if len(g) >= 2]
    if rng.random() < (0.6 if straddle else 0.15):
        tloc = ("tol%d" % rng.randint(0, 9),)
        tgt = rng.choice([".", "sub", "./sub", "sub/.."])
        sym = {"kind": "sym", "target": tgt, "loc": tloc, "mtime": t[0] + 1}
        if rng.random() < 0.5:
            sym["uid"], sym["gid"] = (0, 0) if root_user else (os.getuid(), os.getgid())
        if straddle:
            g = rng.choice(straddle)
            pos = rng.randint(g[0] + 1, g[1])          # after the first member, not after the second
        else:
            pos = rng.randint(0, len(cset))
        cset.insert(pos, sym)
        pre.append((tloc, "dir"))
        if "sub" in tgt:
            pre.append((tloc + ("sub",), "dir"))
    # boundary: names near NAME_MAX.  '<name>#new' needs 4 more bytes, so a live name of 252..255 bytes cannot
    # be staged (pristine code fails up front with ENAMETOOLONG and leaves the old file alone), 251 still can
    longable = [e for e in cset if e["kind"] != "dir"]
    if longable and rng.random() < 0.18:
        e = rng.choice(longable)
        oldloc = tuple(e["loc"])
        n = rng.choice([251, 252, 252, 253, 255])
        e["loc"] = oldloc[:-1] + ("L" * (n - 3) + "%03d" % n,)
        pre = [(l, w) for l, w in pre if tuple(l) != oldloc and tuple(l) != oldloc[:-1] + (oldloc[-1] + "#new",)]
        if rng.random() < 0.85:
            pre.insert(0, (e["loc"], rng.choice(["same", "file", "file-samedata", "file-setid"]) if e["kind"] == "file"
                           else rng.choice(["same", "file"])))
    # a good share of cases replaces a live file by one with identical bytes but other metadata
    # (or identical metadata but other bytes): the shapes an "unchanged, skip the copy" shortcut hits
    files = [e for e in cset if e["kind"] == "file"]
    if files and rng.random() < 0.6:
        e = rng.choice(files)
        newname = e["loc"][:-1] + (e["loc"][-1] + "#new",)
        pre = [(l, w) for l, w in pre if l != e["loc"] and l != newname]
        pre.insert(0, (e["loc"], rng.choice(["file-samedata", "file-samedata", "file-samemeta",
                                             "file-setid", "file-setid-linked"])))
    offmode = rng.choice(["offset", "offset", "offset", "offset-missing", "none"])
    if offmode == "offset-missing":
        pre = []
    return {"cset": cset, "pre": pre, "offmode": offmode, "offset": None if offmode == "none" else ("o",)}


def build_root(base, case, rng_seed):
    """materialise the pre-existing root under base/o following the recipe; returns nothing."""
    import random
    rng = random.Random(rng_seed)
    root = os.path.join(base, "o")
    if case["offmode"] == "offset-missing":
        return
    os.mkdir(root)
    kinds = {e["loc"]: e for e in case["cset"]}

    def ensure_parent(loc):
        cur = root
        for c in loc[:-1]:
            cur = os.path.join(cur, c)
            if os.path.isdir(cur):
                continue
            if os.path.lexists(cur):
                return None
            os.mkdir(cur, rng.choice([0o755, 0o700, 0o775]))
        return os.path.join(cur, loc[-1])

    n = 0
    late = []            # (path, mtime) to set after the pass that gives everything an old mtime
    for loc, what in case["pre"]:
        p = ensure_parent(loc)
        if p is None or os.path.lexists(p):
            continue
        n += 1
        if what == "same":
            what = {"dir": "dir", "file": "file", "sym": "sym-dangling", "fifo": "fifo", "dev": "file"}[kinds[loc]["kind"]]
        if what == "dir":
            os.mkdir(p, rng.choice([0o755, 0o711, 0o770]))
        elif what in ("file-setid", "file-setid-linked"):
            # a live set-uid / set-gid regular file that the set replaces, optionally with a hard link
            # outside the set: anything done to it IN PLACE before the rename shows in both names
            with open(p, "wb") as f:
                f.write(b"SETID-OLD-%d" % n)
            if what == "file-setid-linked":
                os.link(p, os.path.join(root, "setid-link-%d" % n))
            os.chmod(p, rng.choice([0o4755, 0o2755, 0o6711]))
            continue
        elif what in ("file-samedata", "file-samemeta"):
            e = kinds[loc]
            with open(p, "wb") as f:
                f.write(e["data"] if what == "file-samedata" else b"other-bytes-%d" % n)
            if what == "file-samedata":
                os.chmod(p, 0o600 if (e.get("mode", 0o644) & 0o7777) != 0o600 else 0o640)
            else:
                os.chmod(p, e.get("mode", 0o644) & 0o7777)
                if os.getuid() == 0:
                    os.lchown(p, e.get("uid", 0), e.get("gid", 0))
                late.append((p, e.get("mtime", 0)))
            continue
        elif what in ("file", "file-long", "file-linked"):
            with open(p, "wb") as f:
                f.write(b"OLD-CONTENT-OF-%d" % n if what != "file-long" else b"L" * 40)
            os.chmod(p, rng.choice([0o644, 0o600]))
            if what == "file-linked":
                os.link(p, os.path.join(root, "linked-%d" % n))
        elif what == "sym-dangling":
            os.symlink("nowhere-%d" % n, p)
        elif what == "sym-dir":
            real = p + ".real"
            if not os.path.lexists(real):
                os.mkdir(real)
            os.symlink(os.path.basename(real), p)
        elif what == "fifo":
            os.mkfifo(p)
        if os.getuid() == 0 and rng.random() < 0.3:
            os.lchown(p, rng.choice([0, 1000]), rng.choice([0, 100]))
    # old, distinct mtimes everywhere (children first so that directories keep theirs)
    k = 0
    for d, dn, fn in os.walk(root, topdown=False):
        for name in fn + dn:
            k += 1
            os.utime(os.path.join(d, name), (OLD_T + k, OLD_T + k), follow_symlinks=False)
    for p, mt in late:
        os.utime(p, (mt, mt))
    os.utime(root, (OLD_T, OLD_T))


def make_cset(base, case):
    """the pkgcore contentsSet of the case (+ an image directory for disk-backed file data)."""
    from pkgcore.fs import contents, fs
    from snakeoil.data_source import data_source, local_source

    img = os.path.join(base, "img")
    os.makedirs(img, exist_ok=True)
    prefix = "/" if case["offset"] is not None else os.path.join(base, "o") + "/"
    objs = []
    for n, e in enumerate(case["cset"]):
        loc = prefix + "/".join(e["loc"])
        kw = {k: e[k] for k in ("mode", "uid", "gid", "mtime") if k in e}
        kw["strict"] = False
        k = e["kind"]
        if k == "dir":
            objs.append(fs.fsDir(loc, **kw))
        elif k == "file":
            if e["src"] == "disk":
                sp = os.path.join(img, "f%d" % n)
                with open(sp, "wb") as f:
                    f.write(e["data"])
                src = local_source(sp)
            else:
                src = data_source(e["data"])
            if "hl" in e:
                kw.update(dev=7, inode=e["hl"])
            objs.append(fs.fsFile(loc, data=src, **kw))
        elif k == "sym":
            objs.append(fs.fsSymlink(loc, e["target"], **kw))
        elif k == "fifo":
            objs.append(fs.fsFifo(loc, **kw))
        else:
            kw["mode"] = kw.get("mode", 0) | (statmod.S_IFBLK if e.get("blk") else statmod.S_IFCHR)
            objs.append(fs.fsDev(loc, major=e["dev"][0], minor=e["dev"][1], **kw))
    return contents.contentsSet(objs)


def exc_kind(exc):
    from pkgcore.fs import ops
    if exc is None:
        return None
    if isinstance(exc, ops.CannotOverwrite):
        return 1
    if isinstance(exc, ops.FailedCopy):
        return 3
    if isinstance(exc, OSError):
        return 2
    if isinstance(exc, TypeError):
        return 4
    return 99


def merge_fn(base, case, cset):
    from pkgcore.fs import ops
    off = os.path.join(base, "o") if case["offset"] is not None else None
    return lambda: ops.merge_contents(cset, offset=off)


def run_case(base, case, seed):
    """build the root, merge for real under fsx; returns dict(pre, post, t0, ops, err, run)."""
    os.makedirs(base)
    old = os.umask(UMASK)
    try:
        build_root(base, case, seed)
        cset = make_cset(base, case)
        pre = snap_model(base)
        t0 = int(time.time()) - 2      # kernel timestamps use a coarse clock that may lag time.time()
        run = fsx.record(merge_fn(base, case, cset), base)
        post = snap_model(base)
    finally:
        os.umask(old)
    return {"pre": pre, "post": post, "t0": t0, "ops": trace_ops(run.trace), "err": exc_kind(run.exc),
            "run": run, "cset_obj": cset}


def snap_model(base):
    s = fsx.snapshot(base)
    return {p: n for p, n in s.items() if p[0] != "img"}


# --------------------------------------------------------------------------- (B) the statement
def resolve(snap, comps, follow_last, depth=0):
    """kernel-style resolution inside a snapshot; returns canonical tuple or None."""
    cur = ()
    todo = list(comps)
    steps = 0
    while todo:
        steps += 1
        if steps > 200:
            return None
        c = todo.pop(0)
        if c in ("", "."):
            continue
        if c == "..":
            cur = cur[:-1]
            continue
        q = cur + (c,)
        n = snap.get(q)
        if n is not None and n[0] == "sym" and (todo or follow_last):
            tgt = n[1]
            if tgt.startswith("/"):
                return None
            todo = [x for x in tgt.split("/") if x] + todo
            continue
        if n is None:
            return q if not todo else None
        if n[0] == "dir":
            cur = q
            continue
        return q if not todo else None
    return cur


def oracle(case, pre, post, t0):
    """The statement of C18 on the real before/after snapshots of a merge that returned True.
    Returns a list of (class_id, detail) deviations; class ids are matched against
    known_findings/C18.json by the caller."""
    bad = []
    off = case["offset"] or ()
    ents = case["cset"]
    locs = {}
    for e in ents:
        raw = ("o",) + tuple(e["loc"]) if True else tuple(e["loc"])
        cp = resolve(post, raw, e["kind"] == "dir")
        locs[tuple(e["loc"])] = (raw, cp)
    footprint = set()
    stale_inos = set()
    stale_groups = set()
    for e in ents:
        raw, cp = locs[tuple(e["loc"])]
        lp = resolve(post, raw, False)
        for q in (cp, lp, resolve(pre, raw, False), resolve(pre, raw, e["kind"] == "dir")):
            if q is not None:
                footprint.add(q)
                if q:
                    footprint.add(q[:-1] + (q[-1] + "#new",))      # the temporary sibling
        c0 = resolve(pre, raw, False)
        if e["kind"] != "dir" and c0 and pre.get(c0) is not None:
            st = pre.get(c0[:-1] + (c0[-1] + "#new",))
            if st is not None and st[0] == "file":
                stale_inos.add(st[6])
                if "hl" in e:
                    stale_groups.add(e["hl"])
    for e in ents:
        raw, cp = locs[tuple(e["loc"])]
        if cp is None:
            bad.append(("entry-missing", {"entry": e["loc"], "why": "location does not resolve after the merge"}))
            continue
        n = post.get(cp)
        prev = pre.get(cp)
        k = e["kind"]
        if n is None or n[0] != k:
            cls = "symlink-over-directory-kept" if (k == "sym" and n is not None and n[0] == "dir") else "entry-wrong-type"
            bad.append((cls, {"entry": e["loc"], "found": None if n is None else n[0]}))
            continue
        created = prev is None or k != "dir" or prev[0] != "dir"
        if k == "file" and n[1] != e["data"]:
            stale = pre.get(cp[:-1] + (cp[-1] + "#new",))
            cls = "stale-new-reused" if (stale is not None and stale[0] == "file" and prev is not None) \
                or e.get("hl") in stale_groups else "file-data"
            bad.append((cls, {"entry": e["loc"], "want": e["data"].hex(), "got": n[1].hex()}))
        if k == "sym" and n[1] != e["target"]:
            bad.append(("symlink-target", {"entry": e["loc"], "got": n[1]}))
        mt = e.get("mtime", 0 if k == "file" else None)
        got = n[5] if k == "file" else n[4]
        if mt is not None and got != mt:
            if k == "sym":
                bad.append(("symlink-mtime-not-set", {"entry": e["loc"], "recorded": mt, "got": got}))
            elif k == "dir":
                bad.append(("directory-mtime-bumped", {"entry": e["loc"], "recorded": mt, "got": got}))
            else:
                bad.append(("mtime", {"entry": e["loc"], "recorded": mt, "got": got}))
        if created:
            mode = None if k == "sym" else (n[2] if k == "file" else statmod.S_IMODE(n[1]))
            if k != "sym" and e.get("mode") is not None and mode != (e["mode"] & 0o7777):
                bad.append(("mode", {"entry": e["loc"], "recorded": e["mode"], "got": mode}))
            u, g = (n[3], n[4]) if k == "file" else (n[2], n[3])
            if e.get("uid") is not None and u != e["uid"] or e.get("gid") is not None and g != e["gid"]:
                bad.append(("owner", {"entry": e["loc"], "recorded": (e.get("uid"), e.get("gid")), "got": (u, g)}))
        elif k == "dir":
            if n[1] != prev[1]:
                bad.append(("existing-dir-mode-changed", {"entry": e["loc"], "was": prev[1], "now": n[1]}))
    # hard links: entries that shared a source inode and are linkable share an inode afterwards
    groups = {}
    for e in ents:
        if e["kind"] == "file" and "hl" in e:
            key = (e["hl"], e.get("uid"), e.get("gid"), e.get("mode"), e.get("mtime", 0))
            groups.setdefault(key, []).append(e)
    for g in groups.values():
        inos = set()
        for e in g:
            cp = locs[tuple(e["loc"])][1]
            n = post.get(cp) if cp else None
            if n is not None and n[0] == "file":
                inos.add(n[6])
        if len(inos) > 1:
            bad.append(("not-hardlinked", {"entries": [e["loc"] for e in g]}))
    # frame: anything else is untouched, except missing parent directories that were created
    parents = set()
    for cp in footprint:
        for i in range(1, len(cp)):
            parents.add(cp[:i])
    for p in set(pre) | set(post):
        if p in footprint:
            if p[-1].endswith("#new") and p not in pre and p in post and p[:-1] + (p[-1][:-4],) in footprint:
                bad.append(("new-sibling-left-behind", {"path": p, "after": _short(post[p])}))
            continue
        a, b = pre.get(p), post.get(p)
        if a is None and b is not None and b[0] == "dir" and p in parents:
            continue                                     # a missing parent directory
        if a == b:
            continue
        if a is not None and b is not None and a[0] == "dir" == b[0] and a[:4] == b[:4] and b[4] >= t0 and \
                any(len(q) == len(p) + 1 and q[:len(p)] == p and pre.get(q) != post.get(q) for q in set(pre) | set(post)):
            continue                                     # only the kernel's mtime bump of a parent
        if a is not None and b is not None and a[0] == "file" == b[0] and a[:6] == b[:6]:
            continue                                     # same content/metadata, inode number is not part of it
        cls = "frame"
        if a is not None and a[0] == "file" and a[6] in stale_inos:
            cls = "stale-new-reused"
        bad.append((cls, {"path": p, "before": _short(a), "after": _short(b)}))
    return bad


def _short(n):
    if n is None:
        return None
    return [x.hex() if isinstance(x, bytes) else x for x in n]


KNOWN_PREDICATES = {}


def known(cls):
    def deco(f):
        KNOWN_PREDICATES[cls] = f
        return f
    return deco


@known("symlink-mtime-not-set")
def k_symlink_mtime(case, dev):
    """a symlink entry with a recorded mtime: ensure_perms never sets a symlink's mtime"""
    return any(e["kind"] == "sym" and tuple(e["loc"]) == tuple(dev["entry"]) and e.get("mtime") is not None
               for e in case["cset"])


@known("directory-mtime-bumped")
def k_dir_mtime(case, dev):
    """a directory entry into which a later step of the same merge puts an entry"""
    return any(e["kind"] == "dir" and tuple(e["loc"]) == tuple(dev["entry"]) for e in case["cset"])


@known("symlink-over-directory-kept")
def k_sym_over_dir(case, dev):
    """a symlink entry whose location holds a directory and <location>/<target> is a directory"""
    return any(e["kind"] == "sym" and tuple(e["loc"]) == tuple(dev["entry"]) for e in case["cset"])


@known("new-sibling-left-behind")
def k_new_left(case, dev):
    """two linkable file entries of one hard-link group whose locations are the same file on the live
    filesystem (aliased through a symlinked directory): do_link's rename of two names of one inode is a
    no-op, so '<name>#new' stays"""
    files = [e for e in case["cset"] if e["kind"] == "file" and "hl" in e]
    return any(a is not b and a["hl"] == b["hl"] and a["loc"][-1] == b["loc"][-1] for a in files for b in files) \
        and any(w == "sym-dir" for _, w in case["pre"])


@known("stale-new-reused")
def k_stale_new(case, dev):
    """a non-directory entry replaces an existing path while a stale regular file '<path>#new' exists:
    copyfile reuses it without truncating or unlinking it"""
    names = {tuple(l) for l, w in case["pre"] if l[-1].endswith("#new") and w.startswith("file")}
    return any(e["kind"] != "dir" and tuple(e["loc"][:-1]) + (e["loc"][-1] + "#new",) in names for e in case["cset"])


# --------------------------------------------------------------------------- main
def branch_keys(res, case):
    """coarse description of which model branches a case exercises (for the evidence)."""
    ks = set()
    for o in res["ops"] or []:
        ks.add(o[0])
    ks.add("err:%s" % res["err"])
    ks.add("off:" + case["offmode"])
    return ks


def main(chk: Check):
    root_user = os.getuid() == 0
    chk.rule("random contents sets (dirs, files from memory/disk incl. empty and hard-link groups, symlinks "
             "relative/dotdot/dangling/absolute, fifos, char devices when root; modes/owners/mtimes partly unset) "
             "merged by the real merge_contents into random pre-existing roots (same-type, other-type, dangling "
             "symlinks, symlinked directories, stale '#new' files incl. longer and hard-linked ones, unrelated "
             "entries), with an existing offset, a missing offset, or absolute locations; non-trivial = the root "
             "already holds at least one path of the set")
    ok = chk.build(["C18/Prop_C18.vo"])
    if ok:
        chk.check_assumptions("C18/Prop_C18.v")
    chk.lint(["C18"])
    chk.check_fingerprint(ANCHORS)
    chk.note("running as %s: ownership exercised with %s" % (
        "root" if root_user else "uid %d" % os.getuid(),
        "uids 0/1000/1234, gids 0/100/1234 and -1" if root_user else "the caller's uid/gid and -1"))
    chk.note("partial for kernel semantics: EXDEV/overlay, permission errors, setgid inheritance and the implicit "
             "mtime update of parent directories are not modelled (a directory mtime at/after the start of the "
             "run is compared as a wildcard)")

    cases = corpus_cases(chk) + [gen_case(chk.rng, root_user, big=chk.thorough) for _ in range(int(os.environ.get("VERIF_C18_CASES", 0)) or chk.n(180, 1200))]
    work = chk.scratch / "c18"
    work.mkdir()
    rows, metas = [], []
    hist = {}
    for i, case in enumerate(cases):
        base = str(work / f"k{i}")
        res = run_case(base, case, i)
        shutil.rmtree(base, ignore_errors=True)
        if res["ops"] is None:
            chk.violation("correspondence", {"what": "a traced call is outside the model (path escapes the scratch "
                                                     "root or unknown call)", "case": case,
                                             "trace": [repr(c) for c in res["run"].trace]}, no_input=True)
            continue
        term = cpair(c_input(case, res["pre"]),
                     "{| o_ops := %s; o_err := %s; o_snap := %s |}" % (
                         clist([c_op(o) for o in res["ops"]], "op"), c_optN(res["err"]), c_fs(res["post"], res["t0"])))
        rows.append((term, Raw("all_ok5")))
        metas.append((case, res))
        for k in branch_keys(res, case):
            hist[k] = hist.get(k, 0) + 1
        if any(("o",) + tuple(e["loc"]) in res["pre"] for e in case["cset"]):
            chk.nontrivial(i)
    chk.count("merge", len(rows))
    chk.cov["histogram"] = dict(sorted(hist.items()))
    for case, res in metas[:3]:
        chk.sample({"cset": [{k: (v.hex() if isinstance(v, bytes) else v) for k, v in e.items()} for e in case["cset"]],
                    "offmode": case["offmode"], "ops": [repr(c) for c in res["run"].trace][:12], "err": res["err"]})

    # ---- (B) the statement, directly on the real snapshots
    prop_bad = []
    for case, res in metas:
        if res["err"] is not None:
            continue
        for cls, dev in oracle(case, res["pre"], res["post"], res["t0"]):
            pred = KNOWN_PREDICATES.get(cls)
            if pred is not None and pred(case, dev) and chk.known_finding(cls, {"case": _case_json(case), "deviation": dev}):
                continue
            prop_bad.append((cls, dev, case))
    for cls, dev, case in prop_bad[:3]:
        chk.violation("property", {"what": f"merged tree deviates from the contents set: {cls}", "deviation": dev,
                                   "input": _case_json(case)})

    # ---- (A) model vs implementation inside Coq
    if ok and rows:
        r0 = chk.coq_eval("merge", IMPORTS, "minput * obs", rows,
                          ["mismatches run_case cases",
                           # the domain of Prop_C18.merged_exact: NoAlias, normal return, all planned ops succeed
                           "where_ (fun c _ => noalias (fst c) && negb (is_some (merge_err (fst c))) && plan_ok c) cases"],
                          shard=20)
        if r0 is not None:
            dom = set(r0[1])
            chk.cov["theorem_domain"] = {
                "theorem": "merged_exact (NoAlias, merge returned normally, planned ops succeed)",
                "cases_in_domain": len(dom), "cases": len(rows),
                "cases_in_domain_touching_existing_paths":
                    sum(1 for i in dom if any(("o",) + tuple(e["loc"]) in metas[i][1]["pre"] for e in metas[i][0]["cset"]))}
            # inside the theorem's domain the statement must hold on the REAL tree without any known-finding
            # class other than the two mtime ones the theorem does not claim
            for i in sorted(dom):
                case, res = metas[i]
                devs = [c for c, _ in oracle(case, res["pre"], res["post"], res["t0"])
                        if c not in ("symlink-mtime-not-set", "directory-mtime-bumped")]
                if devs:
                    chk.violation("property", {"what": "case inside the NoAlias domain of merged_exact deviates on the "
                                                       "real tree: " + ", ".join(devs), "input": _case_json(case)})
        if r0 is not None and r0[0]:
            # second pass on the disagreeing cases only: which comparison failed
            sub = r0[0][:12]
            evals = ["where_ (fun c _ => negb (trace_ok c)) cases", "where_ (fun c _ => negb (err_ok c)) cases",
                     "where_ (fun c _ => negb (snap_ok c)) cases", "where_ (fun c _ => negb (plan_ok c)) cases",
                     "where_ (fun c _ => negb (spec_ok c)) cases"]
            r = chk.coq_eval("merge_diag", IMPORTS, "minput * obs", [rows[i] for i in sub], evals, shard=4)
            names = ["op trace", "outcome", "final snapshot", "plan consistency"]
            shown = 0
            for j, i in enumerate(sub):
                case, res = metas[i]
                which = [names[q] for q in range(4) if r is not None and j in r[q]]
                if which or r is None:
                    if shown < 3:
                        chk.violation("correspondence",
                                      {"what": "implementation and Model_C18.merge disagree on: " + ", ".join(which)
                                               + " (theorems of Prop_C18/Prop_C19 no longer speak about this code)",
                                       "input": _case_json(case), "observed_ops": [repr(o) for o in res["ops"]],
                                       "observed_err": res["err"]},
                                      no_input=not prop_bad)
                    shown += 1
                if r is not None and j in r[4] and res["err"] is None:
                    devs = oracle(case, res["pre"], res["post"], res["t0"])
                    if devs and all(c in KNOWN_PREDICATES and c in chk.known for c, _ in devs):
                        continue
                    chk.violation("property", {"what": "Spec_C18.spec_ok rejects the merged tree",
                                               "input": _case_json(case), "python_oracle": [c for c, _ in devs]})


def _case_json(case):
    c = dict(case)
    c["cset"] = [{k: (v.hex() if isinstance(v, bytes) else v) for k, v in e.items()} for e in case["cset"]]
    return c


def _case_unjson(c):
    c = dict(c)
    out = []
    for e in c["cset"]:
        e = dict(e)
        if "data" in e:
            e["data"] = bytes.fromhex(e["data"])
        e["loc"] = tuple(e["loc"])
        if "dev" in e:
            e["dev"] = tuple(e["dev"])
        out.append(e)
    c["cset"] = out
    c["pre"] = [(tuple(l), w) for l, w in c["pre"]]
    c["offset"] = tuple(c["offset"]) if c.get("offset") is not None else None
    return c


def corpus_cases(chk):
    import json
    out = []
    d = chk.scratch.parent  # unused; corpus lives in /verif/corpus/C18
    from .common import VERIF
    cdir = VERIF / "corpus" / "C18"
    if cdir.is_dir():
        for f in sorted(cdir.glob("*.json")):
            out.append(_case_unjson(json.loads(f.read_text())))
    return out


def replay(chk, data):
    case = data.get("detail", {}).get("input")
    if not case:
        print("no input recorded")
        return
    case = _case_unjson(case)
    base = str(chk.scratch / "replay")
    res = run_case(base, case, 0)
    print("ops:", *[repr(c) for c in res["run"].trace], sep="\n  ")
    print("outcome:", res["err"], repr(res["run"].exc))
    if res["err"] is None:
        print("oracle:", oracle(case, res["pre"], res["post"], res["t0"]))
