import sys; p=sys.argv[1]; s=open(p).read()
a='            previous = tuple(keywords)\n'; assert a in s
s=s.replace(a,'            previous = tuple(keywords) or previous\n'); open(p,'w').write(s)
