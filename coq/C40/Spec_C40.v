(* Spec_C40.v — the property's statement, written without looking at the algorithm.

   "Every keywording or stabilization request resolved from a package list names only arches
    known to the repository, honours the cc-arch, arch-filter and only-new narrowing, never
    names a prefix keyword among suggestions, and stabilization suggestions are limited to
    arches that are testing on the package and stable on another version.  Specs a
    stabilization cannot act on are rejected."

   Notions:  a version is TESTING on arch k when its KEYWORDS contain k preceded by one or
   more "~"; STABLE on k when its KEYWORDS contain k itself (k not starting with "-"/"~");
   it CARRIES k (for only-new) when stabilizing: k is in KEYWORDS; keywording: k or ~k is. *)
From Coq Require Import List NArith ZArith Bool.
Import ListNotations.
From Verif Require Import Base.Val C40.Model_C40.

(* ------------------------------------------------------------------ declarative notions *)
Definition plain (k : str) : Prop := head_in [minus; tilde] k = false.
Definition testing_on (p : pkg) (k : str) : Prop :=
  head_in [tilde] k = false /\ exists n, In (repeat tilde (S n) ++ k) (p_kws p).
Definition stable_on (p : pkg) (k : str) : Prop := plain k /\ In k (p_kws p).
Definition has_dash (k : str) : Prop := In minus k.
Definition carried (stable : bool) (p : pkg) (k : str) : Prop :=
  In k (p_kws p) \/ (stable = false /\ In (tilde :: k) (p_kws p)).

(* a stabilization candidate: what allarches may add on top of the filter *)
Definition candidate (vs : list pkg) (p : pkg) (k : str) : Prop :=
  ~ has_dash k /\ testing_on p k /\ exists other, In other vs /\ stable_on other k.

(* a spec a stabilization can act on: exact version, no slot *)
Definition actionable (r : req) : Prop := d_op r = 1%N /\ d_slot r = None.
(* the version a stabilization spec names *)
Definition names (r : req) (key : N) (p : pkg) : Prop :=
  d_key r = key /\ dep_match r p = true.

(* the clauses about one yielded request (key, p, ks) of a case *)
Section Clauses.
  Variable c : case.
  Let o := c_opts c.
  Let vs (key : N) := versions (c_repo c) key.

  Definition cl_known (y : yield) : Prop :=
    let '(_, _, ks) := y in forall k, In k ks -> In k (c_known c).
  Definition cl_cc (y : yield) : Prop :=
    let '(_, _, ks) := y in o_cc o <> [] -> forall k, In k ks -> In k (o_cc o).
  Definition cl_filter (y : yield) : Prop :=
    let '(key, p, ks) := y in
    o_filt o <> [] -> forall k, In k ks ->
      In k (o_filt o) \/ (o_allarches o = true /\ o_stable o = true /\ candidate (vs key) p k).
  Definition cl_new (y : yield) : Prop :=
    let '(_, p, ks) := y in
    o_only_new o = true -> forall k, In k ks -> ~ carried (o_stable o) p k.
  (* the package acted on is in the repository and is one a request line names; when
     stabilizing, that line is an actionable spec *)
  Definition cl_acts (y : yield) : Prop :=
    let '(key, p, _) := y in
    In p (vs key) /\
    exists r, In r (c_reqs c) /\ names r key p /\ (o_stable o = true -> actionable r).
End Clauses.

(* ------------------------------------------------------------------ comparison (B): acceptors
   evaluated in Coq on the IMPLEMENTATION's recorded result *)
Definition testing_onb (p : pkg) (k : str) : bool :=
  negb (head_in [tilde] k)
  && existsb (fun x => head_in [tilde] x && str_eqb (lstrip [tilde] x) k) (p_kws p).
Definition stable_onb (p : pkg) (k : str) : bool :=
  negb (head_in [minus; tilde] k) && mem_str k (p_kws p).
Definition candidateb (vs : list pkg) (p : pkg) (k : str) : bool :=
  no_dash k && testing_onb p k && existsb (fun o => stable_onb o k) vs.
Definition carriedb (stable : bool) (p : pkg) (k : str) : bool :=
  mem_str k (p_kws p) || (negb stable && mem_str (tilde :: k) (p_kws p)).

Definition dec_strs (v : val) : option (list str) :=
  match v with
  | VL l => fold_right (fun e acc => match e, acc with VS s, Some r => Some (s :: r) | _, _ => None end)
                       (Some []) l
  | _ => None
  end.

(* a decoded yield: key, the version (looked up by rank), arches *)
Definition dec_yield (c : case) (v : val) : option (N * pkg * list str) :=
  match v with
  | VL [VZ k; VZ r; ks] =>
      let key := Z.to_N k in
      match find (fun p => N.eqb (p_ver p) (Z.to_N r)) (versions (c_repo c) key), dec_strs ks with
      | Some p, Some l => Some (key, p, l)
      | _, _ => None
      end
  | _ => None
  end.
Definition dec_yields (c : case) (res : val) : option (list (N * pkg * list str)) :=
  match res with
  | VL [VL ys; _; _] =>
      fold_right (fun e acc => match dec_yield c e, acc with Some y, Some r => Some (y :: r) | _, _ => None end)
                 (Some []) ys
  | _ => None
  end.
Definition is_err (res : val) : bool :=
  match res with VL [_; VErr _; _] => true | _ => false end.

Definition on_yields (c : case) (res : val) (f : N * pkg * list str -> bool) : bool :=
  match dec_yields c res with Some ys => forallb f ys | None => true end.

(* every yield names an existing version that some line's spec names (actionable if stabilizing) *)
Definition spec_shape_ok (c : case) (res : val) : bool :=
  match dec_yields c res with
  | None => false
  | Some ys =>
      forallb (fun y => let '(key, p, _) := y in
                 existsb (fun r => N.eqb (d_key r) key && dep_match r p
                                   && (negb (o_stable (c_opts c)) || negb (spec_bad r)))
                         (c_reqs c)) ys
  end.
Definition spec_known_ok (c : case) (res : val) : bool :=
  on_yields c res (fun y => let '(_, _, ks) := y in forallb (fun k => mem_str k (c_known c)) ks).
Definition spec_cc_ok (c : case) (res : val) : bool :=
  let cc := o_cc (c_opts c) in
  is_nil cc || on_yields c res (fun y => let '(_, _, ks) := y in forallb (fun k => mem_str k cc) ks).
Definition spec_filter_ok (c : case) (res : val) : bool :=
  let o := c_opts c in
  is_nil (o_filt o)
  || on_yields c res (fun y => let '(key, p, ks) := y in
       forallb (fun k => mem_str k (o_filt o)
                         || (o_allarches o && o_stable o && candidateb (versions (c_repo c) key) p k)) ks).
Definition spec_new_ok (c : case) (res : val) : bool :=
  let o := c_opts c in
  negb (o_only_new o)
  || on_yields c res (fun y => let '(_, p, ks) := y in
       forallb (fun k => negb (carriedb (o_stable o) p k)) ks).
(* stabilizing and some spec is not actionable: the run ends in an exception and nothing is
   yielded for that line or a later one *)
Fixpoint first_bad (rs : list req) : option nat :=
  match rs with
  | [] => None
  | r :: rs' => if spec_bad r then Some O
                else match first_bad rs' with Some n => Some (S n) | None => None end
  end.
Definition spec_reject_ok (c : case) (res : val) : bool :=
  if o_stable (c_opts c) then
    match first_bad (c_reqs c) with
    | None => true
    | Some n => is_err res
                && match res with VL [VL ys; _; _] => Nat.leb (length ys) n | _ => false end
    end
  else true.

(* suggestions: no prefix keyword; stabilizing: testing here and stable on another version *)
Definition spec_sugg_ok (i : bool * list pkg * nat) (res : val) : bool :=
  let '(stable, vs, n) := i in
  match nth_error vs n, dec_strs res with
  | Some p, Some ks =>
      forallb (fun k =>
        no_dash k
        && (if stable
            then testing_onb p k
                 && existsb (fun o => stable_onb o k) (firstn n vs ++ skipn (S n) vs)
            else negb (carriedb false p k))) ks
  | _, _ => false
  end.
