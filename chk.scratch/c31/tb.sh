cd /verif/chk.scratch/c31
printf "export A='x y' B=1" > tc.txt
for i in $(seq 1 200); do
( read -r -N 18 __l < tc.txt; IFS=$'\0'; eval "${__l}"; printf 'C\0%s\0' $i ) </dev/null 2>>err.log
done > /dev/null
