(* GENERATED from restrictions/{values,packages,boolean}.py, ebuild/{restricts,atom}.py (__attr_comparison__ tuples, members of the hashed tuples) by harness/tables.py on every run — do not edit. *)
From Coq Require Import List ZArith NArith Bool.
Import ListNotations.
From Verif Require Import Base.Val.
Definition tbl_StrExactMatch : list str := [[101;120;97;99;116]%N; [99;97;115;101;95;115;101;110;115;105;116;105;118;101]%N; [110;101;103;97;116;101]%N].
Definition tbl_StrGlobMatch : list str := [[103;108;111;98]%N; [112;114;101;102;105;120]%N; [110;101;103;97;116;101]%N; [102;108;97;103;115]%N].
Definition tbl_StrRegex : list str := [[114;101;103;101;120]%N; [110;101;103;97;116;101]%N; [102;108;97;103;115]%N; [105;115;109;97;116;99;104]%N].
Definition tbl_ContainmentMatch : list str := [[118;97;108;115]%N; [97;108;108]%N; [110;101;103;97;116;101]%N].
Definition tbl_PackageRestriction : list str := [[95;95;99;108;97;115;115;95;95]%N; [110;101;103;97;116;101]%N; [95;97;116;116;114;95;115;112;108;105;116]%N; [114;101;115;116;114;105;99;116;105;111;110]%N].
Definition tbl_Conditional : list str := [[95;95;99;108;97;115;115;95;95]%N; [110;101;103;97;116;101]%N; [97;116;116;114]%N; [114;101;115;116;114;105;99;116;105;111;110]%N; [112;97;121;108;111;97;100]%N].
Definition tbl_boolean_base : list str := [[95;95;99;108;97;115;115;95;95]%N; [110;101;103;97;116;101]%N; [116;121;112;101]%N; [114;101;115;116;114;105;99;116;105;111;110;115]%N].
Definition tbl_atom : list str := [[99;112;118;115;116;114]%N; [111;112]%N; [98;108;111;99;107;115]%N; [110;101;103;97;116;101;95;118;101;114;115]%N; [117;115;101]%N; [115;108;111;116]%N; [115;117;98;115;108;111;116]%N; [115;108;111;116;95;111;112;101;114;97;116;111;114]%N; [114;101;112;111;95;105;100]%N].
Definition tbl_hash_VersionMatch : list str := [[100;114;111;112;114;101;118]%N; [118;101;114]%N; [114;101;118]%N; [95;99;111;110;118;101;114;116;95;111;112;115;40;41]%N].
Definition tbl_hash_PackageRestriction : list str := [[110;101;103;97;116;101]%N; [97;116;116;114;115]%N; [114;101;115;116;114;105;99;116;105;111;110]%N].
Definition tbl_hash_Conditional : list str := [[97;116;116;114]%N; [110;101;103;97;116;101]%N; [114;101;115;116;114;105;99;116;105;111;110]%N; [112;97;121;108;111;97;100]%N].
