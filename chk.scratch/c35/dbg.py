import sys, os, subprocess, signal
from harness.common import Check, cstr
from harness import c35
chk = Check("C35")
from pkgcore.ebuild import processor as P
only = sys.argv[1:] 
ss = c35.real_sessions(chk, P)
cases=[]
for name, s in ss:
    print("=====", name, "requests", s.requests, "oracle", s.oracle)
    if only and name in only:
        for k,t in s.rec.recs: print("   ", k, t[:100])
    cases.append((cstr(s.rec.encode()), True))
r = chk.coq_eval("trace", c35.IMPORTS, "str", cases, ["mismatches run_trace cases", "mismatches run_stuck cases"], shard=20)
print("coq:", r, [ss[i][0] for i in (r[0] if r else [])])
print(chk.violations[:1])
if r and r[0]:
    for i in r[0]:
        name, s = ss[i]
        print("##### rejected", name)
        for j,(k,t) in enumerate(s.rec.recs): print("   ", j, k, t[:100])
import shutil; shutil.rmtree(chk.scratch, ignore_errors=True)
