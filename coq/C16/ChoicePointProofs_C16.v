(* ChoicePointProofs_C16.v — the choice_point model refines its declarative spec: over ANY sequence of
   calls on one object, the current candidate is the first not yet discarded candidate that is viable
   under the filters accumulated so far, and its slots are the original groups minus the filtered atoms. *)
From Coq Require Import List NArith ZArith Bool Lia.
Import ListNotations.
From Verif Require Import Base.Val.
From Verif Require Import C16.ChoicePoint_C16.

Definition has_surv (f : list N) (c : clause) : bool := existsb (fun x => negb (inb x f)) c.
Definition sub (g f : list N) : Prop := forall x, inb x g = true -> inb x f = true.

Lemma keep_nil_iff f c : keep f c = [] <-> has_surv f c = false.
Proof.
  unfold keep, has_surv. induction c as [|x c IH]; cbn; [tauto|].
  destruct (negb (inb x f)); cbn; [split; discriminate | exact IH].
Qed.

Lemma filter_choices_ok f ds :
  forallb (has_surv f) ds = true -> filter_choices f ds = map (keep f) ds.
Proof.
  induction ds as [|c ds IH]; cbn; [reflexivity|]. intro H. apply andb_true_iff in H as [H1 H2].
  destruct (keep f c) as [|y l] eqn:E.
  - apply keep_nil_iff in E. congruence.
  - rewrite IH by exact H2. reflexivity.
Qed.
Lemma filter_choices_len f ds : (length (filter_choices f ds) <= length ds)%nat.
Proof. induction ds as [|c ds IH]; cbn; [lia|]. destruct (keep f c); cbn; lia. Qed.
Lemma filter_choices_short f ds :
  forallb (has_surv f) ds = false -> (length (filter_choices f ds) < length ds)%nat.
Proof.
  induction ds as [|c ds IH]; cbn; [discriminate|]. intro H.
  destruct (keep f c) as [|y l] eqn:E; cbn; [lia|].
  apply andb_false_iff in H as [H|H].
  - assert (K : keep f c = []) by (apply keep_nil_iff; exact H). congruence.
  - specialize (IH H). lia.
Qed.

Definition viable_deps (f : list N) (d : list depset) : bool := forallb (forallb (has_surv f)) d.
Lemma viable_unfold f p : viable f p = viable_deps f (pdeps p).
Proof. reflexivity. Qed.

Lemma try_all_spec f d :
  try_all f d = if viable_deps f d then Some (prune f d) else None.
Proof.
  unfold viable_deps. induction d as [|ds d IH]; cbn; [reflexivity|].
  destruct (forallb (has_surv f) ds) eqn:V; cbn.
  - rewrite (filter_choices_ok f ds V), map_length, Nat.eqb_refl, IH.
    destruct (forallb (forallb (has_surv f)) d); reflexivity.
  - pose proof (filter_choices_short f ds V) as L.
    destruct (Nat.eqb_spec (length (filter_choices f ds)) (length ds)) as [E|E]; [lia|reflexivity].
Qed.

(* filtering twice with growing filters = filtering once *)
Lemma keep_keep g f c : sub g f -> keep f (keep g c) = keep f c.
Proof.
  intro S. unfold keep. induction c as [|x c IH]; cbn; [reflexivity|].
  destruct (inb x g) eqn:G; cbn.
  - rewrite (S x G). cbn. exact IH.
  - destruct (inb x f); cbn; rewrite IH; reflexivity.
Qed.
Lemma has_surv_keep g f c : sub g f -> has_surv f (keep g c) = has_surv f c.
Proof.
  intro S. unfold has_surv, keep. induction c as [|x c IH]; cbn; [reflexivity|].
  destruct (inb x g) eqn:G; cbn.
  - rewrite (S x G). cbn. exact IH.
  - rewrite IH. reflexivity.
Qed.
Lemma prune_prune g f d : sub g f -> prune f (prune g d) = prune f d.
Proof.
  intro S. unfold prune. rewrite map_map. apply map_ext. intro ds. rewrite map_map.
  apply map_ext. intro c. apply keep_keep. exact S.
Qed.
Lemma viable_prune g f d : sub g f -> viable_deps f (prune g d) = viable_deps f d.
Proof.
  intro S. unfold viable_deps, prune. induction d as [|ds d IH]; cbn; [reflexivity|]. rewrite IH. f_equal.
  induction ds as [|c ds IH2]; cbn; [reflexivity|]. rewrite IH2, has_surv_keep by exact S. reflexivity.
Qed.
Lemma sub_nil f : sub [] f.
Proof. intros x H. discriminate. Qed.
Lemma sub_app_l g f a : sub g f -> sub g (f ++ a).
Proof.
  intros S x H. specialize (S x H). unfold inb in *. rewrite existsb_app, S. reflexivity.
Qed.
Lemma sub_refl f : sub f f.
Proof. intros x H. exact H. Qed.
Lemma keep_nil_filter c : keep [] c = c.
Proof.
  unfold keep. induction c as [|x c IH]; [reflexivity|]. cbn [filter].
  change (inb x []) with false. cbn [negb]. f_equal. exact IH.
Qed.
Lemma prune_nil d : prune [] d = d.
Proof.
  unfold prune. rewrite <- (map_id d) at 2. apply map_ext. intro ds.
  rewrite <- (map_id ds) at 2. apply map_ext. apply keep_nil_filter.
Qed.

(* [c] is candidate [o] with its slots already filtered by some earlier filters *)
Definition shadow (fl : list N) (c o : pk) : Prop :=
  pid c = pid o /\ exists g, sub g fl /\ pdeps c = prune g (pdeps o).
Lemma shadow_self fl o : shadow fl o o.
Proof. split; [reflexivity|]. exists []. split; [apply sub_nil | symmetry; apply prune_nil]. Qed.
Lemma shadow_grow fl a c o : shadow fl c o -> shadow (fl ++ a) c o.
Proof. intros [P [g [S E]]]. split; [exact P|]. exists g. split; [apply sub_app_l; exact S | exact E]. Qed.

(* the scan over (shadow of the head) :: rest finds what drop_unviable finds on the originals *)
Lemma scan_rest f r :
  match scan f r with
  | None => drop_unviable f r = []
  | Some (k, q, r') => exists o, drop_unviable f r = o :: r' /\ pid q = pid o /\ pdeps q = prune f (pdeps o)
                                 /\ (k = O <-> exists r0, r = o :: r0 /\ viable f o = true)
  end.
Proof.
  induction r as [|p r IH]; cbn; [reflexivity|].
  rewrite try_all_spec, <- viable_unfold. destruct (viable f p) eqn:V.
  - exists p. repeat split; try reflexivity. intros _. exists r. split; [reflexivity | exact V].
  - destruct (scan f r) as [[[k q] r']|]; [|exact IH].
    destruct IH as [o [D [P [E K]]]]. exists o. repeat split; try assumption; try discriminate.
    intros [r0 [X Vo]]. injection X as -> ->. congruence.
Qed.

Lemma scan_head f c o r : shadow f c o ->
  match scan f (c :: r) with
  | None => drop_unviable f (o :: r) = []
  | Some (k, q, r') => exists o', drop_unviable f (o :: r) = o' :: r' /\ pid q = pid o'
                                  /\ pdeps q = prune f (pdeps o')
  end.
Proof.
  intros [P [g [S E]]]. cbn. rewrite try_all_spec, E, viable_prune, prune_prune by exact S.
  rewrite <- viable_unfold. destruct (viable f o) eqn:V.
  - exists o. repeat split; [exact P].
  - pose proof (scan_rest f r) as H. destruct (scan f r) as [[[k q] r']|]; [|exact H].
    destruct H as [o' [D [P' [E' _]]]]. exists o'. auto.
Qed.

(* ---------------------------------------------------------------- refinement over call sequences *)
Definition R (s : st) (t : sst) : Prop :=
  flt s = sflt t /\ alive s = salive t /\
  match cur s with
  | Some c => alive s = true /\ started t = true /\ exists o, scands t = o :: rest s /\ shadow (flt s) c o
  | None => alive s = true -> (started t = false /\ scands t = rest s)
  end.

Definition cur_id (s : st) : option N := match cur s with Some c => Some (pid c) | None => None end.

Lemma R_cur s t : R s t -> cur_id s = scur t.
Proof.
  intros [F [A C]]. unfold cur_id, scur. destruct (cur s) as [c|].
  - destruct C as [A1 [S [o [E [P _]]]]]. rewrite S, <- A, A1, E. cbn. rewrite P. reflexivity.
  - destruct (alive s) eqn:Al.
    + destruct (C eq_refl) as [S _]. rewrite S. reflexivity.
    + rewrite <- A. rewrite andb_false_r. reflexivity.
Qed.

Lemma reduce_R s t a : R s t -> R (fst (reduce s a)) (sstep t (Reduce a)).
Proof.
  intros [F [A C]]. unfold reduce. cbn [sstep]. rewrite <- A, <- F.
  destruct (alive s) eqn:Al; cbn [negb]; cbv beta iota zeta.
  2:{ cbn. split; [exact F|]. split; [congruence|]. destruct (cur s); [destruct C; congruence | intro; congruence]. }
  destruct (cur s) as [c|] eqn:Cu.
  - destruct C as [_ [S [o [E Sh]]]]. rewrite E.
    pose proof (scan_head (flt s ++ a) c o (rest s) (shadow_grow _ a _ _ Sh)) as H.
    destruct (scan (flt s ++ a) (c :: rest s)) as [[[k q] r']|].
    + destruct H as [o' [D [P E']]]. rewrite D. cbn. repeat split.
      exists o'. split; [reflexivity|]. split; [exact P|]. exists (flt s ++ a). split; [apply sub_refl | exact E'].
    + rewrite H. cbn. split; [reflexivity|]. split; [reflexivity|]. intro X; discriminate X.
  - destruct (C eq_refl) as [S E]. rewrite E.
    pose proof (scan_rest (flt s ++ a) (rest s)) as H.
    destruct (scan (flt s ++ a) (rest s)) as [[[k q] r']|].
    + destruct H as [o' [D [P [E' _]]]]. rewrite D. cbn. repeat split.
      exists o'. split; [reflexivity|]. split; [exact P|]. exists (flt s ++ a). split; [apply sub_refl | exact E'].
    + rewrite H. cbn. split; [reflexivity|]. split; [reflexivity|]. intro X; discriminate X.
Qed.

Lemma step_R s t o : R s t -> R (fst (step s o)) (sstep t o).
Proof.
  intro H. destruct o as [a| | |].
  - apply reduce_R. exact H.
  - (* force_next_pkg *)
    destruct H as [F [A C]]. cbn [step sstep]. rewrite <- A.
    destruct (alive s) eqn:Al; cbn [negb].
    2:{ cbn. split; [exact F|]. split; [congruence|]. destruct (cur s); [destruct C; congruence | intro; congruence]. }
    assert (L : (if started t then tl (scands t) else scands t) = rest s).
    { destruct (cur s) as [c|].
      - destruct C as [_ [S [o [E _]]]]. rewrite S, E. reflexivity.
      - destruct (C eq_refl) as [S E]. rewrite S. exact E. }
    rewrite L. destruct (rest s) as [|p r] eqn:Re.
    + cbn. split; [exact F|]. split; [reflexivity|]. intro X; discriminate X.
    + (* reduce_atoms([]) on the freshly pulled candidate *)
      unfold reduce. cbn [alive negb flt cur rest]. rewrite app_nil_r.
      pose proof (scan_head (flt s) p p r (shadow_self _ p)) as H.
      rewrite <- F. cbv beta iota zeta.
      destruct (scan (flt s) (p :: r)) as [[[k q] r']|].
      * destruct H as [o' [D [P E']]]. rewrite D. cbn. repeat split.
        exists o'. split; [reflexivity|]. split; [exact P|]. exists (flt s). split; [apply sub_refl | exact E'].
      * rewrite H. cbn. split; [reflexivity|]. split; [reflexivity|]. intro X; discriminate X.
  - (* current_pkg *)
    destruct H as [F [A C]]. cbn [step sstep]. rewrite <- A.
    destruct (cur s) as [c|] eqn:Cu.
    + destruct C as [A1 [S X]]. rewrite S. cbn. repeat split; try assumption. rewrite Cu. auto.
    + destruct (alive s) eqn:Al; cbn [negb].
      * destruct (C eq_refl) as [S E]. rewrite S, E. cbn. destruct (rest s) as [|p r] eqn:Re; cbn.
        -- split; [exact F|]. split; [reflexivity|]. intro X; discriminate X.
        -- rewrite <- F. repeat split. exists p. split; [reflexivity | apply shadow_self].
      * rewrite orb_true_r. cbn. split; [exact F|]. split; [congruence|]. rewrite Cu. intro; congruence.
  - (* bool *)
    destruct H as [F [A C]]. cbn [step sstep]. rewrite <- A.
    destruct (cur s) as [c|] eqn:Cu.
    + destruct C as [A1 [S X]]. rewrite S. cbn. repeat split; try assumption. rewrite Cu. auto.
    + destruct (alive s) eqn:Al; cbn [negb].
      * destruct (C eq_refl) as [S E]. rewrite S, E. cbn. destruct (rest s) as [|p r] eqn:Re; cbn.
        -- split; [exact F|]. split; [reflexivity|]. intro X; discriminate X.
        -- rewrite <- F. repeat split. exists p. split; [reflexivity | apply shadow_self].
      * rewrite orb_true_r. cbn. split; [exact F|]. split; [congruence|]. rewrite Cu. intro; congruence.
Qed.

Fixpoint run_ids (s : st) (ops : list op) : list (option N) :=
  match ops with
  | [] => []
  | o :: ops' => let s' := fst (step s o) in cur_id s' :: run_ids s' ops'
  end.

Lemma run_refines s t ops : R s t -> run_ids s ops = srun t ops.
Proof.
  revert s t. induction ops as [|o ops IH]; intros s t H; cbn; [reflexivity|].
  pose proof (step_R s t o H) as H'. rewrite (R_cur _ _ H'). f_equal. apply IH. exact H'.
Qed.

Theorem choice_point_refines_spec_proof : forall ps ops,
  run_ids (init ps) ops = srun (mksst ps false true []) ops.
Proof.
  intros ps ops. apply run_refines. cbn. repeat split.
Qed.

(* the single step the resolver relies on, spelled out: reduce_atoms on a live object whose current
   candidate is (a filtered shadow of) o keeps/advances to the first viable candidate of o :: rest *)
Theorem reduce_selects_first_viable_proof : forall r c o f a,
  shadow f c o ->
  match drop_unviable (f ++ a) (o :: r) with
  | [] => cur (fst (reduce (mkst r (Some c) true f) a)) = None
          /\ alive (fst (reduce (mkst r (Some c) true f) a)) = false
  | o' :: r' => exists q, cur (fst (reduce (mkst r (Some c) true f) a)) = Some q
                          /\ rest (fst (reduce (mkst r (Some c) true f) a)) = r'
                          /\ pid q = pid o' /\ pdeps q = prune (f ++ a) (pdeps o')
  end.
Proof.
  intros r c o f a Sh. unfold reduce. cbn [alive negb cur rest flt].
  pose proof (scan_head (f ++ a) c o r (shadow_grow _ a _ _ Sh)) as H.
  destruct (scan (f ++ a) (c :: r)) as [[[k q] r']|].
  - destruct H as [o' [D [P E]]]. rewrite D. cbn. exists q. auto.
  - rewrite H. cbn. auto.
Qed.

(* non-vacuity: the shape of the round-4 defect.  candidate 0: RDEPEND "|| ( a0 a1 ) a1", candidate 1: none.
   after reduce_atoms(a0) candidate 0 is still current, with both groups reduced to [a1] *)
Definition ex_c0 : pk := mkpk 0 [[]; []; [[0;1]%N; [1]%N]; []; []].
Definition ex_c1 : pk := mkpk 1 [[]; []; []; []; []].
Example ex_collapse :
  run_cp ([ex_c0; ex_c1], [Cur; Reduce [0%N]])
  = VL [VL [VZ 0; VZ 0; enc_deps (pdeps ex_c0)];
        VL [VB false; VZ 0; enc_deps [[]; []; [[1%N]; [1%N]]; []; []]]].
Proof. vm_compute. reflexivity. Qed.
