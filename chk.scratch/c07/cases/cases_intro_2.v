From Coq Require Import List NArith ZArith Bool.
From Verif Require Import Base.Val C06.Restr C07.Model_C07 C07.Spec_C07.
Import ListNotations.

Definition cases : list ((restr * restr) * val) := 
[
  (((mk_regex [68;101;118]%N false true false false), (RRegex [68;101;118]%N false true true false)),
   (VB true));
  (((mk_regex [68;101;118]%N false false false false), (RRegex [68;101;118]%N false true false false)),
   (VB true));
  (((mk_exact [100;101;118;45;108;105;98;115]%N false true false), (RExact [100;101;118;45;108;105;98;115]%N false true false)),
   (VB true));
  (((RNode KAnd 1%N false [(RCont [[119]%N] true true); (RCont [[120]%N; [122]%N] true false)]), (RNode KAnd 1%N false [(RCont [[119]%N] true true); (RCont [[120]%N; [122]%N] true false)])),
   (VB true));
  (((match mk_versionmatch [60]%N [49;46;48;48]%N (Some 0%N) false with Some r => r | None => RAlways 0 false end), (RAttr 1%N false [[102;117;108;108;118;101;114]%N] (RVer false [49;46;48;48]%N (Some 0%N) false [(-1)%Z]))),
   (VB true));
  (((RMulti 8 false [[[105;117;115;101;95;115;116;114;105;112;112;101;100]%N]; [[117;115;101]%N]] (RUdc true [[120]%N; [122]%N; [119]%N] false)), (RMulti 8%N false [[[105;117;115;101;95;115;116;114;105;112;112;101;100]%N]; [[117;115;101]%N]] (RUdc true [[119]%N; [120]%N; [122]%N] false))),
   (VB true));
  (((RMulti 8 true [[[105;117;115;101;95;115;116;114;105;112;112;101;100]%N]; [[117;115;101]%N]] (RUdc true [[120]%N; [122]%N; [119]%N] false)), (RMulti 8%N true [[[105;117;115;101;95;115;116;114;105;112;112;101;100]%N]; [[117;115;101]%N]] (RUdc true [[119]%N; [120]%N; [122]%N] false))),
   (VB true));
  (((RAttr 0 true [[110;111;115;117;99;104]%N] (mk_exact [65;98]%N true false true)), (RAttr 0%N true [[110;111;115;117;99;104]%N] (RExact [65;98]%N true false true))),
   (VB true));
  (((RAttr 0 false [[102;117;108;108;118;101;114]%N] (mk_regex [65]%N false false true true)), (RAttr 0%N false [[102;117;108;108;118;101;114]%N] (RRegex [65]%N true true false true))),
   (VB true));
  (((RAttr 0 false [[102;117;108;108;118;101;114]%N] (mk_regex [65]%N false true true true)), (RAttr 0%N false [[102;117;108;108;118;101;114]%N] (RRegex [65]%N true true true true))),
   (VB true));
  (((RVer false [49;46;48]%N (Some 1%N) true [(-1)%Z; 0%Z]), (RVer false [49;46;48]%N (Some 1%N) true [(-1)%Z; 0%Z])),
   (VB true));
  (((mk_usedepdefault false [[119]%N; [120]%N] [[122]%N]), (RMulti 9%N false [[[105;117;115;101;95;115;116;114;105;112;112;101;100]%N]; [[117;115;101]%N]] (RNode KAnd 1%N false [(RUdc false [[119]%N; [120]%N] true); (RUdc false [[122]%N] false)]))),
   (VB true));
  (((mk_usedepdefault true [[119]%N; [120]%N] [[122]%N]), (RMulti 9%N false [[[105;117;115;101;95;115;116;114;105;112;112;101;100]%N]; [[117;115;101]%N]] (RNode KAnd 1%N false [(RUdc true [[119]%N; [120]%N] true); (RUdc true [[122]%N] false)]))),
   (VB true));
  (((RAttr 0 true [[102;117;108;108;118;101;114]%N] (mk_exact [97;98]%N true false true)), (RAttr 0%N true [[102;117;108;108;118;101;114]%N] (RExact [97;98]%N true false true))),
   (VB true));
  (((RAttr 0 false [[102;117;108;108;118;101;114]%N] (mk_exact [97;98]%N true true true)), (RAttr 0%N false [[102;117;108;108;118;101;114]%N] (RExact [97;98]%N true true true))),
   (VB true));
  (((RVer false [49;46;53]%N (@None (N)) true [0%Z]), (RVer false [49;46;53]%N (@None (N)) true [0%Z])),
   (VB true));
  (((RVer false [49;46;53]%N (@None (N)) false [0%Z]), (RVer false [49;46;53]%N (@None (N)) false [0%Z])),
   (VB true));
  (((RVer false [49;46;53]%N (Some 1%N) false [0%Z; 1%Z]), (RVer false [49;46;53]%N (Some 1%N) false [0%Z; 1%Z])),
   (VB true));
  (((mk_exact [102;111;111]%N false true false), (RExact [102;111;111]%N false true false)),
   (VB true));
  (((RAttr 0 false [[114;101;112;111]%N; [114;101;112;111;95;105;100]%N] (RNode KOr 1%N false (@nil (restr)))), (RAttr 0%N false [[114;101;112;111]%N; [114;101;112;111;95;105;100]%N] (RNode KOr 1%N false (@nil (restr))))),
   (VB true));
  (((RAttr 0 true [[110;111;115;117;99;104]%N] (mk_glob [70;79]%N false true false true)), (RAttr 0%N true [[110;111;115;117;99;104]%N] (RGlob [102;111]%N true false true true))),
   (VB true));
  (((RAttr 0 false [[110;111;115;117;99;104]%N] (mk_glob [70;79]%N false false true true)), (RAttr 0%N false [[110;111;115;117;99;104]%N] (RGlob [102;111]%N false true true true))),
   (VB true));
  (((mk_glob [97]%N true false false false), (RGlob [97]%N false false false false)),
   (VB true));
  (((mk_glob [97]%N false false false false), (RGlob [97]%N false false true false)),
   (VB true));
  (((RCont [[121]%N; [119]%N; [122]%N] true true), (RCont [[119]%N; [121]%N; [122]%N] true true)),
   (VB true));
  (((RCont [[121]%N; [119]%N; [122]%N] false true), (RCont [[119]%N; [121]%N; [122]%N] false true)),
   (VB true));
  (((RVer false [50]%N (@None (N)) false [0%Z; 1%Z]), (RVer false [50]%N (@None (N)) false [0%Z; 1%Z])),
   (VB true));
  (((RVer false [49;46;53]%N (Some 2%N) false [0%Z; 1%Z]), (RVer false [49;46;53]%N (Some 2%N) false [0%Z; 1%Z])),
   (VB true));
  (((mk_glob [100;101;118]%N true true false false), (RGlob [100;101;118]%N true false false false)),
   (VB true));
  (((RNode KAnd 1%N false [(mk_regex [65]%N false true false true); (mk_regex [100;101;118]%N true false false true); (mk_exact [100;101;118;45;108;105;98;115]%N true false true)]), (RNode KAnd 1%N false [(RRegex [65]%N false true true true); (RRegex [100;101;118]%N false false false true); (RExact [100;101;118;45;108;105;98;115]%N true false true)])),
   (VB true));
  (((RNode KOr 1%N false [(mk_regex [65]%N false true false true); (mk_regex [100;101;118]%N true false false true); (mk_exact [100;101;118;45;108;105;98;115]%N true false true)]), (RNode KOr 1%N false [(RRegex [65]%N false true true true); (RRegex [100;101;118]%N false false false true); (RExact [100;101;118;45;108;105;98;115]%N true false true)])),
   (VB true));
  (((RAttr 0 true [[115;108;111;116]%N] (RNode KAnd 1%N false [(mk_exact [48]%N true true true); (mk_exact [97;98]%N true false true)])), (RAttr 0%N true [[115;108;111;116]%N] (RNode KAnd 1%N false [(RExact [48]%N true true true); (RExact [97;98]%N true false true)]))),
   (VB true));
  (((mk_packagedep [98]%N false false), (RAttr 5%N false [[112;97;99;107;97;103;101]%N] (RExact [98]%N true false false))),
   (VB true));
  (((RMulti 8 false [[[105;117;115;101;95;115;116;114;105;112;112;101;100]%N]; [[117;115;101]%N]] (RNode KAnd 1%N true [(RUdc true [[120]%N] false); (RNode KOr 1%N false [(RUdc true [[120]%N; [122]%N] true)])])), (RMulti 8%N false [[[105;117;115;101;95;115;116;114;105;112;112;101;100]%N]; [[117;115;101]%N]] (RNode KAnd 1%N true [(RUdc true [[120]%N] false); (RNode KOr 1%N false [(RUdc true [[120]%N; [122]%N] true)])]))),
   (VB true));
  (((RVer false [48;46;57]%N (Some 1%N) true [(-1)%Z; 0%Z]), (RVer false [48;46;57]%N (Some 1%N) true [(-1)%Z; 0%Z])),
   (VB true));
  (((RVer false [48;46;57]%N (Some 1%N) false [1%Z]), (RVer false [48;46;57]%N (Some 1%N) false [1%Z])),
   (VB true));
  (((mk_exact [97;98]%N true false false), (RExact [97;98]%N true false false)),
   (VB true));
  (((mk_exact [65;66]%N true false false), (RExact [65;66]%N true false false)),
   (VB true));
  (((RNegate 20%N (mk_slotdep [49]%N true false)), (RNegate 20%N (RAttr 2%N true [[115;108;111;116]%N] (RExact [49]%N true false false)))),
   (VB true));
  (((RNegate 21%N (RAttr 0 true [[115;108;111;116]%N] (mk_exact [49]%N true false true))), (RNegate 21%N (RAttr 0%N true [[115;108;111;116]%N] (RExact [49]%N true false true)))),
   (VB true));
  (((mk_glob [65]%N false false true false), (RGlob [97]%N false true true false)),
   (VB true));
  (((RVer false [49;46;48;48]%N (Some 0%N) false [1%Z]), (RVer false [49;46;48;48]%N (Some 0%N) false [1%Z])),
   (VB true));
  (((RVer false [49;46;48;48]%N (Some 0%N) true [1%Z]), (RVer false [49;46;48;48]%N (Some 0%N) true [1%Z])),
   (VB true));
  (((RCont [[119]%N] true false), (RCont [[119]%N] true false)),
   (VB true));
  (((RCont [[119]%N; [119]%N] true false), (RCont [[119]%N] true false)),
   (VB true));
  (((mk_usedepdefault false [[119]%N; [122]%N] [[120]%N]), (RMulti 9%N false [[[105;117;115;101;95;115;116;114;105;112;112;101;100]%N]; [[117;115;101]%N]] (RNode KAnd 1%N false [(RUdc false [[119]%N; [122]%N] true); (RUdc false [[120]%N] false)]))),
   (VB true));
  (((match mk_versionmatch [61]%N [49;46;48;48]%N (@None (N)) false with Some r => r | None => RAlways 0 false end), (RAttr 1%N false [[102;117;108;108;118;101;114]%N] (RVer false [49;46;48;48]%N (@None (N)) false [0%Z]))),
   (VB true));
  (((match mk_versionmatch [61]%N [49;46;48;48]%N (Some 0%N) false with Some r => r | None => RAlways 0 false end), (RAttr 1%N false [[102;117;108;108;118;101;114]%N] (RVer false [49;46;48;48]%N (Some 0%N) false [0%Z]))),
   (VB true));
  (((RAlways 22%N true), (RAlways 22%N true)),
   (VB true));
  (((RAlways 23%N false), (RAlways 23%N false)),
   (VB true));
  (((mk_staticusedep (@nil (str)) [[121]%N]), (RAttr 7%N false [[117;115;101]%N] (RCont [[121]%N] true false))),
   (VB true));
  (((mk_glob [68;101;118]%N false true false false), (RGlob [100;101;118]%N true false true false)),
   (VB true));
  (((RVer false [49;46;48;48]%N (Some 0%N) false [0%Z; 1%Z]), (RVer false [49;46;48;48]%N (Some 0%N) false [0%Z; 1%Z])),
   (VB true));
  (((RCont [[121]%N] false false), (RCont [[121]%N] false false)),
   (VB true));
  (((RNode KAnd 1%N true [(RCont [[120]%N; [119]%N; [121]%N] false false); (RCont [[120]%N] true false)]), (RNode KAnd 1%N true [(RCont [[119]%N; [120]%N; [121]%N] false false); (RCont [[120]%N] true false)])),
   (VB true));
  (((RNode KAnd 1%N true [(RCont [[120]%N; [119]%N; [121]%N] false false); (RCont [[120]%N] true false); (RCont [[120]%N; [119]%N; [121]%N] false false)]), (RNode KAnd 1%N true [(RCont [[119]%N; [120]%N; [121]%N] false false); (RCont [[120]%N] true false); (RCont [[119]%N; [120]%N; [121]%N] false false)])),
   (VB true));
  (((match mk_versionmatch [60;61]%N [49;46;53]%N (Some 2%N) true with Some r => r | None => RAlways 0 false end), (RAttr 1%N true [[102;117;108;108;118;101;114]%N] (RVer false [49;46;53]%N (Some 2%N) true [(-1)%Z; 0%Z]))),
   (VB true));
  (((match mk_versionmatch [60;61]%N [49;46;53]%N (@None (N)) true with Some r => r | None => RAlways 0 false end), (RAttr 1%N true [[102;117;108;108;118;101;114]%N] (RVer false [49;46;53]%N (@None (N)) true [(-1)%Z; 0%Z]))),
   (VB true));
  (((RVer false [49;46;53]%N (@None (N)) true [(-1)%Z; 0%Z]), (RVer false [49;46;53]%N (@None (N)) true [(-1)%Z; 0%Z])),
   (VB true));
  (((RVer false [49;46;53]%N (Some 0%N) true [(-1)%Z; 0%Z]), (RVer false [49;46;53]%N (Some 0%N) true [(-1)%Z; 0%Z])),
   (VB true));
  (((match mk_versionmatch [62;61]%N [49;46;48;48]%N (Some 2%N) true with Some r => r | None => RAlways 0 false end), (RAttr 1%N true [[102;117;108;108;118;101;114]%N] (RVer false [49;46;48;48]%N (Some 2%N) true [0%Z; 1%Z]))),
   (VB true));
  (((match mk_versionmatch [60]%N [49;46;48;48]%N (Some 2%N) false with Some r => r | None => RAlways 0 false end), (RAttr 1%N false [[102;117;108;108;118;101;114]%N] (RVer false [49;46;48;48]%N (Some 2%N) false [(-1)%Z]))),
   (VB true));
  (((match mk_versionmatch [60]%N [49;46;48;95;114;99;49]%N (Some 1%N) true with Some r => r | None => RAlways 0 false end), (RAttr 1%N true [[102;117;108;108;118;101;114]%N] (RVer false [49;46;48;95;114;99;49]%N (Some 1%N) true [(-1)%Z]))),
   (VB true));
  (((match mk_versionmatch [62;61]%N [49;46;48;95;114;99;49]%N (Some 1%N) false with Some r => r | None => RAlways 0 false end), (RAttr 1%N false [[102;117;108;108;118;101;114]%N] (RVer false [49;46;48;95;114;99;49]%N (Some 1%N) false [0%Z; 1%Z]))),
   (VB true));
  (((mk_staticusedep (@nil (str)) [[119]%N; [121]%N]), (RAttr 7%N false [[117;115;101]%N] (RCont [[119]%N; [121]%N] true false))),
   (VB true));
  (((RNode KOr 2%N false (@nil (restr))), (RNode KOr 2%N false (@nil (restr)))),
   (VB true));
  (((RCont [[122]%N] true true), (RCont [[122]%N] true true)),
   (VB true));
  (((RAttr 0 true [[114;101;112;111]%N; [114;101;112;111;95;105;100]%N] (mk_regex [102;111]%N false false false true)), (RAttr 0%N true [[114;101;112;111]%N; [114;101;112;111;95;105;100]%N] (RRegex [102;111]%N false true false true))),
   (VB true));
  (((RAttr 0 true [[114;101;112;111]%N; [114;101;112;111;95;105;100]%N] (mk_regex [102;79]%N false false false true)), (RAttr 0%N true [[114;101;112;111]%N; [114;101;112;111;95;105;100]%N] (RRegex [102;79]%N false true false true))),
   (VB true));
  (((RNegate 24%N (mk_usedepdefault true [[122]%N] [[120]%N; [119]%N])), (RNegate 24%N (RMulti 9%N false [[[105;117;115;101;95;115;116;114;105;112;112;101;100]%N]; [[117;115;101]%N]] (RNode KAnd 1%N false [(RUdc true [[122]%N] true); (RUdc true [[119]%N; [120]%N] false)])))),
   (VB true));
  (((RNegate 25%N (mk_usedepdefault false [[122]%N] [[120]%N; [119]%N])), (RNegate 25%N (RMulti 9%N false [[[105;117;115;101;95;115;116;114;105;112;112;101;100]%N]; [[117;115;101]%N]] (RNode KAnd 1%N false [(RUdc false [[122]%N] true); (RUdc false [[119]%N; [120]%N] false)])))),
   (VB true));
  (((RAttr 0 true [[115;108;111;116]%N] (mk_regex [97;98]%N false false true true)), (RAttr 0%N true [[115;108;111;116]%N] (RRegex [97;98]%N true true false true))),
   (VB true));
  (((RAttr 0 false [[115;108;111;116]%N] (mk_regex [97;98]%N false false false true)), (RAttr 0%N false [[115;108;111;116]%N] (RRegex [97;98]%N false true false true))),
   (VB true));
  (((RVer false [49;46;53]%N (Some 2%N) false [(-1)%Z]), (RVer false [49;46;53]%N (Some 2%N) false [(-1)%Z])),
   (VB true));
  (((RVer false [49;46;53]%N (Some 2%N) true [(-1)%Z]), (RVer false [49;46;53]%N (Some 2%N) true [(-1)%Z])),
   (VB true));
  (((mk_regex [65;98]%N false true false false), (RRegex [65;98]%N false true true false)),
   (VB true));
  (((mk_exact [65]%N true false false), (RExact [65]%N true false false)),
   (VB true));
  (((mk_exact [65]%N true true false), (RExact [65]%N true true false)),
   (VB true));
  (((RCond true [[117;115;101]%N] (RCont [[119]%N] false false) [(RNode KAnd 2%N false (@nil (restr)))]), (RCond true [[117;115;101]%N] (RCont [[119]%N] false false) [(RNode KAnd 2%N false (@nil (restr)))])),
   (VB true));
  (((RVer false [49]%N (@None (N)) false [0%Z]), (RVer false [49]%N (@None (N)) false [0%Z])),
   (VB true));
  (((RNode KJustOne 2%N false [(RAttr 0 false [[117;115;101]%N] (RCont [[121]%N; [119]%N] true false)); (RAttr 0 false [[117;115;101]%N] (RCont [[121]%N; [122]%N; [120]%N] false true)); (RNegate 26%N (mk_slotdep [49]%N false false))]), (RNode KJustOne 2%N false [(RAttr 0%N false [[117;115;101]%N] (RCont [[119]%N; [121]%N] true false)); (RAttr 0%N false [[117;115;101]%N] (RCont [[120]%N; [121]%N; [122]%N] false true)); (RNegate 26%N (RAttr 2%N false [[115;108;111;116]%N] (RExact [49]%N true false false)))])),
   (VB true));
  (((RNode KJustOne 2%N false [(RAttr 0 false [[117;115;101]%N] (RCont [[121]%N; [119]%N] true false)); (RAttr 0 false [[117;115;101]%N] (RCont [[121]%N; [122]%N; [120]%N] false true)); (RNegate 27%N (mk_slotdep [49]%N false false))]), (RNode KJustOne 2%N false [(RAttr 0%N false [[117;115;101]%N] (RCont [[119]%N; [121]%N] true false)); (RAttr 0%N false [[117;115;101]%N] (RCont [[120]%N; [121]%N; [122]%N] false true)); (RNegate 27%N (RAttr 2%N false [[115;108;111;116]%N] (RExact [49]%N true false false)))])),
   (VB true));
  (((RDepSet [(RAtom {| a_text := [100;101;118;45;108;105;98;115;47;102;111;111;58;48]%N; a_cpvstr := [100;101;118;45;108;105;98;115;47;102;111;111]%N; a_op := (@nil N); a_blocks := false; a_strong := false; a_negate_vers := false; a_use := (@None (list str)); a_slot := (Some [48]%N); a_subslot := (@None (str)); a_slotop := (@None (str)); a_repo := (@None (str)); a_cat := [100;101;118;45;108;105;98;115]%N; a_pkg := [102;111;111]%N; a_fullver := (@None (str)); a_ver := (@None (str)); a_rev := (@None (N)) |}); (RAtom {| a_text := [62;61;97;47;98;45;49;46;48]%N; a_cpvstr := [97;47;98;45;49;46;48]%N; a_op := [62;61]%N; a_blocks := false; a_strong := false; a_negate_vers := false; a_use := (@None (list str)); a_slot := (@None (str)); a_subslot := (@None (str)); a_slotop := (@None (str)); a_repo := (@None (str)); a_cat := [97]%N; a_pkg := [98]%N; a_fullver := (Some [49;46;48]%N); a_ver := (Some [49;46;48]%N); a_rev := (@None (N)) |})]), (RDepSet [(RAtom {| a_text := [100;101;118;45;108;105;98;115;47;102;111;111;58;48]%N; a_cpvstr := [100;101;118;45;108;105;98;115;47;102;111;111]%N; a_op := (@nil N); a_blocks := false; a_strong := false; a_negate_vers := false; a_use := (@None (list str)); a_slot := (Some [48]%N); a_subslot := (@None (str)); a_slotop := (@None (str)); a_repo := (@None (str)); a_cat := [100;101;118;45;108;105;98;115]%N; a_pkg := [102;111;111]%N; a_fullver := (@None (str)); a_ver := (@None (str)); a_rev := (@None (N)) |}); (RAtom {| a_text := [62;61;97;47;98;45;49;46;48]%N; a_cpvstr := [97;47;98;45;49;46;48]%N; a_op := [62;61]%N; a_blocks := false; a_strong := false; a_negate_vers := false; a_use := (@None (list str)); a_slot := (@None (str)); a_subslot := (@None (str)); a_slotop := (@None (str)); a_repo := (@None (str)); a_cat := [97]%N; a_pkg := [98]%N; a_fullver := (Some [49;46;48]%N); a_ver := (Some [49;46;48]%N); a_rev := (@None (N)) |})])),
   (VB true));
  (((mk_staticusedep [[119]%N] [[120]%N]), (RAttr 7%N false [[117;115;101]%N] (RNode KAnd 1%N false [(RCont [[119]%N] true true); (RCont [[120]%N] true false)]))),
   (VB true));
  (((mk_staticusedep [[119]%N; [119]%N] [[120]%N]), (RAttr 7%N false [[117;115;101]%N] (RNode KAnd 1%N false [(RCont [[119]%N] true true); (RCont [[120]%N] true false)]))),
   (VB true));
  (((RAtom {| a_text := [61;97;47;98;45;49;46;48;45;114;49]%N; a_cpvstr := [97;47;98;45;49;46;48;45;114;49]%N; a_op := [61]%N; a_blocks := false; a_strong := false; a_negate_vers := false; a_use := (@None (list str)); a_slot := (@None (str)); a_subslot := (@None (str)); a_slotop := (@None (str)); a_repo := (@None (str)); a_cat := [97]%N; a_pkg := [98]%N; a_fullver := (Some [49;46;48;45;114;49]%N); a_ver := (Some [49;46;48]%N); a_rev := (Some 1%N) |}), (RAtom {| a_text := [61;97;47;98;45;49;46;48;45;114;49]%N; a_cpvstr := [97;47;98;45;49;46;48;45;114;49]%N; a_op := [61]%N; a_blocks := false; a_strong := false; a_negate_vers := false; a_use := (@None (list str)); a_slot := (@None (str)); a_subslot := (@None (str)); a_slotop := (@None (str)); a_repo := (@None (str)); a_cat := [97]%N; a_pkg := [98]%N; a_fullver := (Some [49;46;48;45;114;49]%N); a_ver := (Some [49;46;48]%N); a_rev := (Some 1%N) |})),
   (VB true));
  (((RAtom {| a_text := [33;33;61;97;47;98;45;49;46;48;45;114;49]%N; a_cpvstr := [97;47;98;45;49;46;48;45;114;49]%N; a_op := [61]%N; a_blocks := true; a_strong := true; a_negate_vers := false; a_use := (@None (list str)); a_slot := (@None (str)); a_subslot := (@None (str)); a_slotop := (@None (str)); a_repo := (@None (str)); a_cat := [97]%N; a_pkg := [98]%N; a_fullver := (Some [49;46;48;45;114;49]%N); a_ver := (Some [49;46;48]%N); a_rev := (Some 1%N) |}), (RAtom {| a_text := [33;33;61;97;47;98;45;49;46;48;45;114;49]%N; a_cpvstr := [97;47;98;45;49;46;48;45;114;49]%N; a_op := [61]%N; a_blocks := true; a_strong := true; a_negate_vers := false; a_use := (@None (list str)); a_slot := (@None (str)); a_subslot := (@None (str)); a_slotop := (@None (str)); a_repo := (@None (str)); a_cat := [97]%N; a_pkg := [98]%N; a_fullver := (Some [49;46;48;45;114;49]%N); a_ver := (Some [49;46;48]%N); a_rev := (Some 1%N) |})),
   (VB true));
  (((RVer true [48;46;57]%N (@None (N)) false [0%Z]), (RVer true [48;46;57]%N (@None (N)) false [0%Z])),
   (VB true));
  (((RVer true [50]%N (Some 0%N) true [0%Z]), (RVer true [50]%N (Some 0%N) true [0%Z])),
   (VB true));
  (((RUdc true [[121]%N; [120]%N; [119]%N] false), (RUdc true [[119]%N; [120]%N; [121]%N] false)),
   (VB true));
  (((RAttr 0 true [[114;101;112;111]%N; [114;101;112;111;95;105;100]%N] (mk_exact [111;116;104;101;114]%N true false true)), (RAttr 0%N true [[114;101;112;111]%N; [114;101;112;111;95;105;100]%N] (RExact [111;116;104;101;114]%N true false true))),
   (VB true));
  (((mk_glob [70;79;111]%N false true false false), (RGlob [102;111;111]%N true false true false)),
   (VB true));
  (((RVer false [49;46;48;48]%N (Some 2%N) true [0%Z]), (RVer false [49;46;48;48]%N (Some 2%N) true [0%Z])),
   (VB true));
  (((RVer false [49;46;48;48]%N (Some 2%N) false [0%Z]), (RVer false [49;46;48;48]%N (Some 2%N) false [0%Z])),
   (VB true));
  (((mk_exact [70;79;79]%N true false false), (RExact [70;79;79]%N true false false)),
   (VB true));
  (((mk_glob [70;79;79]%N true true false false), (RGlob [70;79;79]%N true false false false)),
   (VB true));
  (((RAttr 0 false [[110;111;115;117;99;104]%N] (mk_exact [98]%N false false true)), (RAttr 0%N false [[110;111;115;117;99;104]%N] (RExact [98]%N false false true))),
   (VB true));
  (((RAttr 0 true [[110;111;115;117;99;104]%N] (mk_exact [98]%N false false true)), (RAttr 0%N true [[110;111;115;117;99;104]%N] (RExact [98]%N false false true))),
   (VB true));
  (((mk_exact [66]%N false false false), (RExact [98]%N false false false)),
   (VB true));
  (((mk_usedepdefault false [[120]%N] [[122]%N]), (RMulti 9%N false [[[105;117;115;101;95;115;116;114;105;112;112;101;100]%N]; [[117;115;101]%N]] (RNode KAnd 1%N false [(RUdc false [[120]%N] true); (RUdc false [[122]%N] false)]))),
   (VB true));
  (((RVer false [49;48]%N (Some 2%N) false [(-1)%Z]), (RVer false [49;48]%N (Some 2%N) false [(-1)%Z])),
   (VB true));
  (((RVer false [49;48]%N (Some 2%N) true [0%Z; 1%Z]), (RVer false [49;48]%N (Some 2%N) true [0%Z; 1%Z])),
   (VB true));
  (((RCond false [[117;115;101]%N] (RCont [[121]%N] false false) [(mk_packagedep [102;111;111]%N false true)]), (RCond false [[117;115;101]%N] (RCont [[121]%N] false false) [(RAttr 5%N false [[112;97;99;107;97;103;101]%N] (RExact [102;111;111]%N true false true))])),
   (VB true));
  (((RCond false [[117;115;101]%N] (RCont [[121]%N] false false) [(RAttr 0 false [[112;97;99;107;97;103;101]%N] (mk_exact [102;111;111]%N true false true))]), (RCond false [[117;115;101]%N] (RCont [[121]%N] false false) [(RAttr 0%N false [[112;97;99;107;97;103;101]%N] (RExact [102;111;111]%N true false true))])),
   (VB true));
  (((RAttr 0 true [[110;111;115;117;99;104]%N] (mk_exact [68;101;118;45;76;105;98;115]%N true false true)), (RAttr 0%N true [[110;111;115;117;99;104]%N] (RExact [68;101;118;45;76;105;98;115]%N true false true))),
   (VB true));
  (((RAttr 0 false [[110;111;115;117;99;104]%N] (mk_exact [68;101;118;45;76;105;98;115]%N true true true)), (RAttr 0%N false [[110;111;115;117;99;104]%N] (RExact [68;101;118;45;76;105;98;115]%N true true true))),
   (VB true));
  (((RVer false [49;48]%N (Some 0%N) false [1%Z]), (RVer false [49;48]%N (Some 0%N) false [1%Z])),
   (VB true));
  (((RNode KAnd 1%N false [(RNode KAnd 1%N false [(RNode KOr 1%N false [(RUdc false [[119]%N] true); (RUdc true [[120]%N; [119]%N] true)]); (RUdc true [[122]%N] false)])]), (RNode KAnd 1%N false [(RNode KAnd 1%N false [(RNode KOr 1%N false [(RUdc false [[119]%N] true); (RUdc true [[119]%N; [120]%N] true)]); (RUdc true [[122]%N] false)])])),
   (VB true));
  (((RAttr 0 false [[102;117;108;108;118;101;114]%N] (mk_exact [70;111;111]%N true false true)), (RAttr 0%N false [[102;117;108;108;118;101;114]%N] (RExact [70;111;111]%N true false true))),
   (VB true));
  (((RAttr 0 false [[99;97;116;101;103;111;114;121]%N] (RNode KOr 1%N false [(mk_glob (@nil N) true false false true)])), (RAttr 0%N false [[99;97;116;101;103;111;114;121]%N] (RNode KOr 1%N false [(RGlob (@nil N) false false false true)]))),
   (VB true));
  (((match mk_versionmatch [60]%N [48;46;57]%N (Some 0%N) true with Some r => r | None => RAlways 0 false end), (RAttr 1%N true [[102;117;108;108;118;101;114]%N] (RVer false [48;46;57]%N (Some 0%N) true [(-1)%Z]))),
   (VB true));
  (((RCont [[122]%N; [120]%N] false false), (RCont [[120]%N; [122]%N] false false)),
   (VB true));
  (((RCont [[120]%N; [122]%N] false false), (RCont [[120]%N; [122]%N] false false)),
   (VB true));
  (((RCond false [[117;115;101]%N] (RCont [[119]%N] false false) [(RNegate 28%N (mk_usedepdefault true [[119]%N; [121]%N] [[120]%N; [122]%N])); (mk_slotdep [49]%N false true)]), (RCond false [[117;115;101]%N] (RCont [[119]%N] false false) [(RNegate 28%N (RMulti 9%N false [[[105;117;115;101;95;115;116;114;105;112;112;101;100]%N]; [[117;115;101]%N]] (RNode KAnd 1%N false [(RUdc true [[119]%N; [121]%N] true); (RUdc true [[120]%N; [122]%N] false)]))); (RAttr 2%N false [[115;108;111;116]%N] (RExact [49]%N true false true))])),
   (VB true));
  (((RCond false [[117;115;101]%N] (RCont [[119]%N] false false) [(RNegate 29%N (mk_usedepdefault true [[119]%N; [121]%N] [[120]%N; [122]%N])); (mk_slotdep [49]%N false true)]), (RCond false [[117;115;101]%N] (RCont [[119]%N] false false) [(RNegate 29%N (RMulti 9%N false [[[105;117;115;101;95;115;116;114;105;112;112;101;100]%N]; [[117;115;101]%N]] (RNode KAnd 1%N false [(RUdc true [[119]%N; [121]%N] true); (RUdc true [[120]%N; [122]%N] false)]))); (RAttr 2%N false [[115;108;111;116]%N] (RExact [49]%N true false true))])),
   (VB true));
  (((mk_glob [98;97;114]%N true true false false), (RGlob [98;97;114]%N true false false false)),
   (VB true));
  (((RAttr 0 false [[112;97;99;107;97;103;101]%N] (mk_regex [97]%N true false false true)), (RAttr 0%N false [[112;97;99;107;97;103;101]%N] (RRegex [97]%N false false false true))),
   (VB true));
  (((RAttr 0 false [[117;115;101]%N] (RNode KOr 1%N false [(RCont [[122]%N; [121]%N] true false); (RCont [[119]%N; [121]%N] true true)])), (RAttr 0%N false [[117;115;101]%N] (RNode KOr 1%N false [(RCont [[121]%N; [122]%N] true false); (RCont [[119]%N; [121]%N] true true)]))),
   (VB true));
  (((RAttr 0 false [[117;115;101]%N] (RNode KOr 1%N true [(RCont [[122]%N; [121]%N] true false); (RCont [[119]%N; [121]%N] true true)])), (RAttr 0%N false [[117;115;101]%N] (RNode KOr 1%N true [(RCont [[121]%N; [122]%N] true false); (RCont [[119]%N; [121]%N] true true)]))),
   (VB true));
  (((mk_usedepdefault true [[121]%N] (@nil (str))), (RMulti 9%N false [[[105;117;115;101;95;115;116;114;105;112;112;101;100]%N]; [[117;115;101]%N]] (RUdc true [[121]%N] true))),
   (VB true));
  (((RCont [[119]%N; [120]%N] true false), (RCont [[119]%N; [120]%N] true false)),
   (VB true));
  (((RCont [[120]%N; [119]%N] true false), (RCont [[119]%N; [120]%N] true false)),
   (VB true));
  (((RAttr 0 false [[99;97;116;101;103;111;114;121]%N] (mk_exact [100;101;118;45;108;105;98;115]%N false false true)), (RAttr 0%N false [[99;97;116;101;103;111;114;121]%N] (RExact [100;101;118;45;108;105;98;115]%N false false true))),
   (VB true));
  (((RAttr 0 true [[99;97;116;101;103;111;114;121]%N] (mk_exact [100;101;118;45;108;105;98;115]%N false true true)), (RAttr 0%N true [[99;97;116;101;103;111;114;121]%N] (RExact [100;101;118;45;108;105;98;115]%N false true true))),
   (VB true));
  (((mk_regex [49;46;48]%N false false true false), (RRegex [49;46;48]%N true true false false)),
   (VB true));
  (((mk_regex [49;46;48]%N true false true false), (RRegex [49;46;48]%N true false false false)),
   (VB true));
  (((mk_exact [97;98]%N false false false), (RExact [97;98]%N false false false)),
   (VB true));
  (((mk_exact [65;66]%N false false false), (RExact [97;98]%N false false false)),
   (VB true));
  (((match mk_versionmatch [60]%N [49;46;48;48]%N (@None (N)) false with Some r => r | None => RAlways 0 false end), (RAttr 1%N false [[102;117;108;108;118;101;114]%N] (RVer false [49;46;48;48]%N (@None (N)) false [(-1)%Z]))),
   (VB true));
  (((match mk_versionmatch [62;61]%N [49;46;48;48]%N (@None (N)) true with Some r => r | None => RAlways 0 false end), (RAttr 1%N true [[102;117;108;108;118;101;114]%N] (RVer false [49;46;48;48]%N (@None (N)) true [0%Z; 1%Z]))),
   (VB true));
  (((RUdc false [[121]%N] true), (RUdc false [[121]%N] true)),
   (VB true));
  (((mk_glob [100;101;118;45;108;105;98;115]%N false true true false), (RGlob [100;101;118;45;108;105;98;115]%N true true true false)),
   (VB true));
  (((mk_regex [65]%N true false false false), (RRegex [65]%N false false false false)),
   (VB true));
  (((mk_regex [65]%N true true false false), (RRegex [65]%N false false true false)),
   (VB true));
  (((RDepSet [(RAtom {| a_text := [97;47;98;91;120;44;121;93]%N; a_cpvstr := [97;47;98]%N; a_op := (@nil N); a_blocks := false; a_strong := false; a_negate_vers := false; a_use := (Some [[120]%N; [121]%N]); a_slot := (@None (str)); a_subslot := (@None (str)); a_slotop := (@None (str)); a_repo := (@None (str)); a_cat := [97]%N; a_pkg := [98]%N; a_fullver := (@None (str)); a_ver := (@None (str)); a_rev := (@None (N)) |}); (RAtom {| a_text := [97;47;98;91;121;44;120;93]%N; a_cpvstr := [97;47;98]%N; a_op := (@nil N); a_blocks := false; a_strong := false; a_negate_vers := false; a_use := (Some [[120]%N; [121]%N]); a_slot := (@None (str)); a_subslot := (@None (str)); a_slotop := (@None (str)); a_repo := (@None (str)); a_cat := [97]%N; a_pkg := [98]%N; a_fullver := (@None (str)); a_ver := (@None (str)); a_rev := (@None (N)) |})]), (RDepSet [(RAtom {| a_text := [97;47;98;91;120;44;121;93]%N; a_cpvstr := [97;47;98]%N; a_op := (@nil N); a_blocks := false; a_strong := false; a_negate_vers := false; a_use := (Some [[120]%N; [121]%N]); a_slot := (@None (str)); a_subslot := (@None (str)); a_slotop := (@None (str)); a_repo := (@None (str)); a_cat := [97]%N; a_pkg := [98]%N; a_fullver := (@None (str)); a_ver := (@None (str)); a_rev := (@None (N)) |}); (RAtom {| a_text := [97;47;98;91;121;44;120;93]%N; a_cpvstr := [97;47;98]%N; a_op := (@nil N); a_blocks := false; a_strong := false; a_negate_vers := false; a_use := (Some [[120]%N; [121]%N]); a_slot := (@None (str)); a_subslot := (@None (str)); a_slotop := (@None (str)); a_repo := (@None (str)); a_cat := [97]%N; a_pkg := [98]%N; a_fullver := (@None (str)); a_ver := (@None (str)); a_rev := (@None (N)) |})])),
   (VB true));
  (((RVer false [49]%N (Some 1%N) false [1%Z]), (RVer false [49]%N (Some 1%N) false [1%Z])),
   (VB true));
  (((RVer false [49]%N (Some 1%N) false [(-1)%Z; 0%Z]), (RVer false [49]%N (Some 1%N) false [(-1)%Z; 0%Z])),
   (VB true));
  (((mk_regex [65]%N true false true false), (RRegex [65]%N true false false false)),
   (VB true));
  (((RAttr 0 true [[115;108;111;116]%N] (mk_regex [97;98]%N true false false true)), (RAttr 0%N true [[115;108;111;116]%N] (RRegex [97;98]%N false false false true))),
   (VB true));
  (((RAttr 0 false [[115;108;111;116]%N] (mk_regex [97;98]%N true false false true)), (RAttr 0%N false [[115;108;111;116]%N] (RRegex [97;98]%N false false false true))),
   (VB true));
  (((RCond false [[117;115;101]%N] (RCont [[119]%N] false false) [(RAlways 30%N false)]), (RCond false [[117;115;101]%N] (RCont [[119]%N] false false) [(RAlways 30%N false)])),
   (VB true));
  (((RCond true [[117;115;101]%N] (RCont [[119]%N] false false) [(RAlways 31%N false)]), (RCond true [[117;115;101]%N] (RCont [[119]%N] false false) [(RAlways 31%N false)])),
   (VB true));
  (((RCont [[120]%N; [121]%N; [119]%N] true true), (RCont [[119]%N; [120]%N; [121]%N] true true)),
   (VB true));
  (((RCont [[120]%N; [122]%N; [121]%N] true false), (RCont [[120]%N; [121]%N; [122]%N] true false)),
   (VB true));
  (((mk_exact [100;101;118;45;108;105;98;115]%N true true false), (RExact [100;101;118;45;108;105;98;115]%N true true false)),
   (VB true));
  (((RUdc true [[122]%N; [120]%N] false), (RUdc true [[120]%N; [122]%N] false)),
   (VB true));
  (((RVer false [50]%N (Some 1%N) true [0%Z]), (RVer false [50]%N (Some 1%N) true [0%Z])),
   (VB true));
  (((RVer false [50]%N (Some 1%N) false [0%Z]), (RVer false [50]%N (Some 1%N) false [0%Z])),
   (VB true));
  (((mk_subslotdep [48]%N false false), (RAttr 3%N false [[115;117;98;115;108;111;116]%N] (RExact [48]%N true false false))),
   (VB true));
  (((mk_subslotdep [48]%N true false), (RAttr 3%N true [[115;117;98;115;108;111;116]%N] (RExact [48]%N true false false))),
   (VB true));
  (((RCond false [[117;115;101]%N] (RCont [[122]%N] false false) [(mk_categorydep [65]%N false true)]), (RCond false [[117;115;101]%N] (RCont [[122]%N] false false) [(RAttr 4%N false [[99;97;116;101;103;111;114;121]%N] (RExact [65]%N true false true))])),
   (VB true));
  (((RCond true [[117;115;101]%N] (RCont [[122]%N] false false) [(mk_categorydep [65]%N false true)]), (RCond true [[117;115;101]%N] (RCont [[122]%N] false false) [(RAttr 4%N false [[99;97;116;101;103;111;114;121]%N] (RExact [65]%N true false true))])),
   (VB true));
  (((RAtom {| a_text := [33;33;62;61;97;47;98;45;49;46;48]%N; a_cpvstr := [97;47;98;45;49;46;48]%N; a_op := [62;61]%N; a_blocks := true; a_strong := true; a_negate_vers := false; a_use := (@None (list str)); a_slot := (@None (str)); a_subslot := (@None (str)); a_slotop := (@None (str)); a_repo := (@None (str)); a_cat := [97]%N; a_pkg := [98]%N; a_fullver := (Some [49;46;48]%N); a_ver := (Some [49;46;48]%N); a_rev := (@None (N)) |}), (RAtom {| a_text := [33;33;62;61;97;47;98;45;49;46;48]%N; a_cpvstr := [97;47;98;45;49;46;48]%N; a_op := [62;61]%N; a_blocks := true; a_strong := true; a_negate_vers := false; a_use := (@None (list str)); a_slot := (@None (str)); a_subslot := (@None (str)); a_slotop := (@None (str)); a_repo := (@None (str)); a_cat := [97]%N; a_pkg := [98]%N; a_fullver := (Some [49;46;48]%N); a_ver := (Some [49;46;48]%N); a_rev := (@None (N)) |})),
   (VB true));
  (((RNode KAnd 1%N true [(RUdc true [[119]%N] false); (RNode KAnd 1%N false [(RUdc true [[121]%N; [119]%N; [120]%N] false); (RUdc true [[121]%N; [119]%N; [120]%N] true)])]), (RNode KAnd 1%N true [(RUdc true [[119]%N] false); (RNode KAnd 1%N false [(RUdc true [[119]%N; [120]%N; [121]%N] false); (RUdc true [[119]%N; [120]%N; [121]%N] true)])])),
   (VB true));
  (((match mk_versionmatch [126]%N [49;46;48;48]%N (@None (N)) false with Some r => r | None => RAlways 0 false end), (RAttr 1%N false [[102;117;108;108;118;101;114]%N] (RVer true [49;46;48;48]%N (@None (N)) false [0%Z]))),
   (VB true));
  (((RAttr 0 false [[117;115;101]%N] (RNode KOr 1%N false [(RCont [[119]%N] false false); (RCont [[120]%N] false false)])), (RAttr 0%N false [[117;115;101]%N] (RNode KOr 1%N false [(RCont [[119]%N] false false); (RCont [[120]%N] false false)]))),
   (VB true));
  (((RMulti 8 false [[[105;117;115;101;95;115;116;114;105;112;112;101;100]%N]; [[117;115;101]%N]] (RUdc false [[122]%N] false)), (RMulti 8%N false [[[105;117;115;101;95;115;116;114;105;112;112;101;100]%N]; [[117;115;101]%N]] (RUdc false [[122]%N] false))),
   (VB true));
  (((mk_regex [97;98]%N true true true false), (RRegex [97;98]%N true false true false)),
   (VB true));
  (((RCont [[120]%N; [122]%N] false true), (RCont [[120]%N; [122]%N] false true)),
   (VB true));
  (((RAtom {| a_text := [97;47;98;58;49]%N; a_cpvstr := [97;47;98]%N; a_op := (@nil N); a_blocks := false; a_strong := false; a_negate_vers := false; a_use := (@None (list str)); a_slot := (Some [49]%N); a_subslot := (@None (str)); a_slotop := (@None (str)); a_repo := (@None (str)); a_cat := [97]%N; a_pkg := [98]%N; a_fullver := (@None (str)); a_ver := (@None (str)); a_rev := (@None (N)) |}), (RAtom {| a_text := [97;47;98;58;49]%N; a_cpvstr := [97;47;98]%N; a_op := (@nil N); a_blocks := false; a_strong := false; a_negate_vers := false; a_use := (@None (list str)); a_slot := (Some [49]%N); a_subslot := (@None (str)); a_slotop := (@None (str)); a_repo := (@None (str)); a_cat := [97]%N; a_pkg := [98]%N; a_fullver := (@None (str)); a_ver := (@None (str)); a_rev := (@None (N)) |})),
   (VB true));
  (((RUdc true [[122]%N; [120]%N] true), (RUdc true [[120]%N; [122]%N] true)),
   (VB true));
  (((mk_exact [65;98]%N true false false), (RExact [65;98]%N true false false)),
   (VB true));
  (((mk_glob [65;98]%N true true false false), (RGlob [65;98]%N true false false false)),
   (VB true));
  (((mk_usedepdefault true [[122]%N] [[120]%N]), (RMulti 9%N false [[[105;117;115;101;95;115;116;114;105;112;112;101;100]%N]; [[117;115;101]%N]] (RNode KAnd 1%N false [(RUdc true [[122]%N] true); (RUdc true [[120]%N] false)]))),
   (VB true));
  (((RNode KAnd 1%N false [(RCont [[121]%N; [119]%N; [122]%N] false false); (RCont [[119]%N] false false)]), (RNode KAnd 1%N false [(RCont [[119]%N; [121]%N; [122]%N] false false); (RCont [[119]%N] false false)])),
   (VB true));
  (((RCont [[120]%N; [119]%N; [122]%N] true true), (RCont [[119]%N; [120]%N; [122]%N] true true)),
   (VB true));
  (((mk_regex [70;79]%N false false false false), (RRegex [70;79]%N false true false false)),
   (VB true));
  (((mk_regex [97;98]%N false true false false), (RRegex [97;98]%N false true true false)),
   (VB true));
  (((match mk_versionmatch [60;61]%N [49]%N (Some 2%N) false with Some r => r | None => RAlways 0 false end), (RAttr 1%N false [[102;117;108;108;118;101;114]%N] (RVer false [49]%N (Some 2%N) false [(-1)%Z; 0%Z]))),
   (VB true));
  (((mk_usedepdefault true (@nil (str)) (@nil (str))), (RMulti 9%N false [[[105;117;115;101;95;115;116;114;105;112;112;101;100]%N]; [[117;115;101]%N]] (RAlways 1 true))),
   (VB true));
  (((RAttr 0 true [[110;111;115;117;99;104]%N] (mk_glob [49;46;48]%N false true false true)), (RAttr 0%N true [[110;111;115;117;99;104]%N] (RGlob [49;46;48]%N true false true true))),
   (VB true));
  (((mk_glob [49;46;48]%N false true true false), (RGlob [49;46;48]%N true true true false)),
   (VB true));
  (((RNode KAnd 1%N false [(RCont [[120]%N] true false)]), (RNode KAnd 1%N false [(RCont [[120]%N] true false)])),
   (VB true));
  (((RNode KAnd 1%N true [(RCont [[120]%N] true false)]), (RNode KAnd 1%N true [(RCont [[120]%N] true false)])),
   (VB true));
  (((RAttr 0 false [[112;97;99;107;97;103;101]%N] (mk_exact [68;101;118;45;76;105;98;115]%N false false true)), (RAttr 0%N false [[112;97;99;107;97;103;101]%N] (RExact [100;101;118;45;108;105;98;115]%N false false true))),
   (VB true));
  (((RAttr 0 true [[112;97;99;107;97;103;101]%N] (mk_exact [68;101;118;45;76;105;98;115]%N false true true)), (RAttr 0%N true [[112;97;99;107;97;103;101]%N] (RExact [100;101;118;45;108;105;98;115]%N false true true))),
   (VB true));
  (((mk_glob [70;79]%N false false false false), (RGlob [102;111]%N false false true false)),
   (VB true));
  (((mk_glob [102;111]%N false false false false), (RGlob [102;111]%N false false true false)),
   (VB true));
  (((mk_staticusedep [[122]%N; [119]%N] (@nil (str))), (RAttr 7%N false [[117;115;101]%N] (RCont [[119]%N; [122]%N] true true))),
   (VB true));
  (((mk_staticusedep [[119]%N; [122]%N] (@nil (str))), (RAttr 7%N false [[117;115;101]%N] (RCont [[119]%N; [122]%N] true true))),
   (VB true));
  (((RAttr 0 false [[115;117;98;115;108;111;116]%N] (mk_regex [65]%N true true false true)), (RAttr 0%N false [[115;117;98;115;108;111;116]%N] (RRegex [65]%N false false true true))),
   (VB true));
  (((RUdc false [[121]%N; [120]%N; [122]%N] false), (RUdc false [[120]%N; [121]%N; [122]%N] false)),
   (VB true));
  (((mk_exact [97]%N true false false), (RExact [97]%N true false false)),
   (VB true));
  (((RNode KOr 1%N false (@nil (restr))), (RNode KOr 1%N false (@nil (restr)))),
   (VB true));
  (((RVer false [49;48]%N (@None (N)) false [(-1)%Z; 0%Z]), (RVer false [49;48]%N (@None (N)) false [(-1)%Z; 0%Z])),
   (VB true));
  (((RVer false [49;48]%N (Some 0%N) false [(-1)%Z; 0%Z]), (RVer false [49;48]%N (Some 0%N) false [(-1)%Z; 0%Z])),
   (VB true));
  (((mk_glob [49]%N true true true false), (RGlob [49]%N true true false false)),
   (VB true));
  (((mk_glob [49]%N false true false false), (RGlob [49]%N true false true false)),
   (VB true));
  (((RAttr 0 false [[117;115;101]%N] (RNode KOr 1%N false [(RNode KOr 1%N false [(RCont [[120]%N; [121]%N] true true)])])), (RAttr 0%N false [[117;115;101]%N] (RNode KOr 1%N false [(RNode KOr 1%N false [(RCont [[120]%N; [121]%N] true true)])]))),
   (VB true));
  (((RAttr 0 true [[117;115;101]%N] (RNode KOr 1%N false [(RNode KOr 1%N false [(RCont [[120]%N; [121]%N] true true)])])), (RAttr 0%N true [[117;115;101]%N] (RNode KOr 1%N false [(RNode KOr 1%N false [(RCont [[120]%N; [121]%N] true true)])]))),
   (VB true));
  (((RAttr 0 false [[115;108;111;116]%N] (mk_regex [98;97;114]%N false false false true)), (RAttr 0%N false [[115;108;111;116]%N] (RRegex [98;97;114]%N false true false true))),
   (VB true));
  (((match mk_versionmatch [60;61]%N [50]%N (@None (N)) true with Some r => r | None => RAlways 0 false end), (RAttr 1%N true [[102;117;108;108;118;101;114]%N] (RVer false [50]%N (@None (N)) true [(-1)%Z; 0%Z]))),
   (VB true));
  (((RCont [[122]%N; [120]%N] true false), (RCont [[120]%N; [122]%N] true false)),
   (VB true));
  (((RNegate 32%N (mk_staticusedep [[119]%N; [120]%N] [[122]%N; [121]%N])), (RNegate 32%N (RAttr 7%N false [[117;115;101]%N] (RNode KAnd 1%N false [(RCont [[119]%N; [120]%N] true true); (RCont [[121]%N; [122]%N] true false)])))),
   (VB true));
  (((RNegate 33%N (mk_staticusedep [[119]%N; [120]%N] [[122]%N; [121]%N])), (RNegate 33%N (RAttr 7%N false [[117;115;101]%N] (RNode KAnd 1%N false [(RCont [[119]%N; [120]%N] true true); (RCont [[121]%N; [122]%N] true false)])))),
   (VB true));
  (((RCond false [[117;115;101]%N] (RCont [[121]%N] false false) (@nil (restr))), (RCond false [[117;115;101]%N] (RCont [[121]%N] false false) (@nil (restr)))),
   (VB true));
  (((RVer false [49;46;53]%N (@None (N)) false [(-1)%Z]), (RVer false [49;46;53]%N (@None (N)) false [(-1)%Z])),
   (VB true));
  (((RVer false [49;46;53]%N (@None (N)) false [0%Z; 1%Z]), (RVer false [49;46;53]%N (@None (N)) false [0%Z; 1%Z])),
   (VB true));
  (((RAttr 0 false [[115;117;98;115;108;111;116]%N] (RNode KOr 1%N false [(mk_regex [49;46;48]%N true false false true); (mk_exact [65;98]%N true false true)])), (RAttr 0%N false [[115;117;98;115;108;111;116]%N] (RNode KOr 1%N false [(RRegex [49;46;48]%N false false false true); (RExact [65;98]%N true false true)]))),
   (VB true));
  (((mk_glob [65]%N true true false false), (RGlob [65]%N true false false false)),
   (VB true));
  (((RNegate 34%N (RAttr 0 true [[117;115;101]%N] (RCont [[121]%N] true true))), (RNegate 34%N (RAttr 0%N true [[117;115;101]%N] (RCont [[121]%N] true true)))),
   (VB true));
  (((RNegate 35%N (RAttr 0 false [[117;115;101]%N] (RCont [[121]%N] true false))), (RNegate 35%N (RAttr 0%N false [[117;115;101]%N] (RCont [[121]%N] true false)))),
   (VB true));
  (((match mk_versionmatch [62]%N [49;46;48]%N (@None (N)) true with Some r => r | None => RAlways 0 false end), (RAttr 1%N true [[102;117;108;108;118;101;114]%N] (RVer false [49;46;48]%N (@None (N)) true [1%Z]))),
   (VB true));
  (((RCond false [[117;115;101]%N] (RCont [[120]%N] false false) [(mk_usedepdefault true (@nil (str)) (@nil (str)))]), (RCond false [[117;115;101]%N] (RCont [[120]%N] false false) [(RMulti 9%N false [[[105;117;115;101;95;115;116;114;105;112;112;101;100]%N]; [[117;115;101]%N]] (RAlways 1 true))])),
   (VB true));
  (((match mk_versionmatch [60;61]%N [49]%N (@None (N)) false with Some r => r | None => RAlways 0 false end), (RAttr 1%N false [[102;117;108;108;118;101;114]%N] (RVer false [49]%N (@None (N)) false [(-1)%Z; 0%Z]))),
   (VB true));
  (((RNode KOr 2%N true [(RMulti 8 false [[[105;117;115;101;95;115;116;114;105;112;112;101;100]%N]; [[117;115;101]%N]] (RUdc false [[121]%N; [120]%N] false)); (RAttr 0 false [[115;117;98;115;108;111;116]%N] (mk_exact [97]%N true false true))]), (RNode KOr 2%N true [(RMulti 8%N false [[[105;117;115;101;95;115;116;114;105;112;112;101;100]%N]; [[117;115;101]%N]] (RUdc false [[120]%N; [121]%N] false)); (RAttr 0%N false [[115;117;98;115;108;111;116]%N] (RExact [97]%N true false true))])),
   (VB true));
  (((RNode KOr 2%N false [(RMulti 8 false [[[105;117;115;101;95;115;116;114;105;112;112;101;100]%N]; [[117;115;101]%N]] (RUdc false [[121]%N; [120]%N] false)); (RAttr 0 false [[115;117;98;115;108;111;116]%N] (mk_exact [97]%N true false true))]), (RNode KOr 2%N false [(RMulti 8%N false [[[105;117;115;101;95;115;116;114;105;112;112;101;100]%N]; [[117;115;101]%N]] (RUdc false [[120]%N; [121]%N] false)); (RAttr 0%N false [[115;117;98;115;108;111;116]%N] (RExact [97]%N true false true))])),
   (VB true));
  (((RVer false [48;46;57]%N (Some 2%N) false [(-1)%Z; 0%Z]), (RVer false [48;46;57]%N (Some 2%N) false [(-1)%Z; 0%Z])),
   (VB true));
  (((RVer false [48;46;57]%N (@None (N)) false [(-1)%Z; 0%Z]), (RVer false [48;46;57]%N (@None (N)) false [(-1)%Z; 0%Z])),
   (VB true));
  (((mk_regex [100;101;118]%N false false false false), (RRegex [100;101;118]%N false true false false)),
   (VB true));
  (((RAttr 0 false [[110;111;115;117;99;104]%N] (mk_glob (@nil N) false true false true)), (RAttr 0%N false [[110;111;115;117;99;104]%N] (RGlob (@nil N) true false true true))),
   (VB true));
  (((RNode KOr 1%N false [(mk_exact [65;98]%N true false true)]), (RNode KOr 1%N false [(RExact [65;98]%N true false true)])),
   (VB true));
  (((mk_usedepdefault true [[122]%N] (@nil (str))), (RMulti 9%N false [[[105;117;115;101;95;115;116;114;105;112;112;101;100]%N]; [[117;115;101]%N]] (RUdc true [[122]%N] true))),
   (VB true));
  (((mk_usedepdefault false [[122]%N] (@nil (str))), (RMulti 9%N false [[[105;117;115;101;95;115;116;114;105;112;112;101;100]%N]; [[117;115;101]%N]] (RUdc false [[122]%N] true))),
   (VB true));
  (((RVer false [49;46;48]%N (Some 1%N) false [1%Z]), (RVer false [49;46;48]%N (Some 1%N) false [1%Z])),
   (VB true));
  (((RVer true [49;48]%N (Some 0%N) true [0%Z]), (RVer true [49;48]%N (Some 0%N) true [0%Z])),
   (VB true));
  (((RVer true [49;48]%N (Some 0%N) false [0%Z]), (RVer true [49;48]%N (Some 0%N) false [0%Z])),
   (VB true));
  (((mk_usedepdefault true [[120]%N] [[122]%N; [121]%N]), (RMulti 9%N false [[[105;117;115;101;95;115;116;114;105;112;112;101;100]%N]; [[117;115;101]%N]] (RNode KAnd 1%N false [(RUdc true [[120]%N] true); (RUdc true [[121]%N; [122]%N] false)]))),
   (VB true));
  (((RCond false [[117;115;101]%N] (RCont [[121]%N] false true) (@nil (restr))), (RCond false [[117;115;101]%N] (RCont [[121]%N] false true) (@nil (restr)))),
   (VB true));
  (((RAttr 0 true [[99;97;116;101;103;111;114;121]%N] (mk_exact [98]%N false false true)), (RAttr 0%N true [[99;97;116;101;103;111;114;121]%N] (RExact [98]%N false false true))),
   (VB true));
  (((RVer true [50]%N (@None (N)) false [0%Z]), (RVer true [50]%N (@None (N)) false [0%Z])),
   (VB true));
  (((RAttr 0 false [[117;115;101]%N] (RCont [[120]%N; [122]%N] true false)), (RAttr 0%N false [[117;115;101]%N] (RCont [[120]%N; [122]%N] true false))),
   (VB true));
  (((RAttr 0 true [[117;115;101]%N] (RCont [[120]%N; [122]%N] true true)), (RAttr 0%N true [[117;115;101]%N] (RCont [[120]%N; [122]%N] true true))),
   (VB true));
  (((RCond true [[117;115;101]%N] (RCont [[119]%N] false false) (@nil (restr))), (RCond true [[117;115;101]%N] (RCont [[119]%N] false false) (@nil (restr)))),
   (VB true));
  (((RCond false [[117;115;101]%N] (RCont [[119]%N] false false) (@nil (restr))), (RCond false [[117;115;101]%N] (RCont [[119]%N] false false) (@nil (restr)))),
   (VB true));
  (((RAttr 0 true [[114;101;112;111]%N; [114;101;112;111;95;105;100]%N] (mk_glob [65]%N true true false true)), (RAttr 0%N true [[114;101;112;111]%N; [114;101;112;111;95;105;100]%N] (RGlob [65]%N true false false true))),
   (VB true));
  (((RAttr 0 true [[114;101;112;111]%N; [114;101;112;111;95;105;100]%N] (mk_glob [65]%N true false false true)), (RAttr 0%N true [[114;101;112;111]%N; [114;101;112;111;95;105;100]%N] (RGlob [65]%N false false false true))),
   (VB true));
  (((mk_glob [49;46;48]%N false false true false), (RGlob [49;46;48]%N false true true false)),
   (VB true));
  (((RCont [[119]%N; [121]%N; [120]%N] true false), (RCont [[119]%N; [120]%N; [121]%N] true false)),
   (VB true));
  (((RCont [[119]%N; [121]%N; [120]%N; [119]%N] true true), (RCont [[119]%N; [120]%N; [121]%N] true true)),
   (VB true));
  (((RVer false [49;46;48]%N (@None (N)) true [1%Z]), (RVer false [49;46;48]%N (@None (N)) true [1%Z])),
   (VB true));
  (((mk_usedepdefault true [[119]%N; [121]%N] [[122]%N]), (RMulti 9%N false [[[105;117;115;101;95;115;116;114;105;112;112;101;100]%N]; [[117;115;101]%N]] (RNode KAnd 1%N false [(RUdc true [[119]%N; [121]%N] true); (RUdc true [[122]%N] false)]))),
   (VB true));
  (((mk_usedepdefault false [[119]%N; [121]%N] [[122]%N]), (RMulti 9%N false [[[105;117;115;101;95;115;116;114;105;112;112;101;100]%N]; [[117;115;101]%N]] (RNode KAnd 1%N false [(RUdc false [[119]%N; [121]%N] true); (RUdc false [[122]%N] false)]))),
   (VB true));
  (((RCont [[122]%N; [120]%N; [119]%N] false false), (RCont [[119]%N; [120]%N; [122]%N] false false)),
   (VB true));
  (((RCont [[122]%N; [120]%N; [119]%N] false true), (RCont [[119]%N; [120]%N; [122]%N] false true)),
   (VB true));
  (((mk_staticusedep [[122]%N] [[121]%N; [119]%N]), (RAttr 7%N false [[117;115;101]%N] (RNode KAnd 1%N false [(RCont [[122]%N] true true); (RCont [[119]%N; [121]%N] true false)]))),
   (VB true));
  (((mk_staticusedep [[122]%N] [[119]%N; [121]%N]), (RAttr 7%N false [[117;115;101]%N] (RNode KAnd 1%N false [(RCont [[122]%N] true true); (RCont [[119]%N; [121]%N] true false)]))),
   (VB true));
  (((mk_glob [49;46;48]%N true true false false), (RGlob [49;46;48]%N true false false false)),
   (VB true));
  (((mk_glob [49;46;48]%N false true false false), (RGlob [49;46;48]%N true false true false)),
   (VB true));
  (((RVer true [49;46;53]%N (Some 2%N) true [0%Z]), (RVer true [49;46;53]%N (Some 2%N) true [0%Z])),
   (VB true));
  (((RVer true [49;46;53]%N (Some 2%N) false [0%Z]), (RVer true [49;46;53]%N (Some 2%N) false [0%Z])),
   (VB true));
  (((RVer false [49]%N (@None (N)) true [1%Z]), (RVer false [49]%N (@None (N)) true [1%Z])),
   (VB true));
  (((RVer false [49]%N (Some 0%N) true [1%Z]), (RVer false [49]%N (Some 0%N) true [1%Z])),
   (VB true));
  (((RMulti 8 true [[[105;117;115;101;95;115;116;114;105;112;112;101;100]%N]; [[117;115;101]%N]] (RUdc true [[120]%N; [121]%N; [122]%N] true)), (RMulti 8%N true [[[105;117;115;101;95;115;116;114;105;112;112;101;100]%N]; [[117;115;101]%N]] (RUdc true [[120]%N; [121]%N; [122]%N] true))),
   (VB true));
  (((RMulti 8 true [[[105;117;115;101;95;115;116;114;105;112;112;101;100]%N]; [[117;115;101]%N]] (RUdc true [[121]%N; [122]%N; [120]%N] true)), (RMulti 8%N true [[[105;117;115;101;95;115;116;114;105;112;112;101;100]%N]; [[117;115;101]%N]] (RUdc true [[120]%N; [121]%N; [122]%N] true))),
   (VB true));
  (((RVer false [49;46;48;48]%N (Some 0%N) true [0%Z]), (RVer false [49;46;48;48]%N (Some 0%N) true [0%Z])),
   (VB true));
  (((RVer false [49;46;48;48]%N (Some 0%N) false [0%Z]), (RVer false [49;46;48;48]%N (Some 0%N) false [0%Z])),
   (VB true));
  (((RCont [[119]%N; [121]%N] true false), (RCont [[119]%N; [121]%N] true false)),
   (VB true));
  (((RCont [[119]%N; [121]%N] false false), (RCont [[119]%N; [121]%N] false false)),
   (VB true));
  (((RUdc true [[121]%N; [120]%N; [122]%N] false), (RUdc true [[120]%N; [121]%N; [122]%N] false)),
   (VB true))
].
Eval vm_compute in (where_ (fun i _ => negb (same_shape (fst i) (snd i))) cases).
