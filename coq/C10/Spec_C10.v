(* Spec_C10.v — what C10 demands, written without looking at the compilation.

   1. The meaning of a REQUIRED_USE tree on a set [on] of enabled flags, after PMS 8.2
      (a use-conditional group whose condition is unmet is NOT a member of an enclosing
      any-of / exactly-one-of / at-most-one-of group; elsewhere it is vacuously matched).
   2. The recorded contract S of the external solver snakeoil.constraints.Problem.
   3. Boolean acceptors evaluated on the IMPLEMENTATION's results (comparison B in Coq). *)
From Coq Require Import List NArith ZArith Bool Arith Permutation.
Import ListNotations.
From Verif Require Import Base.Val C10.Model_C10.

(* ------------------------------------------------------------------ 1. PMS meaning *)
Definition cond_met (on : list N) (neg : bool) (v : N) : bool := xorb (memb v on) neg.
Definition is_member (on : list N) (r : ru) : bool :=
  match r with Cond neg v _ => cond_met on neg v | _ => true end.
(* ContainmentMatch.match *)
Definition flag_match (on : list N) (neg al : bool) (vals : list N) : bool :=
  xorb (if al then subsetb vals on else negb (disjointb vals on)) neg.

Fixpoint eval_pms (on : list N) (r : ru) : bool :=
  match r with
  | Flag neg al vals => flag_match on neg al vals
  | Cond neg v kids => implb (cond_met on neg v) (forallb (eval_pms on) kids)
  | Grp k neg kids =>
      let ms := map (fun c => is_member on c && eval_pms on c) kids in
      xorb (match k with
            | KAnd => forallb (eval_pms on) kids
            | KOr => existsb (fun b => b) ms
            | KOne => Nat.eqb (count ms) 1
            | KAmo => Nat.leb (count ms) 1
            end) neg
  end.
Definition sat_pms (rs : list ru) (on : list N) : bool := forallb (eval_pms on) rs.

Fixpoint flags (r : ru) : list N :=
  match r with
  | Flag _ _ vals => vals
  | Cond _ v kids => v :: concat (map flags kids)
  | Grp _ _ kids => concat (map flags kids)
  end.
Definition flags_all (rs : list ru) : list N := concat (map flags rs).

(* ---- the meaning the compilation implements (used to say what holds for ALL trees) *)
Definition grp_op (k : kind) (bs : list bool) : bool :=
  match k with
  | KOr => existsb (fun b => b) bs
  | KAnd => forallb (fun b => b) bs
  | KOne => Nat.eqb (count bs) 1
  | KAmo => Nat.leb (count bs) 1
  end.
(* the meaning the compilation implements: a conditional is an implication everywhere *)
Fixpoint eval_impl (on : list N) (r : ru) : bool :=
  match r with
  | Flag neg al vals => flag_match on neg al vals
  | Cond neg v kids => implb (cond_met on neg v) (forallb (eval_impl on) kids)
  | Grp k neg kids => xorb (grp_op k (map (eval_impl on) kids)) neg
  end.
Definition sat_impl (rs : list ru) (on : list N) : bool := forallb (eval_impl on) rs.

(* a constraint function reads only the flags in [vs] *)
Definition local (c : cfun) (vs : list N) : Prop :=
  forall on on', (forall v, In v vs -> memb v on = memb v on') -> c on = c on'.


(* well-formed: what DepSet.parse can produce, generalised (any-mode leaves with >= 1 value,
   no empty group or payload).  Outside it the code raises or the solver ignores a constraint. *)
Fixpoint wf_ru (r : ru) : bool :=
  match r with
  | Flag _ al vals => negb al && negb (match vals with [] => true | _ => false end)
  | Cond _ _ kids => negb (match kids with [] => true | _ => false end) && forallb wf_ru kids
  | Grp _ _ kids => negb (match kids with [] => true | _ => false end) && forallb wf_ru kids
  end.
(* the top-level spine (through conditionals and all-of groups) has no negated all-of group *)
Fixpoint spine_ok (r : ru) : bool :=
  match r with
  | Cond _ _ kids => forallb spine_ok kids
  | Grp KAnd neg kids => negb neg && forallb spine_ok kids
  | _ => true
  end.
Definition wf_all (rs : list ru) : bool := forallb (fun r => wf_ru r && spine_ok r) rs.

(* KNOWN CLASS (finding cond-member-of-group): some ||, ^^ or ?? group has a use-conditional
   group as an immediate child. *)
Definition is_cond (r : ru) : bool := match r with Cond _ _ _ => true | _ => false end.
Fixpoint cond_in_group (r : ru) : bool :=
  match r with
  | Flag _ _ _ => false
  | Cond _ _ kids => existsb cond_in_group kids
  | Grp k _ kids =>
      (match k with KAnd => false | _ => existsb is_cond kids end) || existsb cond_in_group kids
  end.
Definition known_class (rs : list ru) : bool := existsb cond_in_group rs.

(* what the statement fixes about every produced assignment *)
Definition allowed (iuse ft ff : list N) (a : assignment) : bool :=
  forallb (fun p : N * bool =>
             let (v, b) := p in
             if memb v iuse
             then (if memb v ft then b else true) && (if memb v ff then negb b else true)
             else negb b) a.
(* the preferred value of a variable: forced-on and preferred flags on, everything else off *)
Definition pref_val (iuse ft ff pt : list N) (v : N) : bool :=
  memb v iuse && (memb v ft || (memb v pt && negb (memb v ff))).
Definition overlap (iuse ft ff : list N) : bool :=
  existsb (fun v => memb v ft && memb v ff) iuse.

(* ------------------------------------------------------------------ 2. contract S of the solver *)
Definition nodup_b (l : list bool) : bool :=
  match l with [a; b] => negb (Bool.eqb a b) | _ :: _ :: _ :: _ => false | _ => true end.
Definition wf_problem (p : list dom) (cs : list constr) : Prop :=
  NoDup (keys p) /\ (forall d, In d p -> nodup_b (snd d) = true)
  /\ (forall c v, In c cs -> In v (snd c) -> In v (keys p)).
(* an assignment within the domains, listed in the order of the domains *)
Definition within (p : list dom) (a : assignment) : Prop :=
  Forall2 (fun (d : dom) (x : N * bool) => fst x = fst d /\ In (snd x) (snd d)) p a.
Definition S (solve : solver) : Prop :=
  forall p cs, wf_problem p cs ->
    NoDup (solve p cs)
    /\ (forall a, In a (solve p cs) <-> within p a /\ sat_all cs a = true)
    /\ (forall a, last_assign p = Some a -> sat_all cs a = true -> hd_error (solve p cs) = Some a).

(* ------------------------------------------------------------------ 3. acceptors (comparison B) *)
Definition universe : list N := [0;1;2;3;4;5;6;7]%N.
Definition unmask (m : N) : list N := filter (N.testbit m) universe.
Definition dec_sol (v : val) : option (N * N) :=
  match v with VL [VZ k; VZ o] => Some (Z.to_N k, Z.to_N o) | _ => None end.
Fixpoint dec_sols (l : list val) : option (list (N * N)) :=
  match l with
  | [] => Some []
  | v :: r => match dec_sol v, dec_sols r with
              | Some s, Some t => Some (s :: t) | _, _ => None end
  end.
Definition memN (x : N) (l : list N) : bool := existsb (N.eqb x) l.
Fixpoint nodupN (l : list N) : bool :=
  match l with [] => true | x :: r => negb (memN x r) && nodupN r end.
Definition as_assign (ks : list N) (on : list N) : assignment := map (fun v => (v, memb v on)) ks.

(* the statement of C10, decided by brute force on one input and one recorded result *)
Definition spec_fcs_ok (i : fcs_input) (res : val) : bool :=
  let '(rs, (iuse, ft, ff, pt)) := i in
  if overlap iuse ft ff then val_eqb res e_assert
  else if negb (wf_all rs) then true
  else
    match res with
    | VL [first; VL sols] =>
        match dec_sols sols with
        | None => false
        | Some l =>
            let ks := dedup (iuse ++ flags_all rs) in
            let km := mask ks in
            let good (on : list N) := allowed iuse ft ff (as_assign ks on) && sat_pms rs on in
            let want := map mask (filter good (subsets ks)) in
            let got := map snd l in
            forallb (fun s : N * N => N.eqb (fst s) km) l        (* the variables are iuse + mentioned *)
            && nodupN got                                          (* each once *)
            && forallb (fun m => memN m want) got                  (* sound, forced respected *)
            && forallb (fun m => memN m got) want                  (* complete *)
            && (let pm := mask (filter (pref_val iuse ft ff pt) ks) in
                if memN pm want then val_eqb first (VB true) else true)        (* preferred first *)
        end
    | _ => false
    end.

(* contract S decided on one raw problem and the real Problem's recorded output *)
Definition domain_of (p : list dom) (v : N) : list bool :=
  match find (fun d : dom => N.eqb (fst d) v) p with Some d => snd d | None => [] end.
Definition contract_ok (i : solver_input) (res : val) : bool :=
  let p := fst i in
  let cs := map of_table (snd i) in
  match res with
  | VL [first; VL sols] =>
      match dec_sols sols with
      | None => false
      | Some l =>
          let ks := keys p in
          let km := mask ks in
          let good (on : list N) :=
            forallb (fun v => existsb (Bool.eqb (memb v on)) (domain_of p v)) ks
            && sat_all cs (as_assign ks on) in
          let want := map mask (filter good (subsets ks)) in
          let got := map snd l in
          forallb (fun s : N * N => N.eqb (fst s) km) l
          && nodupN got
          && forallb (fun m => memN m want) got
          && forallb (fun m => memN m got) want
          && match last_assign p with
             | Some a => if sat_all cs a then val_eqb first (VB true) else true
             | None => true
             end
      end
  | _ => false
  end.

(* ------------------------------------------------------------------ 4. the statement of C10
   [problem rs iuse ft ff pt = Ok (p, cs)] is the Problem handed to the solver; the produced list
   is [solve p cs] (fcs = that, by definition); the variables of a solution are [keys p]. *)
Definition pref_assign (iuse ft ff pt : list N) (ks : list N) : assignment :=
  map (fun v => (v, pref_val iuse ft ff pt v)) ks.

Section Statement.
  Variable solve : solver.
  Variable scope : list ru -> Prop.        (* the trees quantified over *)
  Definition sound_stmt : Prop := forall rs iuse ft ff pt p cs a,
    scope rs -> wf_all rs = true -> problem rs iuse ft ff pt = Ok (p, cs) ->
    In a (solve p cs) -> sat_pms rs (on_of a) = true.
  Definition forced_stmt : Prop := forall rs iuse ft ff pt p cs a,
    scope rs -> wf_all rs = true -> problem rs iuse ft ff pt = Ok (p, cs) ->
    In a (solve p cs) -> map fst a = keys p /\ allowed iuse ft ff a = true.
  Definition complete_stmt : Prop := forall rs iuse ft ff pt p cs,
    scope rs -> wf_all rs = true -> problem rs iuse ft ff pt = Ok (p, cs) ->
    NoDup (solve p cs)
    /\ forall a, map fst a = keys p -> allowed iuse ft ff a = true -> sat_pms rs (on_of a) = true ->
                 In a (solve p cs).
  Definition preferred_stmt : Prop := forall rs iuse ft ff pt p cs,
    scope rs -> wf_all rs = true -> problem rs iuse ft ff pt = Ok (p, cs) ->
    sat_pms rs (on_of (pref_assign iuse ft ff pt (keys p))) = true ->
    hd_error (solve p cs) = Some (pref_assign iuse ft ff pt (keys p)).
End Statement.
Definition everything (rs : list ru) : Prop := True.
Definition outside_known (rs : list ru) : Prop := known_class rs = false.

(* the compiled constraints, read together, are the tree's meaning *)
Definition cim_stmt (scope : list ru -> Prop) : Prop := forall rs cs on,
  scope rs -> compile rs = Ok cs -> forallb (fun c : constr => fst c on) cs = sat_pms rs on.
(* every assignment over the variables [ks] *)
Definition all_assign (ks : list N) : list assignment := enum (map (fun v => (v, [true; false])) ks).
Definition complete_perm_stmt (solve : solver) (scope : list ru -> Prop) : Prop :=
  forall rs iuse ft ff pt p cs,
    scope rs -> wf_all rs = true -> problem rs iuse ft ff pt = Ok (p, cs) ->
    Permutation (solve p cs)
      (filter (fun a => allowed iuse ft ff a && sat_pms rs (on_of a)) (all_assign (keys p))).

(* what holds for ALL well-formed trees, in terms of the implication meaning *)
Definition exact_impl_stmt (solve : solver) : Prop := forall rs iuse ft ff pt p cs,
  wf_all rs = true -> problem rs iuse ft ff pt = Ok (p, cs) ->
  NoDup (solve p cs)
  /\ (forall a, In a (solve p cs) <->
                map fst a = keys p /\ allowed iuse ft ff a = true /\ sat_impl rs (on_of a) = true)
  /\ (sat_impl rs (on_of (pref_assign iuse ft ff pt (keys p))) = true ->
      hd_error (solve p cs) = Some (pref_assign iuse ft ff pt (keys p))).
