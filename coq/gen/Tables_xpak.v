(* GENERATED from src/pkgcore/binpkg/xpak.py (class Xpak: magic strings, struct formats, read aliases) by harness/tables.py on every run — do not edit. *)
From Coq Require Import List ZArith NArith Bool.
Import ListNotations.
From Verif Require Import Base.Val.

(* struct formats, big-endian ('>'): Some n = "<n>s" (n raw bytes), None = "L" (unsigned 32 bit) *)
Definition header_pre_magic : list N := [88;80;65;75;80;65;67;75]%N.   (* b'XPAKPACK' *)
Definition trailer_pre_magic : list N := [88;80;65;75;83;84;79;80]%N.   (* b'XPAKSTOP' *)
Definition trailer_post_magic : list N := [83;84;79;80]%N.   (* b'STOP' *)
Definition header_fmt : list (option N) := [(Some 8%N); (@None (N)); (@None (N))].
Definition trailer_fmt : list (option N) := [(Some 8%N); (@None (N)); (Some 4%N)].
Definition key_rewrites : list (list N * list N) := [([114;101;112;111]%N, [82;69;80;79]%N)].   (* {'repo': 'REPO'} *)
