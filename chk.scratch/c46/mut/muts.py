# each mutation: name -> list of (old, new) on src/pkgcore/scripts/pclean.py
M = {
 "M1_revert_fix_exists_only_without_restrict": [(
  "    if namespace.exclude_fetch_restricted or namespace.exclude_exists:\n",
  "    if namespace.exclude_fetch_restricted or (\n        namespace.exclude_exists and not namespace.restrict\n    ):\n")],
 "M2_installed_only_last_pkg": [(
  "            installed_dist.update(iflatten_instance(pkg.distfiles))",
  "            installed_dist = set(iflatten_instance(pkg.distfiles))")],
 "M3_fetch_flag_no_longer_scans": [(
  "    if namespace.exclude_fetch_restricted or namespace.exclude_exists:\n",
  "    if namespace.exclude_exists:\n")],
 "M4_exclusions_and_instead_of_or": [(
  "        namespace.exclude_restrict = boolean.OrRestriction(*exclude_restrictions)",
  "        namespace.exclude_restrict = boolean.AndRestriction(*exclude_restrictions)")],
 "M5_size_filter_off_by_one": [(
  "lambda x: os.stat(x).st_size < namespace.size", "lambda x: os.stat(x).st_size <= namespace.size")],
 "M6_mtime_comparison_swapped": [(
  "lambda x: os.stat(x).st_mtime < namespace.modified", "lambda x: os.stat(x).st_mtime > namespace.modified")],
 "M7_saving_drops_excludes": [(
  "    saving_files = installed_dist | exists_dist | excludes_dist | restricted_dist",
  "    saving_files = installed_dist | exists_dist | restricted_dist")],
 "M8_month_is_31_days": [('    units["m"] = units["d"] * 30', '    units["m"] = units["d"] * 31')],
 "M9_pretend_ignored_when_quiet": [(
  "                if not options.pretend:\n                    func(target)",
  "                if not options.pretend or options.verbosity < 1:\n                    func(target)")],
 "M10_final_regex_ignorecase": [(
  '''                        rf"({pkg_regex_prefixes_str})(\\W\\w+)+([\\W?(0-9)+])*(\\W\\w+)*(\\.\\w+)*"
                    )''',
  '''                        rf"({pkg_regex_prefixes_str})(\\W\\w+)+([\\W?(0-9)+])*(\\W\\w+)*(\\.\\w+)*",
                        re.IGNORECASE,
                    )''')],
 "M11_two_sites_exists_scan_skips_fetch_pkgs_and_restricted_only_with_f": [(
  "        for pkg in repo:\n            exists_dist.update(\n                iflatten_instance(getattr(pkg, \"_raw_pkg\", pkg).distfiles)\n            )\n            if \"fetch\" in pkg.restrict:",
  "        for pkg in repo:\n            if \"fetch\" not in pkg.restrict:\n                exists_dist.update(\n                    iflatten_instance(getattr(pkg, \"_raw_pkg\", pkg).distfiles)\n                )\n            if \"fetch\" in pkg.restrict and namespace.exclude_fetch_restricted:")],
 "H1_harmless_refactor": [(
  "    saving_files = installed_dist | exists_dist | excludes_dist | restricted_dist\n    target_files.difference_update(saving_files)\n",
  "    keep = set().union(restricted_dist, excludes_dist, exists_dist, installed_dist)\n    target_files = {f for f in target_files if f not in keep}\n"),
  ("        pjoin(distdir, f) for f in sorted(all_dist_files.intersection(target_files))",
   "        pjoin(distdir, f) for f in sorted(f for f in target_files if f in all_dist_files)")],
}
