#!/usr/bin/env python3
"""Assemble /verif/MANIFEST.json from manifest.d/*.json; properties without a fragment are listed
under not_applicable with the reason recorded in manifest.d/_not_applicable.json (or a default)."""
import json, subprocess
from pathlib import Path
V = Path(__file__).resolve().parent.parent
props = [json.loads(l)["id"] for l in (V / "properties.jsonl").read_text().splitlines() if l.strip()]
frags = {}
for f in sorted((V / "manifest.d").glob("C*.json")):
    d = json.loads(f.read_text()); frags[d["property_id"]] = d
na_file = V / "manifest.d" / "_not_applicable.json"
na_reason = json.loads(na_file.read_text()) if na_file.exists() else {}
hooks_file = V / "manifest.d" / "_hooks.json"
hooks = json.loads(hooks_file.read_text()) if hooks_file.exists() else {
    "guard": "PKGCORE_VERIF_TRACE", "enable": "no in-tree hook is needed by the registered checks so far",
    "baseline_off_cmd": "cd /repo && /venv/bin/python -m pytest -ra -q -p no:cacheprovider --timeout=900 --continue-on-collection-errors",
    "source_commits": [], "add_only": True}
m = {
    "version": 1,
    "setup_cmd": "./setup.sh",
    "hooks": hooks,
    "engines": [{"name": "coq-model-correspondence", "path": "/verif/check",
                 "serves_properties": sorted(frags),
                 "kind_free_text": "Coq 8.16.1 development (coq/): per property a Gallina model, a declarative spec and kernel-checked theorems; harness/ drives the implementation from /repo and evaluates model and spec inside Coq (vm_compute) on the same inputs"}],
    "checks": [frags[p] for p in props if p in frags],
    "not_applicable": [{"property_id": p, "reason": na_reason.get(p, "no check is registered yet: the Coq model and correspondence for this property are designed in DESIGN.md §6 but not built; nothing is claimed")}
                       for p in props if p not in frags],
    "notes": "See DESIGN.md. Known findings live in known_findings/Cxx.json (one file per property); replays in replay/.",
}
(V / "MANIFEST.json").write_text(json.dumps(m, indent=1) + "\n")
print(f"MANIFEST.json: {len(m['checks'])} checks, {len(m['not_applicable'])} not claimed")
