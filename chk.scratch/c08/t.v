From Coq Require Import List NArith ZArith Bool.
From Verif Require Import Base.Val C06.Restr C08.Ord_C08 C08.Model_C08 C08.Spec_C08.
