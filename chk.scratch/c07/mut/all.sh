#!/bin/sh
cd /verif/chk.scratch/c07/mut
./mut.sh M2_pr_drop_attr src/pkgcore/restrictions/packages.py '    __attr_comparison__ = ("__class__", "negate", "_attr_split", "restriction")=>>    __attr_comparison__ = ("__class__", "negate", "restriction")'
./mut.sh M3_vm_eq_ignores_rev src/pkgcore/ebuild/restricts.py '                self.droprev != other.droprev
                or self.ver != other.ver
                or self.rev != other.rev=>>                self.droprev != other.droprev
                or self.ver != other.ver'
./mut.sh M4_bool_drop_negate src/pkgcore/restrictions/boolean.py '    __attr_comparison__ = ("__class__", "negate", "type", "restrictions")=>>    __attr_comparison__ = ("__class__", "type", "restrictions")'
./mut.sh M5_atom_drop_negate_vers src/pkgcore/ebuild/atom.py '        "blocks",
        "negate_vers",=>>        "blocks",'
./mut.sh M6_vm_hash_half_reverted src/pkgcore/ebuild/restricts.py '        return hash((self.droprev, self.ver, self.rev, self._convert_ops(self)))=>>        return hash((self.droprev, self.ver, self.rev, self.negate, self.vals))'
./mut.sh M7_cond_eq_without_payload src/pkgcore/restrictions/packages.py '    __attr_comparison__ = ("__class__", "negate", "attr", "restriction", "payload")=>>    __attr_comparison__ = ("__class__", "negate", "attr", "restriction")'
./mut.sh M8_glob_ci_eq_only_when_cs src/pkgcore/restrictions/values.py '    __slots__ = __attr_comparison__ = ("glob", "prefix", "negate", "flags")=>>    __slots__ = ("glob", "prefix", "negate", "flags")
    __attr_comparison__ = ("glob", "negate", "flags")'
./mut.sh H1_harmless_refactor src/pkgcore/ebuild/restricts.py '        if inst.negate:
            return tuple(sorted({-1, 0, 1}.difference(inst.vals)))
        return inst.vals=>>        accepted = inst.vals
        if inst.negate:
            everything = {-1, 0, 1}
            accepted = tuple(sorted(everything - set(accepted)))
        return accepted'
./mut.sh H2_harmless_weaker_hash src/pkgcore/restrictions/packages.py '        return hash((self.negate, self.attrs, self.restriction))=>>        return hash((self.attrs, self.restriction))'
