import random
from harness import common, c08
m = c08.load_mods()
full = [{c: {p: [1, 2] for p in c08.PKGS} for c in c08.CATS}]
def fails(t):
    try: robj,_ = c08.make_case(m, full, t)
    except ValueError: return False
    res = c08.run_impl(m, full, robj); want = c08.oracle(m, full, robj)
    return res[1] != want[0]
shapes = c08.shape_trees()
print("shapes failing on full repo:", sum(fails(t) for t in shapes))
rng = random.Random("C08/0"); n=0; first=None
for _ in range(3000):
    t = c08.gen_tree(rng, rng.choice([1,2,2,3]))
    if fails(t): n+=1; first = first or t
print("random failing on full repo:", n, first)
