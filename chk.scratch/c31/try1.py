import os, sys, time
from pkgcore.ebuild import processor as P
t=time.time()
ebp = P.request_ebuild_processor()
print("started", time.time()-t, ebp.pid, sorted(ebp._readonly_vars)[:5], len(ebp._readonly_vars))
print(open(f"/proc/{ebp.pid}/environ","rb").read().split(b"\0"))
env = {"A":"x y", "B":"it's", "L":["a","b c"], "PKGCORE_NONEXPORTED_VARS":"B"}
ebp.write("process_ebuild nonexistent_phase_xx")
print("send_env", ebp.send_env(env))
print("alive", ebp.is_responsive)
ebp.write("shutdown_daemon")
print(ebp.read())
print("alive2", ebp.is_responsive)
P.release_ebuild_processor(ebp)
ebp.shutdown_processor()
