(* Proofs_C27.v — crash consistency of a store and of the listing; the property theorems are re-exported in Prop_C27.v. *)
From Coq Require Import List NArith ZArith Bool Arith Lia Permutation.
From Coq Require String.
Import String.StringSyntax.
Import ListNotations.
From Verif Require Import Base.Val C18.Fs C18.FsLemmas C27.Model_C27 C27.Spec_C27 C27.Lemmas_C27 C27.Roundtrip_C27.
Local Open Scope N_scope.


(* ------------------------------------------------------------------ the store on the filesystem *)
Definition is_mkdir (o : op) : Prop := exists p m, o = Mkdir p m.
Definition mkdir_paths (ops : list op) : list path :=
  flat_map (fun o => match o with Mkdir p _ => [p] | _ => [] end) ops.
Definition is_dir_opt (o : option node) : Prop := exists m u g t, o = Some (Dir m u g t).

Lemma can_create_unbound s p : can_create s p = true -> lookup s p = None.
Proof. unfold can_create. destruct p as [|x p]; [discriminate|]. destruct (lookup s (x :: p)); [discriminate|reflexivity]. Qed.

(* a run of mkdir calls only turns unbound paths it names into directories *)
Lemma mkdirs_run : forall ops, Forall is_mkdir ops -> forall s q,
  lookup (run ops s) q = lookup s q \/
  (lookup s q = None /\ In q (mkdir_paths ops) /\ is_dir_opt (lookup (run ops s) q)).
Proof.
  induction 1 as [|o r [p [m ->]] Hr IH]; intros s q; [now left|].
  cbn [run apply_op]. destruct (can_create s p) eqn:Hc; cbn iota; [|now left].
  pose proof (can_create_unbound _ _ Hc) as Hu.
  destruct (IH (set_node s p (Dir m ME ME NOW)) q) as [E|[E1 [E2 E3]]].
  - rewrite E, lookup_set_node. destruct (path_eq_dec q p) as [->|Hne]; [|now left].
    right. split; [exact Hu|]. split; [cbn; now left|].
    now exists m, ME, ME, NOW.
  - rewrite lookup_set_node in E1. destruct (path_eq_dec q p); [discriminate|].
    right. split; [exact E1|]. split; [cbn; now right|exact E3].
Qed.

Lemma mkdirs_run_frame ops s q : Forall is_mkdir ops -> ~ In q (mkdir_paths ops) ->
  lookup (run ops s) q = lookup s q.
Proof. intros H Hn. destruct (mkdirs_run ops H s q) as [E|[_ [Hin _]]]; [exact E|contradiction]. Qed.

Lemma prefixes_len base rest p : In p (prefixes_from base rest) -> (length p <= length base + length rest)%nat.
Proof.
  revert base. induction rest as [|c r IH]; intros base H; [destruct H|]. cbn in H. destruct H as [<-|H].
  - rewrite app_length. cbn. lia.
  - apply IH in H. rewrite app_length in H. cbn in *. lia.
Qed.

Lemma mkdir_ops_spec s dir : Forall is_mkdir (mkdir_ops s dir) /\
  forall p, In p (mkdir_paths (mkdir_ops s dir)) -> (length p <= length dir)%nat.
Proof.
  unfold mkdir_ops. split.
  - apply Forall_forall. intros o Ho. apply in_flat_map in Ho as [p [_ Ho]].
    destruct (lookup s p); [destruct Ho|]. destruct Ho as [<-|[]]. now exists p, MODE_DIR.
  - intros p Hp. unfold mkdir_paths in Hp. apply in_flat_map in Hp as [o [Ho Hp]].
    apply in_flat_map in Ho as [p' [Hp' Ho]]. destruct (lookup s p'); [destruct Ho|].
    destruct Ho as [<-|[]]. destruct Hp as [<-|[]]. apply prefixes_len in Hp'. cbn in Hp'. exact Hp'.
Qed.

Lemma firstn_is_mkdir k ops : Forall is_mkdir ops -> Forall is_mkdir (firstn k ops).
Proof. apply Forall_firstn. Qed.
Lemma firstn_mkdir_paths k ops p : In p (mkdir_paths (firstn k ops)) -> In p (mkdir_paths ops).
Proof.
  unfold mkdir_paths. intro H. apply in_flat_map in H as [o [Ho Hp]]. apply in_flat_map.
  exists o. split; [|exact Hp]. rewrite <- (firstn_skipn k ops). apply in_or_app. now left.
Qed.

(* names *)
Lemma tmp_path_split loc pid cpv :
  tmp_path loc pid cpv = (loc ++ removelast cpv) ++ [tmp_name pid (last cpv [])].
Proof. unfold tmp_path. now rewrite app_assoc. Qed.
Lemma parent_tmp loc pid cpv : parent (tmp_path loc pid cpv) = loc ++ removelast cpv.
Proof. unfold parent. rewrite tmp_path_split. apply removelast_last. Qed.

Lemma tmp_name_len pid n : (length n < length (tmp_name pid n))%nat.
Proof. unfold tmp_name. rewrite app_length, app_length. change (length (46 :: n)) with (S (length n)).
  match goal with |- (_ < ?a + (?b + _))%nat => generalize a b end. intros; lia. Qed.

Lemma tmp_ne_target loc pid cpv : cpv <> [] -> tmp_path loc pid cpv <> target_path loc cpv.
Proof.
  intros Hne E. unfold tmp_path, target_path in E. apply app_inv_head in E.
  apply (f_equal (fun l => last l [])) in E. rewrite last_last in E. pose proof (tmp_name_len pid (last cpv [])) as L. rewrite E in L. exact (Nat.lt_irrefl _ L).
Qed.

Lemma len_removelast {A} (l : list A) : l <> [] -> length l = S (length (removelast l)).
Proof. intro H. destruct (exists_last H) as [l' [a ->]]. rewrite removelast_last, app_length. cbn. lia. Qed.
Lemma len_tmp loc pid cpv : cpv <> [] -> length (tmp_path loc pid cpv) = (length loc + length cpv)%nat.
Proof.
  intro Hne. rewrite tmp_path_split, !app_length. cbn [length].
  rewrite (len_removelast cpv Hne). lia.
Qed.
Lemma len_parent (loc cpv : path) : cpv <> [] -> (length (loc ++ removelast cpv) < length loc + length cpv)%nat.
Proof. intro Hne. rewrite app_length. rewrite (len_removelast cpv Hne). lia. Qed.

Lemma perm_ops_ok tmp gid : Forall (perm_on tmp) (perm_ops tmp gid).
Proof. unfold perm_ops. repeat constructor. Qed.

(* the node a complete store leaves at the target *)
Definition new_node (content : str) (gid : N) (i : N) : node := File content PERMS ME gid NOW i.

Lemma staged_new chunks gid tmp i :
  staged_node MODE_TMP chunks (perm_ops tmp gid) i = new_node (concat chunks) gid i.
Proof. unfold staged_node, perm_ops, new_node. cbn. reflexivity. Qed.

(* THE FRAME of a store at every crash point k *)
Theorem store_frame_proof : forall s loc pid gid cpv chunks k,
  cpv <> [] ->
  let tmp := tmp_path loc pid cpv in
  let target := target_path loc cpv in
  let ops := store_ops s loc pid gid cpv chunks in
  let sk := run (firstn k ops) s in
  (forall q, q <> target -> q <> tmp ->
     lookup sk q = lookup s q \/ (lookup s q = None /\ is_dir_opt (lookup sk q))) /\
  (lookup sk target = lookup s target \/
   (exists i, lookup sk target = Some (new_node (concat chunks) gid i)) /\ lookup sk tmp = None /\ (length ops <= k)%nat).
Proof.
  intros s loc pid gid cpv chunks k Hne tmp target ops sk.
  set (rep := replace_ops tmp target MODE_TMP chunks (perm_ops tmp gid)).
  set (pre := if isdir s (parent tmp) then [] else mkdir_ops s (parent tmp)).
  assert (Eops : ops = pre ++ rep).
  { subst ops pre rep. unfold store_ops. fold tmp target. destruct (isdir s (parent tmp)); reflexivity. }
  assert (Hpre : Forall is_mkdir pre /\ forall p, In p (mkdir_paths pre) -> (length p < length loc + length cpv)%nat).
  { subst pre. destruct (isdir s (parent tmp)).
    - split; [constructor|intros p []].
    - destruct (mkdir_ops_spec s (parent tmp)) as [H1 H2]. split; [exact H1|].
      intros p Hp. apply H2 in Hp. subst tmp. rewrite parent_tmp in Hp.
      pose proof (len_parent loc cpv Hne). lia. }
  destruct Hpre as [Hmk Hlen].
  assert (Htmp_out : ~ In tmp (mkdir_paths pre))
    by (intro H; apply Hlen in H; subst tmp; rewrite len_tmp in H by exact Hne; lia).
  assert (Htgt_out : ~ In target (mkdir_paths pre))
    by (intro H; apply Hlen in H; subst target; unfold target_path in H; rewrite app_length in H; lia).
  assert (Hne2 : tmp <> target) by (apply tmp_ne_target; exact Hne).
  subst sk. rewrite Eops, firstn_app, run_app.
  set (a := firstn k pre).
  assert (Ha : Forall is_mkdir a) by (apply firstn_is_mkdir; exact Hmk).
  assert (Hain : forall p, In p (mkdir_paths a) -> In p (mkdir_paths pre)) by (intro p; apply firstn_mkdir_paths).
  assert (Hmid : forall q, lookup (run a s) q = lookup s q \/ (lookup s q = None /\ is_dir_opt (lookup (run a s) q))).
  { intro q. destruct (mkdirs_run a Ha s q) as [E|[E1 [_ E3]]]; [now left|right; now split]. }
  assert (Hmid_tgt : lookup (run a s) target = lookup s target)
    by (apply mkdirs_run_frame; [exact Ha|intro H; apply Htgt_out, Hain, H]).
  destruct (run_opt a s) as [s1|] eqn:Ero.
  - pose proof (run_opt_run _ _ _ Ero) as Es1. rewrite Es1 in Hmid, Hmid_tgt.
    destruct (atomic_replace s1 tmp target MODE_TMP chunks (perm_ops tmp gid) (k - length pre) Hne2
                (perm_ops_ok tmp gid)) as [Hfr Hp]. fold rep in Hfr, Hp.
    split.
    + intros q Hq1 Hq2. rewrite (Hfr q Hq1 Hq2). apply Hmid.
    + destruct Hp as [Hp|[s2 [Hs2 [Hp [Hgone Hk]]]]]; [left; congruence|].
      right. split; [|split; [exact Hgone|]].
      * exists (fresh_ino s1). rewrite Hp.
        rewrite (staged_complete _ _ _ _ _ _ (perm_ops_ok tmp gid) Hs2). rewrite staged_new. reflexivity.
      * rewrite app_length.
        destruct (Nat.le_gt_cases (length pre) k) as [Hle|Hgt]; [lia|].
        replace (k - length pre)%nat with 0%nat in Hk by lia. subst rep. unfold replace_ops in Hk. cbn in Hk. lia.
  - split.
    + intros q _ _. apply Hmid.
    + left. exact Hmid_tgt.
Qed.


(* ------------------------------------------------------------------ readers at a crash point *)
Lemma target_inj loc a b : target_path loc a = target_path loc b -> a = b.
Proof. unfold target_path. apply app_inv_head. Qed.

Theorem store_atomic_proof : forall lay s loc pid gid cpv chunks k,
  cpv <> [] ->
  let ops := store_ops s loc pid gid cpv chunks in
  let sk := run (firstn k ops) s in
  read_entry lay sk loc cpv = read_entry lay s loc cpv \/
  ((length ops <= k)%nat /\ read_entry lay sk loc cpv = parse lay (concat chunks)).
Proof.
  intros lay s loc pid gid cpv chunks k Hne ops sk.
  destruct (store_frame_proof s loc pid gid cpv chunks k Hne) as [_ [H|[[i H] [_ Hk]]]];
    fold ops in H; fold sk in H; unfold read_entry.
  - left. rewrite H. reflexivity.
  - right. split; [exact Hk|]. rewrite H. reflexivity.
Qed.

(* every other entry that exists is read exactly as before *)
Theorem store_others_proof : forall lay s loc pid gid cpv chunks k cpv',
  cpv <> [] -> cpv' <> cpv -> target_path loc cpv' <> tmp_path loc pid cpv ->
  lookup s (target_path loc cpv') <> None ->
  let sk := run (firstn k (store_ops s loc pid gid cpv chunks)) s in
  read_entry lay sk loc cpv' = read_entry lay s loc cpv'.
Proof.
  intros lay s loc pid gid cpv chunks k cpv' Hne Hd Ht Hb sk.
  destruct (store_frame_proof s loc pid gid cpv chunks k Hne) as [Hfr _].
  destruct (Hfr (target_path loc cpv')) as [E|[E _]]; [intro E; apply Hd, (target_inj loc), E|exact Ht| |contradiction].
  unfold read_entry. fold sk in E. rewrite E. reflexivity.
Qed.

(* ------------------------------------------------------------------ the listing *)
Lemma lookup_in_keys s p n : lookup s p = Some n -> In p (map fst s).
Proof. intro H. apply lookup_In in H. apply (in_map fst) in H. exact H. Qed.

Definition listable (b : bool) (loc p : path) (n : node) : bool :=
  is_prefix loc p && negb (is_dir_node n)
  && negb (match skipn (length loc) p with [] => true | _ => false end)
  && forallb (listed_name b) (skipn (length loc) p).

Lemma keys_gen_spec b s loc key :
  In key (keys_gen b s loc) <->
  exists p n, lookup s p = Some n /\ listable b loc p n = true /\ key = join_on c_sl (skipn (length loc) p).
Proof.
  unfold keys_gen. rewrite in_flat_map. split.
  - intros [p [_ H]]. destruct (lookup s p) as [n|] eqn:E; [|destruct H].
    fold (listable b loc p n) in H. destruct (listable b loc p n) eqn:L; [|destruct H].
    destruct H as [<-|[]]. now exists p, n.
  - intros [p [n [E [L ->]]]]. exists p. split; [eapply lookup_in_keys; eauto|].
    rewrite E. fold (listable b loc p n). rewrite L. now left.
Qed.

Lemma skipn_loc (loc rest : path) : skipn (length loc) (loc ++ rest) = rest.
Proof. rewrite skipn_app, skipn_all, Nat.sub_diag. reflexivity. Qed.

Lemma startswith_app p r : startswith p (p ++ r) = true.
Proof. unfold startswith. rewrite firstn_app, firstn_all, Nat.sub_diag. cbn. rewrite app_nil_r. apply str_eqb_refl. Qed.

(* with the repair, the staging file is never listable *)
Lemma tmp_not_listable loc pid cpv n : listable true loc (tmp_path loc pid cpv) n = false.
Proof.
  unfold listable, tmp_path. rewrite skipn_loc, forallb_app. cbn [forallb].
  unfold listed_name at 2. unfold tmp_name. rewrite startswith_app. cbn [andb negb].
  rewrite !andb_false_r. reflexivity.
Qed.

Lemma listable_node b loc p n n' : is_dir_node n = is_dir_node n' -> listable b loc p n = listable b loc p n'.
Proof. unfold listable. intros ->. reflexivity. Qed.

Theorem listing_no_partial_proof : forall lay s loc pid gid cpv chunks k,
  cpv <> [] ->
  let sk := run (firstn k (store_ops s loc pid gid cpv chunks)) s in
  listing_ok lay s sk loc cpv (parse lay (concat chunks)).
Proof.
  intros lay s loc pid gid cpv chunks k Hne sk key Hin.
  apply keys_gen_spec in Hin as [p [n [E [L ->]]]].
  destruct (store_frame_proof s loc pid gid cpv chunks k Hne) as [Hfr Htg]. fold sk in Hfr, Htg.
  destruct (path_eq_dec p (tmp_path loc pid cpv)) as [->|Hnt]; [rewrite tmp_not_listable in L; discriminate|].
  destruct (path_eq_dec p (target_path loc cpv)) as [->|Hng].
  - destruct Htg as [Ho|[[i Hi] _]].
    + left. apply keys_gen_spec. exists (target_path loc cpv), n. rewrite <- Ho. auto.
    + right. unfold target_path. rewrite skipn_loc. split; [reflexivity|].
      unfold read_entry. rewrite Hi. reflexivity.
  - destruct (Hfr p Hng Hnt) as [Eq|[_ [m [u [g [t Ed]]]]]].
    + left. apply keys_gen_spec. exists p, n. rewrite <- Eq. auto.
    + rewrite Ed in E. injection E as <-. unfold listable in L. cbn in L. rewrite andb_false_r in L. discriminate.
Qed.

(* no committed entry disappears from the listing during a store *)
Theorem listing_keeps_proof : forall s loc pid gid cpv chunks k key,
  cpv <> [] ->
  let sk := run (firstn k (store_ops s loc pid gid cpv chunks)) s in
  In key (keys s loc) -> In key (keys sk loc).
Proof.
  intros s loc pid gid cpv chunks k key Hne sk Hin.
  apply keys_gen_spec in Hin as [p [n [E [L ->]]]].
  destruct (store_frame_proof s loc pid gid cpv chunks k Hne) as [Hfr Htg]. fold sk in Hfr, Htg.
  destruct (path_eq_dec p (tmp_path loc pid cpv)) as [->|Hnt]; [rewrite tmp_not_listable in L; discriminate|].
  apply keys_gen_spec.
  destruct (path_eq_dec p (target_path loc cpv)) as [->|Hng].
  - destruct Htg as [Ho|[[i Hi] _]].
    + exists (target_path loc cpv), n. rewrite Ho. auto.
    + exists (target_path loc cpv), (new_node (concat chunks) gid i). split; [exact Hi|]. split; [|reflexivity].
      transitivity (listable true loc (target_path loc cpv) n); [|exact L]. apply listable_node. unfold listable in L. destruct (is_dir_node n); [|reflexivity].
      cbn in L. rewrite andb_false_r in L. discriminate L.
  - destruct (Hfr p Hng Hnt) as [Eq|[En _]]; [|congruence].
    exists p, n. rewrite Eq. auto.
Qed.

(* ------------------------------------------------------------------ non-vacuity and the pinned tree *)
Definition ex_entry : entry :=
  mk_entry [(lit "DESCRIPTION", lit "a tool"); (lit "EAPI", lit "8"); (lit "BOGUS", lit "x")]
           (Some [(lit "eutils", mk_e (lit "/r/eclass/eutils.eclass") 1700000000250 255)])
           (Some (mk_e (lit "/r/cat/pkg/pkg-1.ebuild") 1700000001750 4096)).
Definition ex_cpv : path := [lit "cat"; lit "pkg-1"].
Definition ex_old : str := lit "EAPI=7" ++ [c_nl] ++ lit "_mtime_=5" ++ [c_nl].
Definition ex_fs : fs := mk_fs true [(ex_cpv, ex_old); ([lit "cat"; lit "other-2"], ex_old)].
Definition ex_content : str := match serialize Flat ex_entry with Some c => c | None => [] end.
Definition ex_ops : list op := store_ops ex_fs LOC 4242 250 ex_cpv (chunks_per_char ex_content).
Definition ex_ops_buffered : list op := store_ops ex_fs LOC 4242 250 ex_cpv (chunks_at_close ex_content).

Example ex_wf : wf_entry ex_entry.
Proof.
  split; [|split; reflexivity]. cbn. repeat constructor; cbn; intuition discriminate.
Qed.
(* the complete store is visible, and is the stored entry *)
Example ex_complete :
  read_entry Flat (run ex_ops ex_fs) LOC ex_cpv = parse Flat ex_content /\
  (exists d, parse Flat ex_content = inl d /\
             dget (lit "DESCRIPTION") d = Some (PStr (lit "a tool")) /\ dget (lit "_mtime_") d = Some (PNum 1700000001) /\
             dget (lit "BOGUS") d = None) /\
  read_entry Flat ex_fs LOC ex_cpv <> parse Flat ex_content.
Proof.
  split; [vm_compute; reflexivity|]. split; [|vm_compute; discriminate].
  eexists. split; [vm_compute; reflexivity|]. vm_compute. auto.
Qed.
(* in the middle of the store the old entry is read and the listing is the old one *)
Example ex_midway :
  read_entry Flat (run (firstn 20 ex_ops) ex_fs) LOC ex_cpv = read_entry Flat ex_fs LOC ex_cpv /\
  keys (run (firstn 20 ex_ops) ex_fs) LOC = keys ex_fs LOC /\
  lookup (run (firstn 20 ex_ops) ex_fs) (tmp_path LOC 4242 ex_cpv) <> None.
Proof. repeat split; vm_compute; congruence. Qed.

(* with the real buffering (one flush at close) the store is 5 system calls; after the flush but
   before the rename the old entry is still what readers see, the complete one afterwards *)
Example ex_buffered :
  length ex_ops_buffered = 5%nat /\
  read_entry Flat (run (firstn 4 ex_ops_buffered) ex_fs) LOC ex_cpv = read_entry Flat ex_fs LOC ex_cpv /\
  read_entry Flat (run ex_ops_buffered ex_fs) LOC ex_cpv = parse Flat ex_content.
Proof. repeat split; vm_compute; reflexivity. Qed.

(* the pinned tree (keys_gen false = no '.update.' filter): the same crash point lists the
   half-written staging file as a package.  This is the defect repaired by
   fixes/C27-skip-update-temp.patch. *)
Definition listing_ok_unrepaired : Prop :=
  forall s loc pid gid cpv chunks k, cpv <> [] ->
    forall key, In key (keys_gen false (run (firstn k (store_ops s loc pid gid cpv chunks)) s) loc) ->
      In key (keys_gen false s loc) \/ key = join_on c_sl cpv.
Theorem listing_unrepaired_refuted_proof : ~ listing_ok_unrepaired.
Proof.
  intro H. specialize (H ex_fs LOC 4242 250 ex_cpv (chunks_per_char ex_content) 20%nat ltac:(discriminate)
                         (lit "cat/.update.4242.pkg-1")).
  destruct H as [H|H]; [vm_compute; tauto|vm_compute in H|vm_compute in H; discriminate].
  intuition discriminate.
Qed.
