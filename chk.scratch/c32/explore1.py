import os, sys, tempfile, shutil
sys.path.insert(0, "/verif")
from harness import c32
from pkgcore.ebuild import ebd_ipc
from pkgcore.test.misc import FakePkg
top=tempfile.mkdtemp(prefix="c32x_")
src=os.path.join(top,"src"); os.makedirs(src); ED=os.path.join(top,"image"); os.makedirs(ED)
for n in "abc": open(os.path.join(src,n),"w").write("content-"+n)
os.makedirs(os.path.join(src,"d"))
pkg=FakePkg("cat/pn-1.0",eapi="7",slot="0")
op=c32.Op(pkg,ED)
helpers={"doins":ebd_ipc.Doins(op),"dodoc":ebd_ipc.Dodoc(op),"dodir":ebd_ipc.Dodir(op),"docompress":ebd_ipc.Docompress(op),"doexe":ebd_ipc.Doexe(op)}
def sess(reqs, end=b"phases succeeded\n"):
    data=b"".join(c32.bash_request(*r) for r in reqs)+end
    wire,consumed,exc,sd=c32.run_stream(helpers,data,pkg)
    print(repr(wire.replace(top,"TOP")), consumed==len(data), type(exc).__name__ if exc else None, str(exc).replace(top,"TOP")[:150] if exc else "", sd)
sess([("doins",True,src,"install","--dest=/usr",["a","b"])])
sess([("doins",True,src,"install","--dest=/usr",["a","zz"]), ("doins",True,src,"install","--dest=/usr",["c"])])
sess([("doins",False,src,"install","--dest=/usr",["zz"]), ("doins",True,src,"install","--dest=/usr",["c"])])
sess([("doins",True,src,"install","--dest=/usr --bogus=1 extra",["a"])])
sess([("doins",True,src,"install","--dest=/usr",["-z","a"])])
sess([("doins",True,src,"install","--dest=/usr",["a","-z"])])
sess([("doins",True,src,"install","--dest=/usr",["-r","a","d"])])
sess([("doins",True,src,"install","--dest=/usr",["a","d"])])
sess([("dodoc",True,src,"install","--dest=/usr",["a","d"])])
sess([("doins",True,src,"install","--dest=/usr",[])])
sess([("doins",True,src,"install","--dest='/usr",["a"])])
sess([("doins",True,src+"/nonexist","install","--dest=/usr",["a"])])
sess([("docompress",True,src,"install","",["-x","/a"])])
sess([("dodir",True,src,"install","--diroptions=-m0700",["/x/y","z"])])
sess([("doexe",True,src,"install","--dest=/usr/a --insoptions='-m0700 -p'",["b"])])
sess([("doexe",True,src,"install","--dest=/usr/a/q --insoptions=-m0700",["b"])])
sess([("doexe",True,src,"install","--dest=/usr --insoptions=-m0700",["a"])])
sess([("doexe",True,src,"install","--dest=/usr --insoptions='-m u=rwx,go=rx'",["b"])])
sess([("doexe",True,src,"install","--dest=/usr --insoptions='-m u=zzz'",["b"])])
sess([("doexe",False,src,"install","--dest=/usr --insoptions='-m u=zzz'",["b","c"])])
sess([("dodir",True,src,"install","--diroptions='-m u=zzz'",["/q"])])
sess([("bogus",True,src,"install","",["/q"])])
for r,ds,fs in os.walk(ED):
    for f in fs+ds: p=os.path.join(r,f); print(p.replace(ED,""), oct(os.lstat(p).st_mode))
print(op.observer.msgs)
shutil.rmtree(top)
