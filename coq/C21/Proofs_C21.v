(* C21 — lemmas and proofs. *)
From Coq Require Import List NArith ZArith Bool Arith Lia.
Import ListNotations.
From Verif Require Import Base.Val C22.Model_C22 C21.Model_C21 C21.Spec_C21.

Lemma seq_true a : str_eqb a a = true. Proof. apply str_eqb_refl. Qed.
Lemma seq_neq a b : a <> b -> str_eqb a b = false.
Proof. intro H. destruct (str_eqb a b) eqn:E; auto. apply str_eqb_eq in E. contradiction. Qed.

Lemma pm_get_del_other k q m : k <> q -> pm_get k (pm_del q m) = pm_get k m.
Proof.
  intro H. induction m as [|[k' n] m IH]; simpl; auto.
  destruct (str_eqb q k') eqn:E; simpl.
  - apply str_eqb_eq in E. subst. rewrite (seq_neq k k') by auto. exact IH.
  - destruct (str_eqb k k'); auto.
Qed.
Lemma pm_get_del_same k m : pm_get k (pm_del k m) = None.
Proof.
  induction m as [|[k' n] m IH]; simpl; auto.
  destruct (str_eqb k k') eqn:E; simpl; auto. rewrite E. exact IH.
Qed.
Lemma pm_get_set_other k q n m : k <> q -> pm_get k (pm_set q n m) = pm_get k m.
Proof.
  intro H. induction m as [|[k' n'] m IH]; simpl.
  - rewrite (seq_neq k q) by auto. reflexivity.
  - destruct (str_eqb q k') eqn:E; simpl.
    + apply str_eqb_eq in E. subst. rewrite (seq_neq k k') by auto. reflexivity.
    + destruct (str_eqb k k'); auto.
Qed.
Lemma pm_get_set_same k n m : pm_get k (pm_set k n m) = Some n.
Proof.
  induction m as [|[k' n'] m IH]; simpl.
  - rewrite seq_true. reflexivity.
  - destruct (str_eqb k k') eqn:E; simpl.
    + rewrite seq_true. reflexivity.
    + rewrite E. exact IH.
Qed.
Lemma pm_get_in k n m : pm_get k m = Some n -> In (k, n) m.
Proof.
  induction m as [|[k' n'] m IH]; simpl; [discriminate|].
  destruct (str_eqb k k') eqn:E.
  - apply str_eqb_eq in E. subst. intro H. inversion H. auto.
  - auto.
Qed.
Lemma pm_get_none_notin k m : pm_get k m = None <-> ~ In k (map fst m).
Proof.
  induction m as [|[k' n'] m IH]; simpl.
  - tauto.
  - destruct (str_eqb k k') eqn:E.
    + apply str_eqb_eq in E. subst. split; [discriminate|]. intro H. exfalso. apply H. auto.
    + rewrite IH. split.
      * intros H [H1|H1]; [subst; rewrite seq_true in E; discriminate | auto].
      * intros H H1. apply H. auto.
Qed.

(* unmerge only removes locations of its cset *)
Lemma unmerge_get fs cs k : ~ In k (map fst cs) -> pm_get k (unmerge_fs fs cs) = pm_get k fs.
Proof.
  unfold unmerge_fs. revert fs. induction cs as [|[q n] cs IH]; simpl; intros fs H; auto.
  rewrite IH by tauto.
  destruct n; auto; apply pm_get_del_other; intro; subst; apply H; auto.
Qed.
Lemma merge_get fs cs k : ~ In k (map fst cs) -> pm_get k (merge_fs fs cs) = pm_get k fs.
Proof.
  unfold merge_fs. revert fs. induction cs as [|[q n] cs IH]; simpl; intros fs H; auto.
  rewrite IH by tauto.
  destruct n; auto; apply pm_get_set_other; intro; subst; apply H; auto.
Qed.

Lemma live_of_in fs cs k n : In (k, n) (live_of fs cs) -> pm_get k fs = Some n.
Proof.
  unfold live_of. intro H. apply in_flat_map in H. destruct H as [[q m] [_ H]]. simpl in H.
  destruct (pm_get q fs) eqn:E; simpl in H; [|contradiction].
  destruct H as [H|[]]. inversion H. subst. exact E.
Qed.

(* ---------------------------------------------------------------- uninstall_keeps_modified *)
Lemma uninstall_set_spares prot ign off fs recorded inst P d :
  pm_get P fs = Some (File d) ->
  prot (strip_off off P) = true -> ign (strip_off off P) = false ->
  differs_from_recorded recorded P d ->
  ~ In P (map fst (uninstall_set prot ign off fs recorded inst)).
Proof.
  intros Hfs Hp Hi [r [Hr Hd]] Hin.
  apply in_map_iff in Hin. destruct Hin as [[k n] [Hk Hin]]. simpl in Hk. subst k.
  unfold uninstall_set in Hin. apply filter_In in Hin. destruct Hin as [Hin Hst].
  apply filter_In in Hin. destruct Hin as [Hin _].
  apply live_of_in in Hin. rewrite Hfs in Hin. inversion Hin. subst n.
  unfold stays in Hst. simpl in Hst. rewrite Hp, Hi, Hr, Hd in Hst. discriminate.
Qed.

Theorem uninstall_keeps_modified_proof :
  forall (prot ign : str -> bool) (off : str) (fs recorded inst : pmap) (P : str) (d : fdata),
    protected_file prot ign off fs P d ->
    differs_from_recorded recorded P d ->
    pm_get P (unmerge_fs fs (uninstall_set prot ign off fs recorded inst)) = Some (File d).
Proof.
  intros prot ign off fs recorded inst P d [Hf [Hp Hi]] Hd.
  rewrite unmerge_get; auto. eapply uninstall_set_spares; eauto.
Qed.

(* ---------------------------------------------------------------- basename of the new name *)
Definition nosl (c : N) : bool := negb (is_sl c).

Lemma take_while_app_all f a b : forallb f a = true -> take_while f (a ++ b) = a ++ take_while f b.
Proof.
  induction a as [|c a IH]; simpl; auto. intro H. apply andb_prop in H. destruct H as [H1 H2].
  rewrite H1. f_equal. auto.
Qed.
Lemma take_while_forallb f s : forallb f (take_while f s) = true.
Proof. induction s as [|c s IH]; simpl; auto. destruct (f c) eqn:E; simpl; auto. rewrite E. auto. Qed.
Lemma forallb_rev f (s : str) : forallb f (rev s) = forallb f s.
Proof.
  induction s as [|c s IH]; simpl; auto. rewrite forallb_app, IH. simpl. rewrite andb_true_r. apply andb_comm.
Qed.
Lemma basename_nosl p : forallb nosl (basename p) = true.
Proof. unfold basename. rewrite forallb_rev. apply take_while_forallb. Qed.

(* x is empty or ends with a slash *)
Definition dir_prefix (x : str) : Prop := x = [] \/ exists y, x = y ++ [SL].
Lemma basename_app x n : dir_prefix x -> forallb nosl n = true -> basename (x ++ n) = n.
Proof.
  intros Hx Hn. unfold basename. rewrite rev_app_distr.
  rewrite take_while_app_all by (rewrite forallb_rev; exact Hn).
  destruct Hx as [->|[y ->]].
  - simpl. rewrite ?app_nil_r. apply rev_involutive.
  - replace (rev (y ++ [SL])) with (SL :: rev y) by (rewrite rev_app_distr; reflexivity).
    simpl. rewrite ?app_nil_r. apply rev_involutive.
Qed.
Lemma ends_sl_spec a : ends_sl a = true -> exists y, a = y ++ [SL].
Proof.
  unfold ends_sl. destruct (rev a) as [|c r] eqn:E; [discriminate|]. intro H.
  unfold is_sl in H. apply N.eqb_eq in H. subst c.
  exists (rev r). rewrite <- (rev_involutive a), E. reflexivity.
Qed.
Lemma pjoin_shape d n : n <> [] -> forallb nosl n = true -> exists x, dir_prefix x /\ pjoin d n = x ++ n.
Proof.
  intros Hne Hn. destruct n as [|c n]; [congruence|]. simpl in Hn. apply andb_prop in Hn. destruct Hn as [Hc _].
  unfold nosl in Hc. apply negb_true_iff in Hc. unfold pjoin. rewrite Hc.
  destruct d as [|a d].
  - exists []. split; [left; auto|reflexivity].
  - destruct (ends_sl (a :: d)) eqn:E.
    + exists (a :: d). split; [right; apply ends_sl_spec; auto|reflexivity].
    + exists ((a :: d) ++ [SL]). split; [right; eexists; reflexivity|]. rewrite <- app_assoc. reflexivity.
Qed.
Lemma basename_pjoin d n : n <> [] -> forallb nosl n = true -> basename (pjoin d n) = n.
Proof. intros H1 H2. destruct (pjoin_shape d n H1 H2) as [x [Hx ->]]. apply basename_app; auto. Qed.

Lemma digit_of_nosl z : nosl (digit_of z) = true.
Proof.
  unfold nosl, is_sl, digit_of. apply negb_true_iff. apply N.eqb_neq.
  pose proof (Z.mod_pos_bound z 10 ltac:(lia)). lia.
Qed.
Lemma digits_nosl fuel w z : forallb nosl (digits fuel w z) = true.
Proof.
  revert w z. induction fuel as [|f IH]; intros w z; [reflexivity|].
  assert (H : forall w', forallb nosl (digits f w' (z / 10) ++ [digit_of z]) = true).
  { intro w'. rewrite forallb_app, IH. cbn [forallb]. rewrite digit_of_nosl. reflexivity. }
  cbn [digits]. destruct w.
  - destruct (z =? 0)%Z; [reflexivity|apply H].
  - apply H.
Qed.
Lemma fmt04_nosl z : forallb nosl (fmt04 z) = true.
Proof.
  unfold fmt04. destruct (z <? 0)%Z.
  - cbn [forallb]. rewrite digits_nosl. reflexivity.
  - apply digits_nosl.
Qed.
Lemma cfg_name_nosl c f : forallb nosl f = true -> forallb nosl (cfg_name c f) = true.
Proof.
  intro H. unfold cfg_name. rewrite forallb_app, forallb_app, fmt04_nosl. cbn [forallb]. rewrite H. reflexivity.
Qed.
Lemma new_loc_basename fs loc n :
  basename (new_loc fs loc n) = cfg_name (cfg_count fs loc n) (basename loc).
Proof.
  unfold new_loc. apply basename_pjoin.
  - unfold cfg_name, cfgp. discriminate.
  - apply cfg_name_nosl, basename_nosl.
Qed.
Lemma new_loc_is_cfg fs loc n : starts_with cfgp (basename (new_loc fs loc n)) = true.
Proof. rewrite new_loc_basename. reflexivity. Qed.

(* ---------------------------------------------------------------- the rename fold *)
Definition rn := ((str * node) * (str * node))%type.
Definition r_new (r : rn) : str := fst (fst r).
Definition r_old (r : rn) : str := fst (snd r).

Lemma apply_rename_other cs r k : r_new r <> k -> r_old r <> k ->
  pm_get k (apply_rename cs r) = pm_get k cs.
Proof.
  intros H1 H2. unfold apply_rename. rewrite pm_get_set_other by (intro; subst; apply H1; reflexivity).
  apply pm_get_del_other. intro; subst; apply H2; reflexivity.
Qed.
Lemma fold_rename_other R cs k : (forall r, In r R -> r_new r <> k /\ r_old r <> k) ->
  pm_get k (fold_left apply_rename R cs) = pm_get k cs.
Proof.
  revert cs. induction R as [|r R IH]; simpl; intros cs H; auto.
  rewrite IH by (intros; apply H; auto). apply apply_rename_other; apply H; auto.
Qed.
(* the old location of a processed rename is gone, provided no new name equals it *)
Lemma fold_rename_none R cs P : (forall r, In r R -> r_new r <> P) ->
  (pm_get P cs = None \/ exists r, In r R /\ r_old r = P) ->
  pm_get P (fold_left apply_rename R cs) = None.
Proof.
  revert cs. induction R as [|r R IH]; simpl; intros cs Hn H.
  - destruct H as [H|[r [[] _]]]. exact H.
  - apply IH; [intros; apply Hn; auto|].
    destruct H as [H|[r0 [[->|Hin] Ho]]].
    + left. unfold apply_rename. rewrite pm_get_set_other by (intro E; apply (Hn r); auto).
      destruct (list_eq_dec N.eq_dec P (r_old r)) as [->|Hd].
      * apply pm_get_del_same.
      * rewrite pm_get_del_other; auto.
    + left. unfold apply_rename. rewrite pm_get_set_other by (intro E; apply (Hn r0); auto).
      unfold r_old in Ho. rewrite Ho. apply pm_get_del_same.
    + right. exists r0. auto.
Qed.
(* the new entry of a rename is in the set afterwards *)
Lemma fold_rename_some R cs r0 :
  In r0 R -> NoDup (map r_new R) -> (forall r, In r R -> r_old r <> r_new r0) ->
  pm_get (r_new r0) (fold_left apply_rename R cs) = Some (snd (fst r0)).
Proof.
  revert cs. induction R as [|r R IH]; simpl; intros cs Hin Hnd Ho; [contradiction|].
  inversion Hnd as [|? ? Hni Hnd']; subst.
  destruct Hin as [->|Hin].
  - rewrite fold_rename_other.
    + unfold apply_rename, r_new. apply pm_get_set_same.
    + intros r Hr. split; [|apply Ho; auto].
      intro E. apply Hni. rewrite <- E. apply in_map. exact Hr.
  - apply IH; auto.
Qed.

Lemma renames_in prot ign off fs inst r :
  In r (renames prot ign off fs inst) ->
  In (snd r) inst /\ is_protected prot ign off fs (snd r) = true /\
  fst r = (new_loc fs (fst (snd r)) (snd (snd r)), snd (snd r)).
Proof.
  unfold renames. intro H. apply in_map_iff in H. destruct H as [e [<- He]].
  apply filter_In in He. simpl. tauto.
Qed.
Lemma renames_intro prot ign off fs inst e :
  In e inst -> is_protected prot ign off fs e = true ->
  In ((new_loc fs (fst e) (snd e), snd e), e) (renames prot ign off fs inst).
Proof.
  intros H1 H2. unfold renames. apply in_map_iff. exists e. split; auto. apply filter_In. auto.
Qed.
Lemma cfg_free_neq_new fs a loc n : starts_with cfgp (basename a) = false -> new_loc fs loc n <> a.
Proof. intros H E. subst a. rewrite new_loc_is_cfg in H. discriminate. Qed.

Lemma protected_is_protected prot ign off fs inst P d n :
  protected_file prot ign off fs P d -> incoming_differs inst P d n ->
  is_protected prot ign off fs (P, n) = true.
Proof.
  intros [Hf [Hp Hi]] [_ Hd]. unfold is_protected. simpl. rewrite Hf, Hp, Hi, Hd. reflexivity.
Qed.

(* ---------------------------------------------------------------- never_overwritten *)
Theorem never_overwritten_proof :
  forall (prot ign : str -> bool) (off : str) (fs inst : pmap) (P : str) (d : fdata) (n : node),
    pkg_ok inst ->
    protected_file prot ign off fs P d ->
    incoming_differs inst P d n ->
    ~ In P (map fst (pre_merge prot ign off fs inst)) /\
    pm_get P (merge_fs fs (pre_merge prot ign off fs inst)) = Some (File d).
Proof.
  intros prot ign off fs inst P d n [Hnd Hfree] Hprot Hinc.
  assert (Hnone : pm_get P (pre_merge prot ign off fs inst) = None).
  { unfold pre_merge. apply fold_rename_none.
    - intros r Hr. apply renames_in in Hr. destruct Hr as [_ [_ Hr]]. unfold r_new. rewrite Hr. simpl.
      apply cfg_free_neq_new. destruct Hinc as [Hin _]. apply (Hfree _ Hin).
    - right. exists ((new_loc fs P n, n), (P, n)). split; [|reflexivity].
      apply (renames_intro prot ign off fs inst (P, n)). apply Hinc.
      eapply protected_is_protected; eauto. }
  apply pm_get_none_notin in Hnone. split; auto.
  rewrite merge_get by exact Hnone. apply Hprot.
Qed.

(* ---------------------------------------------------------------- numbering *)
Lemma pick_count_rule fs d n ups acc :
  let c := pick_count fs d n ups acc in
  (exists x, In (c, x) ups /\ same_content (live_at fs (pjoin d x)) n = true)
  \/ ((acc <= c)%Z /\ forall c' x, In (c', x) ups ->
                               same_content (live_at fs (pjoin d x)) n = false /\ (c' < c)%Z).
Proof.
  revert acc. induction ups as [|[c0 x0] ups IH]; intros acc; simpl.
  - right. split; [lia|]. intros ? ? [].
  - destruct (same_content (live_at fs (pjoin d x0)) n) eqn:E.
    + left. exists x0. auto.
    + destruct (IH (Z.max acc (c0 + 1))) as [[x [Hin Hs]]|[Hle Hall]].
      * left. exists x. auto.
      * right. split; [lia|]. intros c' x [Heq|Hin].
        -- inversion Heq; subst. split; [exact E|lia].
        -- apply Hall. exact Hin.
Qed.
Lemma pending_in fs d fname c x :
  In (c, x) (pending fs d fname) <-> In x (cfg_listing fs d) /\ parse_cfg x = Some (c, fname).
Proof.
  unfold pending. rewrite in_flat_map. split.
  - intros [y [Hy H]]. destruct (parse_cfg y) as [[c1 fn]|] eqn:E; [|contradiction].
    destruct (str_eqb fn fname) eqn:E2; [|contradiction].
    destruct H as [H|[]]. inversion H; subst. apply str_eqb_eq in E2. subst. auto.
  - intros [H1 H2]. exists x. split; auto. rewrite H2, str_eqb_refl. left. reflexivity.
Qed.
Lemma cfg_count_rule fs P n : numbering_rule fs (dirname P) (basename P) n (cfg_count fs P n).
Proof.
  unfold cfg_count, numbering_rule.
  destruct (pick_count_rule fs (dirname P) n (pending fs (dirname P) (basename P)) 0) as [[x [Hin Hs]]|[Hle Hall]].
  - left. apply pending_in in Hin. exists x, (live_at fs (pjoin (dirname P) x)).
    unfold pending_update. tauto.
  - right. split; [exact Hle|]. intros c' x content [H1 [H2 ->]].
    apply Hall. apply pending_in. auto.
Qed.

Definition newlocs_distinct (prot ign : str -> bool) (off : str) (fs inst : pmap) : Prop :=
  NoDup (map r_new (renames prot ign off fs inst)).

Theorem written_beside_proof :
  forall (prot ign : str -> bool) (off : str) (fs inst : pmap) (P : str) (d : fdata) (n : node),
    pkg_ok inst ->
    protected_file prot ign off fs P d ->
    incoming_differs inst P d n ->
    let c := cfg_count fs P n in
    let dest := pjoin (dirname P) (cfg_name c (basename P)) in
    numbering_rule fs (dirname P) (basename P) n c /\
    In ((dest, n), (P, n)) (renames prot ign off fs inst) /\
    (newlocs_distinct prot ign off fs inst -> pm_get dest (pre_merge prot ign off fs inst) = Some n).
Proof.
  intros prot ign off fs inst P d n [Hnd Hfree] Hprot Hinc. simpl.
  split; [apply cfg_count_rule|].
  assert (Hr : In ((new_loc fs P n, n), (P, n)) (renames prot ign off fs inst)).
  { apply (renames_intro prot ign off fs inst (P, n)). apply Hinc. eapply protected_is_protected; eauto. }
  split; [exact Hr|].
  intro Hdist. unfold pre_merge.
  apply (fold_rename_some _ inst _ Hr Hdist).
  intros r Hin. apply renames_in in Hin. destruct Hin as [Hin _]. unfold r_old, r_new. simpl.
  intro E. pose proof (Hfree _ Hin) as Hf. rewrite E in Hf. fold (new_loc fs P n) in Hf.
  rewrite new_loc_is_cfg in Hf. discriminate.
Qed.

(* ---------------------------------------------------------------- keys stay distinct *)
Lemma keys_del k m : NoDup (map fst m) -> NoDup (map fst (pm_del k m)).
Proof.
  unfold pm_del. induction m as [|[q n] m IH]; simpl; intro H; [constructor|].
  inversion H as [|? ? Hni Hnd]; subst.
  destruct (negb (str_eqb k q)); simpl; auto.
  constructor; auto. intro Hin. apply Hni.
  apply in_map_iff in Hin. destruct Hin as [e [He Hin]]. apply filter_In in Hin.
  apply in_map_iff. exists e. tauto.
Qed.
Lemma keys_set_in x k n m : In x (map fst (pm_set k n m)) -> x = k \/ In x (map fst m).
Proof.
  induction m as [|[q n'] m IH]; simpl.
  - intros [H|[]]; auto.
  - destruct (str_eqb k q) eqn:E; simpl.
    + apply str_eqb_eq in E. subst. intros [H|H]; auto.
    + intros [H|H]; auto. destruct (IH H); auto.
Qed.
Lemma keys_set k n m : NoDup (map fst m) -> NoDup (map fst (pm_set k n m)).
Proof.
  induction m as [|[q n'] m IH]; simpl; intro H.
  - constructor; [intros []|constructor].
  - inversion H as [|? ? Hni Hnd]; subst.
    destruct (str_eqb k q) eqn:E; simpl.
    + apply str_eqb_eq in E. subst. constructor; auto.
    + constructor; auto. intro Hin. apply keys_set_in in Hin. destruct Hin as [->|Hin]; auto.
      rewrite str_eqb_refl in E. discriminate.
Qed.
Lemma keys_pre_merge prot ign off fs inst :
  NoDup (map fst inst) -> NoDup (map fst (pre_merge prot ign off fs inst)).
Proof.
  unfold pre_merge. generalize (renames prot ign off fs inst). intro R. revert inst.
  induction R as [|r R IH]; simpl; intros cs H; auto.
  apply IH. unfold apply_rename. apply keys_set, keys_del, H.
Qed.
Lemma merge_get_some fs cs k n :
  NoDup (map fst cs) -> pm_get k cs = Some n -> n <> Dir -> pm_get k (merge_fs fs cs) = Some n.
Proof.
  unfold merge_fs. revert fs. induction cs as [|[q m] cs IH]; simpl; intros fs Hnd Hg Hn; [discriminate|].
  inversion Hnd as [|? ? Hni Hnd']; subst.
  destruct (str_eqb k q) eqn:E.
  - apply str_eqb_eq in E. subst q. inversion Hg; subst m.
    destruct n as [dd|tt|]; [| |congruence].
    + change (pm_get k (merge_fs (pm_set k (File dd) fs) cs) = Some (File dd)).
      rewrite merge_get by exact Hni. apply pm_get_set_same.
    + change (pm_get k (merge_fs (pm_set k (Sym tt) fs) cs) = Some (Sym tt)).
      rewrite merge_get by exact Hni. apply pm_get_set_same.
  - apply IH; auto.
Qed.

(* ---------------------------------------------------------------- the restore fold *)
Lemma pm_get_del_none k q m : pm_get k m = None -> pm_get k (pm_del q m) = None.
Proof.
  intro H. destruct (list_eq_dec N.eq_dec k q) as [->|Hd].
  - apply pm_get_del_same.
  - rewrite pm_get_del_other; auto.
Qed.
Lemma restore_none cs r k : pm_get k cs = None -> r_old r <> k -> pm_get k (apply_restore cs r) = None.
Proof.
  intros H Ho. unfold apply_restore. destruct (pm_has (fst (fst r)) cs); auto.
  rewrite pm_get_set_other by (intro E; apply Ho; unfold r_old; auto).
  apply pm_get_del_none, H.
Qed.
Lemma fold_restore_none R cs k : pm_get k cs = None -> (forall r, In r R -> r_old r <> k) ->
  pm_get k (fold_left apply_restore R cs) = None.
Proof.
  revert cs. induction R as [|r R IH]; simpl; intros cs H Ho; auto.
  apply IH; [|intros; apply Ho; auto]. apply restore_none; auto.
Qed.
Lemma restore_other cs r k : r_new r <> k -> r_old r <> k -> pm_get k (apply_restore cs r) = pm_get k cs.
Proof.
  intros H1 H2. unfold apply_restore. destruct (pm_has (fst (fst r)) cs); auto.
  rewrite pm_get_set_other by (intro E; apply H2; unfold r_old; auto).
  apply pm_get_del_other. intro E; apply H1; unfold r_new; auto.
Qed.
Lemma fold_restore_other R cs k : (forall r, In r R -> r_new r <> k /\ r_old r <> k) ->
  pm_get k (fold_left apply_restore R cs) = pm_get k cs.
Proof.
  revert cs. induction R as [|r R IH]; simpl; intros cs H; auto.
  rewrite IH by (intros; apply H; auto). apply restore_other; apply H; auto.
Qed.
(* after the restore the ._cfg name is gone ... *)
Lemma fold_restore_new_gone R cs r0 :
  In r0 R -> (forall r, In r R -> r_old r <> r_new r0) ->
  pm_get (r_new r0) (fold_left apply_restore R cs) = None.
Proof.
  revert cs. induction R as [|r R IH]; simpl; intros cs Hin Ho; [contradiction|].
  destruct Hin as [->|Hin].
  - apply fold_restore_none; [|intros; apply Ho; auto].
    unfold apply_restore. fold (r_new r0). unfold pm_has.
    destruct (pm_get (r_new r0) cs) eqn:E; auto.
    rewrite pm_get_set_other by (intro E'; apply (Ho r0); auto). apply pm_get_del_same.
  - apply IH; auto.
Qed.
(* ... and the real name is back, when the ._cfg entry was there and no other rename touches either name *)
Lemma fold_restore_old_back R cs r0 v :
  In r0 R -> NoDup (map r_new R) ->
  pm_get (r_new r0) cs = Some v ->
  (forall r, In r R -> r_old r <> r_new r0 /\ r_new r <> r_old r0) ->
  (forall r, In r R -> r_old r = r_old r0 -> r = r0) ->
  pm_get (r_old r0) (fold_left apply_restore R cs) = Some (snd (snd r0)).
Proof.
  revert cs. induction R as [|r R IH]; simpl; intros cs Hin Hnd Hv Hx Hu; [contradiction|].
  inversion Hnd as [|? ? Hni Hnd']; subst.
  destruct Hin as [->|Hin].
  - rewrite fold_restore_other.
    + unfold apply_restore. fold (r_new r0). unfold pm_has. rewrite Hv. apply pm_get_set_same.
    + intros r Hr. split; [apply Hx; auto|].
      intro E. apply Hni. pose proof (Hu r (or_intror Hr) E) as Heq. subst r. apply in_map. exact Hr.
  - apply IH; auto.
    rewrite restore_other; auto.
    + intro E. apply Hni. rewrite E. apply in_map. exact Hin.
    + apply Hx. auto.
Qed.

Lemma nodup_keys_unique (m : pmap) k a b : NoDup (map fst m) -> In (k, a) m -> In (k, b) m -> a = b.
Proof.
  induction m as [|[q n] m IH]; simpl; intros Hnd Ha Hb; [contradiction|].
  inversion Hnd as [|? ? Hni Hnd']; subst.
  destruct Ha as [Ha|Ha], Hb as [Hb|Hb].
  - congruence.
  - inversion Ha; subst. exfalso. apply Hni. apply in_map_iff. exists (k, b). auto.
  - inversion Hb; subst. exfalso. apply Hni. apply in_map_iff. exists (k, a). auto.
  - eauto.
Qed.

Theorem recorded_keeps_real_name_proof :
  forall (prot ign : str -> bool) (off : str) (fs inst : pmap) (P : str) (d : fdata) (n : node),
    pkg_ok inst ->
    newlocs_distinct prot ign off fs inst ->
    protected_file prot ign off fs P d ->
    incoming_differs inst P d n ->
    let recorded := post_merge prot ign off fs inst (pre_merge prot ign off fs inst) in
    pm_get P recorded = Some n /\
    pm_get (pjoin (dirname P) (cfg_name (cfg_count fs P n) (basename P))) recorded = None.
Proof.
  intros prot ign off fs inst P d n [Hnd Hfree] Hdist Hprot Hinc. simpl.
  set (r0 := ((new_loc fs P n, n), (P, n)) : rn).
  assert (Hr : In r0 (renames prot ign off fs inst)).
  { apply (renames_intro prot ign off fs inst (P, n)). apply Hinc. eapply protected_is_protected; eauto. }
  assert (Hold : forall r, In r (renames prot ign off fs inst) -> r_old r <> r_new r0).
  { intros r Hin. apply renames_in in Hin. destruct Hin as [Hin _]. unfold r_old, r_new, r0. simpl.
    intro E. pose proof (Hfree _ Hin) as Hf. rewrite E in Hf. rewrite new_loc_is_cfg in Hf. discriminate. }
  split.
  - unfold post_merge.
    apply (fold_restore_old_back (renames prot ign off fs inst) _ r0 n Hr Hdist).
    + unfold pre_merge. apply (fold_rename_some _ inst r0 Hr Hdist Hold).
    + intros r Hin. split; [apply Hold; auto|].
      apply renames_in in Hin. destruct Hin as [_ [_ Hf]]. unfold r_new, r_old, r0. rewrite Hf. simpl.
      apply cfg_free_neq_new. destruct Hinc as [Hi _]. apply (Hfree _ Hi).
    + intros r Hin Ho. pose proof (renames_in _ _ _ _ _ _ Hin) as [Hi [_ Hf]].
      destruct r as [rn' [ol on]]. unfold r_old, r0 in Ho. simpl in *. subst ol.
      assert (on = n) by (eapply nodup_keys_unique; [exact Hnd|exact Hi|apply Hinc]). subst on.
      subst rn'. reflexivity.
  - unfold post_merge. apply (fold_restore_new_gone _ _ r0 Hr Hold).
Qed.

Theorem incoming_content_beside_proof :
  forall (prot ign : str -> bool) (off : str) (fs inst : pmap) (P : str) (d : fdata) (n : node),
    pkg_ok inst ->
    newlocs_distinct prot ign off fs inst ->
    protected_file prot ign off fs P d ->
    incoming_differs inst P d n ->
    n <> Dir ->
    pm_get (pjoin (dirname P) (cfg_name (cfg_count fs P n) (basename P)))
           (merge_fs fs (pre_merge prot ign off fs inst)) = Some n.
Proof.
  intros prot ign off fs inst P d n Hok Hdist Hprot Hinc Hn.
  apply merge_get_some; auto.
  - apply keys_pre_merge. apply Hok.
  - destruct (written_beside_proof prot ign off fs inst P d n Hok Hprot Hinc) as [_ [_ H]]. apply H, Hdist.
Qed.


(* ---------------------------------------------------------------- the same, about [run] (what the
   correspondence compares with the implementation) *)
Definition inst_of (i : input) : pmap := with_off (i_off i) (i_new i).
Definition protI_of (i : input) := protect_filter (i_envd i) (i_xp i) (i_xm i).
Definition protU_of (i : input) := protect_filter (i_envd i) [] [].
Definition ign_of (i : input) (fs : pmap) := ignore_filter (i_envd i) [] (i_off i) fs.

Theorem run_install_never_overwrites_proof :
  forall (i : input) (P : str) (d : fdata) (n : node),
    i_mode i = 0%N ->
    pkg_ok (inst_of i) ->
    protected_file (protI_of i) (ign_of i (i_fs i)) (i_off i) (i_fs i) P d ->
    incoming_differs (inst_of i) P d n ->
    pm_get P (o_fs (run i)) = Some (File d).
Proof.
  intros i P d n Hm Hok Hp Hd. unfold run. rewrite Hm. cbn [N.eqb negb andb].
  match goal with |- context [if ?b then _ else _] => destruct b end; cbn [o_fs].
  - apply Hp.
  - cbn [live_of flat_map uninstall_set filter unmerge_fs fold_left].
    apply (never_overwritten_proof _ _ _ _ _ P d n Hok Hp Hd).
Qed.

Theorem run_uninstall_keeps_modified_proof :
  forall (i : input) (P : str) (d : fdata),
    i_mode i = 2%N ->
    protected_file (protU_of i) (ign_of i (i_fs i)) (i_off i) (i_fs i) P d ->
    differs_from_recorded (with_off (i_off i) (i_old i)) P d ->
    pm_get P (o_fs (run i)) = Some (File d).
Proof.
  intros i P d Hm Hp Hd. unfold run. rewrite Hm. cbn [N.eqb negb andb]. cbn [o_fs].
  change (pre_merge (protect_filter (i_envd i) (i_xp i) (i_xm i)) (ignore_filter (i_envd i) [] (i_off i) (i_fs i))
            (i_off i) (i_fs i) []) with (@nil (str * node)).
  cbn [merge_fs fold_left].
  change (post_merge _ _ _ _ [] []) with (@nil (str * node)).
  apply (uninstall_keeps_modified_proof _ _ _ _ _ _ P d Hp Hd).
Qed.

Lemma uninstall_set_excludes_inst prot ign off fs recorded inst P :
  pm_has P inst = true -> ~ In P (map fst (uninstall_set prot ign off fs recorded inst)).
Proof.
  intros Hh Hin. apply in_map_iff in Hin. destruct Hin as [[k n] [Hk Hin]]. simpl in Hk. subst k.
  unfold uninstall_set in Hin. apply filter_In in Hin. destruct Hin as [Hin _].
  apply filter_In in Hin. destruct Hin as [_ Hf]. simpl in Hf. rewrite Hh in Hf. discriminate.
Qed.

(* replace: neither half of the engine run touches a protected file that differs from the incoming one *)
Theorem run_replace_never_overwrites_proof :
  forall (i : input) (P : str) (d : fdata) (n : node),
    i_mode i = 1%N ->
    pkg_ok (inst_of i) ->
    newlocs_distinct (protI_of i) (ign_of i (i_fs i)) (i_off i) (i_fs i) (inst_of i) ->
    protected_file (protI_of i) (ign_of i (i_fs i)) (i_off i) (i_fs i) P d ->
    incoming_differs (inst_of i) P d n ->
    pm_get P (o_fs (run i)) = Some (File d).
Proof.
  intros i P d n Hm Hok Hdist Hp Hd. unfold run. rewrite Hm. cbn [N.eqb negb andb].
  match goal with |- context [if ?b then _ else _] => destruct b end; cbn [o_fs].
  - apply Hp.
  - rewrite unmerge_get.
    + apply (never_overwritten_proof _ _ _ _ _ P d n Hok Hp Hd).
    + apply uninstall_set_excludes_inst.
      destruct (recorded_keeps_real_name_proof _ _ _ _ _ P d n Hok Hdist Hp Hd) as [H _].
      match goal with |- pm_has P ?X = true =>
        assert (E : pm_get P X = Some n) by exact H; unfold pm_has; rewrite E; reflexivity end.
Qed.

(* replace: the unmerge half keeps a protected file (as the tree is after the merge half) that differs
   from what the old package recorded *)
Theorem run_replace_keeps_modified_proof :
  forall (i : input) (P : str) (d : fdata),
    i_mode i = 1%N ->
    o_blocked (run i) = false ->
    let fs1 := merge_fs (i_fs i) (pre_merge (protI_of i) (ign_of i (i_fs i)) (i_off i) (i_fs i) (inst_of i)) in
    protected_file (protU_of i) (ign_of i fs1) (i_off i) fs1 P d ->
    differs_from_recorded (with_off (i_off i) (i_old i)) P d ->
    pm_get P (o_fs (run i)) = Some (File d).
Proof.
  intros i P d Hm Hb fs1 Hp Hd. revert Hb. unfold run. rewrite Hm. cbn [N.eqb negb andb].
  match goal with |- context [if ?b then _ else _] => destruct b end; cbn [o_fs o_blocked]; [discriminate|].
  intros _. apply (uninstall_keeps_modified_proof _ _ _ _ _ _ P d Hp Hd).
Qed.

(* ---------------------------------------------------------------- NNNN formats back to itself *)
Definition dig10 : list N := [48; 49; 50; 51; 52; 53; 54; 55; 56; 57]%N.
Lemma is_digit_in a : is_digit a = true -> In a dig10.
Proof.
  unfold is_digit. intro H. apply andb_prop in H. destruct H as [H1 H2].
  apply N.leb_le in H1, H2.
  assert (H : exists k, (k < 10)%nat /\ a = N.of_nat (48 + k)).
  { exists (N.to_nat a - 48)%nat. split; lia. }
  destruct H as [k [Hk ->]].
  do 10 (destruct k as [|k]; [simpl; tauto|]). lia.
Qed.
Definition quad_ok (a b c d : N) : bool :=
  match fmt04 (((digit_val a * 10 + digit_val b) * 10 + digit_val c) * 10 + digit_val d) with
  | [a'; b'; c'; d'] => N.eqb a a' && N.eqb b b' && N.eqb c c' && N.eqb d d'
  | _ => false
  end.
Lemma all_quads_ok :
  forallb (fun a => forallb (fun b => forallb (fun c => forallb (fun d => quad_ok a b c d) dig10) dig10) dig10) dig10 = true.
Proof. vm_compute. reflexivity. Qed.
Lemma quad_roundtrip a b c d :
  is_digit a = true -> is_digit b = true -> is_digit c = true -> is_digit d = true ->
  fmt04 (((digit_val a * 10 + digit_val b) * 10 + digit_val c) * 10 + digit_val d) = [a; b; c; d].
Proof.
  intros Ha Hb Hc Hd.
  pose proof all_quads_ok as H. rewrite forallb_forall in H.
  specialize (H a (is_digit_in a Ha)). rewrite forallb_forall in H.
  specialize (H b (is_digit_in b Hb)). rewrite forallb_forall in H.
  specialize (H c (is_digit_in c Hc)). rewrite forallb_forall in H.
  specialize (H d (is_digit_in d Hd)). unfold quad_ok in H.
  destruct (fmt04 _) as [|a' [|b' [|c' [|d' [|? ?]]]]]; try discriminate.
  repeat (apply andb_prop in H; destruct H as [H ?]).
  repeat match goal with E : N.eqb _ _ = true |- _ => apply N.eqb_eq in E end. subst. reflexivity.
Qed.
Lemma starts_with_app_inv pre s : starts_with pre s = true -> exists r, s = pre ++ r.
Proof.
  revert s. induction pre as [|a pre IH]; intros s H; simpl in *.
  - exists s. reflexivity.
  - destruct s as [|b s]; [discriminate|]. apply andb_prop in H. destruct H as [H1 H2].
    apply N.eqb_eq in H1. subst. destruct (IH s H2) as [r ->]. exists r. reflexivity.
Qed.
(* a pending-update name the scan accepts is exactly the name the trigger would generate for its number *)
Theorem pending_name_roundtrip_proof :
  forall (x fname : str) (c : Z),
    starts_with cfgp x = true -> parse_cfg x = Some (c, fname) -> x = cfg_name c fname.
Proof.
  intros x fname c Hs Hp. destruct (starts_with_app_inv _ _ Hs) as [r ->].
  unfold parse_cfg in Hp. change (skipn 5 (cfgp ++ r)) with r in Hp.
  destruct r as [|a [|b [|c' [|d [|u name]]]]]; try discriminate.
  destruct (is_digit a) eqn:Ea; [|discriminate]. destruct (is_digit b) eqn:Eb; [|discriminate].
  destruct (is_digit c') eqn:Ec; [|discriminate]. destruct (is_digit d) eqn:Ed; [|discriminate].
  destruct (N.eqb u US) eqn:Eu; [|discriminate]. cbn [andb] in Hp. inversion Hp; subst.
  apply N.eqb_eq in Eu. subst u. unfold cfg_name. rewrite quad_roundtrip by assumption. reflexivity.
Qed.

Lemma insert_str_in x y l : In x (insert_str y l) -> x = y \/ In x l.
Proof.
  induction l as [|z l IH]; simpl.
  - intros [H|[]]; auto.
  - destruct (str_ltb z y); simpl; intros [H|H]; auto. destruct (IH H); auto.
Qed.
Lemma sort_str_in x l : In x (sort_str l) -> In x l.
Proof.
  unfold sort_str. induction l as [|y l IH]; simpl; auto.
  intro H. apply insert_str_in in H. destruct H; auto.
Qed.
Lemma cfg_listing_cfg fs d x : In x (cfg_listing fs d) -> starts_with cfgp x = true.
Proof.
  unfold cfg_listing. intro H. apply sort_str_in in H. apply in_flat_map in H.
  destruct H as [[loc nd] [_ H]]. cbn [fst snd] in H. destruct nd as [dt|tg|]; [|destruct H|destruct H].
  destruct (str_eqb (dirname loc) d); cbn [andb] in H; [|destruct H].
  destruct (starts_with cfgp (basename loc)) eqn:E; [|destruct H].
  destruct H as [<-|[]]. exact E.
Qed.
(* so "reusing the number" means: the destination IS the identical pending file *)
Theorem reuse_targets_identical_file_proof :
  forall (fs : pmap) (dir fname : str) (c : Z) (x : str) (content : node),
    pending_update fs dir fname c x content ->
    pjoin dir (cfg_name c fname) = pjoin dir x /\ content = live_at fs (pjoin dir (cfg_name c fname)).
Proof.
  intros fs dir fname c x content [H1 [H2 H3]].
  rewrite <- (pending_name_roundtrip_proof x fname c (cfg_listing_cfg _ _ _ H1) H2). auto.
Qed.

(* ---------------------------------------------------------------- renamed locations are distinct *)
(* pjoin d n = dprefix d ++ n for a name n that does not start with a slash *)
Definition dprefix (d : str) : str :=
  match d with [] => [] | _ => if ends_sl d then d else d ++ [SL] end.
Lemma pjoin_dprefix d n : n <> [] -> forallb nosl n = true -> pjoin d n = dprefix d ++ n.
Proof.
  intros Hne Hn. destruct n as [|c n]; [congruence|]. simpl in Hn. apply andb_prop in Hn. destruct Hn as [Hc _].
  unfold nosl in Hc. apply negb_true_iff in Hc. unfold pjoin, dprefix. rewrite Hc.
  destruct d as [|a d]; [reflexivity|]. destruct (ends_sl (a :: d)); [reflexivity|].
  rewrite <- app_assoc. reflexivity.
Qed.
Lemma dprefix_dir d : dir_prefix (dprefix d).
Proof.
  unfold dprefix. destruct d as [|a d]; [left; reflexivity|].
  destruct (ends_sl (a :: d)) eqn:E; right; [apply ends_sl_spec; exact E|eexists; reflexivity].
Qed.
(* x ++ n determines x and n when x is a directory prefix and n has no slash *)
Lemma rev_inj (a b : str) : rev a = rev b -> a = b.
Proof. intro H. rewrite <- (rev_involutive a), <- (rev_involutive b), H. reflexivity. Qed.
Lemma split_unique x1 n1 x2 n2 :
  dir_prefix x1 -> dir_prefix x2 -> forallb nosl n1 = true -> forallb nosl n2 = true ->
  x1 ++ n1 = x2 ++ n2 -> x1 = x2 /\ n1 = n2.
Proof.
  intros H1 H2 Hn1 Hn2 E.
  assert (En : n1 = n2).
  { rewrite <- (basename_app x1 n1 H1 Hn1), <- (basename_app x2 n2 H2 Hn2), E. reflexivity. }
  subst n2. split; [|reflexivity]. apply app_inv_tail in E. exact E.
Qed.

Definition nous (c : N) : bool := negb (N.eqb c US).
Lemma digit_of_nous z : nous (digit_of z) = true.
Proof.
  unfold nous, US, digit_of. apply negb_true_iff. apply N.eqb_neq.
  pose proof (Z.mod_pos_bound z 10 ltac:(lia)). lia.
Qed.
Lemma digits_nous fuel w z : forallb nous (digits fuel w z) = true.
Proof.
  revert w z. induction fuel as [|f IH]; intros w z; [reflexivity|].
  assert (H : forall w', forallb nous (digits f w' (z / 10) ++ [digit_of z]) = true).
  { intro w'. rewrite forallb_app, IH. cbn [forallb]. rewrite digit_of_nous. reflexivity. }
  cbn [digits]. destruct w.
  - destruct (z =? 0)%Z; [reflexivity|apply H].
  - apply H.
Qed.
Lemma fmt04_nous z : forallb nous (fmt04 z) = true.
Proof.
  unfold fmt04. destruct (z <? 0)%Z.
  - cbn [forallb]. rewrite digits_nous. reflexivity.
  - apply digits_nous.
Qed.
(* a ++ "_" ++ r determines a and r when a has no "_" *)
Lemma split_at_us a1 r1 a2 r2 :
  forallb nous a1 = true -> forallb nous a2 = true ->
  a1 ++ US :: r1 = a2 ++ US :: r2 -> a1 = a2 /\ r1 = r2.
Proof.
  revert a2. induction a1 as [|c a1 IH]; intros a2 H1 H2 E.
  - destruct a2 as [|c2 a2]; simpl in E.
    + inversion E. auto.
    + inversion E; subst. cbn in H2. discriminate.
  - destruct a2 as [|c2 a2]; simpl in E.
    + inversion E; subst. cbn in H1. discriminate.
    + inversion E; subst. simpl in H1, H2. apply andb_prop in H1, H2.
      destruct (IH a2 (proj2 H1) (proj2 H2) H3) as [-> ->]. auto.
Qed.
Lemma cfg_name_inj c1 b1 c2 b2 : cfg_name c1 b1 = cfg_name c2 b2 -> b1 = b2.
Proof.
  unfold cfg_name. intro E. apply app_inv_head in E.
  apply (split_at_us _ _ _ _ (fmt04_nous c1) (fmt04_nous c2)) in E. apply E.
Qed.

Lemma wf_loc_shape p : wf_locb p = true ->
  p = dprefix (dirname p) ++ basename p /\ basename p <> [].
Proof.
  unfold wf_locb. intro H. apply andb_prop in H. destruct H as [Hne He]. apply str_eqb_eq in He.
  assert (Hb : basename p <> []) by (destruct (basename p); [discriminate|congruence]).
  split; [|exact Hb]. rewrite <- pjoin_dprefix; auto. apply basename_nosl.
Qed.
Lemma new_loc_shape fs p n : new_loc fs p n = dprefix (dirname p) ++ cfg_name (cfg_count fs p n) (basename p).
Proof.
  unfold new_loc. apply pjoin_dprefix.
  - unfold cfg_name, cfgp. discriminate.
  - apply cfg_name_nosl, basename_nosl.
Qed.
Lemma new_loc_inj fs p1 n1 p2 n2 :
  wf_locb p1 = true -> wf_locb p2 = true -> new_loc fs p1 n1 = new_loc fs p2 n2 -> p1 = p2.
Proof.
  intros W1 W2 E. rewrite !new_loc_shape in E.
  apply split_unique in E; try apply dprefix_dir; try (apply cfg_name_nosl, basename_nosl).
  destruct E as [Ed Ec]. apply cfg_name_inj in Ec.
  destruct (wf_loc_shape _ W1) as [E1 _]. destruct (wf_loc_shape _ W2) as [E2 _].
  etransitivity; [exact E1|]. rewrite Ed, Ec. symmetry. exact E2.
Qed.

Lemma NoDup_map_inj {A B} (g : A -> B) (l : list A) :
  NoDup l -> (forall x y, In x l -> In y l -> g x = g y -> x = y) -> NoDup (map g l).
Proof.
  induction l as [|a l IH]; simpl; intros Hnd Hinj; [constructor|].
  inversion Hnd as [|? ? Hni Hnd']; subst. constructor.
  - intro Hin. apply in_map_iff in Hin. destruct Hin as [y [Hy Hin]].
    assert (y = a) by (apply Hinj; auto). subst. contradiction.
  - apply IH; auto.
Qed.
Lemma NoDup_keys_NoDup (m : pmap) : NoDup (map fst m) -> NoDup m.
Proof. apply NoDup_map_inv. Qed.

Theorem newlocs_distinct_proof :
  forall (prot ign : str -> bool) (off : str) (fs inst : pmap),
    pkg_ok inst -> locs_wf inst = true -> newlocs_distinct prot ign off fs inst.
Proof.
  intros prot ign off fs inst [Hnd _] Hwf. unfold newlocs_distinct, renames. rewrite map_map.
  apply NoDup_map_inj.
  - apply NoDup_filter, NoDup_keys_NoDup, Hnd.
  - intros [p1 n1] [p2 n2] H1 H2 E. unfold r_new in E. simpl in E.
    apply filter_In in H1, H2. destruct H1 as [H1 _], H2 as [H2 _].
    unfold locs_wf in Hwf. rewrite forallb_forall in Hwf.
    pose proof (Hwf _ H1) as W1. pose proof (Hwf _ H2) as W2. simpl in W1, W2.
    pose proof (new_loc_inj fs p1 n1 p2 n2 W1 W2 E). subst p2.
    f_equal. eapply nodup_keys_unique; eauto.
Qed.

(* ---------------------------------------------------------------- same directory *)
Lemma drop_nosl_app (a b : str) : forallb nosl a = true ->
  drop_while (fun c => negb (is_sl c)) (a ++ b) = drop_while (fun c => negb (is_sl c)) b.
Proof.
  induction a as [|c a IH]; simpl; auto. intro H. apply andb_prop in H. destruct H as [H1 H2].
  unfold nosl in H1. rewrite H1. auto.
Qed.
Lemma dirname_app_nosl x n1 n2 : forallb nosl n1 = true -> forallb nosl n2 = true ->
  dirname (x ++ n1) = dirname (x ++ n2).
Proof.
  intros H1 H2. unfold dirname. rewrite !rev_app_distr.
  rewrite !drop_nosl_app by (rewrite forallb_rev; assumption). reflexivity.
Qed.
Theorem same_directory_proof :
  forall (fs : pmap) (P : str) (n : node),
    wf_locb P = true ->
    dirname (new_loc fs P n) = dirname P /\
    basename (new_loc fs P n) = cfg_name (cfg_count fs P n) (basename P).
Proof.
  intros fs P n W. split; [|apply new_loc_basename].
  rewrite new_loc_shape. destruct (wf_loc_shape _ W) as [E _].
  transitivity (dirname (dprefix (dirname P) ++ basename P)); [|rewrite <- E; reflexivity].
  apply dirname_app_nosl; [apply cfg_name_nosl|]; apply basename_nosl.
Qed.

(* ---------------------------------------------------------------- the conclusions without newlocs_distinct *)
Lemma locs_wf_in inst P n : locs_wf inst = true -> In (P, n) inst -> wf_locb P = true.
Proof. unfold locs_wf. rewrite forallb_forall. intros H Hin. apply (H (P, n) Hin). Qed.

Theorem written_beside2_proof :
  forall (prot ign : str -> bool) (off : str) (fs inst : pmap) (P : str) (d : fdata) (n : node),
    pkg_ok inst -> locs_wf inst = true ->
    protected_file prot ign off fs P d ->
    incoming_differs inst P d n ->
    let c := cfg_count fs P n in
    let dest := pjoin (dirname P) (cfg_name c (basename P)) in
    numbering_rule fs (dirname P) (basename P) n c /\
    In ((dest, n), (P, n)) (renames prot ign off fs inst) /\
    pm_get dest (pre_merge prot ign off fs inst) = Some n.
Proof.
  intros prot ign off fs inst P d n Hok Hwf Hp Hd.
  destruct (written_beside_proof prot ign off fs inst P d n Hok Hp Hd) as [H1 [H2 H3]].
  repeat split; auto. apply H3, newlocs_distinct_proof; auto.
Qed.
Theorem incoming_content_beside2_proof :
  forall (prot ign : str -> bool) (off : str) (fs inst : pmap) (P : str) (d : fdata) (n : node),
    pkg_ok inst -> locs_wf inst = true ->
    protected_file prot ign off fs P d ->
    incoming_differs inst P d n ->
    n <> Dir ->
    pm_get (pjoin (dirname P) (cfg_name (cfg_count fs P n) (basename P)))
           (merge_fs fs (pre_merge prot ign off fs inst)) = Some n.
Proof. intros. apply incoming_content_beside_proof with (d := d); auto. apply newlocs_distinct_proof; auto. Qed.
Theorem recorded_keeps_real_name2_proof :
  forall (prot ign : str -> bool) (off : str) (fs inst : pmap) (P : str) (d : fdata) (n : node),
    pkg_ok inst -> locs_wf inst = true ->
    protected_file prot ign off fs P d ->
    incoming_differs inst P d n ->
    let recorded := post_merge prot ign off fs inst (pre_merge prot ign off fs inst) in
    pm_get P recorded = Some n /\
    pm_get (pjoin (dirname P) (cfg_name (cfg_count fs P n) (basename P))) recorded = None.
Proof. intros. apply recorded_keeps_real_name_proof with (d := d); auto. apply newlocs_distinct_proof; auto. Qed.
Theorem run_replace_never_overwrites2_proof :
  forall (i : input) (P : str) (d : fdata) (n : node),
    i_mode i = 1%N ->
    pkg_ok (inst_of i) -> locs_wf (inst_of i) = true ->
    protected_file (protI_of i) (ign_of i (i_fs i)) (i_off i) (i_fs i) P d ->
    incoming_differs (inst_of i) P d n ->
    pm_get P (o_fs (run i)) = Some (File d).
Proof. intros. apply run_replace_never_overwrites_proof with (n := n); auto. apply newlocs_distinct_proof; auto. Qed.

(* the ._cfg file: same directory, generated name, incoming content AND mode/owner *)
Theorem cfg_file_same_directory_incoming_attrs_proof :
  forall (prot ign : str -> bool) (off : str) (fs inst : pmap) (P : str) (d : fdata) (content attrs : str),
    pkg_ok inst -> locs_wf inst = true ->
    protected_file prot ign off fs P d ->
    incoming_differs inst P d (File (content, attrs)) ->
    let dest := new_loc fs P (File (content, attrs)) in
    dirname dest = dirname P /\
    basename dest = cfg_name (cfg_count fs P (File (content, attrs))) (basename P) /\
    pm_get dest (merge_fs fs (pre_merge prot ign off fs inst)) = Some (File (content, attrs)).
Proof.
  intros prot ign off fs inst P d c a Hok Hwf Hp Hd. cbv zeta.
  assert (W : wf_locb P = true) by (eapply locs_wf_in; [exact Hwf|apply Hd]).
  destruct (same_directory_proof fs P (File (c, a)) W) as [H1 H2]. repeat split; auto.
  apply (incoming_content_beside2_proof prot ign off fs inst P d (File (c, a)) Hok Hwf Hp Hd). discriminate.
Qed.

(* ================================================================ the filters, declaratively *)


Lemma starts_with_app pre r : starts_with pre (pre ++ r) = true.
Proof. induction pre as [|a pre IH]; simpl; auto. rewrite N.eqb_refl. exact IH. Qed.
Lemma starts_with_iff' pre s : starts_with pre s = true <-> exists r, s = pre ++ r.
Proof. split; [apply starts_with_app_inv|intros [r ->]; apply starts_with_app]. Qed.

Lemma prefix_pat_below x p : starts_with (prefix_pat x) p = true <-> below_dir x p.
Proof.
  unfold prefix_pat, below_dir. rewrite starts_with_iff'. split; intros [r ->]; exists r; rewrite <- app_assoc; reflexivity.
Qed.
Lemma existsb_below l p :
  existsb (fun x => starts_with (prefix_pat x) p) l = true <-> exists x, In x l /\ below_dir x p.
Proof.
  rewrite existsb_exists. split; intros [x [H1 H2]]; exists x; split; auto; apply prefix_pat_below; auto.
Qed.

Theorem protect_filter_spec_proof :
  forall (e : list envfile) (xp xm : list str) (p : str),
    protect_filter e xp xm p = true <->
    (exists x, In x (protect_entries e xp) /\ below_dir x p) /\
    ~ (exists x, In x (mask_entries e xm) /\ below_dir x p).
Proof.
  intros e xp xm p. unfold protect_filter, protect_entries, mask_entries.
  rewrite andb_true_iff, negb_true_iff, existsb_below, <- not_true_iff_false, existsb_below. reflexivity.
Qed.

Theorem env_words_proof :
  forall (e : list envfile) (k w : str), In w (collapsed true k e) <-> env_word e k w.
Proof.
  intros e k w. unfold collapsed, env_word. cbn [orb].
  rewrite in_flat_map. unfold values_of. split.
  - intros [v [Hv Hw]]. apply in_flat_map in Hv. destruct Hv as [f [Hf Hv]].
    destruct (assoc k (snd f)) eqn:E; [|destruct Hv]. destruct Hv as [<-|[]]. exists f, s. auto.
  - intros [f [v [Hf [Ha Hw]]]]. exists v. split; auto. apply in_flat_map. exists f. split; auto.
    rewrite Ha. left. reflexivity.
Qed.

(* component boundary: neither the directory itself nor a sibling that merely shares the prefix *)
Theorem below_dir_boundary_proof :
  forall (x rest : str) (c : N),
    ~ below_dir x (rstrip_sl (normpath x)) /\
    (c <> SL -> ~ below_dir x (rstrip_sl (normpath x) ++ c :: rest)) /\
    below_dir x (rstrip_sl (normpath x) ++ SL :: rest).
Proof.
  intros x rest c. repeat split.
  - intros [r H]. apply (f_equal (@length N)) in H. rewrite app_length in H. simpl in H. lia.
  - intros Hc [r H]. apply app_inv_head in H. inversion H. contradiction.
  - exists rest. reflexivity.
Qed.

(* ---------------------------------------------------------------- fnmatch *)
Lemma gmatch_star r s :
  gmatch (PStar :: r) s = gmatch r s || match s with [] => false | _ :: s' => gmatch (PStar :: r) s' end.
Proof. destruct s; reflexivity. Qed.
Lemma gmatch_item it r s : it <> PStar ->
  gmatch (it :: r) s = match s with [] => false | c :: s' => item_ok it c && gmatch r s' end.
Proof. intro H. destruct it; try reflexivity. congruence. Qed.

Lemma gmatch_glob items s : gmatch items s = true -> glob items s.
Proof.
  revert s. induction items as [|it r IH]; intros s H.
  - destruct s; [constructor|discriminate].
  - destruct (match it with PStar => true | _ => false end) eqn:Eit.
    + destruct it; try discriminate. induction s as [|c s IHs].
      * rewrite gmatch_star in H. rewrite orb_false_r in H. apply g_star_skip, IH, H.
      * rewrite gmatch_star in H. apply orb_prop in H. destruct H as [H|H].
        -- apply g_star_skip, IH, H.
        -- apply g_star_eat, IHs, H.
    + assert (Hn : it <> PStar) by (intro; subst; discriminate).
      rewrite gmatch_item in H by exact Hn. destruct s as [|c s]; [discriminate|].
      apply andb_prop in H. destruct H as [H1 H2]. apply g_item; auto.
Qed.
Lemma glob_gmatch items s : glob items s -> gmatch items s = true.
Proof.
  induction 1.
  - reflexivity.
  - rewrite gmatch_star, IHglob. reflexivity.
  - rewrite gmatch_star, IHglob. apply orb_true_r.
  - rewrite gmatch_item by assumption. rewrite H0, IHglob. reflexivity.
Qed.
Theorem fnmatch_spec_proof : forall pat s : str, fnmatch pat s = true <-> glob_pat pat s.
Proof. intros. unfold fnmatch, glob_pat. split; [apply gmatch_glob|apply glob_gmatch]. Qed.

Lemma uniq_in x l : In x (uniq l) <-> In x l.
Proof.
  induction l as [|y l IH]; simpl; [tauto|]. split.
  - intros [H|H]; auto. apply filter_In in H. right. apply IH, H.
  - intros [H|H]; auto. destruct (str_eqb y x) eqn:E.
    + apply str_eqb_eq in E. auto.
    + right. apply filter_In. split; [apply IH, H|]. rewrite E. reflexivity.
Qed.


Theorem ignore_filter_spec_proof :
  forall (e : list envfile) (xi : list str) (off : str) (fs : pmap) (p : str),
    ignore_filter e xi off fs p = true <->
    exists x, In x (ignore_entries e xi) /\ glob_pat (ignore_entry_pat off fs x) p.
Proof.
  intros e xi off fs p. unfold ignore_filter, ignore_pats. rewrite existsb_exists. split.
  - intros [pat [Hin Hm]]. apply in_map_iff in Hin. destruct Hin as [x [<- Hx]].
    exists x. split; [apply uniq_in, Hx|apply fnmatch_spec_proof, Hm].
  - intros [x [Hx Hm]]. exists (ignore_entry_pat off fs x). split.
    + apply in_map_iff. exists x. split; [reflexivity|apply uniq_in, Hx].
    + apply fnmatch_spec_proof, Hm.
Qed.

(* ---- what glob means for the shapes that matter, for ALL paths *)
Lemma glob_lits l r s : glob (map PLit l ++ r) s <-> exists s', s = l ++ s' /\ glob r s'.
Proof.
  revert s. induction l as [|c l IH]; intros s; simpl.
  - split; [intro H; exists s; auto|intros [s' [-> H]]; exact H].
  - split.
    + intro H. inversion H; subst; clear H.
      match goal with Hok : item_ok (PLit c) ?x = true |- _ => simpl in Hok; apply N.eqb_eq in Hok; subst end.
      match goal with Hg : glob (map PLit l ++ r) _ |- _ => apply IH in Hg; destruct Hg as [s' [-> Hg]]; exists s'; auto end.
    + intros [s' [-> H]]. apply g_item; [discriminate|simpl; apply N.eqb_refl|]. apply IH. exists s'. auto.
Qed.
Lemma glob_star_any s : glob [PStar] s.
Proof. induction s; [apply g_star_skip, g_nil|apply g_star_eat; assumption]. Qed.
Lemma glob_star r s : glob (PStar :: r) s <-> exists a b, s = a ++ b /\ glob r b.
Proof.
  split.
  - intro H. remember (PStar :: r) as items eqn:E. induction H; try discriminate.
    + inversion E; subst. exists [], s. auto.
    + inversion E; subst. destruct (IHglob eq_refl) as [a [b [-> Hb]]]. exists (c :: a), b. auto.
    + inversion E; subst. congruence.
  - intros [a [b [-> H]]]. induction a; simpl; [apply g_star_skip, H|apply g_star_eat, IHa].
Qed.
Lemma parse_pat_plain l r k : forallb plain l = true ->
  parse_pat (length l + k) (l ++ r) = map PLit l ++ parse_pat k r.
Proof.
  induction l as [|c l IH]; simpl; intro H; [reflexivity|].
  apply andb_prop in H. destruct H as [Hc Hl]. unfold plain in Hc.
  apply andb_prop in Hc. destruct Hc as [Hc H3]. apply andb_prop in Hc. destruct Hc as [H1 H2].
  apply negb_true_iff in H1, H2, H3. rewrite H1, H2, H3. f_equal. apply IH, Hl.
Qed.

(* a pattern without * ? [ matches exactly itself (full match, not a search) *)
Theorem literal_pattern_proof : forall l s : str, forallb plain l = true -> (fnmatch l s = true <-> s = l).
Proof.
  intros l s Hp. rewrite fnmatch_spec_proof. unfold glob_pat.
  replace (S (length l)) with (length l + 1)%nat by lia.
  rewrite <- (app_nil_r l) at 2. rewrite parse_pat_plain by exact Hp. cbn [parse_pat].
  rewrite glob_lits. split.
  - intros [s' [-> H]]. inversion H. rewrite app_nil_r. reflexivity.
  - intros ->. exists []. rewrite app_nil_r. split; [reflexivity|constructor].
Qed.
(* a directory entry d (rewritten to "d/*") matches exactly the paths below d, at any depth *)
Theorem directory_pattern_proof : forall l s : str, forallb plain l = true ->
  (fnmatch (l ++ slash_star) s = true <-> exists rest, s = l ++ SL :: rest).
Proof.
  intros l s Hp. rewrite fnmatch_spec_proof. unfold glob_pat.
  replace (S (length (l ++ slash_star))) with (length l + 3)%nat by (rewrite app_length; simpl; lia).
  rewrite parse_pat_plain by exact Hp.
  change (parse_pat 3 slash_star) with (map PLit [SL] ++ [PStar]).
  rewrite glob_lits. split.
  - intros [s' [-> H]]. apply glob_lits in H. destruct H as [s'' [-> _]]. exists s''. reflexivity.
  - intros [rest ->]. exists (SL :: rest). split; [reflexivity|]. apply glob_lits. exists rest. split; [reflexivity|apply glob_star_any].
Qed.
(* the two built-in patterns *)
Theorem keep_patterns_proof : forall s : str,
  (fnmatch keep1 s = true <-> exists pre, s = pre ++ [47; 46; 107; 101; 101; 112]%N) /\
  (fnmatch keep2 s = true <-> exists pre suf, s = pre ++ [47; 46; 107; 101; 101; 112; 95]%N ++ suf).
Proof.
  intro s. split; rewrite fnmatch_spec_proof; unfold glob_pat.
  - change (parse_pat (S (length keep1)) keep1) with (PStar :: map PLit [47; 46; 107; 101; 101; 112]%N ++ []).
    rewrite glob_star. split.
    + intros [a [b [-> H]]]. apply glob_lits in H. destruct H as [s' [-> H]]. inversion H. exists a. rewrite app_nil_r. reflexivity.
    + intros [pre ->]. exists pre, [47; 46; 107; 101; 101; 112]%N. split; [reflexivity|]. apply glob_lits. exists []. split; [reflexivity|constructor].
  - change (parse_pat (S (length keep2)) keep2) with (PStar :: map PLit [47; 46; 107; 101; 101; 112; 95]%N ++ [PStar]).
    rewrite glob_star. split.
    + intros [a [b [-> H]]]. apply glob_lits in H. destruct H as [s' [-> _]]. exists a, s'. reflexivity.
    + intros [pre [suf ->]]. exists pre, ([47; 46; 107; 101; 101; 112; 95]%N ++ suf). split; [reflexivity|].
      apply glob_lits. exists suf. split; [reflexivity|apply glob_star_any].
Qed.

(* ---------------------------------------------------------------- the hypotheses are satisfiable *)
Definition B (b : bstr) : str := s2l b.
Definition ex_fs : pmap :=
  [(B "/etc/foo"%bs, File (B "L"%bs, B "644.0.0"%bs)); (B "/etc/._cfg0003_foo"%bs, File (B "N"%bs, B "644.0.0"%bs));
   (B "/etc/._cfg0001_foo"%bs, File (B "X"%bs, B "644.0.0"%bs)); (B "/opt/c/bar"%bs, File (B "M"%bs, B "644.0.0"%bs));
   (B "/etc/.keep"%bs, File (B "K"%bs, B "644.0.0"%bs))].
Definition ex_inst : pmap :=
  [(B "/etc"%bs, Dir); (B "/etc/foo"%bs, File (B "N"%bs, B "644.0.0"%bs)); (B "/etc/.keep"%bs, File (B "K2"%bs, B "644.0.0"%bs))].
Definition ex_prot := protect_filter [] [] [].
Definition ex_ign := ignore_filter [] [] [SL] ex_fs.

Example ex_protected : protected_file ex_prot ex_ign [SL] ex_fs (B "/etc/foo"%bs) (B "L"%bs, B "644.0.0"%bs).
Proof. repeat split; vm_compute; reflexivity. Qed.
Example ex_differs : incoming_differs ex_inst (B "/etc/foo"%bs) (B "L"%bs, B "644.0.0"%bs) (File (B "N"%bs, B "644.0.0"%bs)).
Proof. split; [vm_compute; tauto|reflexivity]. Qed.
Example ex_pkg_ok : pkg_ok ex_inst.
Proof.
  split.
  - vm_compute. repeat constructor; simpl; intuition discriminate.
  - intros e He. vm_compute in He. intuition (subst; reflexivity).
Qed.
Example ex_distinct : newlocs_distinct ex_prot ex_ign [SL] ex_fs ex_inst.
Proof. vm_compute. repeat constructor; simpl; intuition discriminate. Qed.
(* the identical pending update 0003 is reused (0001 differs); without it the number would be 4 *)
Example ex_reuse : new_loc ex_fs (B "/etc/foo"%bs) (File (B "N"%bs, B "644.0.0"%bs)) = B "/etc/._cfg0003_foo"%bs.
Proof. vm_compute. reflexivity. Qed.
Example ex_exceed : new_loc ex_fs (B "/etc/foo"%bs) (File (B "Q"%bs, B "644.0.0"%bs)) = B "/etc/._cfg0004_foo"%bs.
Proof. vm_compute. reflexivity. Qed.
(* .keep is under /etc but matched by COLLISION_IGNORE's built-in */.keep: not protected *)
Example ex_keep_ignored : ex_ign (B "/etc/.keep"%bs) = true.
Proof. vm_compute. reflexivity. Qed.
Example ex_merge :
  show_tree (merge_fs ex_fs (pre_merge ex_prot ex_ign [SL] ex_fs ex_inst))
  = B "/etc/._cfg0001_foo;f;X,644.0.0|/etc/._cfg0003_foo;f;N,644.0.0|/etc/.keep;f;K2,644.0.0|/etc/foo;f;L,644.0.0|/opt/c/bar;f;M,644.0.0"%bs.
Proof. vm_compute. reflexivity. Qed.
Example ex_uninstall :
  differs_from_recorded [(B "/etc/foo"%bs, File (B "R"%bs, B "644.0.0"%bs))] (B "/etc/foo"%bs) (B "L"%bs, B "644.0.0"%bs)
  /\ show_tree (unmerge_fs ex_fs (uninstall_set ex_prot ex_ign [SL] ex_fs
                  [(B "/etc/foo"%bs, File (B "R"%bs, B "644.0.0"%bs)); (B "/opt/c/bar"%bs, File (B "R2"%bs, B "644.0.0"%bs))] []))
     = B "/etc/._cfg0001_foo;f;X,644.0.0|/etc/._cfg0003_foo;f;N,644.0.0|/etc/.keep;f;K,644.0.0|/etc/foo;f;L,644.0.0"%bs.
Proof. split; [eexists; split; reflexivity|vm_compute; reflexivity]. Qed.

Example ex_locs_wf : locs_wf ex_inst = true.
Proof. vm_compute. reflexivity. Qed.
(* the ._cfg file takes the incoming mode/owner, the protected file keeps its own *)
Example ex_attrs :
  show_tree (merge_fs [(B "/o/etc/foo"%bs, File (B "L"%bs, B "600.0.0"%bs))]
               (pre_merge ex_prot (ignore_filter [] [] (B "/o"%bs) []) (B "/o"%bs)
                          [(B "/o/etc/foo"%bs, File (B "L"%bs, B "600.0.0"%bs))]
                          [(B "/o/etc/foo"%bs, File (B "N"%bs, B "640.1000.100"%bs))]))
  = B "/o/etc/._cfg0000_foo;f;N,640.1000.100|/o/etc/foo;f;L,600.0.0"%bs.
Proof. vm_compute. reflexivity. Qed.
(* component boundary, mask, normalised entries *)
Example ex_filter :
  map (protect_filter [(B "10a"%bs, [(k_cp, B "/opt/c //opt/../opt/d/"%bs); (k_cpm, B "/etc/m"%bs)])] [] [])
      [B "/etc/foo"%bs; B "/etcx/foo"%bs; B "/etc"%bs; B "/etc/m/a"%bs; B "/etc/mm"%bs; B "/opt/c/a"%bs; B "/opt/cc"%bs; B "/opt/d/a"%bs]
  = [true; false; false; false; true; true; false; false].
Proof. vm_compute. reflexivity. Qed.
Example ex_ignore :
  map (ignore_filter [(B "10a"%bs, [(k_ci, B "/etc/q /etc/x /etc/[ab]*"%bs)])] [] [SL] [(B "/etc/x/y"%bs, File (B "c"%bs, []))])
      [B "/etc/q"%bs; B "/usr/etc/q"%bs; B "/etc/x/y"%bs; B "/etc/x"%bs; B "/etc/bar"%bs; B "/etc/car"%bs; B "/a/b/.keep"%bs; B "/a/.keep_x-0"%bs; B "/a/.keepx"%bs]
  = [true; false; true; false; true; false; true; true; false].
Proof. vm_compute. reflexivity. Qed.
