(* Proofs_C12.v — lemmas and proofs for C12. *)
From Coq Require Import List NArith ZArith Bool Lia.
Import ListNotations.
From Verif Require Import Base.Val C12.Model_C12 C12.Spec_C12.

(* ================================================================== strings and sets *)
Lemma str_eqb_sym a b : str_eqb a b = str_eqb b a.
Proof.
  destruct (str_eqb a b) eqn:E1, (str_eqb b a) eqn:E2; try reflexivity.
  - apply str_eqb_eq in E1. subst. rewrite str_eqb_refl in E2. discriminate.
  - apply str_eqb_eq in E2. subst. rewrite str_eqb_refl in E1. discriminate.
Qed.

Lemma str_eqb_neq a b : str_eqb a b = false <-> a <> b.
Proof.
  split.
  - intros H E. subst. rewrite str_eqb_refl in H. discriminate.
  - intros H. destruct (str_eqb a b) eqn:E; [apply str_eqb_eq in E; contradiction | reflexivity].
Qed.

Lemma mem_In x s : mem x s = true <-> In x s.
Proof.
  unfold mem. rewrite existsb_exists. split.
  - intros [y [Hy E]]. apply str_eqb_eq in E. subst. exact Hy.
  - intros H. exists x. split; [exact H | apply str_eqb_refl].
Qed.

Lemma mem_false_In x s : mem x s = false <-> ~ In x s.
Proof. rewrite <- mem_In. destruct (mem x s); intuition congruence. Qed.

Lemma mem_cons y x s : mem y (x :: s) = str_eqb y x || mem y s.
Proof. reflexivity. Qed.

Lemma mem_app y a b : mem y (a ++ b) = mem y a || mem y b.
Proof. unfold mem. apply existsb_app. Qed.

Lemma mem_filter y p s : mem y (filter p s) = mem y s && p y.
Proof.
  induction s as [|z s IH]; [reflexivity|].
  simpl filter. destruct (p z) eqn:Pz; rewrite ?mem_cons, IH.
  - destruct (str_eqb y z) eqn:E; cbn [orb]; [|reflexivity].
    apply str_eqb_eq in E. subst. rewrite Pz. reflexivity.
  - destruct (str_eqb y z) eqn:E; cbn [orb]; [|reflexivity].
    apply str_eqb_eq in E. subst. rewrite Pz. rewrite andb_false_r. reflexivity.
Qed.

Lemma mem_sadd y x s : mem y (sadd x s) = str_eqb y x || mem y s.
Proof.
  unfold sadd. destruct (mem x s) eqn:M.
  - destruct (str_eqb y x) eqn:E; [|reflexivity].
    apply str_eqb_eq in E. subst. cbn. exact M.
  - rewrite mem_app. cbn. rewrite orb_false_r. apply orb_comm.
Qed.

Lemma mem_sdel y x s : mem y (sdel x s) = mem y s && negb (str_eqb y x).
Proof. unfold sdel. rewrite mem_filter. rewrite (str_eqb_sym x y). reflexivity. Qed.

Lemma mem_sdiff y s l : mem y (sdiff s l) = mem y s && negb (mem y l).
Proof. unfold sdiff. apply mem_filter. Qed.

Lemma mem_sunion y l : forall s, mem y (sunion s l) = mem y s || mem y l.
Proof.
  induction l as [|z l IH]; intro s.
  - unfold sunion. simpl. rewrite orb_false_r. reflexivity.
  - change (sunion s (z :: l)) with (sunion (sadd z s) l).
    rewrite IH, mem_sadd, mem_cons. destruct (str_eqb y z), (mem y s), (mem y l); reflexivity.
Qed.

Lemma mem_sunion_nil y l : mem y (sunion [] l) = mem y l.
Proof. rewrite mem_sunion. reflexivity. Qed.

(* ================================================================== the two readings agree *)
Section ReadingFacts.
  Variable A D : str -> str -> bool.

  Lemma sem_fold_ext ts : forall S1 S2, (forall x, S1 x = S2 x) ->
    forall x, sem_fold A D ts S1 x = sem_fold A D ts S2 x.
  Proof.
    induction ts as [|t r IH]; intros S1 S2 H x; cbn; [apply H|].
    apply IH. intro y. unfold sem_step. rewrite H. reflexivity.
  Qed.

  Lemma last_writer_snoc l t x b :
    last_writer A D (l ++ [t]) x b
    = last_writer A D l x (if A t x then true else if D t x then false else b).
  Proof.
    induction l as [|u l IH]; cbn; [reflexivity|].
    destruct (A u x); [reflexivity|]. destruct (D u x); [reflexivity|]. exact IH.
  Qed.

  (* left fold = last writer wins *)
  Lemma sem_fold_last_writer ts : forall S x,
    sem_fold A D ts S x = last_writer A D (rev ts) x (S x).
  Proof.
    induction ts as [|t r IH]; intros S x; cbn; [reflexivity|].
    unfold sem_fold in IH. rewrite IH. rewrite last_writer_snoc. unfold sem_step.
    destruct (A t x), (D t x), (S x); reflexivity.
  Qed.

  Lemma last_writer_positions rs x b :
    last_writer A D rs x b = true <->
    (exists r1 t r2, rs = r1 ++ t :: r2 /\ A t x = true /\ forall u, In u r1 -> D u x = false)
    \/ (b = true /\ forall u, In u rs -> D u x = false).
  Proof.
    induction rs as [|t r IH]; cbn.
    - split.
      + intro H. right. split; [exact H | intros u []].
      + intros [[r1 [t [r2 [E _]]]] | [H _]]; [destruct r1; discriminate | exact H].
    - destruct (A t x) eqn:At.
      + split; [|reflexivity]. intros _. left. exists [], t, r. repeat split; [exact At | intros u []].
      + destruct (D t x) eqn:Dt.
        * split; [discriminate|].
          intros [[r1 [t' [r2 [E [At' Hr1]]]]] | [_ H]].
          -- destruct r1 as [|u r1]; cbn in E; injection E as E0 E'; subst.
             ++ congruence.
             ++ rewrite (Hr1 u) in Dt; [discriminate | left; reflexivity].
          -- rewrite (H t) in Dt; [discriminate | left; reflexivity].
        * rewrite IH. split.
          -- intros [[r1 [t' [r2 [E [At' Hr1]]]]] | [Hb H]].
             ++ left. exists (t :: r1), t', r2. subst r. repeat split; [exact At'|].
                intros u [<- | Hu]; [exact Dt | apply Hr1; exact Hu].
             ++ right. split; [exact Hb|]. intros u [<- | Hu]; [exact Dt | apply H; exact Hu].
          -- intros [[r1 [t' [r2 [E [At' Hr1]]]]] | [Hb H]].
             ++ destruct r1 as [|u r1]; cbn in E; injection E as E0 E'; subst.
                ** congruence.
                ** left. exists r1, t', r2. repeat split; [exact At'|].
                   intros v Hv. apply Hr1. right. exact Hv.
             ++ right. split; [exact Hb|]. intros u Hu. apply H. right. exact Hu.
  Qed.

  (* last writer wins, stated with positions of the original (unreversed) stream *)
  Lemma last_writer_survives ts orig x :
    last_writer A D (rev ts) x (mem x orig) = true <-> survives A D ts orig x.
  Proof.
    rewrite last_writer_positions. unfold survives. split.
    - intros [[r1 [t [r2 [E [At H]]]]] | [Hb H]].
      + left. exists (rev r2), t, (rev r1). split; [|split].
        * rewrite <- (rev_involutive ts), E, rev_app_distr. cbn. rewrite <- app_assoc. reflexivity.
        * exact At.
        * intros u Hu. apply H. apply in_rev. exact Hu.
      + right. split; [apply mem_In; exact Hb|]. intros u Hu. apply H. apply -> in_rev. exact Hu.
    - intros [[l1 [t [l2 [E [At H]]]]] | [Hb H]].
      + left. exists (rev l2), t, (rev l1). split; [|split].
        * rewrite E, rev_app_distr. cbn. rewrite <- app_assoc. reflexivity.
        * exact At.
        * intros u Hu. apply H. apply in_rev. exact Hu.
      + right. split; [apply mem_In; exact Hb|]. intros u Hu. apply H. apply in_rev. exact Hu.
  Qed.

  (* a stepwise set transformer that implements the per-token meaning implements the fold *)
  Variable stepf : str -> list str -> res.
  Fixpoint run (ts : list str) (s : list str) : res :=
    match ts with
    | [] => Ok s
    | t :: r => match stepf t s with Ok s' => run r s' | Fail e => Fail e end
    end.
  Hypothesis stepf_sem : forall t s s', stepf t s = Ok s' ->
    forall x, mem x s' = sem_step A D t (fun y => mem y s) x.

  Lemma run_sem ts : forall s s', run ts s = Ok s' ->
    forall x, mem x s' = sem_fold A D ts (fun y => mem y s) x.
  Proof.
    induction ts as [|t r IH]; intros s s' H x; cbn in *.
    - injection H as <-. reflexivity.
    - destruct (stepf t s) as [s1|e] eqn:St; [|discriminate].
      rewrite (IH _ _ H x). apply sem_fold_ext. intro y. apply (stepf_sem _ _ _ St).
  Qed.

  (* rejection: exactly the streams with a token the step rejects, with the first one's kind *)
  Variable bad : str -> option err.
  Hypothesis stepf_bad : forall t s, match bad t with
                                     | Some e => stepf t s = Fail e
                                     | None => exists s', stepf t s = Ok s'
                                     end.
  Lemma run_fail ts : forall s,
    match first_bad bad ts with
    | Some e => run ts s = Fail e
    | None => exists s', run ts s = Ok s'
    end.
  Proof.
    induction ts as [|t r IH]; intro s; cbn.
    - exists s. reflexivity.
    - pose proof (stepf_bad t s) as B. destruct (bad t) as [e|].
      + rewrite B. reflexivity.
      + destruct B as [s1 ->]. apply IH.
  Qed.
End ReadingFacts.

(* ================================================================== incremental_expansion *)
Lemma expand_is_run fin ts : forall s, expand fin ts s = run (step fin) ts s.
Proof. induction ts as [|t r IH]; intro s; cbn; [reflexivity|]. destruct (step fin t s); [apply IH | reflexivity]. Qed.

Lemma dash_eqb c : N.eqb c DASH = true -> c = DASH.
Proof. apply N.eqb_eq. Qed.

Lemma step_neg fin i s : i <> [] ->
  step fin (DASH :: i) s
  = Ok (if fin then (if str_eqb i [STAR] then [] else sdel i s)
        else sadd (DASH :: i) (if str_eqb i [STAR] then [] else sdel i s)).
Proof. destruct i; [contradiction | reflexivity]. Qed.

Lemma step_pos fin c i s : N.eqb c DASH = false ->
  step fin (c :: i) s = Ok (sadd (c :: i) (sdel (DASH :: c :: i) s)).
Proof. intro H. unfold step. rewrite H. reflexivity. Qed.

Lemma adds_neg fin i x : adds fin (DASH :: i) x = str_eqb (DASH :: i) x && negb fin.
Proof. reflexivity. Qed.
Lemma dels_neg fin i x :
  dels fin (DASH :: i) x = negb (adds fin (DASH :: i) x) && (str_eqb i [STAR] || str_eqb i x).
Proof. reflexivity. Qed.
Lemma adds_pos fin c i x : N.eqb c DASH = false -> adds fin (c :: i) x = str_eqb (c :: i) x.
Proof. intro H. unfold adds, positive. rewrite H. cbn [negb orb]. apply andb_true_r. Qed.
Lemma dels_pos fin c i x : N.eqb c DASH = false ->
  dels fin (c :: i) x = negb (adds fin (c :: i) x) && str_eqb x (DASH :: c :: i).
Proof. intro H. unfold dels, positive. rewrite H. reflexivity. Qed.

Lemma step_sem fin t s s' : step fin t s = Ok s' ->
  forall x, mem x s' = sem_step (adds fin) (dels fin) t (fun y => mem y s) x.
Proof.
  destruct t as [|c i]; [discriminate|].
  destruct (N.eqb c DASH) eqn:Ec.
  - apply dash_eqb in Ec. subst c. destruct (list_eq_dec N.eq_dec i []) as [->|Hi]; [discriminate|].
    rewrite (step_neg _ _ _ Hi). intros H x. injection H as <-.
    unfold sem_step. rewrite dels_neg, adds_neg.
    destruct (str_eqb i [STAR]) eqn:Estar; destruct fin; cbn [negb orb andb];
      rewrite ?mem_sadd, ?mem_sdel, ?(str_eqb_sym x (DASH :: i)), ?(str_eqb_sym x i), ?andb_false_r, ?andb_true_r.
    + reflexivity.
    + destruct (str_eqb (DASH :: i) x), (mem x s); reflexivity.
    + reflexivity.
    + destruct (str_eqb (DASH :: i) x), (str_eqb i x), (mem x s); reflexivity.
  - rewrite (step_pos _ _ _ _ Ec). intros H x. injection H as <-.
    unfold sem_step. rewrite (dels_pos _ _ _ _ Ec), (adds_pos _ _ _ _ Ec).
    rewrite mem_sadd, mem_sdel, (str_eqb_sym x (c :: i)).
    destruct (str_eqb (c :: i) x), (str_eqb x (DASH :: c :: i)), (mem x s); reflexivity.
Qed.

Lemma step_bad fin t s :
  match bad_inc t with
  | Some e => step fin t s = Fail e
  | None => exists s', step fin t s = Ok s'
  end.
Proof.
  unfold bad_inc, step. destruct t as [|c i]; cbn [is_nil]; [reflexivity|].
  destruct (str_eqb (c :: i) [DASH]) eqn:E.
  - apply str_eqb_eq in E. injection E as -> ->. reflexivity.
  - destruct (N.eqb c DASH) eqn:Ec.
    + destruct i; [apply dash_eqb in Ec; subst; discriminate E | eexists; reflexivity].
    + eexists; reflexivity.
Qed.

(* expand = left fold = last writer wins, for every stream, flag and original set *)
Lemma expand_last_writer_proof : forall fin ts orig s,
  expand fin ts orig = Ok s ->
  forall x, (In x s <-> sem_fold (adds fin) (dels fin) ts (fun y => mem y orig) x = true)
         /\ (In x s <-> survives (adds fin) (dels fin) ts orig x).
Proof.
  intros fin ts orig s H x. rewrite expand_is_run in H.
  pose proof (run_sem _ _ _ (step_sem fin) ts orig s H x) as E.
  split.
  - rewrite <- E. symmetry. apply mem_In.
  - rewrite <- last_writer_survives.
    rewrite <- (sem_fold_last_writer _ _ ts (fun y => mem y orig) x), <- E. symmetry. apply mem_In.
Qed.

(* a stream is rejected iff it has an incomplete token, with the first one's error *)
Lemma expand_rejects_proof : forall fin ts orig,
  match first_bad bad_inc ts with
  | Some e => expand fin ts orig = Fail e
  | None => exists s, expand fin ts orig = Ok s
  end.
Proof.
  intros fin ts orig. rewrite expand_is_run. apply run_fail. apply step_bad.
Qed.

(* ================================================================== incremental_expansion_license *)
Lemma expand_license_is_run lics groups ts : forall s,
  expand_license_from lics groups ts s = run (step_license lics groups) ts s.
Proof.
  induction ts as [|t r IH]; intro s; cbn; [reflexivity|].
  destruct (step_license lics groups t s); [apply IH | reflexivity].
Qed.

Lemma step_license_sem lics groups t s s' : step_license lics groups t s = Ok s' ->
  forall x, mem x s' = sem_step (lic_adds lics groups) (lic_dels lics groups) t (fun y => mem y s) x.
Proof.
  unfold step_license, sem_step, lic_adds, lic_dels. destruct t as [|c i]; [discriminate|].
  destruct (N.eqb c DASH) eqn:Ec.
  - destruct i as [|d g]; [discriminate|]. cbn [andb orb].
    destruct (str_eqb (d :: g) [STAR]) eqn:Es.
    + intros H x. injection H as <-. cbn. rewrite andb_false_r. reflexivity.
    + destruct (N.eqb d AT) eqn:Ed.
      * destruct g as [|g0 g']; [discriminate|]. intros H x. injection H as <-.
        rewrite mem_sdiff. reflexivity.
      * intros H x. injection H as <-. rewrite mem_sdel, (str_eqb_sym x). reflexivity.
  - assert (Hd : forall x, match i with
                           | [] => false
                           | d :: g => false && (str_eqb i [STAR] || (if N.eqb d AT then mem x (lookup g groups) else str_eqb i x))
                           end = false) by (intro x; destruct i; reflexivity).
    destruct (N.eqb c AT) eqn:Ea.
    + destruct i as [|d g]; [discriminate|]. intros H x. injection H as <-.
      rewrite mem_sunion. cbn [andb negb]. rewrite andb_true_r. apply orb_comm.
    + destruct (str_eqb (c :: i) [STAR]) eqn:Es; intros H x; injection H as <-.
      * rewrite mem_sunion. destruct i; cbn [andb negb]; rewrite andb_true_r; apply orb_comm.
      * rewrite mem_sadd, (str_eqb_sym x). destruct i; cbn [andb negb]; rewrite andb_true_r; reflexivity.
Qed.

Lemma step_license_bad lics groups t s :
  match bad_license t with
  | Some e => step_license lics groups t s = Fail e
  | None => exists s', step_license lics groups t s = Ok s'
  end.
Proof.
  unfold bad_license, step_license. destruct t as [|c i]; cbn [is_nil]; [reflexivity|].
  destruct (N.eqb c DASH) eqn:Ec.
  - apply dash_eqb in Ec. subst c. destruct i as [|d g]; [reflexivity|].
    change (str_eqb (DASH :: d :: g) [DASH]) with false.
    change (str_eqb (DASH :: d :: g) [DASH; AT]) with (N.eqb d AT && str_eqb g []).
    change (str_eqb (DASH :: d :: g) [AT]) with false.
    destruct (N.eqb d AT) eqn:Ed.
    + assert (Es : str_eqb (d :: g) [STAR] = false).
      { apply N.eqb_eq in Ed. subst d. reflexivity. }
      rewrite Es. destruct g; cbn; [reflexivity | eexists; reflexivity].
    + cbn [andb]. destruct (str_eqb (d :: g) [STAR]); eexists; reflexivity.
  - assert (E1 : str_eqb (c :: i) [DASH] = false) by (cbn; rewrite Ec; reflexivity).
    assert (E2 : str_eqb (c :: i) [DASH; AT] = false) by (cbn; rewrite Ec; reflexivity).
    rewrite E1, E2. destruct (N.eqb c AT) eqn:Ea.
    + apply N.eqb_eq in Ea. subst c. destruct i; cbn; [reflexivity | eexists; reflexivity].
    + assert (E3 : str_eqb (c :: i) [AT] = false) by (cbn; rewrite Ea; reflexivity).
      rewrite E3. destruct (str_eqb (c :: i) [STAR]); eexists; reflexivity.
Qed.

Lemma license_last_writer_proof : forall lics groups ts s,
  expand_license lics groups ts = Ok s ->
  forall x, (In x s <-> sem_fold (lic_adds lics groups) (lic_dels lics groups) ts (fun _ => false) x = true)
         /\ (In x s <-> survives (lic_adds lics groups) (lic_dels lics groups) ts [] x).
Proof.
  intros lics groups ts s H x. unfold expand_license in H. rewrite expand_license_is_run in H.
  pose proof (run_sem _ _ _ (step_license_sem lics groups) ts [] s H x) as E.
  assert (E' : mem x s = sem_fold (lic_adds lics groups) (lic_dels lics groups) ts (fun _ => false) x).
  { rewrite E. apply sem_fold_ext. reflexivity. }
  split.
  - rewrite <- E'. symmetry. apply mem_In.
  - rewrite <- last_writer_survives.
    rewrite <- (sem_fold_last_writer _ _ ts (fun y => mem y []) x), <- E. symmetry. apply mem_In.
Qed.

Lemma license_rejects_proof : forall lics groups ts,
  match first_bad bad_license ts with
  | Some e => expand_license lics groups ts = Fail e
  | None => exists s, expand_license lics groups ts = Ok s
  end.
Proof.
  intros. unfold expand_license. rewrite expand_license_is_run. apply run_fail. apply step_license_bad.
Qed.

(* ================================================================== optimize_incrementals *)
Lemma positive_not_neg x i : positive x = true -> str_eqb x (DASH :: i) = false.
Proof.
  destruct x as [|c x']; [discriminate|]. unfold positive. intro H. cbn.
  destruct (N.eqb c DASH); [discriminate | reflexivity].
Qed.
Lemma neg_not_positive c i y : N.eqb c DASH = false -> str_eqb (DASH :: y) (c :: i) = false.
Proof.
  intro H. change (str_eqb (DASH :: y) (c :: i)) with (N.eqb DASH c && str_eqb y i).
  rewrite N.eqb_sym, H. reflexivity.
Qed.
Lemma positive_cons c i : N.eqb c DASH = false -> positive (c :: i) = true.
Proof. intro H. unfold positive. rewrite H. reflexivity. Qed.

Lemma res_cons_ok t r out : res_cons t r = Ok out -> exists o, r = Ok o /\ out = t :: o.
Proof. destruct r; cbn; [|discriminate]. intro H. injection H as <-. eexists; split; reflexivity. Qed.

Lemma opt_scan_neg strict i r fin : i <> [] ->
  opt_scan strict ((DASH :: i) :: r) fin
  = if str_eqb i [STAR]
    then (if strict && existsb (str_eqb [DASH]) r then Fail EBareNeg else Ok [DASH :: i])
    else if mem i fin then opt_scan strict r fin
         else res_cons (DASH :: i) (opt_scan strict r (i :: fin)).
Proof. destruct i; [contradiction | reflexivity]. Qed.

Lemma opt_scan_pos strict c i r fin : N.eqb c DASH = false ->
  opt_scan strict ((c :: i) :: r) fin
  = if mem (c :: i) fin then opt_scan strict r fin
    else res_cons (c :: i) (opt_scan strict r ((c :: i) :: fin)).
Proof. intro H. cbn [opt_scan]. rewrite H. reflexivity. Qed.

Lemma wf_neg i : i <> [] -> wf (DASH :: i) = true.
Proof. destruct i; [contradiction | reflexivity]. Qed.
Lemma wf_pos c i : N.eqb c DASH = false -> wf (c :: i) = true.
Proof.
  intro H. unfold wf. cbn [is_nil negb andb].
  change (str_eqb (c :: i) [DASH]) with (N.eqb c DASH && str_eqb i []). rewrite H. reflexivity.
Qed.

(* what the scan emits: facts shared by the pinned and the repaired variant *)
Lemma scan_inv strict rs : forall fin out, opt_scan strict rs fin = Ok out ->
  (forall t, In t out -> In t rs /\ wf t = true)
  /\ (forall x, positive x = true -> mem x fin = true ->
        mem x out = false /\ (str_eqb x [STAR] = false -> mem (DASH :: x) out = false)).
Proof.
  induction rs as [|t r IH]; intros fin out H.
  - cbn in H. injection H as <-. split; [intros t [] | intros; split; reflexivity].
  - destruct t as [|c i]; [discriminate|]. destruct (N.eqb c DASH) eqn:Ec.
    + apply dash_eqb in Ec. subst c. destruct (list_eq_dec N.eq_dec i []) as [->|Hi]; [discriminate|].
      rewrite (opt_scan_neg _ _ _ _ Hi) in H.
      destruct (str_eqb i [STAR]) eqn:Es.
      * destruct (strict && existsb (str_eqb [DASH]) r); [discriminate|]. injection H as <-.
        split.
        -- intros t [<- | []]. split; [left; reflexivity | apply wf_neg; exact Hi].
        -- intros x Px Hx. split.
           ++ rewrite mem_cons, (positive_not_neg _ _ Px). reflexivity.
           ++ intro Hs. rewrite mem_cons. cbn [mem existsb]. rewrite orb_false_r.
              change (str_eqb (DASH :: x) (DASH :: i)) with (str_eqb x i).
              apply str_eqb_eq in Es. rewrite Es. exact Hs.
      * destruct (mem i fin) eqn:Mi.
        -- destruct (IH _ _ H) as [I1 I2]. split.
           ++ intros t Ht. destruct (I1 t Ht). split; [right; assumption | assumption].
           ++ exact I2.
        -- apply res_cons_ok in H as [o [Ho ->]]. destruct (IH _ _ Ho) as [I1 I2]. split.
           ++ intros t [<- | Ht]; [split; [left; reflexivity | apply wf_neg; exact Hi]|].
              destruct (I1 t Ht). split; [right; assumption | assumption].
           ++ intros x Px Hx.
              assert (Hx' : mem x (i :: fin) = true) by (rewrite mem_cons, Hx; apply orb_true_r).
              destruct (I2 x Px Hx') as [J1 J2]. split.
              ** rewrite mem_cons, (positive_not_neg _ _ Px). exact J1.
              ** intro Hs. rewrite mem_cons, (J2 Hs), orb_false_r.
                 change (str_eqb (DASH :: x) (DASH :: i)) with (str_eqb x i).
                 destruct (str_eqb x i) eqn:E; [|reflexivity].
                 apply str_eqb_eq in E. subst x. rewrite Hx in Mi. discriminate.
    + rewrite (opt_scan_pos _ _ _ _ _ Ec) in H. destruct (mem (c :: i) fin) eqn:Mi.
      * destruct (IH _ _ H) as [I1 I2]. split.
        -- intros t Ht. destruct (I1 t Ht). split; [right; assumption | assumption].
        -- exact I2.
      * apply res_cons_ok in H as [o [Ho ->]]. destruct (IH _ _ Ho) as [I1 I2]. split.
        -- intros t [<- | Ht].
           ++ split; [left; reflexivity | apply wf_pos; exact Ec].
           ++ destruct (I1 t Ht). split; [right; assumption | assumption].
        -- intros x Px Hx.
           assert (Hx' : mem x ((c :: i) :: fin) = true) by (rewrite mem_cons, Hx; apply orb_true_r).
           destruct (I2 x Px Hx') as [J1 J2]. split.
           ++ rewrite mem_cons, J1, orb_false_r.
              destruct (str_eqb x (c :: i)) eqn:E; [|reflexivity].
              apply str_eqb_eq in E. subst x. rewrite Hx in Mi. discriminate.
           ++ intro Hs. rewrite mem_cons, (J2 Hs), orb_false_r. apply neg_not_positive. exact Ec.
Qed.

Lemma lw_neg_step i r x b :
  last_writer (adds true) (dels true) ((DASH :: i) :: r) x b
  = if str_eqb i [STAR] || str_eqb i x then false else last_writer (adds true) (dels true) r x b.
Proof.
  cbn [last_writer]. rewrite dels_neg, !adds_neg. cbn [negb]. rewrite !andb_false_r. reflexivity.
Qed.
Lemma lw_pos_step c i r x b : N.eqb c DASH = false -> positive x = true ->
  last_writer (adds true) (dels true) ((c :: i) :: r) x b
  = if str_eqb (c :: i) x then true else last_writer (adds true) (dels true) r x b.
Proof.
  intros Ec Px. cbn [last_writer]. rewrite (dels_pos _ _ _ _ Ec), !(adds_pos _ _ _ _ Ec).
  rewrite (positive_not_neg _ _ Px), andb_false_r. reflexivity.
Qed.

(* the semantic content of the scan: for a flag x not yet finalized, "x is emitted, or x was
   set before and neither -* nor -x is emitted" is exactly last-writer-wins over the scanned part *)
Lemma scan_sem strict rs : forall fin out, opt_scan strict rs fin = Ok out ->
  forall x, positive x = true -> mem x fin = false -> forall b,
    mem x out || (b && negb (mem CLEAR out) && negb (mem (DASH :: x) out))
    = last_writer (adds true) (dels true) rs x b.
Proof.
  induction rs as [|t r IH]; intros fin out H x Px Hx b.
  - cbn in H. injection H as <-. cbn. rewrite !andb_true_r. reflexivity.
  - destruct t as [|c i]; [discriminate|]. destruct (N.eqb c DASH) eqn:Ec.
    + apply dash_eqb in Ec. subst c. destruct (list_eq_dec N.eq_dec i []) as [->|Hi]; [discriminate|].
      rewrite (opt_scan_neg _ _ _ _ Hi) in H. rewrite lw_neg_step.
      destruct (str_eqb i [STAR]) eqn:Es.
      * destruct (strict && existsb (str_eqb [DASH]) r); [discriminate|]. injection H as <-.
        cbn [orb]. apply str_eqb_eq in Es. rewrite Es.
        rewrite mem_cons, (positive_not_neg _ _ Px).
        change (mem CLEAR [[DASH; STAR]]) with true. cbn. rewrite andb_false_r. reflexivity.
      * cbn [orb]. destruct (mem i fin) eqn:Mi.
        -- assert (E : str_eqb i x = false).
           { destruct (str_eqb i x) eqn:E; [|reflexivity].
             apply str_eqb_eq in E. subst x. rewrite Hx in Mi. discriminate. }
           rewrite E. apply (IH _ _ H x Px Hx b).
        -- apply res_cons_ok in H as [o [Ho ->]].
           rewrite !mem_cons, (positive_not_neg _ _ Px). cbn [orb].
           change (str_eqb CLEAR (DASH :: i)) with (str_eqb [STAR] i).
           rewrite (str_eqb_sym [STAR]), Es. cbn [orb].
           change (str_eqb (DASH :: x) (DASH :: i)) with (str_eqb x i).
           rewrite (str_eqb_sym x). destruct (str_eqb i x) eqn:E.
           ++ apply str_eqb_eq in E. subst x.
              destruct (scan_inv _ _ _ _ Ho) as [_ I2].
              assert (Hx' : mem i (i :: fin) = true)
                by (rewrite mem_cons, str_eqb_refl; reflexivity).
              destruct (I2 _ Px Hx') as [J1 _]. rewrite J1. cbn. rewrite andb_false_r. reflexivity.
           ++ cbn [orb]. apply (IH _ _ Ho x Px).
              rewrite mem_cons, Hx, (str_eqb_sym x), E. reflexivity.
    + rewrite (opt_scan_pos _ _ _ _ _ Ec) in H. rewrite (lw_pos_step _ _ _ _ _ Ec Px).
      destruct (mem (c :: i) fin) eqn:Mi.
      * assert (E : str_eqb (c :: i) x = false).
        { destruct (str_eqb (c :: i) x) eqn:E; [|reflexivity].
          apply str_eqb_eq in E. subst x. rewrite Hx in Mi. discriminate. }
        rewrite E. apply (IH _ _ H x Px Hx b).
      * apply res_cons_ok in H as [o [Ho ->]].
        rewrite !mem_cons. rewrite (str_eqb_sym x (c :: i)).
        destruct (str_eqb (c :: i) x) eqn:E; [reflexivity|]. cbn [orb].
        unfold CLEAR. rewrite !(neg_not_positive _ _ _ Ec). cbn [orb].
        apply (IH _ _ Ho x Px). rewrite mem_cons, Hx, (str_eqb_sym x), E. reflexivity.
Qed.

(* ------------------------------------------------------------------ the consumer *)
Lemma split_negations_sem S : (forall t, In t S -> wf t = true) ->
  exists neg pos, split_negations S = Some (neg, pos)
    /\ (forall y, mem y neg = mem (DASH :: y) S)
    /\ (forall y, mem y pos = mem y S && positive y)
    /\ (S = [] <-> neg = [] /\ pos = []).
Proof.
  induction S as [|t r IH]; intro W.
  - exists [], []. split; [reflexivity|]. split; [reflexivity|]. split; [reflexivity|]. split; [intros _; split; reflexivity | reflexivity].
  - assert (Wr : forall u, In u r -> wf u = true) by (intros u Hu; apply W; right; exact Hu).
    destruct (IH Wr) as [neg [pos [E [Hn [Hp _]]]]].
    pose proof (W t (or_introl eq_refl)) as Wt.
    destruct t as [|c i]; [discriminate|]. cbn [split_negations]. rewrite E.
    destruct (N.eqb c DASH) eqn:Ec.
    + apply dash_eqb in Ec. subst c. destruct i as [|d g]; [discriminate|].
      exists ((d :: g) :: neg), pos. split; [reflexivity|]. split; [|split].
      * intro y. rewrite !mem_cons, Hn. reflexivity.
      * intro y. rewrite mem_cons, Hp. destruct (positive y) eqn:Py.
        -- rewrite (positive_not_neg _ _ Py). reflexivity.
        -- rewrite !andb_false_r. reflexivity.
      * split; [discriminate | intros [Hq _]; discriminate].
    + exists neg, ((c :: i) :: pos). split; [reflexivity|]. split; [|split].
      * intro y. rewrite mem_cons, Hn, (neg_not_positive _ _ _ Ec). reflexivity.
      * intro y. rewrite !mem_cons, Hp. destruct (str_eqb y (c :: i)) eqn:E'; [|reflexivity].
        apply str_eqb_eq in E'. subst y. rewrite (positive_cons _ _ Ec). reflexivity.
      * split; [discriminate | intros [_ Hq]; discriminate].
Qed.

Lemma glob_fold_id neg : forall s, (forall f, In f neg -> ends_us_star f = false) ->
  fold_left (fun s flag => if ends_us_star flag
                           then filter (fun f => negb (startswith (drop_last2 flag) f)) s
                           else s) neg s = s.
Proof.
  induction neg as [|f r IH]; intros s H; cbn; [reflexivity|].
  rewrite (H f (or_introl eq_refl)). apply IH. intros g Hg. apply H. right. exact Hg.
Qed.

Lemma consume_sem S orig :
  (forall t, In t S -> wf t = true) -> (forall t, In t S -> glob_neg t = false) ->
  exists s, consume S orig = Some s /\
    forall x, positive x = true ->
      mem x s = mem x S || (mem x orig && negb (mem CLEAR S) && negb (mem (DASH :: x) S)).
Proof.
  intros W G. destruct (split_negations_sem S W) as [neg [pos [E [Hn [Hp Hnil]]]]].
  unfold consume. rewrite E.
  assert (Gn : forall f, In f neg -> ends_us_star f = false).
  { intros f Hf. apply mem_In in Hf. rewrite Hn in Hf. apply mem_In in Hf.
    specialize (G _ Hf). unfold glob_neg in G. exact G. }
  assert (Main : forall x, positive x = true ->
            mem x (chunk_apply neg pos orig)
            = mem x S || (mem x orig && negb (mem CLEAR S) && negb (mem (DASH :: x) S))).
  { intros x Px. unfold chunk_apply. rewrite mem_sunion, mem_sdiff, (glob_fold_id _ _ Gn).
    rewrite Hp, !Hn, Px, andb_true_r. change (DASH :: [STAR]) with CLEAR.
    destruct (mem CLEAR S); cbn [negb andb].
    - rewrite andb_false_r. cbn. rewrite orb_false_r. reflexivity.
    - rewrite andb_true_r. apply orb_comm. }
  destruct neg as [|n0 neg'].
  - destruct pos as [|p0 pos'].
    + exists orig. split; [reflexivity|]. intros x Px.
      assert (S = []) by (apply Hnil; split; reflexivity). subst S. cbn. rewrite !andb_true_r. reflexivity.
    + eexists. split; [reflexivity | exact Main].
  - eexists. split; [reflexivity | exact Main].
Qed.

Lemma mem_same_set a b : same_set a b -> forall y, mem y a = mem y b.
Proof.
  intros H y. destruct (mem y b) eqn:E.
  - apply mem_In. apply H. apply mem_In. exact E.
  - apply mem_false_In. intro Hy. apply H in Hy. apply mem_In in Hy. congruence.
Qed.

(* the stored condensed set — in any order, with or without repetitions — applied the way
   domain.enabled_use applies it, gives every flag the membership the stream gives it,
   whatever the original set *)
Lemma optimize_sound_proof : forall strict ts out,
  optimize strict ts = Ok out ->
  (forall t, In t ts -> glob_neg t = false) ->
  forall stored, same_set stored out ->
  forall orig, exists s,
    consume stored orig = Some s
    /\ (forall x, positive x = true ->
          (In x s <-> sem_fold (adds true) (dels true) ts (fun y => mem y orig) x = true))
    /\ (forall s', expand true ts orig = Ok s' ->
          forall x, positive x = true -> (In x s <-> In x s')).
Proof.
  intros strict ts out H G stored Hs orig. unfold optimize in H.
  destruct (scan_inv _ _ _ _ H) as [I1 _].
  assert (W : forall t, In t stored -> wf t = true) by (intros t Ht; apply Hs in Ht; apply (I1 t Ht)).
  assert (G' : forall t, In t stored -> glob_neg t = false).
  { intros t Ht. apply Hs in Ht. apply G. apply in_rev. apply (I1 t Ht). }
  destruct (consume_sem stored orig W G') as [s [Ec Hm]].
  assert (Key : forall x, positive x = true ->
            mem x s = sem_fold (adds true) (dels true) ts (fun y => mem y orig) x).
  { intros x Px. rewrite (Hm x Px), !(mem_same_set _ _ Hs).
    rewrite (sem_fold_last_writer _ _ ts (fun y => mem y orig) x).
    apply (scan_sem _ _ _ _ H x Px eq_refl). }
  exists s. split; [exact Ec|]. split.
  - intros x Px. rewrite <- (Key x Px). symmetry. apply mem_In.
  - intros s' He x Px. destruct (expand_last_writer_proof _ _ _ _ He x) as [F _].
    rewrite F, <- (Key x Px). symmetry. apply mem_In.
Qed.

(* ------------------------------------------------------------------ rejection *)
Lemma scan_reject rs : (forall t, In t rs -> t <> []) -> forall fin,
  if existsb (str_eqb [DASH]) rs then opt_scan true rs fin = Fail EBareNeg
  else exists out, opt_scan true rs fin = Ok out.
Proof.
  induction rs as [|t r IH]; intros NE fin.
  - cbn. eexists; reflexivity.
  - assert (NEr : forall u, In u r -> u <> []) by (intros u Hu; apply NE; right; exact Hu).
    destruct t as [|c i]; [exfalso; apply (NE [] (or_introl eq_refl)); reflexivity|].
    cbn [existsb]. destruct (N.eqb c DASH) eqn:Ec.
    + apply dash_eqb in Ec. subst c. destruct (list_eq_dec N.eq_dec i []) as [->|Hi]; [reflexivity|].
      assert (E : str_eqb [DASH] (DASH :: i) = false) by (destruct i; [contradiction | reflexivity]).
      rewrite E. cbn [orb]. rewrite (opt_scan_neg _ _ _ _ Hi).
      destruct (str_eqb i [STAR]).
      * cbn [andb]. destruct (existsb (str_eqb [DASH]) r); [reflexivity | eexists; reflexivity].
      * destruct (mem i fin); [apply IH; exact NEr|].
        specialize (IH NEr (i :: fin)). destruct (existsb (str_eqb [DASH]) r).
        -- rewrite IH. reflexivity.
        -- destruct IH as [o ->]. eexists; reflexivity.
    + assert (E : str_eqb [DASH] (c :: i) = false).
      { change (str_eqb [DASH] (c :: i)) with (N.eqb DASH c && str_eqb [] i). rewrite N.eqb_sym, Ec. reflexivity. }
      rewrite E. cbn [orb]. rewrite (opt_scan_pos _ _ _ _ _ Ec).
      destruct (mem (c :: i) fin); [apply IH; exact NEr|].
      specialize (IH NEr ((c :: i) :: fin)). destruct (existsb (str_eqb [DASH]) r).
      * rewrite IH. reflexivity.
      * destruct IH as [o ->]. eexists; reflexivity.
Qed.

Lemma first_bad_inc_nonempty ts : (forall t, In t ts -> t <> []) ->
  first_bad bad_inc ts = if existsb (str_eqb [DASH]) ts then Some EBareNeg else None.
Proof.
  induction ts as [|t r IH]; intro NE; [reflexivity|].
  assert (NEr : forall u, In u r -> u <> []) by (intros u Hu; apply NE; right; exact Hu).
  cbn [first_bad existsb]. unfold bad_inc.
  destruct t as [|c i]; [exfalso; apply (NE [] (or_introl eq_refl)); reflexivity|].
  cbn [is_nil]. rewrite (str_eqb_sym [DASH]).
  destruct (str_eqb (c :: i) [DASH]); [reflexivity | apply IH; exact NEr].
Qed.

(* every stream of non-empty tokens: a bare "-" anywhere  <->  rejected, by the expansion
   (finalize on or off, any original set) and by the (repaired) condenser alike *)
Lemma incomplete_negation_rejected_proof : forall ts,
  (forall t, In t ts -> t <> []) ->
  (In [DASH] ts ->
     optimize true ts = Fail EBareNeg /\ forall fin orig, expand fin ts orig = Fail EBareNeg)
  /\ (~ In [DASH] ts ->
     (exists out, optimize true ts = Ok out) /\ forall fin orig, exists s, expand fin ts orig = Ok s).
Proof.
  intros ts NE.
  assert (NEr : forall t, In t (rev ts) -> t <> []) by (intros t Ht; apply NE; apply in_rev; exact Ht).
  pose proof (scan_reject (rev ts) NEr []) as R.
  pose proof (first_bad_inc_nonempty ts NE) as FB.
  assert (Erev : existsb (str_eqb [DASH]) (rev ts) = existsb (str_eqb [DASH]) ts).
  { change (mem [DASH] (rev ts) = mem [DASH] ts). apply mem_same_set. intro y. symmetry. apply in_rev. }
  rewrite Erev in R. split.
  - intro Hin. apply mem_In in Hin. unfold mem in Hin. rewrite Hin in R, FB. split; [exact R|].
    intros fin orig. pose proof (expand_rejects_proof fin ts orig) as X. rewrite FB in X. exact X.
  - intro Hn. apply mem_false_In in Hn. unfold mem in Hn. rewrite Hn in R, FB. split; [exact R|].
    intros fin orig. pose proof (expand_rejects_proof fin ts orig) as X. rewrite FB in X. exact X.
Qed.

(* the pinned tree (no check left of the "-*" that ends the scan) *)
Lemma optimize_pinned_refuted_proof :
  optimize false [[DASH]; CLEAR] = Ok [CLEAR]
  /\ (forall fin orig, expand fin [[DASH]; CLEAR] orig = Fail EBareNeg).
Proof. split; reflexivity. Qed.

Lemma scan_pinned_agrees rs : forall fin out,
  opt_scan true rs fin = Ok out -> opt_scan false rs fin = Ok out.
Proof.
  induction rs as [|t r IH]; intros fin out H; [exact H|].
  destruct t as [|c i]; [discriminate|]. destruct (N.eqb c DASH) eqn:Ec.
  - apply dash_eqb in Ec. subst c. destruct (list_eq_dec N.eq_dec i []) as [->|Hi]; [discriminate|].
    rewrite (opt_scan_neg true _ _ _ Hi) in H. rewrite (opt_scan_neg false _ _ _ Hi). destruct (str_eqb i [STAR]).
    + cbn [andb] in *. destruct (existsb (str_eqb [DASH]) r); [discriminate H | exact H].
    + destruct (mem i fin); [apply IH; exact H|].
      apply res_cons_ok in H as [o [Ho ->]]. rewrite (IH _ _ Ho). reflexivity.
  - rewrite (opt_scan_pos true _ _ _ _ Ec) in H. rewrite (opt_scan_pos false _ _ _ _ Ec).
    destruct (mem (c :: i) fin); [apply IH; exact H|].
    apply res_cons_ok in H as [o [Ho ->]]. rewrite (IH _ _ Ho). reflexivity.
Qed.

Lemma optimize_pinned_partial_proof : forall ts out,
  optimize true ts = Ok out -> optimize false ts = Ok out.
Proof. intros ts out. apply scan_pinned_agrees. Qed.

(* ================================================================== examples (non-vacuity) *)
Local Notation a := [97%N].  Local Notation b := [98%N].  Local Notation c := [99%N].
Local Notation na := [DASH; 97%N].  Local Notation nc := [DASH; 99%N].

(* a -* b -a a  over {c}:  c and the first a are cleared, b stays, a is re-added last *)
Example expand_example : expand true [a; CLEAR; b; na; a] [c] = Ok [b; a].
Proof. reflexivity. Qed.
Example expand_unfinalized_example : expand false [a; CLEAR; b; nc] [c] = Ok [CLEAR; b; nc].
Proof. reflexivity. Qed.
(* the condensed form of  a -* b -c  and what its consumer makes of it over {a, c, z} *)
Example optimize_example : optimize true [a; CLEAR; b; nc] = Ok [nc; b; CLEAR].
Proof. reflexivity. Qed.
Example consume_example :
  consume [b; CLEAR; nc] [a; c; [122%N]] = Some [b]
  /\ expand true [a; CLEAR; b; nc] [a; c; [122%N]] = Ok [b].
Proof. split; reflexivity. Qed.
(* without -* the original set shows through, minus the negated flag *)
Example consume_example2 :
  consume [nc; b] [a; c] = Some [a; b] /\ expand true [b; nc] [a; c] = Ok [a; b].
Proof. split; reflexivity. Qed.
(* why "-prefix_*" tokens are excluded from optimize_sound: the chunk consumer gives them the
   USE_EXPAND wildcard meaning (C11), the expansion treats them as a plain name *)
Example glob_outside :
  let abx := [97;98;95;120]%N in let aby := [97;98;95;121]%N in
  let nglob := [45;97;98;95;42]%N in
  glob_neg nglob = true
  /\ optimize true [abx; nglob] = Ok [nglob; abx]
  /\ consume [nglob; abx] [aby] = Some [abx]
  /\ expand true [abx; nglob] [aby] = Ok [aby; abx].
Proof. repeat split; reflexivity. Qed.
(* licenses: @G -a * -@H over package licenses {a, z}, G = {a, b}, H = {z}, M undefined *)
Example license_example :
  let z := [122%N] in let G := [71%N] in let H := [72%N] in
  expand_license [a; z] [(G, [a; b]); (H, [z])]
                 [AT :: G; na; [STAR]; DASH :: AT :: H; AT :: [77%N]] = Ok [b; a].
Proof. reflexivity. Qed.
Example license_rejected_example :
  expand_license [a] [] [a; [DASH; AT]] = Fail EBareNegGroup
  /\ expand_license [a] [] [[AT]; [DASH]] = Fail EBareGroup.
Proof. split; reflexivity. Qed.

(* ================================================================== collapsed_restrict_to_data.pull_data *)
(* a stream of positive tokens over nothing denotes just its members *)
Lemma lw_all_positive rs : (forall t, In t rs -> positive t = true) ->
  forall y, last_writer (adds true) (dels true) rs y false = mem y rs.
Proof.
  induction rs as [|t r IH]; intros P y; [reflexivity|].
  assert (Pr : forall u, In u r -> positive u = true) by (intros u Hu; apply P; right; exact Hu).
  pose proof (P t (or_introl eq_refl)) as Pt. destruct t as [|c i]; [discriminate|].
  assert (Ec : N.eqb c DASH = false).
  { unfold positive in Pt. destruct (N.eqb c DASH); [discriminate | reflexivity]. }
  cbn [last_writer]. rewrite (dels_pos _ _ _ _ Ec), !(adds_pos _ _ _ _ Ec), mem_cons, (str_eqb_sym y (c :: i)).
  destruct (str_eqb (c :: i) y) eqn:E; [reflexivity|]. cbn [negb andb orb].
  destruct (str_eqb y (DASH :: c :: i)) eqn:E2; [|apply IH; exact Pr].
  apply str_eqb_eq in E2. subst y. symmetry. apply mem_false_In. intro Hin.
  specialize (Pr _ Hin). unfold positive in Pr. cbn in Pr. discriminate.
Qed.

Lemma sem_fold_all_positive ts : (forall t, In t ts -> positive t = true) ->
  forall y, sem_fold (adds true) (dels true) ts (fun _ => false) y = mem y ts.
Proof.
  intros P y. rewrite sem_fold_last_writer, lw_all_positive.
  - apply mem_same_set. intro z. symmetry. apply in_rev.
  - intros t Ht. apply P. apply in_rev. exact Ht.
Qed.

(* a finalized expansion over the empty set contains positive strings only *)
Lemma expand_true_positive ts d : expand true ts [] = Ok d -> forall y, In y d -> positive y = true.
Proof.
  intros H y Hy. destruct (expand_last_writer_proof _ _ _ _ H y) as [_ S]. apply S in Hy.
  destruct Hy as [[l1 [t [l2 [_ [At _]]]]] | [[] _]].
  unfold adds in At. apply andb_true_iff in At as [E P]. apply str_eqb_eq in E. subst t.
  rewrite orb_false_r in P. exact P.
Qed.

Lemma sem_fold_app A D l1 l2 S x :
  sem_fold A D (l1 ++ l2) S x = sem_fold A D l2 (sem_fold A D l1 S) x.
Proof. unfold sem_fold. rewrite fold_left_app. reflexivity. Qed.

(* pull_data (finalized defaults) = the plain left-to-right expansion of the stream
   iter_pull_data yields: pre_defaults, defaults, matching freeform entries, matching atoms *)
Lemma pull_data_is_stream_proof : forall srcs pre s ts,
  (forall t, In t pre -> positive t = true) ->
  pull_data true srcs pre = Ok s -> pull_stream true srcs pre = Some ts ->
  forall x, In x s <-> sem_fold (adds true) (dels true) ts (fun _ => false) x = true.
Proof.
  intros srcs pre s ts Ppre Hp Hs x. unfold pull_data, pull_stream in *.
  set (cc := collapse srcs) in *. destruct (defaults true cc) as [d|e] eqn:Ed; [|discriminate].
  injection Hs as <-. cbn [res_bind] in Hp.
  assert (Pd : forall y, In y d -> positive y = true).
  { unfold defaults in Ed. destruct (is_nil (c_always cc)).
    - injection Ed as <-. intros y [].
    - apply (expand_true_positive _ _ Ed). }
  rewrite !sem_fold_app.
  assert (Hs0 : forall s0, (forall y, mem y s0 = sem_fold (adds true) (dels true) d
                                            (sem_fold (adds true) (dels true) pre (fun _ => false)) y) ->
            expand true (specific_tokens cc) s0 = Ok s ->
            In x s <-> sem_fold (adds true) (dels true) (specific_tokens cc)
                         (sem_fold (adds true) (dels true) d
                            (sem_fold (adds true) (dels true) pre (fun _ => false))) x = true).
  { intros s0 M He. rewrite expand_is_run in He.
    rewrite <- mem_In, (run_sem _ _ _ (step_sem true) _ _ _ He x).
    rewrite (sem_fold_ext _ _ (specific_tokens cc) _ _ M x). reflexivity. }
  destruct pre as [|p0 pre'].
  - cbn [is_nil res_bind] in Hp.
    eapply Hs0; [|exact Hp]. intro y. rewrite mem_filter.
    change (sem_fold (adds true) (dels true) [] (fun _ : str => false)) with (fun _ : str => false).
    rewrite (sem_fold_all_positive d Pd y).
    destruct (mem y d) eqn:My; [|reflexivity]. apply mem_In in My. pose proof (Pd _ My) as Py.
    destruct y as [|c0 y']; [discriminate|]. unfold positive in Py. unfold is_neg.
    destruct (N.eqb c0 DASH); [discriminate | reflexivity].
  - cbn [is_nil res_bind] in Hp.
    destruct (expand true d (sunion [] (p0 :: pre'))) as [s0|e] eqn:E0; [|discriminate].
    cbn [res_bind] in Hp. eapply Hs0; [|exact Hp]. intro y.
    rewrite expand_is_run in E0. rewrite (run_sem _ _ _ (step_sem true) _ _ _ E0 y).
    apply sem_fold_ext. intro z. rewrite mem_sunion_nil. symmetry.
    apply (sem_fold_all_positive (p0 :: pre') Ppre z).
Qed.

(* defaults {a}, a matching category entry "-a b", a non-matching package entry, a matching atom "c",
   and AlwaysTrue data arriving after the atom (its negations are replayed behind the atom) *)
Example pull_example :
  let srcs := [(BAlways true, true, [a]); (BCat, true, [na; b]); (BPkg, false, [c]);
               (BAtom true, true, [c]); (BAlways true, true, [nc])] in
  pull_data true srcs [[122%N]] = Ok [[122%N]; b]
  /\ pull_stream true srcs [[122%N]] = Some [[122%N]; a; na; b; c; nc].
Proof. split; reflexivity. Qed.

(* the unfinalized condensed form {-*, a} of the stream "-* a" is a SET: re-expanding it over
   pre_defaults {b} in the other iteration order loses a (known finding
   unfinalized-defaults-set-order; pull_data_is_stream covers finalized defaults) *)
Lemma unfinalized_set_order_refuted_proof :
  expand false [CLEAR; a] [] = Ok [CLEAR; a]
  /\ expand true [CLEAR; a] [b] = Ok [a]
  /\ expand true [a; CLEAR] [b] = Ok [].
Proof. repeat split; reflexivity. Qed.

(* ================================================================== domain._apply_license_filter *)
Lemma expand_license_mem lics groups ts s : expand_license lics groups ts = Ok s ->
  forall x, mem x s = last_writer (lic_adds lics groups) (lic_dels lics groups) (rev ts) x false.
Proof.
  intros H x. unfold expand_license in H. rewrite expand_license_is_run in H.
  rewrite (run_sem _ _ _ (step_license_sem lics groups) ts [] s H x).
  rewrite (sem_fold_last_writer _ _ ts (fun y => mem y []) x). reflexivity.
Qed.

Lemma forallb_ext' {A} (f g : A -> bool) l : (forall x, f x = g x) -> forallb f l = forallb g l.
Proof. intro H. induction l as [|y l IH]; cbn; [reflexivity|]. rewrite H, IH. reflexivity. Qed.

Lemma license_accept_spec groups stream : first_bad bad_license stream = None ->
  forall alts, license_accept groups stream alts = BOk (accepted_by_stream groups stream alts).
Proof.
  intros FB alts. induction alts as [|alt r IH]; [reflexivity|].
  cbn [license_accept]. pose proof (license_rejects_proof alt groups stream) as R.
  rewrite FB in R. destruct R as [s Hs]. rewrite Hs.
  assert (E : superset s alt
              = forallb (fun x => last_writer (lic_adds alt groups) (lic_dels alt groups)
                                              (rev stream) x false) alt).
  { unfold superset. apply forallb_ext'. intro x. apply (expand_license_mem _ _ _ _ Hs). }
  unfold accepted_by_stream. cbn [existsb]. rewrite <- E.
  destruct (superset s alt); [reflexivity|]. rewrite IH. reflexivity.
Qed.

(* every answer of a long-lived license filter, at any point of any sequence of queries, is the
   last-writer-wins reading of "ACCEPT_LICENSE tokens, then the entries matching this package" *)
Lemma license_filter_is_stream_proof : forall master entries groups qs,
  (forall q, In q qs -> first_bad bad_license (license_stream master entries (fst q)) = None) ->
  license_filter_seq master entries groups qs
  = map (fun q => BOk (accepted_by_stream groups (license_stream master entries (fst q)) (snd q))) qs.
Proof.
  intros master entries groups qs W. unfold license_filter_seq. apply map_ext_in.
  intros q Hq. unfold license_filter. apply license_accept_spec. apply W. exact Hq.
Qed.

Example license_filter_example :
  let FREE := [70%N] in let EULA := [69%N] in let mit := [109%N] in let eu := [101%N] in
  let groups := [(FREE, [mit]); (EULA, [eu])] in
  (* ACCEPT_LICENSE="-* @FREE"; package.license: "x @EULA", "y -*" *)
  license_filter_seq [CLEAR; AT :: FREE] [[AT :: EULA]; [CLEAR]] groups
    [([false; false], [[eu]]); ([true; false], [[eu]]); ([false; false], [[eu]]);
     ([false; true], [[mit]]); ([false; false], [[mit]; [eu]])]
  = [BOk false; BOk true; BOk false; BOk false; BOk true].
Proof. reflexivity. Qed.

(* ================================================================== Licenses.groups *)
Lemma closure_reach_proof raw : forall n g x, In x (closure raw n g) <-> reach raw n g x.
Proof.
  induction n as [|n IH]; intros g x.
  - cbn. split; [intros [] | intro H; inversion H].
  - cbn [closure]. rewrite in_flat_map. split.
    + intros [m [Hm Hx]]. destruct m as [|c h].
      * destruct Hx as [<- | []]. apply reach_here; [exact Hm | reflexivity].
      * destruct (N.eqb c AT) eqn:Ec.
        -- apply N.eqb_eq in Ec. subst c. apply (reach_ref raw n g h x Hm). apply IH. exact Hx.
        -- destruct Hx as [<- | []]. apply reach_here; [exact Hm|]. cbn. exact Ec.
    + intro H. inversion H as [n' g' x' Hin Hr | n' g' h x' Hin Hr]; subst.
      * exists x. split; [exact Hin|]. destruct x as [|c h]; [left; reflexivity|].
        cbn in Hr. rewrite Hr. left. reflexivity.
      * exists (AT :: h). split; [exact Hin|]. rewrite N.eqb_refl. apply IH. exact Hr.
Qed.

(* EVERYTHING -> @FREE -> @COPYLEFT defined top-down: the outer group still gets the innermost members *)
Example closure_example :
  let E := [69%N] in let F := [70%N] in let C := [67%N] in
  let gpl := [103%N] in let mit := [109%N] in
  map (fun kv => (fst kv, canon (snd kv)))
      (close_groups [(E, [AT :: F; [120%N]]); (F, [AT :: C; mit; AT :: [77%N]]); (C, [gpl; AT :: C])])
  = [(E, [gpl; mit; [120%N]]); (F, [gpl; mit]); (C, [gpl])].
Proof. reflexivity. Qed.
