(* Whole_C19.v — crash_atomic for the whole merge on the NoAlias domain: composition of the
   per-block crash lemmas (C18/Shapes_C18) over both passes with a stability argument. *)
From Coq Require Import List NArith ZArith Bool Lia.
Import ListNotations.
From Verif Require Import Base.Val C18.Fs C18.FsLemmas C18.Model_C18 C18.Spec_C18 C18.Proofs_C18 C18.Exact_C18.
From Verif Require Import C18.Shapes_C18.
From Verif Require Import C19.Model_C19 C19.Spec_C19 C19.Proofs_C19 C19.Crash_C19.

Local Opaque walk FUEL.

Section CrashWhole.
Variable um : N.
Variable C : list entry.
Variable s0 : fs.
Hypothesis HD : Dom C s0.

Definition TwoStepAt (q : path) (st : fs) : Prop :=
  exists m u g t u' g', lookup s0 q = Some (Dir m u g t) /\ lookup st q = Some (Dir m u' g' t).
Definition CrashOK (s sf : fs) (ops : list op) : Prop :=
  forall k q, lookup s0 q <> None ->
    lookup (run (firstn k ops) s) q = lookup s q \/ lookup (run (firstn k ops) s) q = lookup sf q \/
    TwoStepAt q (run (firstn k ops) s).
Definition Stab (s sf : fs) (xs : list entry) : Prop :=
  forall q, lookup s q <> None -> (forall x, In x xs -> e_loc x <> q) -> lookup sf q = lookup s q.

(* composing one step with the rest of a pass *)
Lemma compose_step P s x ops1 s1 ops2 sf r :
  incl P C -> Inv C s0 P s -> Inv C s0 (x :: P) s1 -> In x C ->
  (forall y, In y P -> e_loc y <> e_loc x) -> (forall y, In y r -> e_loc y <> e_loc x) ->
  run_opt ops1 s = Some s1 -> BlockCrash s ops1 (e_loc x) ->
  CrashOK s1 sf ops2 -> Stab s1 sf r ->
  CrashOK s sf (ops1 ++ ops2) /\ Stab s sf (x :: r).
Proof.
  intros HP HI HI1 Hx Hfr Hnr Hr1 BC Hck Hst.
  assert (Hs1 : run ops1 s = s1) by now apply run_opt_run.
  assert (Hstep : forall q, lookup s q <> None -> q <> e_loc x -> lookup s1 q = lookup s q).
  { intros q Hq Hne. destruct (BC (length ops1) q Hq) as [A _]. rewrite firstn_all, Hs1 in A. now apply A. }
  assert (Hxb : lookup s1 (e_loc x) <> None).
  { destruct (inv_good _ _ _ _ HI1 x (or_introl eq_refl)) as (n & L & _). congruence. }
  assert (Hxf : lookup sf (e_loc x) = lookup s1 (e_loc x)).
  { apply Hst; [exact Hxb|]. intros y Hy. now apply Hnr. }
  assert (Hun : lookup s (e_loc x) = lookup s0 (e_loc x)) by (eapply L_unproc; eauto).
  split.
  - intros k q H0. assert (Hq : lookup s q <> None) by (eapply bound_inv; eauto).
    destruct (Nat.le_gt_cases k (length ops1)) as [Hle|Hgt].
    + rewrite firstn_app_le by exact Hle. destruct (BC k q Hq) as [A B].
      destruct (path_eq_dec q (e_loc x)) as [->|Hne]; [|left; now apply A].
      destruct (B eq_refl) as [E|[E|(m & u & g & t & u' & g' & E1 & E2)]].
      * now left.
      * right; left. rewrite E, Hs1. now rewrite Hxf.
      * right; right. exists m, u, g, t, u', g'. split; [now rewrite <- Hun|exact E2].
    + rewrite firstn_app. rewrite (firstn_all2 ops1) by lia. rewrite run_app, Hr1.
      destruct (Hck (k - length ops1) q H0) as [E|[E|E]]; [|right; now left|right; now right].
      destruct (path_eq_dec q (e_loc x)) as [->|Hne].
      * right; left. now rewrite E, Hxf.
      * left. rewrite E. now apply Hstep.
  - intros q Hq Hn. assert (Hne : q <> e_loc x) by (intro E; apply (Hn x); [now left|now rewrite E]).
    rewrite <- (Hstep q Hq Hne). apply Hst; [rewrite (Hstep q Hq Hne); exact Hq|].
    intros y Hy. apply Hn. now right.
Qed.

Lemma nondirs_phase_crash : forall xs P s merged ops sf,
  incl P C -> Inv C s0 P s -> (forall x, In x xs -> In x C /\ is_kdir x = false) ->
  NoDup (map e_loc xs) -> (forall x y, In x xs -> In y P -> e_loc y <> e_loc x) ->
  (forall d, In d C -> is_kdir d = true -> In d P) -> files_in merged P ->
  nondirs_phase um s merged xs = (ops, sf, None) -> forall s', run_opt ops s = Some s' ->
  CrashOK s s' ops /\ Stab s s' xs.
Proof.
  induction xs as [|x r IH]; intros P s merged ops sf HP HI Hxs Hnd Hfr Hdirs Hm Hph s' Hrun.
  - cbn in Hph. injection Hph as <- <-. cbn in Hrun. injection Hrun as <-. split.
    + intros k q _. left. now destruct k.
    + intros q _ _. reflexivity.
  - cbn [nondirs_phase] in Hph.
    destruct (nondir_step um s merged x) as [[ops1 err] merged'] eqn:Hst.
    destruct err as [e|]; [discriminate|].
    destruct (nondirs_phase um (run ops1 s) merged' r) as [[ops2 s2] err2] eqn:Hph2.
    injection Hph as <- <- ->. rewrite run_opt_app in Hrun.
    destruct (run_opt ops1 s) as [s1|] eqn:Hr1; [|discriminate].
    rewrite (run_opt_run _ _ _ Hr1) in Hph2.
    destruct (Hxs x (or_introl eq_refl)) as [HxC Hxk].
    assert (Hfrx : forall y, In y P -> e_loc y <> e_loc x) by (intros y Hy; apply Hfr; [now left|exact Hy]).
    destruct (nondir_step_inv um C s0 HD P s merged x ops1 merged' s1 HP HI HxC Hxk Hfrx Hdirs Hm Hst Hr1) as [HI1 Hm1].
    pose proof (nondir_step_crash um C s0 HD P s merged x ops1 merged' s1 HP HI HxC Hxk Hfrx Hdirs Hm Hst Hr1) as BC.
    inversion Hnd as [|? ? Hnin Hnd']; subst.
    destruct (IH (x :: P) s1 merged' ops2 s2) with (s' := s') as [Hck Hstb]; auto.
    + intros y [<-|Hy]; auto.
    + intros y Hy. apply Hxs. now right.
    + intros y z Hy [<-|Hz].
      * intro E. apply Hnin. rewrite E. now apply in_map.
      * apply Hfr; [now right|exact Hz].
    + intros d Hd Hkd. right. auto.
    + eapply compose_step; eauto.
      intros y Hy E. apply Hnin. rewrite <- E. now apply in_map.
Qed.

Lemma dirs_phase_crash : forall ds P s ops sf,
  incl P C -> Inv C s0 P s -> (forall x, In x ds -> In x C /\ is_kdir x = true) ->
  NoDup (map e_loc ds) -> (forall x y, In x ds -> In y P -> e_loc y <> e_loc x) ->
  dirs_phase um s ds = (ops, sf, None) -> forall s', run_opt ops s = Some s' ->
  CrashOK s s' ops /\ Stab s s' ds.
Proof.
  induction ds as [|x r IH]; intros P s ops sf HP HI Hxs Hnd Hfr Hph s' Hrun.
  - change (dirs_phase um s []) with (@nil op, s, @None N) in Hph.
    injection Hph as <- <-. cbn in Hrun. injection Hrun as <-. split.
    + intros k q _. left. now destruct k.
    + intros q _ _. reflexivity.
  - rewrite dirs_phase_cons' in Hph.
    destruct (dir_step um s x) as [ops1 err] eqn:Hst. destruct err as [e|]; [discriminate|].
    cbv zeta in Hph.
    destruct (dirs_phase um (run ops1 s) r) as [[ops2 s2] err2] eqn:Hph2.
    injection Hph as <- <- ->. rewrite run_opt_app in Hrun.
    destruct (run_opt ops1 s) as [s1|] eqn:Hr1; [|discriminate].
    rewrite (run_opt_run _ _ _ Hr1) in Hph2.
    destruct (Hxs x (or_introl eq_refl)) as [HxC Hxk].
    assert (Hfrx : forall y, In y P -> e_loc y <> e_loc x) by (intros y Hy; apply Hfr; [now left|exact Hy]).
    assert (HI1 : Inv C s0 (x :: P) s1) by (eapply dir_step_inv; eauto).
    pose proof (dir_step_crash um C s0 HD P s x ops1 s1 HP HI HxC Hxk Hfrx Hst Hr1) as BC.
    inversion Hnd as [|? ? Hnin Hnd']; subst.
    destruct (IH (x :: P) s1 ops2 s2) with (s' := s') as [Hck Hstb]; auto.
    + intros y [<-|Hy]; auto.
    + intros y Hy. apply Hxs. now right.
    + intros y z Hy [<-|Hz].
      * intro E. apply Hnin. rewrite E. now apply in_map.
      * apply Hfr; [now right|exact Hz].
    + eapply compose_step; eauto.
      intros y Hy E. apply Hnin. rewrite <- E. now apply in_map.
Qed.

End CrashWhole.



(* crash_atomic for the whole merge: on the NoAlias domain, at EVERY crash point every path that
   existed before the merge holds its pre-merge node or its final node; the one exception is a
   directory of the set that existed before, caught between lchown and utime (same mode, same
   mtime as before, owner possibly already the new one) *)
Definition crash_atomic_whole_stmt : Prop := forall i sf k p,
  noalias i = true -> merge_err i = None -> run_opt (merge_ops i) (i_fs i) = Some sf ->
  lookup (i_fs i) p <> None ->
  let st := crash_state (merge_ops i) (i_fs i) k in
  lookup st p = lookup (i_fs i) p \/ lookup st p = lookup sf p \/
  (exists m u g t u' g', lookup (i_fs i) p = Some (Dir m u g t) /\ lookup st p = Some (Dir m u' g' t)).
Theorem crash_atomic_whole_proof : crash_atomic_whole_stmt.
Proof.
  intros i sf k p Hna Herr Hrun Hp. cbv zeta. unfold crash_state.
  destruct (noalias_dom i Hna) as (HD & Hnd & Hoff).
  set (C := cset_of i) in *. set (s0 := i_fs i) in *. set (um := i_umask i) in *.
  unfold merge_err, merge_ops, merge in *. fold um s0 in Herr, Hrun |- *. rewrite Hoff in Herr, Hrun |- *.
  change (run [] s0) with s0 in Herr, Hrun |- *. fold (cset_of i) in Herr, Hrun |- *. fold C in Herr, Hrun |- *.
  destruct (dirs_phase um s0 (sort_entries (filter is_kdir C))) as [[ops1 s2] err1] eqn:E1.
  destruct err1 as [e|]; [cbn in Herr; discriminate|].
  destruct (nondirs_phase um s2 [] (filter (fun x => negb (is_kdir x)) C)) as [[ops2 s3] err2] eqn:E2.
  cbn [fst snd] in Herr, Hrun |- *. subst err2. cbn [app] in Hrun |- *.
  rewrite run_opt_app in Hrun. destruct (run_opt ops1 s0) as [s2'|] eqn:Hr1; [|discriminate].
  set (ds := sort_entries (filter is_kdir C)) in *. set (ns := filter (fun x => negb (is_kdir x)) C) in *.
  assert (HI0 : Inv C s0 [] s0).
  { constructor; [reflexivity| |intros y []]. intros q (H & _). now left. }
  assert (Hds : forall x, In x ds -> In x C /\ is_kdir x = true).
  { intros x Hx. apply (proj1 (In_sort_entries_iff _ _)) in Hx. apply filter_In in Hx. exact Hx. }
  assert (Hnds : NoDup (map e_loc ds)) by (apply NoDup_sort_entries; now apply NoDup_map_filter).
  assert (Hfr0 : forall x y : entry, In x ds -> In y [] -> e_loc y <> e_loc x) by (intros x y _ []).
  destruct (dirs_phase_inv um C s0 HD ds [] s0 ops1 s2 (incl_nil_l C) HI0 Hds Hnds Hfr0 E1 s2' Hr1) as [HI1 ->].
  destruct (dirs_phase_crash um C s0 HD ds [] s0 ops1 s2' (incl_nil_l C) HI0 Hds Hnds Hfr0 E1 s2' Hr1) as [Hck1 Hst1].
  assert (HP1 : incl (rev ds ++ []) C).
  { intros y Hy. rewrite app_nil_r in Hy. apply in_rev in Hy. now apply Hds. }
  assert (A1 : forall x, In x ns -> In x C /\ is_kdir x = false).
  { intros x Hx. apply filter_In in Hx as [Hx Hk]. split; [exact Hx|]. now destruct (is_kdir x). }
  assert (A2 : NoDup (map e_loc ns)) by now apply NoDup_map_filter.
  assert (A3 : forall x y, In x ns -> In y (rev ds ++ []) -> e_loc y <> e_loc x).
  { intros x y Hx Hy E. destruct (A1 x Hx) as [HxC Hk]. rewrite app_nil_r in Hy.
    apply in_rev in Hy. destruct (Hds y Hy) as [HyC Hky].
    assert (y = x) by exact (NoDup_map_inj C y x Hnd HyC HxC E). subst y. rewrite Hky in Hk. discriminate. }
  assert (A4 : forall d, In d C -> is_kdir d = true -> In d (rev ds ++ [])).
  { intros d Hd Hk. rewrite app_nil_r. apply -> in_rev. apply (proj2 (In_sort_entries_iff _ _)). apply filter_In. auto. }
  assert (A5 : files_in [] (rev ds ++ [])) by (intros c []).
  destruct (nondirs_phase_crash um C s0 HD ns (rev ds ++ []) s2' [] ops2 s3 HP1 HI1 A1 A2 A3 A4 A5 E2 sf Hrun) as [Hck2 Hst2].
  assert (Hb2 : lookup s2' p <> None) by (eapply bound_inv; eauto).
  (* is p the location of a non-directory entry? of a directory entry? *)
  destruct (loc_dec ns p) as [(x & Hx & Ex)|Hnn].
  - (* a non-directory location: the directory pass leaves it alone *)
    assert (E20 : lookup s2' p = lookup s0 p).
    { apply Hst1; [exact Hp|]. intros d Hd E. destruct (Hds d Hd) as [HdC Hkd]. destruct (A1 x Hx) as [HxC Hkx].
      assert (d = x) by (apply (NoDup_map_inj C d x Hnd HdC HxC); congruence). subst d. congruence. }
    destruct (Nat.le_gt_cases k (length ops1)) as [Hle|Hgt].
    + rewrite firstn_app_le by exact Hle. destruct (Hck1 k p Hp) as [E|[E|E]]; [now left| |right; now right].
      left. now rewrite E.
    + rewrite firstn_app. rewrite (firstn_all2 ops1) by lia. rewrite run_app, Hr1.
      destruct (Hck2 (k - length ops1) p Hp) as [E|[E|E]]; [|right; now left|right; now right].
      left. now rewrite E.
  - (* not a non-directory location: the second pass leaves it alone *)
    assert (E2f : lookup sf p = lookup s2' p) by (apply Hst2; auto).
    destruct (Nat.le_gt_cases k (length ops1)) as [Hle|Hgt].
    + rewrite firstn_app_le by exact Hle. destruct (Hck1 k p Hp) as [E|[E|E]]; [now left| |right; now right].
      right; left. now rewrite E, E2f.
    + rewrite firstn_app. rewrite (firstn_all2 ops1) by lia. rewrite run_app, Hr1.
      destruct (Hck2 (k - length ops1) p Hp) as [E|[E|E]]; [|right; now left|right; now right].
      right; left. now rewrite E, E2f.
Qed.
