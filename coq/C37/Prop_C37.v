(* Prop_C37.v — the property theorems of C37 and nothing else. *)
From Coq Require Import List NArith ZArith Bool.
Import ListNotations.
From Verif Require Import Base.Val C37.Model_C37 C37.Spec_C37 C37.Proofs_C37.

(* every chart tree, rendered from any slot s: the f parameters occupy exactly the slots
   s, s+1, ..., s'-1 once each and in order, no chart parameter lies outside [s, s'),
   and OP / CP are well nested *)
Theorem slots_unique_balanced : forall c s,
  let ps := fst (render_k c s) in
  let s' := snd (render_k c s) in
  (s < s')%N /\ slots_exact ps s s' /\ (wf_chart c = true -> balanced ps = true).
Proof. exact slots_unique_balanced_proof. Qed.
Print Assumptions slots_unique_balanced.

(* a whole query: slots 1..n, no slot twice, balanced *)
Theorem query_slots : forall q, forallb wf_chart (charts q) = true ->
  f_slots (params_k q) = Nseq 1 (N.to_nat (snd (render_list (charts q) 1) - 1)) /\
  NoDup (f_slots (params_k q)) /\ balanced (params_k q) = true.
Proof. exact query_slots_proof. Qed.
Print Assumptions query_slots.

(* the reference Bugzilla chart reader recovers the chart trees from the printed parameters *)
Theorem parse_render : forall q, wf_query q = true ->
  read_charts (params q) = Some (map erase (charts q)).
Proof. exact parse_render_proof. Qed.
Print Assumptions parse_render.

(* & is conjunction under the reference evaluator, for every meaning of single conditions and
   every bug — outside the known class [conflict] (same plain key, different non-empty value sets) *)
Theorem and_is_conjunction_partial : forall (bug : Type) has cond a b (x : bug),
  wf_query a = true -> wf_query b = true ->
  NoDup (map fst (simple a)) -> NoDup (map fst (simple b)) ->
  conflict a b = false ->
  sem bug has cond (and_q a b) x = opt_and (sem bug has cond a x) (sem bug has cond b x).
Proof. exact and_is_conjunction_partial_proof. Qed.
Print Assumptions and_is_conjunction_partial.

(* ... and the full statement is false of the code as it is *)
Theorem and_is_conjunction_refuted : ~ and_is_conjunction_stmt.
Proof. exact and_is_conjunction_refuted_proof. Qed.
Print Assumptions and_is_conjunction_refuted.

(* a & b never carries a plain key twice (the premise above is re-established by &) *)
Theorem and_keys_unique : forall a b, NoDup (map fst (simple (and_q a b))).
Proof. exact and_keys_nodup. Qed.
Print Assumptions and_keys_unique.

(* batches: the values of the split parameter, batch after batch, are the original values in
   order; every other parameter is unchanged in every batch *)
Theorem batches_partition : forall enc q base max,
  NoDup (map fst (simple q)) ->
  match split_axis q with
  | None => batches enc q base max = [q]
  | Some a =>
      let k := ax_key q a in
      vals_of (params_k q) k = ax_vals a /\
      concat (map (fun b => vals_of (params_k b) k) (batches enc q base max)) = ax_vals a /\
      (forall b, In b (batches enc q base max) -> drop_key (params_k b) k = drop_key (params_k q) k)
  end.
Proof. exact batches_partition_proof. Qed.
Print Assumptions batches_partition.

(* whenever every single value fits, every batch fits — for every encoded-length function,
   outside the known class [short_field_axis] *)
Theorem batch_within_budget_partial : forall enc q base max a,
  split_axis q = Some a -> short_field_axis enc q a = false -> ax_vals a <> [] ->
  (forall v, In v (ax_vals a) -> fits enc base max (rebuild q a [v])) ->
  forall b, In b (batches enc q base max) -> fits enc base max b.
Proof. exact batch_within_budget_outside_class. Qed.
Print Assumptions batch_within_budget_partial.

Theorem batch_within_budget_refuted : ~ batch_within_budget_stmt.
Proof. exact batch_within_budget_refuted_proof. Qed.
Print Assumptions batch_within_budget_refuted.

(* any_of is not the disjunction of its operands (finding outside the statement's clauses) *)
Theorem any_of_is_disjunction_refuted : ~ any_of_is_disjunction_stmt.
Proof. exact any_of_is_disjunction_refuted_proof. Qed.
Print Assumptions any_of_is_disjunction_refuted.

(* ... but it is, for operands that are each exactly one chart that contributes something *)
Theorem any_of_is_disjunction_partial : forall (bug : Type) has cond qs cs q (x : bug),
  qs <> [] -> Forall2 unit_operand qs cs -> any_of qs = Some q ->
  sem bug has cond q x = opt_or_list (map (fun o => sem bug has cond o x) qs).
Proof. exact any_of_is_disjunction_partial_proof. Qed.
Print Assumptions any_of_is_disjunction_partial.
