(* Prop_C46.v — the property theorems of C46 and nothing else. *)
From Coq Require Import List NArith ZArith Bool.
Import ListNotations.
From Verif Require Import Base.Val C46.Model_C46 C46.Spec_C46 C46.Proofs_C46.

Theorem memN_In_tmp : forall x l, memN x l = true <-> In x l.
Proof. exact memN_In. Qed.
Print Assumptions memN_In_tmp.
