(* Shapes_C18.v — what one step of the merge planner emits on the NoAlias domain, and what a crash
   inside such a block can show.
   create_perms_prefix, mkdirs_prefix          prefixes of creating ops touch only the new name
   BlockCrash, bc_staged/direct/link/newdir/existingdir   crash prefixes of the five block kinds
   copy_elim, nondir_step_elim, dir_step_elim  eliminators: the shapes of a successful step
   nondir_step_crash, dir_step_crash, bound_inv *)
From Coq Require Import List NArith ZArith Bool Lia.
Import ListNotations.
From Verif Require Import Base.Val C18.Fs C18.FsLemmas C18.Model_C18 C18.Spec_C18 C18.Proofs_C18 C18.Exact_C18.

Lemma firstn_app_le' {A} (a b : list A) k : k <= length a -> firstn k (a ++ b) = firstn k a.
Proof. intro H. rewrite firstn_app. replace (k - length a) with 0 by lia. cbn. apply app_nil_r. Qed.


Local Opaque walk FUEL.

(* ------------------------------------------------------------------ crash prefixes of the blocks *)
(* creating an object at a free name and fixing its permissions never touches another path *)
Lemma create_perms_prefix um s x fp c :
  is_kdir x = false -> lookup s fp = None -> create_ops um s x fp = (c, None) ->
  forall k q, q <> fp -> lookup (run (firstn k (c ++ perms_new x fp)) s) q = lookup s q.
Proof.
  intros Hk Hl Hc k q Hq. unfold create_ops in Hc. rewrite Hl in Hc.
  destruct k as [|k]; [reflexivity|].
  destruct (e_kind x) as [|d hl|t| |r] eqn:Ek; try (unfold is_kdir in Hk; rewrite Ek in Hk; discriminate);
    injection Hc as <-.
  - (* file *)
    assert (Hsh : (Create fp (file_create_mode um) :: (if is_nil d then [] else [Append fp d])) ++ perms_new x fp
                  = Create fp (file_create_mode um) :: (appends fp (chunks1 d) ++ perms_new x fp))
      by (unfold chunks1, appends; destruct (is_nil d); reflexivity).
    rewrite Hsh. cbn [firstn run]. destruct (apply_op s (Create fp (file_create_mode um))) as [s1|] eqn:Hc1; [|reflexivity].
    pose proof (staged_create _ _ _ _ Hc1) as H1.
    pose proof (run_prefix_inv _ _ (staged_middle s fp (chunks1 d) (perms_new x fp) (perms_new_on x fp)) s1 k H1) as [H2 _].
    now apply H2.
  - cbn [app firstn run]. destruct (apply_op s (Symlink t fp)) as [s1|] eqn:Ha; [|reflexivity].
    cbn in Ha. destruct (can_create s fp); [|discriminate]. injection Ha as <-.
    destruct (perms_prefix fp _ (perms_new_on x fp) (set_node s fp (Sym t ME ME NOW)) _ k
                (lookup_set_same s fp _) (private_nonfile _ _ (Sym t ME ME NOW) eq_refl)) as [F _].
    rewrite F by exact Hq. now apply lookup_set_other.
  - cbn [app firstn run]. destruct (apply_op s (Mkfifo fp (file_create_mode um))) as [s1|] eqn:Ha; [|reflexivity].
    cbn in Ha. destruct (can_create s fp); [|discriminate]. injection Ha as <-.
    destruct (perms_prefix fp _ (perms_new_on x fp) (set_node s fp (Fifo (file_create_mode um) ME ME NOW)) _ k
                (lookup_set_same s fp _) (private_nonfile _ _ (Fifo (file_create_mode um) ME ME NOW) eq_refl)) as [F _].
    rewrite F by exact Hq. now apply lookup_set_other.
  - cbn [app firstn run].
    match goal with |- context [apply_op s (Mknod fp ?m r)] => set (mm := m) end.
    destruct (apply_op s (Mknod fp mm r)) as [s1|] eqn:Ha; [|reflexivity].
    cbn in Ha. destruct (can_create s fp); [|discriminate]. injection Ha as <-.
    destruct (perms_prefix fp _ (perms_new_on x fp) (set_node s fp (Dev mm ME ME NOW r)) _ k
                (lookup_set_same s fp _) (private_nonfile _ _ (Dev mm ME ME NOW r) eq_refl)) as [F _].
    rewrite F by exact Hq. now apply lookup_set_other.
Qed.

(* mkdirs of names that were free never touch a bound path *)
Lemma mkdirs_prefix s mk :
  Forall (fun o => exists q' m, o = Mkdir q' m /\ lookup s q' = None) mk ->
  forall k q, lookup s q <> None -> lookup (run (firstn k mk) s) q = lookup s q.
Proof.
  intros Hmk k q Hq.
  set (I := fun st : fs => forall q, lookup s q <> None -> lookup st q = lookup s q).
  assert (HI : Forall (fun o => forall s1 s2, I s1 -> apply_op s1 o = Some s2 -> I s2) mk).
  { eapply Forall_impl; [|exact Hmk]. intros o (q' & m & -> & Hl) s1 s2 H1 Ha q0 Hq0.
    cbn in Ha. destruct (can_create s1 q'); [|discriminate]. injection Ha as <-.
    rewrite lookup_set_other; [now apply H1|]. intros ->. congruence. }
  apply (run_prefix_inv I mk HI s k); [|exact Hq]. intros q0 _. reflexivity.
Qed.

(* what a crash inside one entry's block may show: [p] is the entry's location *)
Definition BlockCrash (s : fs) (ops : list op) (p : path) : Prop :=
  forall k q, lookup s q <> None ->
    let st := run (firstn k ops) s in
    (q <> p -> lookup st q = lookup s q) /\
    (q = p -> lookup st q = lookup s q \/ st = run ops s \/
              exists m u g t u' g', lookup s q = Some (Dir m u g t) /\ lookup st q = Some (Dir m u' g' t)).

Lemma bc_staged um s x cp c s1 :
  is_kdir x = false -> lookup s (sibling_new cp) = None -> create_ops um s x (sibling_new cp) = (c, None) ->
  run_opt (c ++ perms_new x (sibling_new cp) ++ [Rename (sibling_new cp) cp]) s = Some s1 ->
  BlockCrash s (c ++ perms_new x (sibling_new cp) ++ [Rename (sibling_new cp) cp]) cp.
Proof.
  intros Hk Hl Hc Hr k q Hq. set (tmp := sibling_new cp) in *.
  assert (Hqt : q <> tmp) by (intros ->; congruence).
  set (pre := c ++ perms_new x tmp). 
  assert (Eo : c ++ perms_new x tmp ++ [Rename tmp cp] = pre ++ [Rename tmp cp]) by (unfold pre; now rewrite app_assoc).
  rewrite Eo in *. cbv zeta.
  destruct (Nat.le_gt_cases k (length pre)) as [Hle|Hgt].
  - rewrite firstn_app_le' by exact Hle. unfold pre.
    rewrite (create_perms_prefix um s x tmp c Hk Hl Hc k q Hqt). split; [reflexivity|now left].
  - rewrite firstn_all2 by (rewrite app_length; cbn; lia). split.
    + intro Hqc. rewrite (run_opt_run _ _ _ Hr).
      unfold pre in Hr. rewrite <- app_assoc in Hr.
      destruct (staged_block _ _ _ _ _ _ _ Hk Hl (sibling_new_neq' cp) Hc Hr) as [_ [_ F]]. now apply F.
    + intros _. right; left. reflexivity.
Qed.

Lemma bc_direct um s x p mk s1 c s2 :
  is_kdir x = false -> lookup s p = None ->
  Forall (fun o => exists q' m, o = Mkdir q' m /\ lookup s q' = None) mk ->
  run_opt mk s = Some s1 -> (forall q, lookup s q <> None -> lookup s1 q = lookup s q) ->
  lookup s1 p = None -> create_ops um s1 x p = (c, None) ->
  run_opt (mk ++ c ++ perms_new x p) s = Some s2 ->
  BlockCrash s (mk ++ c ++ perms_new x p) p.
Proof.
  intros Hk Hl Hmk Hr1 Hfr Hl1 Hc Hr k q Hq. cbv zeta.
  assert (Hqp : q <> p) by (intros ->; congruence).
  split; [|intro; contradiction]. intros _.
  destruct (Nat.le_gt_cases k (length mk)) as [Hle|Hgt].
  - rewrite firstn_app_le' by exact Hle. now apply mkdirs_prefix.
  - rewrite firstn_app. rewrite (firstn_all2 mk) by lia. rewrite run_app, Hr1.
    rewrite (create_perms_prefix um s1 x p c Hk Hl1 Hc _ q Hqp). now apply Hfr.
Qed.

Lemma bc_link s a b : lookup s b = None -> BlockCrash s [Link a b] b.
Proof.
  intros Hl k q Hq. cbv zeta. assert (Hqb : q <> b) by (intros ->; congruence).
  split; [|intro; contradiction]. intros _. destruct k as [|k]; [reflexivity|]. cbn [firstn run].
  destruct (apply_op s (Link a b)) as [s1|] eqn:Ha; [|reflexivity]. destruct k; cbn [firstn run].
  all: cbn in Ha; destruct (lookup s a) as [na|]; [|discriminate];
    destruct (is_file_node na && can_create s b); [|discriminate]; injection Ha as <-; now apply lookup_set_other.
Qed.

Lemma bc_newdir um s x p :
  lookup s p = None -> BlockCrash s (Mkdir p (dir_create_mode um x) :: perms_new x p ++ perms_new x p) p.
Proof.
  intros Hl k q Hq. cbv zeta. assert (Hqp : q <> p) by (intros ->; congruence).
  split; [|intro; contradiction]. intros _. destruct k as [|k]; [reflexivity|]. cbn [firstn run].
  destruct (apply_op s (Mkdir p (dir_create_mode um x))) as [s1|] eqn:Ha; [|reflexivity].
  cbn in Ha. destruct (can_create s p); [|discriminate]. injection Ha as <-.
  assert (Hon : Forall (perm_on p) (perms_new x p ++ perms_new x p)) by (apply Forall_app; split; apply perms_new_on).
  destruct (perms_prefix p _ Hon (set_node s p (Dir (dir_create_mode um x) ME ME NOW)) _ k
              (lookup_set_same s p _) (private_nonfile _ _ (Dir (dir_create_mode um x) ME ME NOW) eq_refl)) as [F _].
  rewrite F by exact Hqp. now apply lookup_set_other.
Qed.

Lemma bc_existingdir s x cp m u g t :
  lookup s cp = Some (Dir m u g t) -> BlockCrash s (perms_existing x cp cp (Dir m u g t)) cp.
Proof.
  intros Hl k q Hq. cbv zeta. split.
  - intro Hqc.
    assert (Hon : Forall (perm_on cp) (perms_existing x cp cp (Dir m u g t))).
    { unfold perms_existing. cbn [node_owner node_mtime]. apply Forall_app. split.
      - destruct (_ && _); repeat constructor.
      - destruct (e_mtime x) as [t0|]; [destruct (Z.eqb t0 t)|]; repeat constructor. }
    destruct (perms_prefix cp _ Hon s _ k Hl (private_nonfile _ _ (Dir m u g t) eq_refl)) as [F _]. now apply F.
  - intros ->. unfold perms_existing. cbn [node_owner node_mtime].
    set (ch := (negb (opt_is (e_uid x) u) || negb (opt_is (e_gid x) g)) && (is_some (e_uid x) || is_some (e_gid x))).
    set (ut := match e_mtime x with Some t0 => if Z.eqb t0 t then [] else [Utime cp t0] | None => [] end).
    assert (Hut : ut = [] \/ exists t0, ut = [Utime cp t0]).
    { unfold ut. destruct (e_mtime x) as [t0|]; [destruct (Z.eqb t0 t)|]; eauto. }
    destruct ch.
    + destruct Hut as [->|[t0 ->]]; cbn [app].
      * destruct k as [|k]; [now left|]. right; left. now rewrite firstn_all2 by (cbn; lia).
      * destruct k as [|[|k]]; [now left| |right; left; now rewrite firstn_all2 by (cbn; lia)].
        right; right. cbn [firstn run apply_op]. unfold update. rewrite Hl. cbn [ino_of].
        exists m, u, g, t. eexists _, _. split; [reflexivity|]. rewrite lookup_set_same. cbn. reflexivity.
    + destruct Hut as [->|[t0 ->]]; cbn [app].
      * left. now destruct k.
      * destruct k as [|k]; [now left|]. right; left. now rewrite firstn_all2 by (cbn; lia).
Qed.


Local Opaque walk FUEL.

Definition mkdirs_free (s : fs) (mk : list op) : Prop :=
  Forall (fun o => exists q' m, o = Mkdir q' m /\ lookup s q' = None) mk.

Section Shapes.
Variable um : N.
Variable C : list entry.
Variable s0 : fs.
Hypothesis HD : Dom C s0.

(* the two shapes of a successful copyfile in the NoAlias domain *)
Lemma copy_elim (R : list op -> Prop) P s x ops :
  incl P C -> Inv C s0 P s -> In x C -> is_kdir x = false -> (forall y, In y P -> e_loc y <> e_loc x) ->
  (forall d, In d C -> is_kdir d = true -> In d P) ->
  (forall c, lookup s (e_loc x) <> None -> lookup s (sibling_new (e_loc x)) = None ->
     create_ops um s x (sibling_new (e_loc x)) = (c, None) ->
     R (c ++ perms_new x (sibling_new (e_loc x)) ++ [Rename (sibling_new (e_loc x)) (e_loc x)])) ->
  (forall mk s1 c, lookup s (e_loc x) = None -> mkdirs_free s mk -> run_opt mk s = Some s1 ->
     (forall q, lookup s q <> None -> lookup s1 q = lookup s q) -> lookup s1 (e_loc x) = None ->
     create_ops um s1 x (e_loc x) = (c, None) -> R (mk ++ c ++ perms_new x (e_loc x))) ->
  copyfile um s x = (ops, None) -> R ops.
Proof.
  intros HP HI Hx Hk Hfr Hdirs Hstaged Hdirect Hcf.
  destruct (entry_facts C s0 HD P s x HP HI Hx Hk Hfr) as (Hne & Hpl & Hun & Hnew & Hneq).
  set (p := e_loc x) in *. set (tmp := sibling_new p) in *.
  assert (Hna : node_at s p = lookup s p) by (destruct p; [congruence|reflexivity]).
  assert (Hfail : forall (w : wres), (forall cp, w <> WOk cp) -> canon s p = w ->
            (let base_exists := match rcanon s (removelast p) with WOk r => is_some (node_at s r) | _ => false end in
             if base_exists then (@nil op, Some E_OS)
             else let '(mk, s1, ok) := ensure_dirs s [] (removelast p) in
                  if ok then match canon s1 p with
                             | WOk cp => let '(c, err) := create_ops um s1 x cp in
                                         match err with Some e => (mk ++ c, Some e) | None => (mk ++ c ++ perms_new x cp, None) end
                             | _ => (mk, Some E_OS) end
                  else (mk, Some E_FAILED)) = (ops, None) -> R ops).
  { intros w Hw Hc Hcf'. cbv zeta in Hcf'.
    assert (Hlp : lookup s p = None).
    { destruct (lookup s p) eqn:E; [|reflexivity]. exfalso.
      assert (H0 : lookup s0 p <> None) by (rewrite <- Hun; congruence).
      assert (Hcomp : canon s p = WOk p).
      { destruct (d_nodot _ _ HD x Hx) as (Hnd & _ & Hlen). apply canon_complete; auto.
        intros q Hq. eapply L_dirs; eauto. eapply (d_parents _ _ HD); eauto. }
      rewrite Hcomp in Hc. eapply Hw; eauto. }
    destruct (match rcanon s (removelast p) with WOk r => is_some (node_at s r) | _ => false end); [discriminate|].
    destruct (ensure_dirs s [] (removelast p)) as [[mk s1] ok] eqn:He. destruct ok; [|discriminate].
    destruct (d_nodot _ _ HD x Hx) as (Hnd & _ & Hlen).
    assert (Epl : p = removelast p ++ [last p []]) by now apply app_removelast_last.
    assert (Hpre : forall pre suf, removelast p = pre ++ suf -> pre <> [] -> pprefix pre p).
    { intros pre suf E Hp. exists (suf ++ [last p []]). rewrite app_assoc, <- E. repeat split; auto.
      destruct suf; discriminate. }
    destruct (ensure_dirs_ok _ _ _ _ _ He) as (R1 & R2 & R3 & R4).
    - cbn. now apply Forall_removelast.
    - cbn. intros pre suf E Hp. eapply L_ns; eauto.
    - now left.
    - intros q (suf & E & Hq & _). destruct q; [congruence|discriminate].
    - assert (Hl1 : lookup s1 p = None).
      { destruct (R2 p) as [E|(_ & _ & pre & suf & E & Hp & Eq)]; [now rewrite E|]. exfalso. cbn in Eq.
        assert (length p = length pre) by now rewrite Eq.
        assert (length p = length (removelast p) + 1) by (rewrite Epl at 1; rewrite app_length; cbn; lia).
        rewrite E in H0. rewrite app_length in H0. lia. }
      assert (Hpl1 : plain s1 p false).
      { destruct Hpl as [A B]. split; [exact A|]. intros pre suf E Hp Hs.
        destruct (R2 pre) as [E1|(_ & E1 & _)]; [rewrite E1; eapply B; eauto|].
        unfold is_diro in E1. unfold is_symo. destruct (lookup s1 pre) as [[]|]; try discriminate; reflexivity. }
      destruct (canon s1 p) as [cp| |] eqn:Hc1; try discriminate.
      destruct (canon_ok _ _ _ _ Hc1 Hpl1) as [-> _].
      destruct (create_ops um s1 x p) as [c [e|]] eqn:Hco; [discriminate|]. injection Hcf' as <-.
      apply (Hdirect mk s1 c); auto.
      + eapply Forall_impl; [|exact R4]. intros o (q & -> & Hq & _). eauto.
      + intros q Hq. destruct (R2 q) as [E|(E & _)]; [exact E|congruence]. }
  unfold copyfile in Hcf. cbv beta zeta in Hcf. fold p in Hcf.
  destruct (canon s p) as [cp| |] eqn:Hc.
  - destruct (canon_ok _ _ _ _ Hc Hpl) as [-> Hdp]. rewrite Hna in Hcf.
    destruct (lookup s p) as [n|] eqn:Hlp.
    + destruct (is_dir_node n) eqn:Hdn; [discriminate|]. fold tmp in Hcf.
      destruct (name_too_long tmp); [discriminate|].
      destruct (create_ops um s x tmp) as [c [e|]] eqn:Hco; [discriminate|]. injection Hcf as <-.
      apply Hstaged; auto. discriminate.
    + destruct (create_ops um s x p) as [c [e|]] eqn:Hco; [discriminate|]. injection Hcf as <-.
      apply (Hdirect [] s c); auto. constructor.
  - apply (Hfail WNoEnt); [discriminate|reflexivity|exact Hcf].
  - apply (Hfail WOther); [discriminate|reflexivity|exact Hcf].
Qed.

(* the shapes of one successful step of the non-directory pass *)
Lemma nondir_step_elim (R : list op -> list entry -> Prop) P s merged x ops merged' :
  incl P C -> Inv C s0 P s -> In x C -> is_kdir x = false -> (forall y, In y P -> e_loc y <> e_loc x) ->
  files_in merged P ->
  (forall c nc, In c merged -> can_hl c x = true -> lookup s (e_loc c) = Some nc -> is_file_node nc = true ->
     realises c nc -> lookup s (e_loc x) = None ->
     R [Link (e_loc c) (e_loc x)] merged) ->
  (forall ops0 m', copyfile um s x = (ops0, None) ->
     ((m' = merged /\ can_hl x x = false) \/
      (m' = merged ++ [x] /\ (forall c, In c merged -> can_hl c x = false) /\
       exists d hl, e_kind x = KFile d hl)) -> R ops0 m') ->
  nondir_step um s merged x = (ops, None, merged') -> R ops merged'.
Proof.
  intros HP HI Hx Hk Hfr Hm Hlink Hcopy Hst.
  destruct (entry_facts C s0 HD P s x HP HI Hx Hk Hfr) as (Hne & Hpl & Hun & Hnew & Hneq).
  assert (Hcp : forall m', ((m' = merged /\ can_hl x x = false) \/
                            (m' = merged ++ [x] /\ (forall c, In c merged -> can_hl c x = false) /\
                             exists d hl, e_kind x = KFile d hl)) ->
            (let '(ops0, err) := copyfile um s x in
             match err with
             | Some e => if N.eqb e E_CANNOT && is_ksym x && tolerated s x then (ops0, None, m') else (ops0, Some e, m')
             | None => (ops0, None, m') end) = (ops, None, merged') -> R ops merged').
  { intros m' Hm' H. destruct (copyfile um s x) as [ops0 [e|]] eqn:Hcf.
    - destruct (N.eqb e E_CANNOT && is_ksym x && tolerated s x) eqn:Hc; [|discriminate]. exfalso.
      apply andb_true_iff in Hc as [Hc _]. apply andb_true_iff in Hc as [He Hs]. apply N.eqb_eq in He. subst e.
      pose proof (copyfile_cannot um C s0 HD P s x ops0 HP HI Hx Hk Hfr Hcf) as Hd. rewrite Hun in Hd.
      rewrite (d_symdir _ _ HD x Hx Hs) in Hd. discriminate.
    - injection H as <- <-. now apply Hcopy. }
  unfold nondir_step in Hst. cbv beta zeta in Hst.
  destruct (e_kind x) as [|d hl|t| |r] eqn:Ek; try (apply (Hcp merged); [left; split; [reflexivity|unfold can_hl; now rewrite Ek]|exact Hst]).
  destruct (find (fun c => can_hl c x) merged) as [c|] eqn:Hf.
  - apply find_some in Hf as [Hcm Hhl]. destruct (Hm c Hcm) as [HcP (dc & hlc & Ekc)].
    assert (HcC : In c C) by auto.
    assert (Hcx : e_loc c <> e_loc x) by auto.
    destruct (d_hl _ _ HD c x HcC Hx Hcx Hhl) as [Hfree Hsd].
    destruct (do_link s c x) as [ops1 err1] eqn:Hdl. injection Hst as -> -> <-.
    destruct (inv_good _ _ _ _ HI c HcP) as (nc & Hlc & Hgc).
    assert (Hrc : realises c nc).
    { destruct Hgc as [Rr|(K & _)]; [exact Rr|]. unfold is_kdir in K. rewrite Ekc in K. discriminate. }
    assert (Hplc : plain s (e_loc c) false) by (eapply L_plain; eauto; discriminate).
    unfold do_link in Hdl.
    destruct (canon s (e_loc c)) as [a| |] eqn:Hca; try discriminate.
    destruct (canon s (e_loc x)) as [b| |] eqn:Hcb; try discriminate.
    destruct (canon_ok _ _ _ _ Hca Hplc) as [-> _]. destruct (canon_ok _ _ _ _ Hcb Hpl) as [-> _].
    rewrite Hlc in Hdl. rewrite (realises_file_node _ _ _ _ Ekc Hrc) in Hdl. cbn [negb] in Hdl.
    assert (Hlx : lookup s (e_loc x) = None) by (rewrite Hun; exact Hfree).
    assert (Hnb : node_at s (e_loc x) = None) by (destruct (e_loc x); [congruence|exact Hlx]).
    rewrite Hnb in Hdl. injection Hdl as <-.
    apply (Hlink c nc); auto. eapply realises_file_node; eauto.
  - apply (Hcp (merged ++ [x])); [|exact Hst]. right. split; [reflexivity|]. split; [|eauto].
    intros c Hc. exact (find_none _ _ Hf c Hc).
Qed.

(* the shapes of one successful step of the directory pass *)
Lemma dir_step_elim (R : list op -> Prop) P s x ops :
  incl P C -> Inv C s0 P s -> In x C -> is_kdir x = true -> (forall y, In y P -> e_loc y <> e_loc x) ->
  (forall m u g t, lookup s (e_loc x) = Some (Dir m u g t) ->
     R (perms_existing x (e_loc x) (e_loc x) (Dir m u g t))) ->
  (lookup s (e_loc x) = None ->
     R (Mkdir (e_loc x) (dir_create_mode um x) :: perms_new x (e_loc x) ++ perms_new x (e_loc x))) ->
  dir_step um s x = (ops, None) -> R ops.
Proof.
  intros HP HI Hx Hk Hfr Hex Hnew Hst.
  destruct (d_nodot _ _ HD x Hx) as (Hnd & Hne & Hlen).
  assert (Hun : lookup s (e_loc x) = lookup s0 (e_loc x)) by (eapply L_unproc; eauto).
  assert (Hns : is_symo (lookup s (e_loc x)) = false) by (rewrite Hun; eapply (d_nosymdir _ _ HD); eauto).
  assert (Hplt : plain s (e_loc x) true) by (eapply L_plain; eauto).
  assert (Hplf : plain s (e_loc x) false) by (eapply L_plain; eauto; discriminate).
  set (p := e_loc x) in *.
  assert (Hna : node_at s p = lookup s p) by (destruct p; [congruence|reflexivity]).
  assert (Hmk : (match canon s p with
                 | WOk cp =>
                     match cp, lookup s cp with
                     | [], _ => ([], Some E_OS)
                     | _, None => (Mkdir cp (dir_create_mode um x) :: perms_new x cp ++ perms_new x cp, None)
                     | _, Some (Sym _ _ _ _) =>
                         (Unlink cp :: Mkdir cp (dir_create_mode um x) :: perms_new x cp ++ perms_new x cp, None)
                     | _, Some _ => ([], Some E_OS)
                     end
                 | _ => ([], Some E_OS) end) = (ops, None) -> R ops).
  { intro H. destruct (canon s p) as [cp| |] eqn:Hc; try discriminate.
    destruct (canon_ok _ _ _ _ Hc Hplf) as [-> _].
    destruct p as [|c0 p'] eqn:Ep; [congruence|]. rewrite <- Ep in *.
    destruct (lookup s p) as [n|] eqn:Hl.
    - destruct n; discriminate.
    - injection H as <-. now apply Hnew. }
  unfold dir_step in Hst. cbv beta zeta in Hst. fold p in Hst.
  destruct (rcanon s p) as [r| |] eqn:Hrc; [| |discriminate].
  - destruct (canon_ok _ _ _ _ Hrc Hplt) as [-> _]. rewrite Hna in Hst.
    destruct (lookup s p) as [n2|] eqn:Hl; [|now apply Hmk].
    destruct (is_dir_node n2) eqn:Hd2; [|discriminate].
    destruct (canon s p) as [cp| |] eqn:Hc; try discriminate.
    destruct (canon_ok _ _ _ _ Hc Hplf) as [-> _]. injection Hst as <-.
    destruct n2 as [| m u g t | | |]; try discriminate. now apply Hex.
  - now apply Hmk.
Qed.

End Shapes.


Local Opaque walk FUEL.

Section StepCrash.
Variable um : N.
Variable C : list entry.
Variable s0 : fs.
Hypothesis HD : Dom C s0.

Lemma nondir_step_crash P s merged x ops merged' s1 :
  incl P C -> Inv C s0 P s -> In x C -> is_kdir x = false -> (forall y, In y P -> e_loc y <> e_loc x) ->
  (forall d, In d C -> is_kdir d = true -> In d P) -> files_in merged P ->
  nondir_step um s merged x = (ops, None, merged') -> run_opt ops s = Some s1 ->
  BlockCrash s ops (e_loc x).
Proof.
  intros HP HI Hx Hk Hfr Hdirs Hm Hst Hrun.
  revert Hrun.
  apply (nondir_step_elim um C s0 HD (fun ops _ => run_opt ops s = Some s1 -> BlockCrash s ops (e_loc x))
           P s merged x ops merged' HP HI Hx Hk Hfr Hm); [| |exact Hst].
  - intros c nc _ _ _ _ _ Hl _. now apply bc_link.
  - intros ops0 m' Hcf _.
    apply (copy_elim um C s0 HD (fun ops => run_opt ops s = Some s1 -> BlockCrash s ops (e_loc x))
             P s x ops0 HP HI Hx Hk Hfr Hdirs); [| |exact Hcf].
    + intros c _ Hnew Hc Hr. eapply bc_staged; eauto.
    + intros mk s2 c Hl Hmk Hr1 Hfrm Hl1 Hc Hr. eapply bc_direct; eauto.
Qed.

Lemma dir_step_crash P s x ops s1 :
  incl P C -> Inv C s0 P s -> In x C -> is_kdir x = true -> (forall y, In y P -> e_loc y <> e_loc x) ->
  dir_step um s x = (ops, None) -> run_opt ops s = Some s1 ->
  BlockCrash s ops (e_loc x).
Proof.
  intros HP HI Hx Hk Hfr Hst _.
  apply (dir_step_elim um C s0 HD (fun ops => BlockCrash s ops (e_loc x)) P s x ops HP HI Hx Hk Hfr); [| |exact Hst].
  - intros m u g t Hl. now apply bc_existingdir.
  - intros Hl. now apply bc_newdir.
Qed.

(* a path that existed before the merge is bound in every boundary state *)
Lemma bound_inv P s q : incl P C -> Inv C s0 P s -> lookup s0 q <> None -> lookup s q <> None.
Proof.
  intros HP HI H0. destruct (loc_dec P q) as [(y & Hy & <-)|Hn].
  - destruct (inv_good _ _ _ _ HI y Hy) as (n & L & _). congruence.
  - rewrite (inv_frame _ _ _ _ HI q Hn); [exact H0|]. intros (A & _). congruence.
Qed.

End StepCrash.
