(* Prop_C46.v — the property theorems of C46 and nothing else.
   `removed scan_fixed selected o w` is the ordered list of DISTDIR files `pclean dist` removes
   (repaired code, fixes/C46-exclude-exists.patch); `selected` — which names the target-derived
   regexes select — is universally quantified. *)
From Coq Require Import List NArith ZArith Bool.
Import ListNotations.
From Verif Require Import Base.Val C46.Model_C46 C46.Spec_C46 C46.Proofs_C46.

(* only DISTDIR files that pass the file filters and, when targets are in force, are selected
   by the patterns of a package the targets match — whatever the scan policy *)
Theorem removed_subset_targets_and_filters : forall scan selected o w f,
  In f (removed scan selected o w) ->
  In f (w_all w) /\ passes_filters o f /\
  (targets_in_force o ->
     selected (f_id f) = true /\ exists p, In p (w_repo w) /\ restrict_match o p = true).
Proof. exact removed_subset_targets_and_filters_proof. Qed.
Print Assumptions removed_subset_targets_and_filters.

(* the four clauses *)
Theorem never_removes_installed : forall scan selected o w f,
  needed_installed o w (f_id f) -> ~ In f (removed scan selected o w).
Proof. exact never_removes_installed_proof. Qed.
Print Assumptions never_removes_installed.

Theorem never_removes_existing : forall selected o w f,
  needed_existing o w (f_id f) -> ~ In f (removed scan_fixed selected o w).
Proof. exact never_removes_existing_proof. Qed.
Print Assumptions never_removes_existing.

Theorem never_removes_fetch_restricted : forall selected o w f,
  needed_fetch_restricted o w (f_id f) -> ~ In f (removed scan_fixed selected o w).
Proof. exact never_removes_fetch_restricted_proof. Qed.
Print Assumptions never_removes_fetch_restricted.

Theorem never_removes_excluded : forall scan selected o w f,
  needed_excluded o w (f_id f) -> ~ In f (removed scan selected o w).
Proof. exact never_removes_excluded_proof. Qed.
Print Assumptions never_removes_excluded.

Theorem never_needed : forall selected o w f,
  needed o w (f_id f) -> ~ In f (removed scan_fixed selected o w).
Proof. exact never_needed_proof. Qed.
Print Assumptions never_needed.

(* exactness: removed = DISTDIR files passing the filters, selected, and not protected *)
Theorem removed_exact : forall selected o w f,
  In f (removed scan_fixed selected o w) <->
  In f (w_all w) /\ passes_filters o f /\ target_selected selected o w (f_id f)
  /\ ~ protected o w (f_id f).
Proof. exact removed_exact_proof. Qed.
Print Assumptions removed_exact.

(* the code before the repair (exists_dist scanned only without restrictions): the statement
   is false; it holds outside the class "-E with targets/exclusions and without -f" *)
Theorem old_exists_clause_refuted : ~ C46_full_statement scan_old.
Proof. exact old_exists_clause_refuted_proof. Qed.
Print Assumptions old_exists_clause_refuted.

Theorem old_never_needed_partial : forall selected o w f,
  old_known_class o = false ->
  needed o w (f_id f) -> ~ In f (removed scan_old selected o w).
Proof. exact old_never_needed_partial_proof. Qed.
Print Assumptions old_never_needed_partial.

(* the option glue: the parser loop yields the declarative reading of the command line
   (last -x wins, targets accumulate, -m/-s are DIGITS UNIT quantities) *)
Theorem parse_argv_spec : forall ts o, parse_argv ts = POk o -> spec_opts ts = Some o.
Proof. exact parse_argv_spec_proof. Qed.
Print Assumptions parse_argv_spec.

Theorem parse_qty_sound : forall tbl s z, parse_qty tbl s = Some z -> qty_denotes tbl s z.
Proof. exact parse_qty_sound_proof. Qed.
Print Assumptions parse_qty_sound.

(* command line to files left *)
Theorem run_never_removes_needed : forall i o kept printed,
  parse_argv (i_argv i) = POk o ->
  outcome scan_fixed i = Some (kept, printed) ->
  forall f, In f (w_all (i_world i)) -> needed o (i_world i) (f_id f) ->
            In (f_id f) kept /\ ~ In (f_id f) printed.
Proof. exact run_never_removes_needed_proof. Qed.
Print Assumptions run_never_removes_needed.

Theorem run_only_removes_selected : forall i o kept printed,
  parse_argv (i_argv i) = POk o ->
  outcome scan_fixed i = Some (kept, printed) ->
  forall x, (In x (map f_id (w_all (i_world i))) /\ ~ In x kept) \/ In x printed ->
  exists f, f_id f = x /\ In f (removed scan_fixed (fun y => memN y (i_sel i)) o (i_world i)).
Proof. exact run_only_removes_selected_proof. Qed.
Print Assumptions run_only_removes_selected.
