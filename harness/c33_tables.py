"""Source-derived tables of C33 (DESIGN §3.1), fail closed.

  * ebuild/eapi.py: per-EAPI option gates the install helpers consult (dodoc_allow_recursive,
    doman_language_detect, doman_language_override, dosym_relative, has_desttree,
    unpack_case_insensitive) and the per-EAPI archive extension sets, resolved by `ast` through
    the `_combine_dicts(eapiN.options, {...})` / `eapiN.archive_exts | frozenset([...])` chain.
  * data/lib/pkgcore/ebd/helpers/0/src_install/<helper>: the OPTIONS=( ... ) templates of the
    bash wrappers (where --dest / --insoptions / --diroptions come from) as token lists.
  * helpers/<N>/src_install/<helper>: which helpers are replaced by the `banned` script from
    which EAPI on.
"""

import ast
import re

from . import tables
from .common import REPO, cbool, clist, cstr
from .tables import TableError

GATES = ("dodoc_allow_recursive", "doman_language_detect", "doman_language_override",
         "dosym_relative", "has_desttree", "unpack_case_insensitive")
HELPERS_DIR = REPO / "data" / "lib" / "pkgcore" / "ebd" / "helpers"
WRAPPED = ("doins", "dodoc", "doexe", "dobin", "dosbin", "dolib", "dolib.so", "dolib.a", "doman", "domo",
           "dohtml", "doinfo", "dodir", "keepdir", "dosym", "dohard")

DOLIB_BLOCK = ('if [[ ${HELPER_NAME} == "dolib.so" ]]; then\n\tLIBOPTIONS="-m0755"\n'
               'elif [[ ${HELPER_NAME} == "dolib.a" ]]; then\n\tLIBOPTIONS="-m0644"\nfi\n')
DOINS_BLOCK = ('if [[ -n ${PKGCORE_INSDESTTREE} && -z ${PKGCORE_INSDESTTREE%${ED}*} ]]; then\n'
               '\t__helper_exit 2 "do not give \\${D} or \\${ED} as part of the path arguments to doins"\nfi\n')


# ------------------------------------------------------------------ eapi.py
def _const_bool(node, what):
    if isinstance(node, ast.Constant) and isinstance(node.value, bool):
        return node.value
    raise TableError(f"{what}: expected a True/False constant")


def _dict_gates(node, what, require_all):
    if not isinstance(node, ast.Dict):
        raise TableError(f"{what}: expected a dict literal")
    out = {}
    for k, v in zip(node.keys, node.values):
        if not (isinstance(k, ast.Constant) and isinstance(k.value, str)):
            raise TableError(f"{what}: non-literal key")
        if k.value in GATES:
            if k.value in out:
                raise TableError(f"{what}: duplicate key {k.value}")
            out[k.value] = _const_bool(v, f"{what}[{k.value}]")
    if require_all and set(out) != set(GATES):
        raise TableError(f"{what}: missing gates {sorted(set(GATES) - set(out))}")
    return out


def _str_seq(node, what):
    v = tables.literal(node)
    if not (isinstance(v, (tuple, list, frozenset, set)) and all(isinstance(x, str) for x in v)):
        raise TableError(f"{what}: expected a sequence of strings")
    return set(v)


def eapi_rows():
    tree = tables.parse("ebuild/eapi.py")
    # the defaults: eapi_optionals = ImmutableDict({...})
    call = tables.find_assign(tree, "eapi_optionals")
    if not (isinstance(call, ast.Call) and isinstance(call.func, ast.Name) and call.func.id == "ImmutableDict"
            and len(call.args) == 1):
        raise TableError("eapi_optionals: expected ImmutableDict({...})")
    defaults = _dict_gates(call.args[0], "eapi_optionals", True)
    common_exts = _str_seq(tables.find_assign(tree, "common_archive_exts"), "common_archive_exts")
    # _combine_dicts must be the plain later-wins merge
    cd = tables.find_func(tree, "_combine_dicts")
    want = ast.parse("def _combine_dicts(*mappings):\n    return {k: v for d in mappings for k, v in d.items()}").body[0]
    if ast.dump(cd) != ast.dump(want):
        raise TableError("_combine_dicts is no longer the later-wins merge")

    rows = {}   # var name -> dict(magic, parent, gates, exts)

    def exts_of(node, what):
        if isinstance(node, ast.Name) and node.id == "common_archive_exts":
            return set(common_exts)
        if (isinstance(node, ast.Attribute) and node.attr == "archive_exts" and isinstance(node.value, ast.Name)
                and node.value.id in rows):
            return set(rows[node.value.id]["exts"])
        if isinstance(node, ast.BinOp) and isinstance(node.op, (ast.BitOr, ast.Sub)):
            left = exts_of(node.left, what)
            right = _str_seq(node.right, what)
            return left | right if isinstance(node.op, ast.BitOr) else left - right
        raise TableError(f"{what}: unrecognised archive_exts expression")

    def gates_of(node, what):
        if isinstance(node, ast.Name) and node.id == "eapi_optionals":
            return dict(defaults)
        if (isinstance(node, ast.Call) and isinstance(node.func, ast.Name) and node.func.id == "_combine_dicts"
                and len(node.args) == 2 and not node.keywords):
            base, upd = node.args
            if not (isinstance(base, ast.Attribute) and base.attr == "options" and isinstance(base.value, ast.Name)
                    and base.value.id in rows):
                raise TableError(f"{what}: unrecognised base of _combine_dicts")
            g = dict(rows[base.value.id]["gates"])
            g.update(_dict_gates(upd, what, False))
            return g
        raise TableError(f"{what}: unrecognised optionals expression")

    for n in tree.body:
        if not (isinstance(n, ast.Assign) and len(n.targets) == 1 and isinstance(n.targets[0], ast.Name)
                and isinstance(n.value, ast.Call) and isinstance(n.value.func, ast.Attribute)
                and n.value.func.attr == "register" and isinstance(n.value.func.value, ast.Name)
                and n.value.func.value.id == "EAPI"):
            continue
        var = n.targets[0].id
        kw = {k.arg: k.value for k in n.value.keywords}
        if n.value.args or not {"magic", "parent", "archive_exts", "optionals"} <= set(kw):
            raise TableError(f"{var}: unexpected EAPI.register() call shape")
        magic = tables.literal(kw["magic"])
        if not (isinstance(magic, str) and magic.isdigit()):
            continue   # only the numbered PMS EAPIs are tabulated
        p = kw["parent"]
        if isinstance(p, ast.Constant) and p.value is None:
            parent = None
        elif isinstance(p, ast.Name) and p.id in rows:
            parent = rows[p.id]["magic"]
        else:
            raise TableError(f"{var}: unrecognised parent")
        rows[var] = {"magic": magic, "parent": parent, "gates": gates_of(kw["optionals"], var + ".optionals"),
                     "exts": exts_of(kw["archive_exts"], var + ".archive_exts")}
    if not rows:
        raise TableError("no EAPI.register() calls found")
    return list(rows.values())


# ------------------------------------------------------------------ bash wrappers
def _tokens(text, what):
    """template text -> tokens; accepts literal text, ${NAME}, ${NAME:-default}, $(__get_libdir lib)."""
    out, i = [], 0
    while i < len(text):
        m = re.compile(r"\$\{([A-Z_]+)\}").match(text, i)
        if m:
            out.append(("var", m.group(1)))
            i = m.end()
            continue
        m = re.compile(r"\$\{([A-Z_]+):-([A-Za-z0-9_./-]*)\}").match(text, i)
        if m:
            out.append(("vardef", m.group(1), m.group(2)))
            i = m.end()
            continue
        m = re.compile(r"\$\(__get_libdir lib\)").match(text, i)
        if m:
            out.append(("libdir",))
            i = m.end()
            continue
        m = re.compile(r"[A-Za-z0-9_./-]+").match(text, i)
        if m:
            out.append(("lit", m.group(0)))
            i = m.end()
            continue
        raise TableError(f"{what}: unrecognised template text at {text[i:i + 20]!r}")
    return out


def _options_array(body, what):
    """the elements of OPTIONS=( ... ) -> [(option name, tokens)]"""
    elems = re.findall(r'"((?:[^"\\]|\\.)*)"', body)
    if re.sub(r'"((?:[^"\\]|\\.)*)"', "", body).strip():
        raise TableError(f"{what}: unquoted material in OPTIONS")
    out = []
    for e in elems:
        m = re.fullmatch(r'--(dest|insoptions|diroptions)=(?:\\"(.*)\\"|([^"\\]*))', e)
        if not m:
            raise TableError(f"{what}: unrecognised OPTIONS element {e!r}")
        out.append((m.group(1), _tokens(m.group(2) if m.group(2) is not None else m.group(3), what)))
    return out


def wrapper(name):
    """-> list of alternatives (guard variable or None, [(option, tokens)]) of helpers/0/src_install/<name>"""
    p = HELPERS_DIR / "0" / "src_install" / name
    try:
        text = p.read_text()
    except OSError as e:
        raise TableError(f"cannot read {p}: {e}") from e
    what = f"helpers/0/src_install/{name}"
    if not text.startswith("#!/usr/bin/env pkgcore-ipc-helper\n"):
        raise TableError(f"{what}: not an ipc helper wrapper")
    rest = text.split("\n", 1)[1]
    if name.startswith("dolib"):
        if DOLIB_BLOCK not in rest:
            raise TableError(f"{what}: LIBOPTIONS block changed")
        rest = rest.replace(DOLIB_BLOCK, "")
    if name == "doins":
        if DOINS_BLOCK not in rest:
            raise TableError(f"{what}: ED check block changed")
        rest = rest.replace(DOINS_BLOCK, "")
    rest = rest.strip()
    if not rest:
        return [(None, [])]
    m = re.fullmatch(r"OPTIONS=\((.*)\)", rest, flags=re.S)
    if m:
        return [(None, _options_array(m.group(1), what))]
    m = re.fullmatch(r"if \$\{([A-Z_]+)\}; then\n\tOPTIONS=\((.*)\)\nelse\n\tOPTIONS=\((.*)\)\nfi", rest, flags=re.S)
    if m:
        return [(m.group(1), _options_array(m.group(2), what)), (None, _options_array(m.group(3), what))]
    raise TableError(f"{what}: unrecognised wrapper body")


def banned():
    """[(helper, eapi number)] for every helpers/<N>/src_install/<helper> that is the `banned` script"""
    ref = (HELPERS_DIR / "internals" / "banned").read_text()
    out = []
    for d in sorted(HELPERS_DIR.iterdir()):
        if not d.name.isdigit() or not (d / "src_install").is_dir():
            continue
        for f in sorted((d / "src_install").iterdir()):
            if f.name in WRAPPED and f.read_text() == ref:
                out.append((f.name, int(d.name)))
    return out


# ------------------------------------------------------------------ rendering
def _ctok(t):
    if t[0] == "lit":
        return f"TLit {cstr(t[1])}"
    if t[0] == "var":
        return f"TVar {cstr(t[1])}"
    if t[0] == "vardef":
        return f"TVarDefault {cstr(t[1])} {cstr(t[2])}"
    return "TLibdir"


def gen_tables():
    rows = eapi_rows()
    txt = tables.header("ebuild/eapi.py (option gates, archive_exts) and data/lib/pkgcore/ebd/helpers/*/src_install/*")
    txt += """
Inductive tok := TLit (s : str) | TVar (name : str) | TVarDefault (name : str) (d : str) | TLibdir.
Record eapi_row := { g_parent : option str; g_dodoc_r : bool; g_doman_detect : bool; g_doman_override : bool;
                     g_dosym_rel : bool; g_has_desttree : bool; g_case_insens : bool; g_archive_exts : list str }.
"""
    ents = []
    for r in rows:
        g = r["gates"]
        ents.append("(%s, {| g_parent := %s; g_dodoc_r := %s; g_doman_detect := %s; g_doman_override := %s;\n"
                    "      g_dosym_rel := %s; g_has_desttree := %s; g_case_insens := %s;\n      g_archive_exts := %s |})"
                    % (cstr(r["magic"]), "None" if r["parent"] is None else f"Some {cstr(r['parent'])}",
                       cbool(g["dodoc_allow_recursive"]), cbool(g["doman_language_detect"]),
                       cbool(g["doman_language_override"]), cbool(g["dosym_relative"]), cbool(g["has_desttree"]),
                       cbool(g["unpack_case_insensitive"]),
                       clist([cstr(x) for x in sorted(r["exts"])], "str")))
    txt += "\n(* eapi.py: EAPI.register(...) calls, in source order *)\n"
    txt += "Definition eapi_table : list (str * eapi_row) :=\n  %s.\n" % clist(ents, "str * eapi_row").replace("; (", ";\n   (")
    went = []
    for name in WRAPPED:
        alts = wrapper(name)
        went.append("(%s, %s)" % (cstr(name), clist(
            ["(%s, %s)" % ("None" if g is None else f"Some {cstr(g)}",
                           clist(["(%s, %s)" % (cstr(o), clist([_ctok(t) for t in toks], "tok")) for o, toks in opts],
                                 "str * list tok"))
             for g, opts in alts], "option str * list (str * list tok)")))
    txt += "\n(* the OPTIONS=( ... ) of each bash wrapper: alternatives (guard variable, [(option, template)]) *)\n"
    txt += "Definition wrapper_table : list (str * list (option str * list (str * list tok))) :=\n  %s.\n" % clist(
        went, "str * list (option str * list (str * list tok))").replace("; (", ";\n   (")
    txt += "\n(* helpers/<N>/src_install/<helper> that are the `banned` script *)\n"
    txt += "Definition banned_table : list (str * N) :=\n  %s.\n" % clist(
        ["(%s, %d%%N)" % (cstr(h), n) for h, n in banned()], "str * N")
    return {"Tables_C33.v": txt}
