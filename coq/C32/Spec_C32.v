(* C32 — SPEC: what "exactly one truthful single-line reply, channel in sync" means, written
   without looking at how ebd_ipc computes a reply, plus boolean acceptors evaluated on the
   IMPLEMENTATION's recorded wire/image (comparison B).

   The only thing shared with the model is the wire FORMAT (line = up to "\n", request = command
   line + five lines, NUL-separated arguments, BEL-separated reply fields), i.e. the protocol
   itself. *)
From Coq Require Import List NArith ZArith Bool String.
From Verif Require Import Base.Val C32.Model_C32.
Import ListNotations.
Local Open Scope N_scope.

(* ------------------------------------------------------------------ declarative notions *)
(* the bytes written for one request form exactly one line *)
Definition one_line (wire : str) : Prop := exists l, wire = l ++ [NL] /\ ~ In NL l.
(* a stream of bytes that is exactly k complete lines *)
Definition k_lines (wire : str) (ls : list str) : Prop :=
  wire = flat_map (fun l => l ++ [NL]) ls /\ Forall (fun l => ~ In NL l) ls.

(* status field of a reply: text before the first BEL *)
Definition status_field (reply : str) : str := hd [] (split_on BEL reply).
Definition says_success (reply : str) : Prop := status_field reply = [48].

(* the helper body ended normally (no exception): the action was carried out *)
Definition completed (r : hres) : Prop :=
  match r with HNone | HInt _ | HStr _ => True | _ => False end.

(* a request as the bash side frames it *)
Record req := { r_cmd : str; r_nonfatal : str; r_cwd : str; r_phase : str; r_opts : str; r_args : str }.
Definition line_ok (l : str) : Prop := ~ In NL l.
Definition req_ok (r : req) : Prop :=
  line_ok (r_cmd r) /\ line_ok (r_nonfatal r) /\ line_ok (r_cwd r) /\ line_ok (r_phase r)
  /\ line_ok (r_opts r) /\ line_ok (r_args r).
Definition req_body (r : req) : str :=
  r_nonfatal r ++ [NL] ++ r_cwd r ++ [NL] ++ r_phase r ++ [NL] ++ r_opts r ++ [NL] ++ r_args r ++ [NL].
Definition req_bytes (r : req) : str := r_cmd r ++ [NL] ++ req_body r.

(* image post-condition of an install request: every regular file named is at dest/name *)
Definition installed (src : list (str * skind)) (dest : str) (i : image) (t : str) : Prop :=
  forall cid, assoc t src = Some (SFile cid) -> exists m, img_get (comps (pjoin dest t)) i = Some (NFile cid m).

(* ------------------------------------------------------------------ boolean acceptors (B) *)
Fixpoint lines_of (fuel : nat) (s : str) : option (list str) :=   (* None: last line unterminated *)
  match fuel with
  | O => None
  | S f => match s with
           | [] => Some []
           | _ => if mem_N NL s then
                    let '(l, r) := take_line s in
                    match lines_of f r with Some ls => Some (l :: ls) | None => None end
                  else None
           end
  end.
Definition is_digit (c : N) : bool := (48 <=? c) && (c <=? 57).
Definition int_text (s : str) : bool :=
  match s with
  | 45 :: (_ :: _) as r => forallb is_digit r
  | _ :: _ => forallb is_digit s
  | [] => false
  end.
(* a reply line: integer status, optionally BEL + payload; no newline (by construction of lines_of) *)
Definition reply_wf (l : str) : bool := int_text (hd [] (split_on BEL l)).
Definition spec_reply_ok (_ : bstr) (r : val) : bool :=
  match r with
  | VS d => negb (mem_N NL d) && reply_wf d
  | _ => false
  end.

(* requests of a down stream, as far as they are complete: (cmd, five lines) *)
Fixpoint requests_of (fuel : nat) (s : str) : list (str * list str) :=
  match fuel with
  | O => []
  | S f =>
      if is_nil s then [] else
      let '(c, r0) := take_line s in
      if startswith (lit "phases") c then [] else
      let '(l1, r1) := take_line r0 in
      let '(l2, r2) := take_line r1 in
      let '(l3, r3) := take_line r2 in
      let '(l4, r4) := take_line r3 in
      let '(l5, r5) := take_line r4 in
      (c, [l1; l2; l3; l4; l5]) :: requests_of f r5
  end.

Definition dest_of (opts : list str) : str :=
  lstrip_sl (o_dest (parse_options opts {| o_dest := [47]; o_ins := None; o_dir := None; o_unknown := [] |})).
Definition has_fallback_words (opts : list str) : bool :=
  existsb (fun t => startswith P_INS t) opts.

(* status 0 of an install-family request => every named regular file is in the final image
   (outside the known class: fallback onto a destination that is a directory) *)
Definition install_claim_ok (c : cfg) (w : world) (final : image) (rq : str * list str) (reply : str) : bool :=
  match assoc (fst rq) (c_helpers c), snd rq with
  | Some (KInstall _ _ _), [_; _; _; l4; l5] =>
      if negb (str_eqb (hd [] (split_on BEL reply)) [48]) then true else
      match shlex_split (strip l4) with
      | None => false                                     (* a success reply to an unparsable request *)
      | Some opts =>
          let dest := dest_of opts in
          forallb (fun t =>
                     match assoc t (w_src w) with
                     | Some (SFile cid) =>
                         match img_get (comps (pjoin dest t)) final with
                         | Some (NFile cid' _) => N.eqb cid cid'
                         | Some (NDir _) => has_fallback_words opts      (* known class *)
                         | None => false
                         end
                     | _ => true
                     end) (split_args l5)
      end
  | _, _ => true
  end.

(* a request that cannot fail: first of its session, no faults, only --dest, plain files, image empty *)
Definition clean_first (c : cfg) (w : world) (rq : str * list str) : bool :=
  match assoc (fst rq) (c_helpers c), snd rq with
  | Some (KInstall _ _ _), [_; l2; _; l4; l5] =>
      is_nil (w_faults w) && is_nil (w_img w) && str_eqb (strip l2) (c_cwd c) &&
      match shlex_split (strip l4) with
      | Some opts => forallb (fun t => startswith P_DEST t) opts
      | None => false
      end &&
      negb (is_nil (split_args l5)) &&
      forallb (fun t => match assoc t (w_src w) with Some (SFile _) => negb (mem_N 47 t) | _ => false end)
              (split_args l5)
  | _, _ => false
  end.

Fixpoint zip_check {A B} (f : A -> B -> bool) (a : list A) (b : list B) : bool :=
  match a, b with
  | x :: a', y :: b' => f x y && zip_check f a' b'
  | _, _ => true
  end.

Definition parse_image (s : str) : image :=
  map (fun e => let '(k, v) := dec_pair dec_node e in (comps k, v)) (fields 59 s).

(* session acceptor: recorded = [wire; consumed; end; image; answers left] *)
Definition spec_session_ok (b : bstr) (r : val) : bool :=
  let '(c, w, down) := dec_session b in
  match r with
  | VL [VS wire; VZ consumed; VS e; VS img; _] =>
      match lines_of (S (List.length wire)) wire with
      | None => false                                            (* a partial line on the wire *)
      | Some ls =>
          let rqs := requests_of (S (List.length down)) down in
          forallb reply_wf ls
          && (Nat.leb (List.length ls) (List.length rqs))        (* never more replies than requests *)
          && (if str_eqb e (lit "finished")
              then Nat.eqb (List.length ls) (List.length rqs)
                   && Z.eqb consumed (Z.of_nat (List.length down))
              else true)
          && (if str_eqb e (lit "fatal") || str_eqb e (lit "internal")
              then negb (is_nil ls) && negb (str_eqb (hd [] (split_on BEL (last ls []))) [48])
              else true)
          && (if cmp_image b && forallb (fun rq => negb (str_eqb (fst rq) (lit "c32env"))) rqs
              (* (sessions in which the ebuild changes the image between requests are judged per
                 request by the Python oracle on per-request snapshots, not on the final image) *)
              then zip_check (install_claim_ok c w (parse_image img)) rqs ls else true)
          && match rqs, ls with
             | rq :: _, l :: _ => if clean_first c w rq then str_eqb (hd [] (split_on BEL l)) [48] else true
             | _, _ => true
             end
      end
  | _ => false
  end.

(* all streams travel in one cases file: the literal starts with a one-letter stream tag and ":" *)
Definition untag (b : bstr) : bstr := match b with BS l => BS (skipn 2 l) end.
Definition tag_of (b : bstr) : N := match b with BS (c :: _) => Byte.to_N c | _ => 0 end.
Definition run_any (b : bstr) : val :=
  let t := tag_of b in
  if N.eqb t 83 then run_session (untag b)          (* S *)
  else if N.eqb t 120 then run_shlex (untag b)      (* x *)
  else if N.eqb t 114 then run_repr (untag b)       (* r *)
  else if N.eqb t 101 then run_enc (untag b)        (* e *)
  else if N.eqb t 98 then run_bashrd (untag b)      (* b *)
  else run_bashrq (untag b).                        (* q *)
Definition spec_any_ok (b : bstr) (r : val) : bool :=
  let t := tag_of b in
  if N.eqb t 83 then spec_session_ok (untag b) r
  else if N.eqb t 101 then spec_reply_ok (untag b) r
  else true.
