(* Model_C41.v — executable model of pkgcore.util.thread_pool.map_async
   (src/pkgcore/util/thread_pool.py:22) as a labelled transition system.  No proofs here.

   Threads: the main thread and W = parallelism worker threads; shared state: one FIFO queue
   (queue.Queue, atomic put/get; get blocks on an empty queue), the results deque, the kill event.

     main:    for x in threads: x.start()              LStart w      (W steps)
              for data in iterable: q.put(data)        LPut x        (one per item)
              [iterable raised: kill.set(); re-raise]  LKill
              finally: W times q.put(sentinel)         LSent
                       reclaim_threads: x.join()       LJoin w       (in order; blocks until w is done)
              return results / propagate               LRet
     worker:  result = functor(iter_queue(...), ...)
              iter_queue: while not kill.isSet():      LChk w b
                            item = q.get()             LGet w o      (o = None is the sentinel)
                            sentinel -> return | yield item
              the functor's loop body on item x        LProc w x     (outcome [fout x]: yields/collects
                                                                      values ys, or raises -> thread dies)
     how the functor's result reaches [results] (thread_pool.worker):
              Gen      functor is a generator function: results.extend(generator) — every yielded value
                       is appended when it is yielded
              RetList  functor returns a (non-None, non-generator) value: appended once, when the
                       functor returns; modelled as the list of the values it collected
              RetNone  functor returns None: nothing is appended
   Items and result values are abstract ids (N). *)
From Coq Require Import List NArith ZArith Bool Arith.
Import ListNotations.
From Verif Require Import Base.Val C41.Lts.

Notation item := N (only parsing).
Inductive outcome := Ok (ys : list N) | Die.
Inductive fmode := Gen | RetList | RetNone.
Inductive res := RY (y : N) | RL (l : list N).

Record cfg := {
  items : list item;           (* what iterating the iterable yields, in order *)
  iter_raises : bool;          (* ... and then raises an Exception instead of stopping *)
  len_hint : option nat;       (* len(iterable) when it has __len__ *)
  threads : option Z;          (* threads= keyword; None = not given *)
  cpu : Z;                     (* multiprocessing.cpu_count() *)
  mode : fmode;
  fout : item -> outcome       (* what the functor's loop body does with one item *)
}.

(* thread_pool.py:25-34 (threads=None -> cpu_count(); at least one worker; a sized iterable
   clamps to its length) and range(parallelism) at the thread/sentinel loops *)
Definition parallelism_z (c : cfg) : Z :=
  let p := Z.max (match threads c with Some t => t | None => cpu c end) 1 in
  match len_hint c with
  | Some n => Z.max (Z.min (Z.of_nat n) p) 0
  | None => p
  end.
Definition parallelism (c : cfg) : nat := Z.to_nat (parallelism_z c).

Inductive mpc :=
| MStart (k : nat)          (* workers 0..k-1 started, about to start worker k (k < W) *)
| MFeed (rest : list item)  (* about to put the head of rest; MFeed [] = the iterable just raised *)
| MSent (k : nat)           (* about to put a sentinel, k more after it *)
| MJoin (k : nat)           (* workers 0..k-1 joined *)
| MDone.

Inductive wst :=
| WNew                            (* created, not started *)
| WLoop (acc : list N)            (* at the head of iter_queue's loop *)
| WGet (acc : list N)             (* saw kill unset; in q.get() *)
| WBusy (acc : list N) (x : item) (* the functor is handling x *)
| WExit (acc : list N)            (* functor returned, thread finished *)
| WDead (acc : list N).           (* functor raised, thread finished *)
(* acc: the values this worker's functor has collected so far (its local state) *)

Record state := {
  pc : mpc;
  q : list (option item);      (* head = next to be taken; None = sentinel *)
  ws : list wst;
  processed : list item;       (* items handed to the functor's loop body, in global order *)
  results : list res;
  kill : bool
}.

Inductive label :=
| LStart (w : nat) | LPut (x : item) | LKill | LSent | LJoin (w : nat) | LRet
| LChk (w : nat) (b : bool) | LGet (w : nat) (o : option item) | LProc (w : nat) (x : item).

Definition norm_sent (W : nat) : mpc := match W with O => MJoin 0 | S k => MSent k end.
Definition after_put (c : cfg) (rest : list item) : mpc :=
  match rest with
  | _ :: _ => MFeed rest
  | [] => if iter_raises c then MFeed [] else norm_sent (parallelism c)
  end.
Definition norm_start (c : cfg) (k : nat) : mpc :=
  if k <? parallelism c then MStart k else after_put c (items c).

Definition init (c : cfg) : state :=
  {| pc := norm_start c 0; q := []; ws := repeat WNew (parallelism c);
     processed := []; results := []; kill := false |}.

Fixpoint upd {A} (l : list A) (i : nat) (v : A) : list A :=
  match l, i with
  | [], _ => []
  | _ :: r, O => v :: r
  | x :: r, S i' => x :: upd r i' v
  end.

Definition set_pc (s : state) (p : mpc) : state :=
  {| pc := p; q := q s; ws := ws s; processed := processed s; results := results s; kill := kill s |}.
Definition set_w (s : state) (w : nat) (v : wst) : state :=
  {| pc := pc s; q := q s; ws := upd (ws s) w v; processed := processed s; results := results s; kill := kill s |}.

(* the functor returns normally (its iterator is exhausted): thread_pool.worker stores the result *)
Definition exit_normally (c : cfg) (s : state) (w : nat) (acc : list N) : state :=
  {| pc := pc s; q := q s; ws := upd (ws s) w (WExit acc); processed := processed s;
     results := results s ++ match mode c with RetList => [RL acc] | _ => [] end;
     kill := kill s |}.

Definition finished (v : wst) : bool :=
  match v with WExit _ | WDead _ => true | _ => false end.

Definition stepf (c : cfg) (s : state) (l : label) : option state :=
  let W := parallelism c in
  match l with
  | LStart w =>
      match pc s with
      | MStart k =>
          if (w =? k) && (k <? W) then
            match nth_error (ws s) k with
            | Some WNew => Some (set_pc (set_w s k (WLoop [])) (norm_start c (S k)))
            | _ => None
            end
          else None
      | _ => None
      end
  | LPut x =>
      match pc s with
      | MFeed (x' :: r) =>
          if N.eqb x x' then
            Some {| pc := after_put c r; q := q s ++ [Some x]; ws := ws s; processed := processed s;
                    results := results s; kill := kill s |}
          else None
      | _ => None
      end
  | LKill =>
      match pc s with
      | MFeed [] =>
          Some {| pc := norm_sent W; q := q s; ws := ws s; processed := processed s;
                  results := results s; kill := true |}
      | _ => None
      end
  | LSent =>
      match pc s with
      | MSent k =>
          Some {| pc := norm_sent k; q := q s ++ [None]; ws := ws s; processed := processed s;
                  results := results s; kill := kill s |}
      | _ => None
      end
  | LJoin w =>
      match pc s with
      | MJoin k =>
          if (w =? k) && (k <? W) then
            match nth_error (ws s) k with
            | Some v => if finished v then Some (set_pc s (MJoin (S k))) else None
            | None => None
            end
          else None
      | _ => None
      end
  | LRet =>
      match pc s with
      | MJoin k => if k =? W then Some (set_pc s MDone) else None
      | _ => None
      end
  | LChk w b =>
      match nth_error (ws s) w with
      | Some (WLoop acc) =>
          if Bool.eqb b (kill s) then
            Some (if b then exit_normally c s w acc else set_w s w (WGet acc))
          else None
      | _ => None
      end
  | LGet w o =>
      match nth_error (ws s) w, q s with
      | Some (WGet acc), o' :: q' =>
          let s1 := {| pc := pc s; q := q'; ws := ws s; processed := processed s;
                       results := results s; kill := kill s |} in
          match o, o' with
          | None, None => Some (exit_normally c s1 w acc)
          | Some x, Some x' => if N.eqb x x' then Some (set_w s1 w (WBusy acc x)) else None
          | _, _ => None
          end
      | _, _ => None
      end
  | LProc w x =>
      match nth_error (ws s) w with
      | Some (WBusy acc x') =>
          if N.eqb x x' then
            match fout c x with
            | Ok ys =>
                Some {| pc := pc s; q := q s; ws := upd (ws s) w (WLoop (acc ++ ys));
                        processed := processed s ++ [x];
                        results := results s ++ match mode c with Gen => map RY ys | _ => [] end;
                        kill := kill s |}
            | Die =>
                Some {| pc := pc s; q := q s; ws := upd (ws s) w (WDead acc);
                        processed := processed s ++ [x]; results := results s; kill := kill s |}
            end
          else None
      | _ => None
      end
  end.

Definition terminal (s : state) : bool := match pc s with MDone => true | _ => false end.

(* well-founded measure (used by always_terminates): every step makes it strictly smaller *)
Definition mm (c : cfg) (p : mpc) : nat :=
  let W := parallelism c in
  match p with
  | MStart k => (W - k) + 4 * length (items c) + 5 * W + 3
  | MFeed r => 4 * length r + 5 * W + 3
  | MSent k => 4 * (k + 1) + W + 1
  | MJoin k => (W - k) + 1
  | MDone => 0
  end.
Definition wm (v : wst) : nat :=
  match v with WNew => 2 | WLoop _ => 2 | WGet _ => 1 | WBusy _ _ => 3 | WExit _ | WDead _ => 0 end.
Fixpoint sumf {A} (h : A -> nat) (l : list A) : nat :=
  match l with [] => 0 | v :: r => h v + sumf h r end.
Definition measure (c : cfg) (s : state) : nat :=
  mm c (pc s) + 3 * length (q s) + sumf wm (ws s).

(* ---------------------------------------------------------------- encoders for the harness *)
Fixpoint insert {A} (leb : A -> A -> bool) (x : A) (l : list A) : list A :=
  match l with [] => [x] | y :: r => if leb x y then x :: l else y :: insert leb x r end.
Definition isort {A} (leb : A -> A -> bool) (l : list A) : list A := fold_right (insert leb) [] l.
Fixpoint lex_leb (a b : list N) : bool :=
  match a, b with
  | [], _ => true
  | _ :: _, [] => false
  | x :: a', y :: b' => if N.ltb x y then true else if N.eqb x y then lex_leb a' b' else false
  end.

(* a functor given by a finite table (default: collects nothing) *)
Fixpoint tabf (t : list (item * outcome)) (x : item) : outcome :=
  match t with [] => Ok [] | (k, o) :: r => if N.eqb x k then o else tabf r x end.

Definition enc_nlist (l : list N) : val := VL (map (fun x => VZ (Z.of_N x)) l).
Definition res_key (r : res) : list N := match r with RY y => [0; y]%N | RL l => 1%N :: l end.
Definition enc_res (r : res) : val := match r with RY y => VZ (Z.of_N y) | RL l => enc_nlist l end.
Definition sort_res (l : list res) : list res := isort (fun a b => lex_leb (res_key a) (res_key b)) l.

Definition err_rejected (i : nat) : val :=
  VL [VS [114;101;106;101;99;116;101;100]%N; VZ (Z.of_nat i)].       (* "rejected" at event i *)
Definition err_nonterminal : val := VS [110;111;110;116;101;114;109;105;110;97;108]%N. (* "nonterminal" *)

(* stream "trace": the recorded global event order of one real map_async call must be a run of
   the LTS ending in a terminal state; the outcome is compared as multisets:
   [raised?; sorted processed items; sorted results] *)
(* the harness writes a trace compactly as a flat number list, three numbers per event *)
Fixpoint dec_trace (l : list N) : option (list label) :=
  match l with
  | [] => Some []
  | t :: a :: b :: r =>
      let w := N.to_nat a in
      let lab :=
        match t with
        | 0 => Some (LStart w) | 1 => Some (LPut a) | 2 => Some LKill | 3 => Some LSent
        | 4 => Some (LJoin w) | 5 => Some LRet
        | 6 => Some (LChk w (negb (N.eqb b 0)))
        | 7 => Some (LGet w (if N.eqb b 0 then None else Some (N.pred b)))
        | 8 => Some (LProc w b)
        | _ => None
        end%N in
      match lab, dec_trace r with Some x, Some y => Some (x :: y) | _, _ => None end
  | _ => None
  end.

Definition run_labels (c : cfg) (tr : list label) : val :=
  match reject_at state label (stepf c) 0 (init c) tr with
  | Some k => err_rejected k
  | None =>
      match run state label (stepf c) (init c) tr with
      | None => err_rejected 0
      | Some s =>
          if terminal s then
            VL [VB (iter_raises c); enc_nlist (isort N.leb (processed s));
                (* an exception propagates instead of the results *)
                VL (if iter_raises c then [] else map enc_res (sort_res (results s)))]
          else err_nonterminal
      end
  end.
Definition run_trace (i : cfg * list N) : val :=
  match dec_trace (snd i) with
  | Some tr => run_labels (fst i) tr
  | None => VS [98;97;100;116;114;97;99;101]%N   (* "badtrace" *)
  end.

(* stream "par": the number of worker threads map_async creates *)
Definition run_par (c : cfg) : val := VZ (Z.of_nat (parallelism c)).
