(* Proofs_C07.v — lemmas and proofs for C07 (see Prop_C07.v for the statements). *)
From Coq Require Import List NArith ZArith Bool Lia.
Import ListNotations.
From Verif Require Import Base.Val gen.Tables_C01 gen.Tables_C07 C01.Model_C01 C06.Restr C07.Model_C07 C07.Spec_C07.

Definition cfg_fixed : cfg := {| udc_keyed := true |}.
Definition cfg_pinned : cfg := {| udc_keyed := false |}.

(* the pinned _VersionMatch: a negated ~ equals the plain ~ and matches the complement *)
Definition pk1 : pk := {| pattrs := []; pver := Some [49%N]; prev := None |}.
Lemma versionmatch_orig_refuted_proof :
  ver_eq_orig true [49%N] None false [0%Z] true [49%N] None true [0%Z] = true
  /\ ver_hk_orig true [49%N] None false [0%Z] true [49%N] None true [0%Z] = false
  /\ ver_match true [49%N] None false [0%Z] pk1 <> ver_match true [49%N] None true [0%Z] pk1.
Proof. vm_compute. repeat split; discriminate. Qed.
