(* Cells_C05.v — completeness of intersects for the cells involving `~` and `=*`, and the USE part
   when both atoms carry USE deps. *)
From Coq Require Import List NArith ZArith Bool Lia.
Import ListNotations.
From Verif Require Import Base.Val C01.Model_C01 C04.Model_C04 C04.Spec_C04 C04.Proofs_C04
  C05.Model_C05 C05.Spec_C05 C05.Proofs_C05.

(* ------------------------------------------------------------------ strings *)
Lemma startswith_refl s : startswith s s = true.
Proof. induction s as [|x s IH]; cbn; [reflexivity|]. rewrite N.eqb_refl. exact IH. Qed.

Lemma startswith_two s g1 g2 :
  startswith s g1 = true -> startswith s g2 = true -> startswith g1 g2 = true \/ startswith g2 g1 = true.
Proof.
  revert g1 g2; induction s as [|x s IH]; intros [|y g1] [|z g2]; cbn; intros H1 H2; auto; try discriminate.
  apply andb_true_iff in H1 as [E1 H1]. apply andb_true_iff in H2 as [E2 H2].
  apply N.eqb_eq in E1, E2. subst. rewrite N.eqb_refl. cbn. apply IH; assumption.
Qed.

Lemma startswith_app_pre s g r : startswith s (g ++ r) = true -> startswith s g = true.
Proof.
  revert s; induction g as [|x g IH]; intros s H; cbn in *; [reflexivity|].
  destruct s as [|y s]; [discriminate|]. apply andb_true_iff in H as [E H]. rewrite E. cbn. apply IH; exact H.
Qed.

(* a text without "-" that is a prefix of  x ++ suffix  (suffix empty or starting with "-")
   is a prefix of x *)
Lemma startswith_nodash x suf g :
  (suf = [] \/ exists t, suf = 45%N :: t) -> forallb (fun c => negb (N.eqb c 45)) g = true ->
  startswith (x ++ suf) g = true -> startswith x g = true.
Proof.
  intros Hs. revert x; induction g as [|c g IH]; intros x Hd H; cbn in *; [reflexivity|].
  apply andb_true_iff in Hd as [Hc Hd].
  destruct x as [|y x]; cbn in *.
  - destruct Hs as [->|[t ->]]; cbn in H; [discriminate|].
    apply andb_true_iff in H as [E _]. apply N.eqb_eq in E. subst c. cbn in Hc. discriminate.
  - apply andb_true_iff in H as [E H]. rewrite E. cbn. apply IH; assumption.
Qed.

(* ------------------------------------------------------------------ the order interface *)
Section Cells2.
Variable vc : str -> option N -> str -> option N -> Z.
Variable okv : str -> Prop.
Hypothesis Hord : forall v1 v2 v3 r1 r2 r3, okv v1 -> okv v2 -> okv v3 ->
    (vc v1 r1 v2 r2 = (-1)%Z \/ vc v1 r1 v2 r2 = 0%Z \/ vc v1 r1 v2 r2 = 1%Z)
    /\ vc v1 r1 v1 r1 = 0%Z
    /\ vc v2 r2 v1 r1 = (- vc v1 r1 v2 r2)%Z
    /\ ((vc v1 r1 v2 r2 <= 0)%Z -> (vc v2 r2 v3 r3 <= 0)%Z -> (vc v1 r1 v3 r3 <= 0)%Z)
    /\ (vc v1 r1 v2 r2 = 0%Z -> vc v1 r1 v3 r3 = vc v2 r2 v3 r3).
(* for two version texts the answer is decided by the texts alone or is the revision comparison *)
Hypothesis Hshape : forall v w, exists k : option Z,
    forall r s, vc v r w s = match k with Some c => c | None => rev_cmp r s end.

Lemma rev_cmp_nn : rev_cmp None None = 0%Z. Proof. reflexivity. Qed.

Lemma drop_zero v r w s : vc v r w s = 0%Z -> vc v None w None = 0%Z.
Proof. destruct (Hshape v w) as [[c|] H]; rewrite !H; [auto|intros _; reflexivity]. Qed.

Lemma lex_decided v r w s : vc v None w None <> 0%Z -> vc v r w s = vc v None w None.
Proof. destruct (Hshape v w) as [[c|] H]; rewrite !H; [reflexivity|]. rewrite rev_cmp_nn. intro; contradiction. Qed.

(* with equal-comparing texts, a text without revision is not above the same text with one *)
Lemma norev_le v w s : vc v None w None = 0%Z -> (vc v None w s <= 0)%Z.
Proof.
  destruct (Hshape v w) as [[c|] H]; rewrite !H; [lia|]. intros _.
  unfold rev_cmp, cmpN. cbn. destruct (rev_val s); cbn; lia.
Qed.

Lemma vm_tilde x y : a_op x = 5%N ->
  vm vc x y = Z.eqb (vc (a_ver y) None (a_ver x) None) 0.
Proof. intro E. unfold vm, vmatch. rewrite E. cbn. rewrite xorb_false_r, orb_false_r. reflexivity. Qed.

(* cell (o, ~) for o in {<,<=,=,>=,>}: a package version satisfying both *)
Lemma complete_cell_tilde : forall a b pv pr,
  (a_op a <= 4)%N -> a_op b = 5%N -> a_rev b = None ->
  okv (a_ver a) -> okv (a_ver b) -> okv pv ->
  vmatch vc (a_op a) false (a_ver a) (a_rev a) pv pr = true ->
  vmatch vc 5 false (a_ver b) (a_rev b) pv pr = true ->
  version_part vc a b = true.
Proof.
  intros a b pv pr Ha Eb Rb Oa Ob Op Ma Mb.
  unfold vmatch in Mb. cbn in Mb. rewrite xorb_false_r, orb_false_r in Mb. apply Z.eqb_eq in Mb.
  (* facts on the revision-less points *)
  destruct (Hord pv (a_ver b) (a_ver a) None None None Op Ob Oa) as [_ [_ [A0 [_ C0]]]].
  destruct (Hord pv (a_ver a) (a_ver b) None None None Op Oa Ob) as [_ [_ [A1 [_ C1]]]].
  destruct (Hord (a_ver a) (a_ver b) pv None None None Oa Ob Op) as [S2 [_ [A2 _]]].
  pose proof (C0 Mb) as C0'.              (* vc P0 X0 = vc Y0 X0 *)
  assert (Eyp : vc (a_ver b) None pv None = 0%Z) by lia.
  (* Y0 = (ver b, None) is below or equal P *)
  pose proof (norev_le (a_ver b) pv pr Eyp) as Hyp.
  unfold version_part, unversioned, has_lt, has_gt, is_ranged, has_lt, has_gt.
  destruct (op_cases4 _ Ha) as [Ea|[Ea|[Ea|[Ea|Ea]]]]; rewrite Ea, Eb; cbn; rewrite ?Ea, ?Eb; cbn;
    rewrite ?Ea, ?Eb; cbn.
  - (* < *) rewrite orb_false_r. unfold vm, vmatch. rewrite Ea, Rb. cbn. rewrite xorb_false_r, orb_false_r.
    unfold vmatch in Ma. rewrite Ea in Ma. cbn in Ma. rewrite xorb_false_r, orb_false_r in Ma. apply Z.eqb_eq in Ma.
    apply Z.eqb_eq.
    destruct (Hord (a_ver b) pv (a_ver a) None pr (a_rev a) Ob Op Oa) as [S [_ [_ [T C]]]].
    destruct (Hord (a_ver b) (a_ver a) pv None (a_rev a) pr Ob Oa Op) as [S' [_ [_ [T' C']]]].
    destruct (Hord pv (a_ver a) (a_ver b) pr (a_rev a) None Op Oa Ob) as [_ [_ [A' _]]].
    lia.
  - (* <= *) rewrite orb_false_r. unfold vm, vmatch. rewrite Ea, Rb. cbn. rewrite xorb_false_r, orb_false_r.
    unfold vmatch in Ma. rewrite Ea in Ma. cbn in Ma. rewrite xorb_false_r, orb_false_r in Ma.
    destruct (Hord (a_ver b) pv (a_ver a) None pr (a_rev a) Ob Op Oa) as [S [_ [_ [T C]]]].
    destruct (Hord (a_ver b) (a_ver a) pv None (a_rev a) pr Ob Oa Op) as [S' [_ [_ [T' C']]]].
    destruct (Hord pv (a_ver a) (a_ver b) pr (a_rev a) None Op Oa Ob) as [_ [_ [A' _]]].
    apply orb_true_iff in Ma. apply orb_true_iff.
    assert (vc pv pr (a_ver a) (a_rev a) <= 0)%Z by (destruct Ma as [M|M]; apply Z.eqb_eq in M; lia).
    rewrite !Z.eqb_eq. lia.
  - (* = *) rewrite (vm_tilde b a Eb). apply Z.eqb_eq.
    unfold vmatch in Ma. rewrite Ea in Ma. cbn in Ma. rewrite xorb_false_r, orb_false_r in Ma. apply Z.eqb_eq in Ma.
    pose proof (drop_zero _ _ _ _ Ma) as D. specialize (C1 D). lia.
  - (* >= *) unfold vm at 1. unfold vmatch. rewrite Ea, Rb. cbn. rewrite xorb_false_r, orb_false_r.
    rewrite (vm_tilde b a Eb).
    unfold vmatch in Ma. rewrite Ea in Ma. cbn in Ma. rewrite xorb_false_r, orb_false_r in Ma.
    destruct (Z.eqb_spec (vc (a_ver a) None (a_ver b) None) 0) as [E0|N0]; [rewrite !orb_true_r; reflexivity|].
    rewrite orb_false_r.
    (* the texts differ as versions: everything is decided by the texts *)
    assert (N1 : vc pv None (a_ver a) None <> 0%Z) by lia.
    assert (N2 : vc (a_ver b) None (a_ver a) None <> 0%Z) by lia.
    rewrite (lex_decided _ pr _ (a_rev a) N1) in Ma.
    rewrite (lex_decided _ None _ (a_rev a) N2).
    rewrite <- C0'. exact Ma.
  - (* > *) unfold vm at 1. unfold vmatch. rewrite Ea, Rb. cbn. rewrite xorb_false_r, orb_false_r.
    rewrite (vm_tilde b a Eb).
    unfold vmatch in Ma. rewrite Ea in Ma. cbn in Ma. rewrite xorb_false_r, orb_false_r in Ma.
    destruct (Z.eqb_spec (vc (a_ver a) None (a_ver b) None) 0) as [E0|N0]; [rewrite !orb_true_r; reflexivity|].
    rewrite orb_false_r.
    assert (N1 : vc pv None (a_ver a) None <> 0%Z) by lia.
    assert (N2 : vc (a_ver b) None (a_ver a) None <> 0%Z) by lia.
    rewrite (lex_decided _ pr _ (a_rev a) N1) in Ma.
    rewrite (lex_decided _ None _ (a_rev a) N2).
    rewrite <- C0'. exact Ma.
Qed.
End Cells2.

(* ------------------------------------------------------------------ the USE part, both atoms with USE deps *)
(* a token as the atom parser accepts it: [-]flag[(+)|(-)], flag not starting with "-" nor ending with ")" *)
Definition valid_tok (t : str) : Prop :=
  exists d s c f, t = render_use d s (c :: f) /\ c <> 45%N /\ last (c :: f) 0%N <> 41%N.

Lemma smem_In x l : smem x l = true -> In x l.
Proof.
  unfold smem. intro H. apply existsb_exists in H as [y [Hy E]]. apply str_eqb_eq in E. subst. exact Hy.
Qed.

Lemma use_flags_In t ua ub : In t (use_flags ua ub) -> In t ua \/ In t ub.
Proof.
  unfold use_flags. intro H. apply in_app_or in H as [H|H]; apply filter_In in H as [H _]; auto.
Qed.

(* "-f" and "f" both valid: they are the negative and the positive dep on one flag, same default *)
Lemma conflict_tokens f :
  valid_tok (45%N :: f) -> valid_tok f ->
  exists d g, parse_use_token (45%N :: f) = (d, false, g) /\ parse_use_token f = (d, true, g).
Proof.
  intros [d1 [s1 [c1 [f1 [E1 [Hc1 Hl1]]]]]] [d2 [s2 [c2 [f2 [E2 [Hc2 Hl2]]]]]].
  destruct s1; unfold render_use in E1; cbn [app] in E1.
  - injection E1 as Ec _. congruence.
  - injection E1 as E1. destruct s2; unfold render_use in E2; cbn [app] in E2.
    + exists d2, (c2 :: f2).
      assert (R1 : 45%N :: f = render_use d2 false (c2 :: f2)) by (rewrite E2; reflexivity).
      assert (R2 : f = render_use d2 true (c2 :: f2)) by (rewrite E2; reflexivity).
      split; [rewrite R1|rewrite R2]; apply parse_render_use_proof; assumption.
    + (* f itself starts with "-": then "-f" = "--..." is not valid *)
      rewrite E2 in E1. cbn in E1. injection E1 as Ec _. congruence.
Qed.

Lemma match_use_tokens vc a p toks :
  a_use a = Some toks -> atom_match vc a p = true -> known_use_nand a p = false ->
  forall t, In t toks ->
    (let '(d, s, f) := parse_use_token t in usedep_holds d s f (p_iuse p) (p_use p)) = true.
Proof.
  intros Eu H K t Ht. unfold atom_match, atom_restrictions in H. rewrite !forallb_app in H.
  apply andb_true_iff in H as [_ H]. apply andb_true_iff in H as [_ H].
  apply andb_true_iff in H as [_ H]. apply andb_true_iff in H as [_ H].
  unfold known_use_nand in K. rewrite Eu in *.
  rewrite (use_tokens_part vc p toks K) in H. rewrite forallb_forall in H. exact (H t Ht).
Qed.

Lemma use_complete vc a b p :
  (forall t toks, a_use a = Some toks -> In t toks -> valid_tok t) ->
  (forall t toks, a_use b = Some toks -> In t toks -> valid_tok t) ->
  atom_match vc a p = true -> atom_match vc b p = true ->
  known_use_nand a p = false -> known_use_nand b p = false ->
  use_conflict a b = false.
Proof.
  intros Va Vb Ma Mb Ka Kb. unfold use_conflict.
  destruct (a_use a) as [[|ta ua]|] eqn:Ea; try reflexivity.
  destruct (a_use b) as [[|tb ub]|] eqn:Eb; try reflexivity.
  destruct (existsb _ _) eqn:E; [|reflexivity]. exfalso.
  apply existsb_exists in E as [t [Ht Hc]].
  destruct t as [|c f]; [discriminate|].
  assert (Ec : c = 45%N).
  { destruct c as [|q]; [discriminate|]. do 6 (try (destruct q as [q|q|]; try discriminate)). reflexivity. }
  subst c.
  assert (Hf : smem f (use_flags (ta :: ua) (tb :: ub)) = true).
  { exact Hc. }
  apply smem_In in Hf.
  assert (Hall : forall t, In t (use_flags (ta :: ua) (tb :: ub)) ->
            valid_tok t /\ (let '(d, s, g) := parse_use_token t in usedep_holds d s g (p_iuse p) (p_use p)) = true).
  { intros t Hin. apply use_flags_In in Hin as [Hin|Hin].
    - split; [exact (Va t _ eq_refl Hin)|exact (match_use_tokens vc a p _ Ea Ma Ka t Hin)].
    - split; [exact (Vb t _ eq_refl Hin)|exact (match_use_tokens vc b p _ Eb Mb Kb t Hin)]. }
  destruct (Hall _ Ht) as [V1 H1]. destruct (Hall _ Hf) as [V2 H2].
  destruct (conflict_tokens f V1 V2) as [d [g [P1 P2]]].
  rewrite P1 in H1. rewrite P2 in H2. unfold usedep_holds in *.
  destruct (flag_state d g (p_iuse p) (p_use p)); discriminate.
Qed.

(* ------------------------------------------------------------------ assembling the cells *)
Lemma match_glob vc a p :
  wf_atom a = true -> atom_match vc a p = true -> a_op a = 6%N ->
  startswith (p_fullver p) (fullver_of a) = true.
Proof.
  intros Hwf H E. unfold atom_match, atom_restrictions in H. rewrite !forallb_app in H.
  apply andb_true_iff in H as [_ H]. apply andb_true_iff in H as [_ H]. apply andb_true_iff in H as [Hv _].
  unfold wf_atom in Hwf. apply andb_true_iff in Hwf as [Hwf _]. apply andb_true_iff in Hwf as [_ Hfv].
  unfold fullver_of. rewrite E in *. destruct (a_fullver a); cbn in *; [|discriminate].
  rewrite andb_true_r in Hv. exact Hv.
Qed.

Definition nodash (s : str) : bool := forallb (fun c => negb (N.eqb c 45)) s.

Section Complete2.
Variable vc : str -> option N -> str -> option N -> Z.
Variable okv : str -> Prop.
Hypothesis Hord : forall v1 v2 v3 r1 r2 r3, okv v1 -> okv v2 -> okv v3 ->
    (vc v1 r1 v2 r2 = (-1)%Z \/ vc v1 r1 v2 r2 = 0%Z \/ vc v1 r1 v2 r2 = 1%Z)
    /\ vc v1 r1 v1 r1 = 0%Z
    /\ vc v2 r2 v1 r1 = (- vc v1 r1 v2 r2)%Z
    /\ ((vc v1 r1 v2 r2 <= 0)%Z -> (vc v2 r2 v3 r3 <= 0)%Z -> (vc v1 r1 v3 r3 <= 0)%Z)
    /\ (vc v1 r1 v2 r2 = 0%Z -> vc v1 r1 v3 r3 = vc v2 r2 v3 r3).
Hypothesis Hshape : forall v w, exists k : option Z,
    forall r s, vc v r w s = match k with Some c => c | None => rev_cmp r s end.

(* `~t` against `=g*`, the package spelt like the `~` atom, texts of the usual shape *)
Definition tilde_glob_premise (t g : atom) (p : package) : Prop :=
  a_op t = 5%N /\ a_op g = 6%N /\ p_ver p = a_ver t /\ a_fullver t = Some (a_ver t)
  /\ (exists suf, p_fullver p = p_ver p ++ suf /\ (suf = [] \/ exists t', suf = 45%N :: t'))
  /\ (exists gs, fullver_of g = a_ver g ++ gs) /\ nodash (a_ver g) = true.

(* the operator cells covered, with the premises that exclude the recorded class
   incomplete-respelt-version (the package / the other atom is spelt like the atom whose text is
   compared as a string) *)
Definition cell_premise (a b : atom) (p : package) : Prop :=
  (a_op a = 7%N \/ a_op b = 7%N)
  \/ ((a_op a <= 5)%N /\ (a_op b <= 5)%N /\ (a_op a = 5%N -> a_op b = 5%N -> a_ver a = a_ver b)
      /\ okv (a_ver a) /\ okv (a_ver b) /\ okv (p_ver p))
  \/ (a_op a = 6%N /\ a_op b = 6%N)
  \/ (a_op a = 2%N /\ a_op b = 6%N /\ p_fullver p = fullver_of a)
  \/ (a_op b = 2%N /\ a_op a = 6%N /\ p_fullver p = fullver_of b)
  \/ tilde_glob_premise a b p \/ tilde_glob_premise b a p.

Lemma tilde_glob_cell t g p :
  wf_atom g = true -> atom_match vc g p = true -> tilde_glob_premise t g p ->
  startswith (fullver_of t) (a_ver g) = true.
Proof.
  intros Wg Mg [Et [Eg [Ev [Ef [[suf [Es Hs]] [[gs Egs] Hd]]]]]].
  pose proof (match_glob vc g p Wg Mg Eg) as H. rewrite Egs, Es in H.
  apply startswith_app_pre in H. unfold fullver_of. rewrite Ef, <- Ev.
  exact (startswith_nodash _ _ _ Hs Hd H).
Qed.

Lemma version_complete : forall a b p,
  wf5 a = true -> wf5 b = true -> a_negate_vers a = false -> a_negate_vers b = false ->
  cell_premise a b p ->
  atom_match vc a p = true -> atom_match vc b p = true ->
  version_part vc a b = true.
Proof.
  intros a b p Wa Wb Na Nb Hc Ma Mb.
  unfold wf5 in Wa, Wb. apply andb_true_iff in Wa as [Wa Ta]. apply andb_true_iff in Wb as [Wb Tb].
  destruct (match_facts vc a p Wa Na Ma) as [_ [_ [_ [_ [_ Av]]]]].
  destruct (match_facts vc b p Wb Nb Mb) as [_ [_ [_ [_ [_ Bv]]]]].
  assert (Ra : a_op a = 5%N -> a_rev a = None).
  { intro E. rewrite E in Ta. cbn in Ta. destruct (a_rev a); [discriminate|reflexivity]. }
  assert (Rb : a_op b = 5%N -> a_rev b = None).
  { intro E. rewrite E in Tb. cbn in Tb. destruct (a_rev b); [discriminate|reflexivity]. }
  destruct Hc as [[E|E]|[[La [Lb [Hsp [Oa [Ob Op]]]]]|[[Ea Eb]|[[Ea [Eb Hp]]|[[Eb [Ea Hp]]|[Htg|Htg]]]]]].
  - unfold version_part, unversioned. rewrite E. reflexivity.
  - unfold version_part, unversioned. rewrite E. cbn. rewrite orb_true_r. reflexivity.
  - (* operators among <,<=,=,>=,>,~ *)
    destruct (N.eq_dec (a_op a) 5) as [Ea|Na5]; destruct (N.eq_dec (a_op b) 5) as [Eb|Nb5].
    + unfold version_part, unversioned, has_lt, has_gt. rewrite Ea, Eb. cbn.
      rewrite (Hsp Ea Eb), str_eqb_refl, (Ra Ea), (Rb Eb). reflexivity.
    + rewrite (version_part_sym vc a b); [|intros E; rewrite Ea in E; discriminate|lia|lia].
      apply (complete_cell_tilde vc okv Hord Hshape b a (p_ver p) (p_rev p)); try assumption; try lia.
      * apply Ra; exact Ea.
      * apply Bv; lia.
      * rewrite <- Ea. apply Av; lia.
    + apply (complete_cell_tilde vc okv Hord Hshape a b (p_ver p) (p_rev p)); try assumption; try lia.
      * apply Rb; exact Eb.
      * apply Av; lia.
      * rewrite <- Eb. apply Bv; lia.
    + apply (complete_cells_ordered vc okv Hord a b (p_ver p) (p_rev p)); try assumption; try lia.
      * apply Av; lia.
      * apply Bv; lia.
  - (* =* , =* *)
    unfold version_part, unversioned, has_lt, has_gt. rewrite Ea, Eb. cbn.
    destruct (startswith_two _ _ _ (match_glob vc a p Wa Ma Ea) (match_glob vc b p Wb Mb Eb)) as [H|H];
      rewrite H; [reflexivity|apply orb_true_r].
  - (* = , =* : the package is spelt like the `=` atom *)
    unfold version_part, unversioned, has_lt, has_gt. rewrite Ea, Eb. cbn.
    rewrite <- Hp. exact (match_glob vc b p Wb Mb Eb).
  - unfold version_part, unversioned, has_lt, has_gt. rewrite Ea, Eb. cbn.
    rewrite <- Hp. exact (match_glob vc a p Wa Ma Ea).
  - (* ~ , =* *)
    pose proof (tilde_glob_cell a b p Wb Mb Htg) as H. destruct Htg as [Ea [Eb _]].
    unfold version_part, unversioned, has_lt, has_gt. rewrite Ea, Eb. cbn. exact H.
  - pose proof (tilde_glob_cell b a p Wa Ma Htg) as H. destruct Htg as [Eb [Ea _]].
    unfold version_part, unversioned, has_lt, has_gt. rewrite Ea, Eb. cbn. exact H.
Qed.

(* completeness of intersects, judged against the model's own matching *)
Lemma intersects_complete_cells_proof : forall a b p,
  wf5 a = true -> wf5 b = true -> a_negate_vers a = false -> a_negate_vers b = false ->
  (forall t toks, a_use a = Some toks -> In t toks -> valid_tok t) ->
  (forall t toks, a_use b = Some toks -> In t toks -> valid_tok t) ->
  known_use_nand a p = false -> known_use_nand b p = false ->
  cell_premise a b p ->
  atom_match vc a p = true -> atom_match vc b p = true ->
  intersects vc a b = true.
Proof.
  intros a b p Wa Wb Na Nb Va Vb Ka Kb Hc Ma Mb.
  pose proof (version_complete a b p Wa Wb Na Nb Hc Ma Mb) as Hv.
  unfold wf5 in Wa, Wb. apply andb_true_iff in Wa as [Wa _]. apply andb_true_iff in Wb as [Wb _].
  destruct (match_facts vc a p Wa Na Ma) as [Ac [Ap [As [Ass [Ar _]]]]].
  destruct (match_facts vc b p Wb Nb Mb) as [Bc [Bp [Bs [Bss [Br _]]]]].
  unfold intersects, attrs_compatible.
  rewrite (str_eqb_via _ _ _ Ac Bc), (str_eqb_via _ _ _ Ap Bp).
  rewrite (opt_eq_both_differ _ _ _ As Bs), (opt_eq_both_differ _ _ _ Ass Bss), (opt_eq_both_differ _ _ _ Ar Br).
  rewrite (use_complete vc a b p Va Vb Ma Mb Ka Kb). cbn. exact Hv.
Qed.
End Complete2.

(* ------------------------------------------------------------------ instantiated with C01 *)
From Verif Require Import C01.Spec_C01 C01.Prop_C01.

Definition cell_premise_ver_cmp := cell_premise is_version.

Lemma intersects_complete_cells_ver_cmp_proof : forall a b p,
  wf5 a = true -> wf5 b = true -> a_negate_vers a = false -> a_negate_vers b = false ->
  (forall t toks, a_use a = Some toks -> In t toks -> valid_tok t) ->
  (forall t toks, a_use b = Some toks -> In t toks -> valid_tok t) ->
  known_use_nand a p = false -> known_use_nand b p = false ->
  cell_premise is_version a b p ->
  atom_match ver_cmp a p = true -> atom_match ver_cmp b p = true ->
  intersects ver_cmp a b = true.
Proof.
  exact (intersects_complete_cells_proof ver_cmp is_version ver_cmp_total_preorder ver_cmp_shape).
Qed.

(* ------------------------------------------------------------------ non-vacuity *)
(* ~a/b-1.0 against =a/b-1*, package a/b-1.0-r1 *)
Example tilde_glob_example :
  let t := vatom 5 [49; 46; 48]%N None [49; 46; 48]%N in
  let g := vatom 6 [49]%N None [49]%N in
  let p := vpkg [49; 46; 48]%N (Some 1%N) [49; 46; 48; 45; 114; 49]%N in
  tilde_glob_premise t g p /\ wf5 t = true /\ wf5 g = true
  /\ atom_match ver_cmp t p = true /\ atom_match ver_cmp g p = true /\ intersects ver_cmp t g = true.
Proof.
  cbv zeta. split.
  - unfold tilde_glob_premise. cbn. repeat split; try reflexivity.
    + exists [45; 114; 49]%N. split; [reflexivity|right; eexists; reflexivity].
    + exists []. reflexivity.
  - repeat split; vm_compute; reflexivity.
Qed.

(* a/b[x,-y] against a/b[x(+),-z(-)] : both with USE deps, tokens valid, package USE="x" IUSE="x y" *)
Example valid_tok_examples :
  valid_tok [120]%N /\ valid_tok [45; 121]%N /\ valid_tok [120; 40; 43; 41]%N /\ valid_tok [45; 122; 40; 45; 41]%N.
Proof.
  repeat split.
  - exists None, true, 120%N, []. repeat split; cbn; discriminate.
  - exists None, false, 121%N, []. repeat split; cbn; discriminate.
  - exists (Some true), true, 120%N, []. repeat split; cbn; discriminate.
  - exists (Some false), false, 122%N, []. repeat split; cbn; discriminate.
Qed.
Example use_both_example :
  let a := use_atom [[45; 121]; [120]]%N in
  let b := use_atom [[45; 122; 40; 45; 41]; [120; 40; 43; 41]]%N in
  let p := {| p_cat := [97]%N; p_pkg := [98]%N; p_ver := [49]%N; p_rev := None; p_fullver := [49]%N;
              p_slot := [48]%N; p_subslot := [48]%N; p_repo := [103]%N; p_use := [[120]]%N;
              p_iuse := [[120]; [121]]%N |} in
  atom_match ver_cmp a p = true /\ atom_match ver_cmp b p = true
  /\ known_use_nand a p = false /\ known_use_nand b p = false /\ intersects ver_cmp a b = true.
Proof. repeat split; vm_compute; reflexivity. Qed.
