"""C19 — an interrupted merge never leaves a replaced file half-written (DESIGN §6 C19).

Stream "faults": for a random small contents set over a random pre-existing root (generator
of harness/c18.py) the real merge is first traced (harness/fsx.py, writes split into
`chunk`-byte calls), then re-run on a freshly rebuilt root once per ATTEMPTED mutating call
k with (a) a simulated crash before call k and (b) an OSError(EIO) at call k.
  (A) the tree found after each fault == Model_C18.fault_state (run of the k-prefix of the
      model's op list, plus do_link's cleanup for an EIO at its rename), compared inside Coq;
  (B) the statement, directly on the real trees: every path that existed before holds its
      complete old or its complete new content+metadata; nothing outside the set (apart from
      '#new' siblings and missing parents) is touched.
"""

from __future__ import annotations

import os
import shutil
import time

from . import c18, fsx
from .common import Check, Raw, cbool, clist, cnat, cpair

IMPORTS = ("From Coq Require Import List NArith ZArith Bool.\n"
           "From Verif Require Import Base.Val C18.Fs C18.Model_C18.")
ANCHORS = ["fs/ops.py::copyfile", "fs/ops.py::do_link", "fs/ops.py::merge_contents", "fs/ops.py::ensure_perms",
           "fs/ops.py::mkdir"]


def fresh(base, case, seed):
    shutil.rmtree(base, ignore_errors=True)
    os.makedirs(base)
    c18.build_root(base, case, seed)
    return c18.make_cset(base, case)


def node_eq(a, b, t0):
    """complete equality of content+metadata; inode numbers are not content, and a directory
    mtime at/after t0 is the kernel's bump for an entry created inside it"""
    if a is None or b is None:
        return a is b
    if a[0] != b[0]:
        return False
    def nt(x):
        return -1 if x >= t0 else x
    if a[0] == "file":
        return a[1:5] == b[1:5] and nt(a[5]) == nt(b[5])
    if a[0] == "dir":
        return a[1:4] == b[1:4] and (a[4] == b[4] or a[4] >= t0 or b[4] >= t0)
    if a[0] == "dev":
        return a[1:4] == b[1:4] and nt(a[4]) == nt(b[4]) and a[5] == b[5]
    return a[1:4] == b[1:4] and nt(a[4]) == nt(b[4])


def oracle(case, pre, final, cs, t0, final_ok):
    """deviations of one fault snapshot `cs` from the statement of C19."""
    bad = []
    ents = case["cset"]
    foot = set()
    dir_locs = set()
    for e in ents:
        raw = ("o",) + tuple(e["loc"])
        for snap in (pre, final, cs):
            for fol in (False, e["kind"] == "dir"):
                q = c18.resolve(snap, raw, fol)
                if q:
                    foot.add(q)
                    foot.add(q[:-1] + (q[-1] + "#new",))
                    if e["kind"] == "dir":
                        dir_locs.add(q)
    parents = {q[:i] for q in foot for i in range(1, len(q))}
    # the implied ancestors of every entry, INCLUDING the offset root, belong to the merge whether or not
    # the entry itself ever resolves (a merge that dies at its first nested mkdir has still created the
    # offset): they may appear - as directories - at any point after their creation.  This only excuses
    # paths that did not exist before; pre-existing paths are judged by the old-or-new loop below.
    for e in ents:
        raw = ("o",) + tuple(e["loc"])
        parents.update(raw[:i] for i in range(1, len(raw)))
    for p, a in pre.items():
        c = cs.get(p)
        f = final.get(p)
        if p[-1].endswith("#new") and p in foot:
            continue                                    # a temporary sibling
        if node_eq(c, a, t0) or (final_ok and node_eq(c, f, t0)):
            continue
        if a[0] == "dir" and c is not None and c[0] == "dir" and c[1] == a[1] and \
                (c[2], c[3]) in ((a[2], a[3]), (f[2], f[3]) if f else ()) and p in foot:
            continue                                    # dir_metadata_two_step: owner set, mtime not yet
        if p not in foot:
            cls = "frame"
            if a[0] == "file" and any(x is not None and x[0] == "file" and x[6] == a[6] and q[-1].endswith("#new")
                                      for q, x in pre.items()):
                cls = "stale-new-reused"
        elif a[0] == "sym" and p in dir_locs:
            cls = "symlink-replaced-by-directory-nonatomic"
        elif not final_ok:
            continue                                    # no complete new state to compare with
        else:
            cls = "half-written"
        bad.append((cls, {"path": p, "before": c18._short(a), "at_fault": c18._short(c), "complete_new": c18._short(f)}))
    for p, c in cs.items():
        if p in pre or p in foot or (p in parents and c[0] == "dir"):
            continue
        bad.append(("frame", {"path": p, "before": None, "at_fault": c18._short(c)}))
    return bad


KNOWN_PREDICATES = {
    "symlink-replaced-by-directory-nonatomic":
        lambda case, dev: any(e["kind"] == "dir" for e in case["cset"]),
    "stale-new-reused": c18.k_stale_new,
}


def run_faults(base, case, seed, chunk, rng, max_points):
    """returns dict(pre, final, trace, points=[(idx, k_model, eio, snap, t0, exc)])"""
    old = os.umask(c18.UMASK)
    try:
        cset = fresh(base, case, seed)
        pre = c18.snap_model(base)
        t0 = int(time.time()) - 2      # kernel timestamps use a coarse clock that may lag time.time()
        run0 = fsx.record(c18.merge_fn(base, case, cset), base, chunk=chunk)
        final = c18.snap_model(base)
        ops0 = c18.trace_ops(run0.trace)
        idxs = list(range(len(run0.trace)))
        if len(idxs) > max_points:
            idxs = sorted(rng.sample(idxs, max_points))
        points = []
        for idx in idxs:
            kmodel = sum(1 for c in run0.trace[:idx] if c.ok)
            for mode in ("crash", "eio"):
                cset = fresh(base, case, seed)
                t1 = int(time.time()) - 2
                r = fsx.run_with_fault(c18.merge_fn(base, case, cset), base, idx, mode, chunk=chunk)
                snap = c18.snap_model(base)
                # only a failed rename has cleanup code behind it (do_link unlinks its '#new')
                eio_flag = mode == "eio" and run0.trace[idx].kind == "rename"
                points.append({"idx": idx, "k": kmodel, "mode": mode, "eio": eio_flag, "snap": snap, "t0": min(t0, t1),
                               "exc": type(r.exc).__name__ if r.exc is not None else None,
                               "call": repr(run0.trace[idx]), "kind": run0.trace[idx].kind})
    finally:
        os.umask(old)
    return {"pre": pre, "final": final, "t0": t0, "trace": run0.trace, "ops": ops0, "points": points,
            "err": c18.exc_kind(run0.exc)}


def own_corpus():
    import json
    from .common import VERIF
    cdir = VERIF / "corpus" / "C19"
    return [c18._case_unjson(json.loads(f.read_text())) for f in sorted(cdir.glob("*.json"))] if cdir.is_dir() else []


def main(chk: Check):
    root_user = os.getuid() == 0
    chk.rule("random small contents sets over random pre-existing roots (generator of C18: same/other-type "
             "entries, dangling and directory symlinks, stale '#new' files, hard-link groups); EVERY attempted "
             "mutating call of the real merge (open/create, each write chunk of 1-3 bytes, rename, chmod, lchown, "
             "utime, link, symlink, unlink, mkdir, mkfifo, mknod) is a crash point and an EIO point; non-trivial = "
             "the fault lands between the creation of a '#new' sibling and its rename")
    ok = chk.build(["C19/Prop_C19.vo"])
    if ok:
        chk.check_assumptions("C19/Prop_C19.v")
    chk.lint(["C18", "C19"])
    chk.check_fingerprint(ANCHORS)
    chk.note("partial: a completed call is assumed durable (no page-cache loss / reordering of a real power cut); "
             "kernel semantics as in C18")
    ncases = int(os.environ.get("VERIF_C19_CASES", 0)) or chk.n(12, 150)   # env: self-test budget override
    max_points = chk.n(24, 60)
    work = chk.scratch / "c19"
    work.mkdir()
    rows, metas = [], []
    kinds = {}
    npoints = 0
    prop_bad = []
    todo = own_corpus() + c18.corpus_cases(chk) + [None] * ncases       # pinned shapes first
    for i, case in enumerate(todo):
        if case is None:
            case = c18.gen_case(chk.rng, root_user)
        for e in case["cset"]:
            if e["kind"] == "file" and len(e["data"]) > 7:
                e["data"] = e["data"][:7]
        chunk = chk.rng.choice([1, 1, 2, 3])
        base = str(work / f"k{i}")
        res = run_faults(base, case, i, chunk, chk.rng, max_points)
        shutil.rmtree(base, ignore_errors=True)
        if res["ops"] is None:
            continue
        for _, what in case["pre"]:
            if what.startswith("file-same") or what.startswith("file-setid"):
                kinds["replaced:" + what] = kinds.get("replaced:" + what, 0) + 1
        pts = []
        in_new = set()
        # indices of successful calls lying between a '#new' creation and its rename
        open_new = 0
        for j, c in enumerate(res["trace"]):
            if open_new and c.ok:
                in_new.add(j)
            if c.ok and c.kind in ("create", "symlink", "mkfifo", "mknod", "link") and c.args[-1 if c.kind in ("symlink", "link") else 0].endswith("#new"):
                open_new += 1
            if c.ok and c.kind == "rename" and c.args[0].endswith("#new"):
                open_new = max(0, open_new - 1)
        for pt in res["points"]:
            npoints += 1
            kinds[pt["mode"] + ":" + pt["kind"]] = kinds.get(pt["mode"] + ":" + pt["kind"], 0) + 1
            pts.append(cpair(cnat(pt["k"]), cbool(pt["eio"]), c18.c_fs(pt["snap"], pt["t0"])))
            if pt["idx"] in in_new:
                chk.nontrivial((i, pt["idx"], pt["mode"]))
            for cls, dev in oracle(case, res["pre"], res["final"], pt["snap"], pt["t0"], res["err"] is None):
                pred = KNOWN_PREDICATES.get(cls)
                ex = {"case": c18._case_json(case), "fault": pt["mode"], "at_call": pt["call"], "deviation": dev}
                if pred is not None and pred(case, dev) and chk.known_finding(cls, ex):
                    continue
                prop_bad.append((cls, ex))
        term = cpair(c18.c_input(case, res["pre"]),
                     "{| f_chunk := %s; f_points := %s |}" % (cnat(chunk), clist(pts, "nat * bool * fs")))
        rows.append((term, []))
        metas.append((case, res, chunk))
    chk.count("faults", npoints)
    chk.cov["merge_cases"] = len(rows)
    chk.cov["histogram"] = dict(sorted(kinds.items()))
    if metas:
        case, res, chunk = metas[0]
        chk.sample({"cset": c18._case_json(case)["cset"], "chunk": chunk,
                    "calls": [repr(c) for c in res["trace"]][:14], "points": len(res["points"])})
    for cls, ex in prop_bad[:3]:
        chk.violation("property", {"what": f"after a fault a pre-existing path is neither complete-old nor "
                                           f"complete-new, or an outside path changed: {cls}", "input": ex})
    if ok and rows:
        r = chk.coq_eval("faults", IMPORTS, "minput * fobs", rows, ["mismatches run_faults cases"], shard=4)
        if r is not None:
            for i in r[0][:3]:
                case, res, chunk = metas[i]
                chk.violation("correspondence",
                              {"what": "the tree left by a fault differs from Model_C18.fault_state "
                                       "(theorems of Prop_C19 no longer speak about this code)",
                               "input": c18._case_json(case), "chunk": chunk,
                               "calls": [repr(c) for c in res["trace"]]},
                              no_input=not prop_bad)


def replay(chk, data):
    ex = data.get("detail", {}).get("input")
    if not ex:
        print("no input recorded")
        return
    case = c18._case_unjson(ex.get("case", ex))
    import random
    res = run_faults(str(chk.scratch / "replay"), case, 0, data.get("detail", {}).get("chunk", 1), random.Random(0), 500)
    for pt in res["points"]:
        devs = oracle(case, res["pre"], res["final"], pt["snap"], pt["t0"], res["err"] is None)
        print(pt["mode"], pt["idx"], pt["call"], pt["exc"], [c for c, _ in devs])
