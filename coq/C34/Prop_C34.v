(* Prop_C34.v — the property theorems of C34 and nothing else. *)
From Coq Require Import List NArith ZArith Bool.
Import ListNotations.
From Verif Require Import Base.Val C34.Model_C34 C34.Spec_C34 C34.Proofs_C34.

Theorem slice_app_t : forall a s : str, slice (a ++ s) s = a.
Proof. exact slice_app. Qed.
Print Assumptions slice_app_t.
