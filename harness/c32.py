"""C32 — every IPC helper request gets exactly one truthful reply (DESIGN §6 C32).

Implementation driver
  A request stream (bytes, exactly what the bash side's `__ebd_ipc_cmd` writes) is fed to the REAL
  `EbuildProcessor.generic_handler` loop of a processor object whose pipes are in-memory files,
  inside the REAL `ebd.run_generic_phase` (so the `except IpcError: ebd.write(e.ret)` part runs as
  well); the helper objects are the real `ebd_ipc` classes over a fake `op` (ED = scratch image).
  Observed: the bytes written back, how many request bytes were consumed, the exception kind that
  left run_generic_phase, the final image tree.

Streams
  shlex    shlex.split (options line, --insoptions value)           impl vs Model_C32.shlex_split
  enc      IpcCommand._encode_ret / IpcError.ret on random values   impl vs Model_C32.encode_*      (A)
                                                                    + Spec_C32.spec_reply_ok        (B)
  sess     scripted sessions of 1-4 requests, every helper class    impl vs Model_C32.run_session   (A)
           (install family over a scratch tree with pre-populated   + Spec_C32.spec_session_ok      (B)
           image, forced fallback to install(1) - scripted or real -
           injected OSErrors, malformed options/arguments; the
           query/alter/eapply/unpack helpers through their own error paths)
  bashrd   real bash `__ebd_read_array`+`__ipc_exit` on reply lines impl(bash) vs Model_C32.bash_ipc_exit
  bashrt   real bash `__ebd_ipc_cmd` <-> real python handler over a pipe pair (round trip)
"""

import io
import os
import shlex
import shutil
import stat
import subprocess
import sys
import tempfile

from .common import REPO, VERIF, Check, Err, Raw, cN, cZ, cbool, clist, cnat, copt, cpair, cstr, cval, impl_call

IMPORTS = ("From Coq Require Import List NArith ZArith Bool.\n"
           "From Verif Require Import Base.Val C32.Model_C32 C32.Spec_C32.")
ANCHORS = ["ebuild/ebd_ipc.py::IpcError", "ebuild/ebd_ipc.py::IpcCommand", "ebuild/ebd_ipc.py::IpcArgumentParser",
           "ebuild/ebd_ipc.py::_InstallWrapper", "ebuild/ebd_ipc.py::Dodir", "ebuild/ebd_ipc.py::_AlterFiles",
           "ebuild/ebd_ipc.py::Has_Version", "ebuild/ebd_ipc.py::Eapply", "ebuild/ebd_ipc.py::Unpack",
           "ebuild/ebd.py::run_generic_phase", "ebuild/processor.py::EbuildProcessor.generic_handler",
           "ebuild/processor.py::EbuildProcessor.write", "ebuild/processor.py::EbuildProcessor.readlines"]
BASH_LIB = REPO / "data" / "lib" / "pkgcore" / "ebd" / "ebuild-daemon-lib.bash"


# ------------------------------------------------------------------ fakes around the real code
class Obs:
    def __init__(self):
        self.msgs = []

    def warn(self, m):
        self.msgs.append(("warn", m))

    def write(self, m, **kw):
        self.msgs.append(("write", m))

    def info(self, m):
        self.msgs.append(("info", m))

    def flush(self):
        pass


class Domain:
    def __init__(self, installed, root="/"):
        from pkgcore.test.misc import FakeRepo
        self.all_installed_repos = FakeRepo(installed)
        self.root = root


class Op:
    def __init__(self, pkg, ED, env=None, domain=None):
        self.pkg = pkg
        self.ED = ED
        self.observer = Obs()
        self.env = env or {}
        self.userpriv = False
        self.domain = domain
        self._ipc_helpers = {}


class Wire(io.StringIO):
    """python -> bash pipe; keeps what was written even after close()"""

    def close(self):
        pass


def make_processor(request_bytes):
    from pkgcore.ebuild import processor

    class FakeProcessor(processor.EbuildProcessor):
        def __init__(self, data):  # no daemon is spawned
            self._outstanding_expects = []
            self.pid = None
            self.processing_lock = False
            self.ebd_read = io.BytesIO(data)
            self.ebd_write = Wire()
            self.shutdowns = []
            self.userpriv = False
            self.sandbox = False

        def run_phase(self, phase, env, tmpdir=None, logging=None, additional_commands=None, sandbox=None):
            return self.generic_handler(additional_commands=additional_commands)

        def shutdown_processor(self, force=False, ignore_keyboard_interrupt=False):
            self.shutdowns.append(force)

    return FakeProcessor(request_bytes)


def run_stream(helpers, request_bytes, pkg):
    """feed a request stream through run_generic_phase; -> (wire text, consumed bytes, exception kind, shutdowns)"""
    from pkgcore.ebuild import ebd as ebd_mod

    proc = make_processor(request_bytes)
    saved = ebd_mod.request_ebuild_processor, ebd_mod.release_ebuild_processor
    ebd_mod.request_ebuild_processor = lambda **kw: proc
    ebd_mod.release_ebuild_processor = lambda p: True
    exc = None
    cwd = os.getcwd()
    try:
        try:
            ebd_mod.run_generic_phase(pkg, "install", {"T": None}, False, False, extra_handlers=helpers)
        except BaseException as e:  # noqa: BLE001 - the kind is the observation
            exc = e
    finally:
        ebd_mod.request_ebuild_processor, ebd_mod.release_ebuild_processor = saved
        os.chdir(cwd)
    return proc.ebd_write.getvalue(), proc.ebd_read.tell(), exc, proc.shutdowns


def bash_request(cmd, nonfatal, cwd, phase, opts, args):
    """the bytes `__ebd_ipc_cmd cmd opts args...` writes for tame strings (checked against the real
    bash function in stream bashrt)"""
    b = "\n".join([cmd, "true" if nonfatal else "false", cwd, phase, opts]) + "\n"
    b += ("".join(a + "\0" for a in args) if args else "\0") + "\n"
    return b.encode()


# ------------------------------------------------------------------ literals
def esc(s):
    """text -> \\hh-escaped ASCII (see Model_C32.unesc); separators and quotes are escaped too"""
    out = []
    for ch in (s if isinstance(s, bytes) else s.encode("latin-1")):
        c = chr(ch)
        if 32 <= ch < 127 and c not in '\\"@;=,':
            out.append(c)
        else:
            out.append("\\%02x" % ch)
    return "".join(out)


def bs(txt):
    assert '"' not in txt
    return '"' + txt + '"%bs'


def vt(s):
    return Raw("(VT " + bs(esc(s)) + ")")


def rval(x):
    """python value -> val term, strings as VT literals"""
    if isinstance(x, str):
        return "(VT " + bs(esc(x)) + ")"
    if isinstance(x, (list, tuple)):
        return "(VL " + clist([rval(i) for i in x], "val") + ")"
    return cval(x)


# ------------------------------------------------------------------ scenario machinery
HELPERS = {  # command -> (class name, model code)
    "doexe": ("Doexe", "i"), "dolib.so": ("Dolib_so", "i"), "doins": ("Doins", "r"), "dodoc": ("Dodoc", "d"),
    "doinfo": ("Doinfo", "n"), "dodir": ("Dodir", "D"), "docompress": ("Docompress", "A"),
    "dostrip": ("Dostrip", "A"), "has_version": ("Has_Version", "H"), "best_version": ("Best_Version", "B"),
    "eapply": ("Eapply", "E"), "keepdir": ("Keepdir", "K"),
}
ENV_CMD = "c32env"     # pseudo-helper: the EBUILD changing the image between two helper calls
STUB = ".keep_cat_pn-0"
INSTALL_FAMILY = ("doexe", "dolib.so", "doins", "dodoc", "doinfo")
K_MAKEDIRS, K_STAT, K_UNLINK, K_COPY, K_CHMOD = range(5)
ERRNOS = (5, 13, 28)
ATOMS = {"cat/a": "cat/a-1.0", "cat/b": None, "dev-lang/x": "dev-lang/x-2.1-r1", ">=cat/a-0.5": "cat/a-1.0"}
STDERR_LINES = ["install: invalid mode 'u=zzz'", "Try 'install --help' for more information.",
                "install: cannot create regular file: Permission denied", "", "patch: **** malformed patch at line 3",
                "1 out of 1 hunk FAILED", "back\\slash\\", "bell\x07inside"]


class Faults:
    """persistent injected OSErrors on the primitives ebd_ipc calls, selected by (kind, basename)"""

    def __init__(self, top, faults):
        self.top = top
        self.faults = {}
        for k, e, b in faults:                 # the first fault listed for a (kind, basename) wins
            self.faults.setdefault((k, b), e)
        self.depth = 0

    def _hit(self, kind, path):
        p = os.fspath(path)
        if not isinstance(p, str):
            return None
        if os.path.isabs(p) and not p.startswith(self.top):
            return None
        return self.faults.get((kind, os.path.basename(p)))

    def __enter__(self):
        self.saved = (os.makedirs, os.stat, os.unlink, shutil.copyfile, os.chmod)
        o_makedirs, o_stat, o_unlink, o_copyfile, o_chmod = self.saved
        me = self

        def wrap(kind, orig, outer_only=False):
            def f(path, *a, **kw):
                if outer_only and me.depth:
                    return orig(path, *a, **kw)
                e = me._hit(kind, path)
                if e is not None:
                    raise OSError(e, os.strerror(e), os.fspath(path))
                if not outer_only:
                    return orig(path, *a, **kw)
                me.depth += 1
                try:
                    return orig(path, *a, **kw)
                finally:
                    me.depth -= 1
            return f

        def copyfile(src, dst, *a, **kw):
            e = me._hit(K_COPY, dst)
            if e is not None:
                raise OSError(e, os.strerror(e), os.fspath(dst))
            return o_copyfile(src, dst, *a, **kw)

        if self.faults:
            os.makedirs = wrap(K_MAKEDIRS, o_makedirs, outer_only=True)
            os.stat = wrap(K_STAT, o_stat)
            os.unlink = wrap(K_UNLINK, o_unlink)
            os.chmod = wrap(K_CHMOD, o_chmod)
            shutil.copyfile = copyfile
        return self

    def __exit__(self, *exc):
        os.makedirs, os.stat, os.unlink, shutil.copyfile, os.chmod = self.saved
        return False


SYM_MODES = {"u=rwx,go=rx": 0o755, "u=rw,go=r": 0o644, "a=r": 0o444}


def emulate_install(argv):
    """what GNU install(1) does for the argument shapes the generator produces (regular files, known
    modes); None when the shape is not covered (then the real command is run).  Spawning the real
    command costs ~0.5 s on the loaded build host; a share of the calls still uses it, and both
    are compared with the same model."""
    words = argv[1:]
    mode, ops, dirs, i = 0o755, [], False, 0
    while i < len(words):
        t = words[i]
        if t == "-d":
            dirs = True
        elif t == "-m" or (t.startswith("-m") and len(t) > 2):
            v = words[i + 1] if t == "-m" else t[2:]
            i += 1 if t == "-m" else 0
            if v in SYM_MODES:
                mode = SYM_MODES[v]
            elif v and all(c in "01234567" for c in v):
                mode = int(v, 8)
            else:
                return None
        elif t in ("-C", "-p"):
            pass
        elif t.startswith("-"):
            return None
        else:
            ops.append(t)
        i += 1
    if dirs:
        for d in ops:
            head = d
            missing = []
            while head and not os.path.lexists(head):
                missing.append(head)
                head = os.path.dirname(head)
            if not os.path.isdir(head):
                return None
        for d in ops:
            os.makedirs(d, mode=0o755, exist_ok=True)
            os.chmod(d, mode)
        return 0, []
    if len(ops) < 2:
        return None
    dest = ops[-1]
    for src in ops[:-1]:
        if not os.path.isfile(src) or os.path.islink(src):
            return None
    if not os.path.isdir(os.path.dirname(dest)):
        return None
    for src in ops[:-1]:
        target = os.path.join(dest, os.path.basename(src)) if os.path.isdir(dest) else dest
        if os.path.isdir(target):
            return None
        if os.path.lexists(target):
            os.unlink(target)
        shutil.copyfile(src, target)
        os.chmod(target, mode)
    return 0, []


class ExtOracle:
    """stands in for snakeoil's spawn_get_output inside ebd_ipc: every call takes the next plan entry:
    ("real",) runs the command for real, ("say", status, lines) answers without running anything"""

    def __init__(self, plan, real, emulate_ok=True):
        self.plan = list(plan)
        self.real = real
        self.emulate_ok = emulate_ok
        self.answers = []
        self.calls = []
        self.was_real_status = []
        self.real_spawns = 0

    def __call__(self, command, **kw):
        self.calls.append(list(command))
        if not self.plan:
            step = ("say", 0, [])
        else:
            step = self.plan.pop(0)
        if command[0] != "install":
            if step[0] in ("real", "emul"):     # never run patch(1)/anything else for real
                step = ("say", 0, [])
        elif step[0] == "say" and step[1] == 0:
            step = ("emul",)                    # an install(1) that "succeeds" has to do its work
        emu = None
        if step[0] == "emul":
            # (with injected Python-level faults active the emulation would be hit by them)
            emu = emulate_install(list(command)) if self.emulate_ok else None
            step = ("real",)
        if emu is not None:
            ret, out = emu
            self.was_real_status.append((ret, True))
        elif step[0] == "real":
            kw.pop("fd_pipes", None)
            ret, out = self.real(command, **kw)
            out = [l[:-1] if l.endswith("\n") else l for l in out]
            self.was_real_status.append((ret, True))
            self.real_spawns += 1
        else:
            ret, out = step[1], list(step[2])
        self.answers.append((ret, out))
        return ret, [l + "\n" for l in out]


def snapshot(ED):
    ents = []
    for root, dirs, files in os.walk(ED):
        for n in dirs + files:
            p = os.path.join(root, n)
            rel = os.path.relpath(p, ED)
            st = os.lstat(p)
            if stat.S_ISDIR(st.st_mode):
                ents.append(f"{rel}=d{stat.S_IMODE(st.st_mode)}")
            elif stat.S_ISREG(st.st_mode):
                try:
                    with open(p) as f:
                        t = f.read()
                    cid = int(t[8:]) if t.startswith("content-") else 0
                except (OSError, ValueError):
                    cid = 0
                ents.append(f"{rel}=f{cid},{stat.S_IMODE(st.st_mode)}")
            else:
                ents.append(f"{rel}=x")
    return sorted(ents)


class World:
    """one session: scratch tree + the same facts as a Model_C32 world"""

    # name -> content id | "dir" (empty directory) | {file name: content id} (directory with regular files)
    SRC = {"a": 1, "b": 2, "c": 3, "e.1": 4, "d": "dir", "dd": {"x": 5}}

    def __init__(self, chk, top, pre, plan, faults, eapi="7"):
        from pkgcore.ebuild import ebd_ipc
        from pkgcore.test.misc import FakePkg

        self.ebd_ipc = ebd_ipc
        self.top = top
        self.src = os.path.join(top, "s")
        self.ED = os.path.join(top, "i")
        os.makedirs(self.src)
        os.makedirs(self.ED)
        for n, v in self.SRC.items():
            p = os.path.join(self.src, n)
            if v == "dir":
                os.mkdir(p)
            elif isinstance(v, dict):
                os.mkdir(p)
                for kn, kv in v.items():
                    with open(os.path.join(p, kn), "w") as f:
                        f.write(f"content-{kv}")
            else:
                with open(p, "w") as f:
                    f.write(f"content-{v}")
        for rel, kind in pre:  # pre-populated image
            p = os.path.join(self.ED, rel)
            if kind == "d":
                os.makedirs(p, exist_ok=True)
            else:
                os.makedirs(os.path.dirname(p), exist_ok=True)
                with open(p, "w") as f:
                    f.write(f"content-{kind}")
        self.pre = snapshot(self.ED)
        self.faults = list(faults)
        self.plan = list(plan)
        self.pkg = FakePkg("cat/pn-1.0", eapi=eapi, slot="0")
        installed = [FakePkg(v) for v in sorted({v for v in ATOMS.values() if v})]
        self.op = Op(self.pkg, self.ED, env={"EROOT": "/", "ROOT": "/", "EPREFIX": "", "T": top},
                     domain=Domain(installed))
        self.helpers = {cmd: getattr(ebd_ipc, cls)(self.op) for cmd, (cls, _) in HELPERS.items()}
        self.op._ipc_helpers = self.helpers
        ED = self.ED

        class EnvCmd(ebd_ipc.IpcCommand):
            """what an ebuild does between helper calls: rmtree/mkdir PATH, mkfile PATH CID (below ED)"""

            def run(self, args):
                op, rel = args[0], args[1]
                p = os.path.join(ED, rel.strip("/"))
                anc = os.path.dirname(p)
                while len(anc) > len(ED):
                    if os.path.lexists(anc) and not os.path.isdir(anc):
                        if op != "rmtree":
                            return          # a regular file sits on the way: nothing happens
                    anc = os.path.dirname(anc)
                if os.path.isdir(p) and not os.path.islink(p):
                    if op != "mkdir":
                        shutil.rmtree(p)
                elif os.path.lexists(p):
                    os.unlink(p)
                if op == "mkdir":
                    os.makedirs(p, exist_ok=True)
                elif op == "mkfile":
                    os.makedirs(os.path.dirname(p), exist_ok=True)
                    with open(p, "w") as f:
                        f.write(f"content-{args[2]}")

        self.snaps = []          # the image after every request served (long-lived helper objects!)

        def observed(h):
            def call(ebd, *a):
                try:
                    return h(ebd, *a)
                finally:
                    self.snaps.append(snapshot(ED))
            return call

        self.handlers = {cmd: observed(h) for cmd, h in self.helpers.items()}
        self.handlers[ENV_CMD] = observed(EnvCmd(self.op))

    def run(self, down):
        oracle = ExtOracle(self.plan, self.ebd_ipc.spawn.spawn_get_output, emulate_ok=not self.faults)
        saved = self.ebd_ipc.spawn.spawn_get_output
        self.ebd_ipc.spawn.spawn_get_output = oracle
        old = os.umask(0o022)
        try:
            with Faults(self.top, self.faults):
                wire, consumed, exc, shutdowns = run_stream(self.handlers, down, self.pkg)
        finally:
            os.umask(old)
            self.ebd_ipc.spawn.spawn_get_output = saved
        self.oracle = oracle
        snap = snapshot(self.ED) if self.image_comparable() else []
        return wire, consumed, classify_end(exc, shutdowns, self.ebd_ipc), snap, len(oracle.plan)

    def _src_entries(self):
        out = []
        for n, v in self.SRC.items():
            if v == "dir":
                out.append(f"{esc(n)}=d")
            elif isinstance(v, dict):
                out.append(f"{esc(n)}=d:" + ",".join(esc(k) for k in v))
                out.extend(f"{esc(n + '/' + k)}=f{c}" for k, c in v.items())
            else:
                out.append(f"{esc(n)}=f{v}")
        return out

    def image_comparable(self):
        """a REAL external command that failed may have done part of its work (install -d a b c):
        the model knows nothing about that, so the final image is not compared in such a session"""
        return not any(st != 0 for st, real in self.oracle.was_real_status)

    def case_term(self, down):
        """the session as ONE literal (Model_C32.dec_session); call after run() (needs the answers)"""
        answers = list(self.oracle.answers) + [(0, [])] * len(self.oracle.plan)
        parts = [
            esc(self.ED), esc(self.src),
            ";".join([f"{esc(cmd)}={code}" for cmd, (_, code) in HELPERS.items()] + [ENV_CMD + "=V"]),
            ";".join(self._src_entries()),
            ";".join(esc(e.split("=")[0]) + "=" + e.split("=")[1].replace(",", ",") for e in self.pre),
            ";".join(",".join([str(st)] + [esc(l) for l in ls]) for st, ls in answers),
            ";".join(f"{k},{e},{esc(b)}" for k, e, b in self.faults),
            ";".join(f"{esc(a)}=" + ("+" + esc(v) if v else "-") for a, v in ATOMS.items()),
            esc(down),
            "t" if self.image_comparable() else "f",
        ]
        return bs("@".join(parts))


def classify_end(exc, shutdowns, ebd_ipc):
    from pkgcore.ebuild import processor
    from pkgcore.operations import format as fmt

    if exc is None:
        return "finished"
    if shutdowns == [True]:
        return "internal"
    cause = exc.__cause__
    if isinstance(exc, processor.ProcessorError):
        return "phasefailed"
    if isinstance(exc, fmt.GenericBuildError):
        if isinstance(cause, ebd_ipc.IpcCommandError):
            return "fatal"
        if isinstance(cause, processor.UnhandledCommand):
            return "unhandled"
        if isinstance(cause, processor.InternalError):
            return "empty"
        return "crash"
    return "other:" + type(exc).__name__


# ------------------------------------------------------------------ session generator
PRE_CHOICES = [
    [], [], [],
    [("usr", 7)],                       # a FILE where a directory is needed
    [("usr/a", "d")],                   # a DIRECTORY where a file goes
    [("usr/b", 9), ("usr/share", "d")],  # an older file to overwrite
    [("x", 8), ("usr/lib", "d")],
    [("usr/share/doc", "d"), ("usr/c", "d")],
]
DESTS = ["/usr", "/usr", "/usr/share", "/", "/usr/lib/q", "usr", "/x/y", "/opt"]
INSOPTS_OK = ["-m0644", "-m0755", "-m 0600", "--mode=0700", "-p", "-m0640 -p", "-m755", "'-m 0600'"]
INSOPTS_FALLBACK = ["-m u=rwx,go=rx", "-m0644 -C", "-m a=r", "-m u=rw,go=r -C", "-C"]
INSOPTS_FALLBACK_FAIL = ["-m u=zzz", "-m0648", "-m g=q"]
REAL_SHARE = 0.1      # share of forced-fallback requests that spawn the real install(1)
UNKNOWN_OPTS = ["--bogus=1", "extra", "-q", "--xdest=/a", "it's", 'say "hi"', "tab\\tx"]


def quote_opts(opts):
    """the options line as the wrappers' "${OPTIONS[*]}" would carry it: one shell-quoted word each"""
    return " ".join(shlex.quote(o) if any(ch in o for ch in " '\"\\\t") else o for o in opts)


def gen_request(rng, w_plan, flavour):
    """-> (cmd, nonfatal, cwd_ok, opts, args, extra) ; may append to the oracle plan"""
    nonfatal = rng.random() < 0.8
    names = ["a", "b", "c", "e.1"]
    if flavour in ("query",):
        cmd = rng.choice(["has_version", "best_version"])
        r = rng.random()
        args = [rng.choice(list(ATOMS))] if r < 0.75 else ([] if r < 0.85 else [rng.choice(list(ATOMS)), "zz", "y'y"])
        return cmd, nonfatal, "", args
    if flavour == "alter":
        cmd = rng.choice(["docompress", "dostrip"])
        args = rng.choice([["/usr/share/doc"], ["-x", "/a", "/b"], [], ["-x"], ["/a"]])
        return cmd, nonfatal, rng.choice(["", "--whatever=1", "--dest=/q"]), args
    if flavour == "eapply":
        args = rng.sample(names, rng.randint(1, 3)) if rng.random() < 0.85 else rng.choice([[], ["zz"], ["a", "q q"]])
        if args and all(a in names for a in args):
            for _ in args:      # patch(1) is scripted; eapply stops at the first failing patch
                r = rng.random()
                if r < 0.6:
                    w_plan.append(("say", 0, []))
                    continue
                if r < 0.9:
                    w_plan.append(("say", rng.choice([1, 2]), rng.sample(STDERR_LINES, rng.randint(1, 3))))
                else:
                    w_plan.append(("say", 1, []))
                break
        return "eapply", nonfatal, "", args
    if flavour == "dodir":
        opts = []
        r = rng.random()
        if r < 0.25:
            opts.append("--diroptions=" + rng.choice(["-m0700", "-m 0750", "-m0755"]))
        elif r < 0.45:
            opts.append("--diroptions=" + rng.choice(["-m u=rwx,go=rx", "-m a=r"]))
            w_plan.append(("real",) if rng.random() < REAL_SHARE else ("emul",))
        elif r < 0.6:
            opts.append("--diroptions=" + rng.choice(["-m u=zzz", "-m0799"]))
            w_plan.append(("real",) if rng.random() < REAL_SHARE else
                          ("say", rng.choice([1, 2, 256]), rng.sample(STDERR_LINES, rng.randint(0, 3))))
        if rng.random() < 0.1:
            opts.append(rng.choice(UNKNOWN_OPTS))
        args = rng.sample(["/x/y", "z", "/usr/share/doc", "usr/a/b", "/usr", "/opt/q/r"], rng.randint(1, 3))
        if rng.random() < 0.08:
            args = []
        cmd = rng.choice(["dodir", "dodir", "keepdir"])
        if cmd == "keepdir" and rng.random() < 0.1:
            opts.append("--dest=/usr")        # the stub path ignores --dest
        return cmd, nonfatal, quote_opts(opts), args
    if flavour == "recursive_fallback":
        # -r + a directory + options that force install(1): the directory walk has to go through the
        # installers selected for THIS request (install -d for the directory, install for its files)
        cmd = rng.choice(["doins", "dodoc"])
        opts = ["--dest=" + rng.choice(DESTS)] if rng.random() < 0.9 else []
        which = rng.choice(["ins", "dir", "both"])
        if which in ("ins", "both"):
            opts.append("--insoptions=" + rng.choice(INSOPTS_FALLBACK + ["-S", "-m0644 --bogus", "-m u=rwx,go=rx"]))
        if which in ("dir", "both"):
            opts.append("--diroptions=" + rng.choice(["-m u=rwx,go=rx", "-m a=r", "-v -m0700", "-m0755 -Z"]))
        args = ["-r", rng.choice(["dd", "dd", "d"])] + rng.sample(names, rng.randint(0, 2))
        if rng.random() < 0.3:
            args.append(args.pop(0))          # -r at the end
        r = rng.random()
        ncalls = 4
        if r < 0.45:
            for _ in range(ncalls):
                w_plan.append(("real",) if rng.random() < REAL_SHARE else ("emul",))
        elif r < 0.85:
            k = rng.randrange(3)
            for _ in range(k):
                w_plan.append(("emul",))
            w_plan.append(("say", rng.choice([1, 2, 127, 256]), rng.sample(STDERR_LINES, rng.randint(0, 3))))
        else:
            w_plan.append(("real",))
        rng.shuffle(opts)
        return cmd, nonfatal, quote_opts(opts), args
    # install family
    cmd = rng.choice(INSTALL_FAMILY)
    opts = ["--dest=" + rng.choice(DESTS)] if rng.random() < 0.9 else []
    n = rng.randint(1, 3)
    args = rng.sample(names, n)
    if flavour == "fallback":
        opts.append("--insoptions=" + rng.choice(INSOPTS_FALLBACK))
        real = rng.random() < REAL_SHARE
        for _ in range(len(set(args))):
            w_plan.append(("real",) if real else ("emul",))
    elif flavour == "fallback_fail":
        r = rng.random()
        if r < REAL_SHARE:
            opts.append("--insoptions=" + rng.choice(INSOPTS_FALLBACK_FAIL))
            w_plan.append(("real",))
        else:
            opts.append("--insoptions=" + rng.choice(INSOPTS_FALLBACK))
            k = rng.randrange(len(args))
            for _ in range(k):
                w_plan.append(("emul",))
            w_plan.append(("say", rng.choice([1, 2, 256, 127]), rng.sample(STDERR_LINES, rng.randint(0, 3))))
    elif rng.random() < 0.4:
        opts.append("--insoptions=" + rng.choice(INSOPTS_OK))
    if rng.random() < 0.3:
        opts.append("--diroptions=" + rng.choice(["-m0700", "-m0711"]))
    if flavour == "malformed":
        r = rng.random()
        if r < 0.3:
            opts += rng.sample(UNKNOWN_OPTS, rng.randint(1, 2))
        elif r < 0.5:
            args = []
        elif r < 0.8:
            args.insert(rng.randrange(len(args) + 1), rng.choice(["zz", "-z", "no such", "q'q", 'w"w', "nl\\n"]))
        else:
            args = ["-r"] if cmd in ("doins", "dodoc") else []
    else:
        if rng.random() < 0.35:
            args.insert(rng.randrange(len(args) + 1), rng.choice(["d", "dd"]))
        if rng.random() < 0.3:
            args.insert(rng.choice([0, len(args)]), "-r")
        if rng.random() < 0.1:
            args.append(args[0])
    rng.shuffle(opts)
    return cmd, nonfatal, quote_opts(opts), args


def env_request_for(rng, req):
    """an image change aimed at something `req` (probably) created"""
    cmd, _, opts, args = req
    try:
        toks = shlex.split(opts)
    except ValueError:
        return None
    dest = "/"
    for t in toks:
        if t.startswith("--dest="):
            dest = t[7:]
    names = [a for a in args if a != "-r" and "\n" not in a and not a.startswith("-")]
    if not names:
        return None
    a = rng.choice(names)
    rel = os.path.normpath(os.path.join(dest.lstrip("/"), a.lstrip("/")))
    if rel in (".", "") or rel.startswith(".."):
        return None
    comps_ = rel.split("/")
    target = "/".join(comps_[: rng.randint(1, len(comps_))])
    r = rng.random()
    if r < 0.7:
        return (ENV_CMD, True, "", ["rmtree", target])
    if r < 0.85:
        return (ENV_CMD, True, "", ["mkfile", target, "9"])
    return (ENV_CMD, True, "", ["mkdir", target])


def gen_session(rng, chk_scratch, idx):
    """build the scratch world + the request stream; -> (World, down bytes, meta)"""
    top = os.path.join(chk_scratch, f"w{idx}")
    pre = rng.choice(PRE_CHOICES)
    plan = []
    faults = []
    reqs = []
    n = rng.choice([1, 1, 2, 2, 3, 4])
    flav_list = []
    for _ in range(n):
        flavour = rng.choices(
            ["plain", "fallback", "fallback_fail", "malformed", "dodir", "alter", "query", "eapply", "recursive_fallback"],
            [28, 10, 10, 13, 11, 4, 8, 8, 8])[0]
        flav_list.append(flavour)
        reqs.append(gen_request(rng, plan, flavour))
    env_used = False
    if rng.random() < 0.22:
        # the ebuild changes the image between two calls to the SAME long-lived helper object, then repeats
        # the request: whatever the helper remembers from the first call must not make the reply untrue
        cand = [j for j, r_ in enumerate(reqs) if r_[0] in INSTALL_FAMILY + ("dodir", "keepdir") and r_[3]]
        if cand:
            j = rng.choice(cand)
            env = env_request_for(rng, reqs[j])
            if env is not None:
                again = reqs[j] if rng.random() < 0.8 else (reqs[j][0], True, reqs[j][2], reqs[j][3])
                reqs[j + 1:j + 1] = [env, again]
                flav_list[j + 1:j + 1] = ["env", "repeat"]
                env_used = True
    if rng.random() < 0.25 and not env_used:
        for _ in range(rng.randint(1, 2)):
            kind = rng.randrange(5)
            base = rng.choice({K_MAKEDIRS: ["usr", "share", "q", "y", "", "doc", "d"], K_STAT: ["a", "b", "c", "d"],
                               K_UNLINK: ["a", "b", "c"], K_COPY: ["a", "b", "c", "e.1"],
                               K_CHMOD: ["a", "b", "c", "y", "z", "doc", "d"]}[kind])
            faults.append((kind, rng.choice(ERRNOS), base))
    w = World(None, top, pre, plan, faults)
    down = b""
    broken = None
    for i, (cmd, nonfatal, opts, args) in enumerate(reqs):
        cwd = w.src
        line_cmd = cmd
        r = rng.random()
        if r < 0.02:
            cwd = w.src + "/nonexistent"
            broken = "cwd"
        elif r < 0.04:
            opts = opts + " --dest='/unclosed"
            broken = "shlex"
        elif r < 0.05:
            line_cmd = cmd + " extra"
            broken = "cmdarg"
        elif r < 0.06:
            line_cmd = "frobnicate"
            broken = "unknown"
        down += bash_request(line_cmd, nonfatal, cwd, "install", opts, args)
    r = rng.random()
    if r < 0.85:
        down += b"phases succeeded\n"
    elif r < 0.92:
        down += b"phases failed boom\n"
    elif r < 0.96 and down:
        cuts = [i + 1 for i, ch in enumerate(down) if ch == 10]
        down = down[: rng.choice(cuts)]              # the daemon died mid-request (at a line boundary)
        broken = "truncated"
    return w, down, {"reqs": reqs, "flavours": flav_list, "pre": pre, "faults": faults, "broken": broken}


# ------------------------------------------------------------------ python-side oracle (B) on a session
def session_oracle(w, meta, res):
    """direct check of the statement on the implementation's observations; -> list of (class or None, detail)"""
    wire, consumed, end, snap, left = res
    out = []
    reqs = meta["reqs"]
    lines = wire.split("\n")
    if lines[-1] != "":
        out.append((None, {"what": "the wire ends in a partial line", "wire": wire}))
    lines = lines[:-1]
    if len(lines) > len(reqs):
        out.append((None, {"what": "more reply lines than requests (a multi-line reply)", "wire": wire,
                           "requests": len(reqs)}))
    if end == "finished" and meta["broken"] is None and len(lines) != len(reqs):
        out.append((None, {"what": "phase finished but replies != requests", "wire": wire, "requests": len(reqs)}))
    # EXACTLY ONE REPLY, and "otherwise the build fails": in a well-formed stream (no broken framing) every
    # request is answered; the daemon loop may only be left by a fatal request that failed (its reply is
    # the last line, non-zero) or an internal error (same), never without a reply
    wellformed = meta.get("broken") is None
    if wellformed and len(lines) < len(reqs) and (end in ("crash", "unhandled", "empty") or end.startswith("other:")):
        k = len(lines)
        out.append((None, {"what": "a well-formed request got NO reply (the handler died with an exception that "
                                   "is not an IpcError): the bash side waits for a line that never comes",
                           "request": list(reqs[k]) if k < len(reqs) else None,
                           "history": [list(r) for r in reqs[: k + 1]], "end": end, "wire": wire}))
    if wellformed and end in ("fatal", "internal") and lines:
        k = len(lines) - 1
        st = lines[-1].split("\x07", 1)[0]
        if st == "0":
            out.append((None, {"what": "the build was failed by a request whose reply says success",
                               "request": list(reqs[k]) if k < len(reqs) else None, "wire": wire}))
        if end == "fatal" and k < len(reqs) and reqs[k][1]:
            out.append((None, {"what": "a NONFATAL request failed the build instead of returning its code",
                               "request": list(reqs[k]), "wire": wire}))
    if wellformed and end in ("finished", "phasefailed"):
        for (cmd, nonfatal, opts, args), line in zip(reqs, lines):
            st = line.split("\x07", 1)[0]
            if not nonfatal and st != "0" and st.lstrip("-").isdigit():
                out.append((None, {"what": "a FATAL request failed (non-zero reply) but the build went on",
                                   "request": [cmd, nonfatal, opts, args], "reply": line}))
    # nonfatal_returns_code: every failing external command ends its request with exactly that code,
    # so the non-zero statuses answered by the oracle are a subsequence of the reply statuses
    # (a failing patch(1) that printed nothing makes eapply raise IndexError on output[0]: "internal
    # failure", code 1 - modelled as HOther, see notes)
    codes = [st for (st, out_), call in zip(w.oracle.answers, w.oracle.calls)
             if st != 0 and not (call[0] == "patch" and not out_)]
    it = iter(l.split("\x07", 1)[0] for l in lines)
    if not all(any(str(c) == got for got in it) for c in codes):
        out.append((None, {"what": "a failing external command's exit status is not the status of a reply",
                           "request": [list(r) for r in reqs], "external_statuses": codes, "wire": wire}))
    final = dict(e.split("=", 1) for e in snap)
    per_request = len(w.snaps) >= len(lines)
    for idx, ((cmd, nonfatal, opts, args), line) in enumerate(zip(reqs, lines)):
        # judged on the image as it was right AFTER this request (the helper objects live for the whole
        # build, and the ebuild may change the image between two calls)
        img = dict(e.split("=", 1) for e in w.snaps[idx]) if per_request else final
        later_names = set() if per_request else {x for r_ in reqs[idx + 1:] for x in r_[3]}
        status = line.split("\x07", 1)[0]
        if not status.lstrip("-").isdigit():
            out.append((None, {"what": "reply without an integer status", "line": line}))
            continue
        if cmd in ("dodir", "keepdir") and status == "0" and per_request:
            try:
                toks = shlex.split(opts)
            except ValueError:
                continue
            dest = "/"
            for t in toks:
                if t.startswith("--dest="):
                    dest = t[7:]
            for a in args:
                rel = os.path.normpath(os.path.join(dest.lstrip("/"), a.lstrip("/")))
                if rel != "." and not str(img.get(rel, "")).startswith("d"):
                    out.append((None, {"what": "status 0 but the requested directory does not exist",
                                       "request": [list(r) for r in reqs[: idx + 1]], "missing": rel,
                                       "found": img.get(rel)}))
                if cmd == "keepdir":
                    srel = os.path.normpath(os.path.join(a.lstrip("/"), STUB))
                    if not str(img.get(srel, "")).startswith("f"):
                        out.append((None, {"what": "status 0 but keepdir's stub file does not exist",
                                           "request": [list(r) for r in reqs[: idx + 1]], "missing": srel}))
            continue
        if cmd not in INSTALL_FAMILY or status != "0" or not (w.image_comparable() or per_request):
            continue
        try:
            toks = shlex.split(opts)
        except ValueError:
            continue
        dest = "/"
        for t in toks:
            if t.startswith("--dest="):
                dest = t[7:]
        fallback = any(t.startswith("--insoptions=") for t in toks)
        want_mode = None
        for t in toks:       # a symbolic mode the generator uses must end up on the installed files
            if t.startswith("--insoptions="):
                ws = t[13:].split()
                for j, x in enumerate(ws):
                    m = ws[j + 1] if x == "-m" and j + 1 < len(ws) else (x[2:] if x.startswith("-m") else None)
                    if m in SYM_MODES:
                        want_mode = SYM_MODES[m]
        named = []
        for a in args:
            v = World.SRC.get(a)
            if isinstance(v, int):
                named.append((a, v))
            elif isinstance(v, dict) and "-r" in args and cmd in ("doins", "dodoc"):
                named.extend((a + "/" + k, c) for k, c in v.items())
        for a, v in named:
            rel = os.path.normpath(os.path.join(dest.lstrip("/"), a))
            got = img.get(rel)
            if got is not None and got.startswith(f"f{v},") and want_mode is not None \
                    and a.split("/")[0] not in later_names and int(got.split(",")[1]) != want_mode:
                out.append((None, {"what": "status 0 but the requested (symbolic) mode was not applied",
                                   "request": [cmd, opts, args], "file": rel, "found": got, "mode": oct(want_mode)}))
            if got is None or not got.startswith(f"f{v},"):
                cls = "fallback-dest-is-directory" if (fallback and got is not None and got.startswith("d")) else None
                out.append((cls, {"what": "status 0 but the file is not at its destination",
                                  "request": [cmd, opts, args], "history": [list(r) for r in reqs[: idx + 1]],
                                  "missing": rel, "found": got}))
    return out


def in_fallback_dest_is_directory(detail):
    return detail.get("found", "") is not None and str(detail.get("found", "")).startswith("d") \
        and "--insoptions=" in detail["request"][1]


def in_newline_in_argument(args):
    return any("\n" in a for a in args)


def in_status_multiple_of_256(code):
    return code != 0 and code % 256 == 0


# ------------------------------------------------------------------ real bash
BASH_PRELUDE = r'''
source "$LIB" || exit 97
die() { echo "DIE:$*"; DIED=1; return 99; }
eerror() { echo "EERROR:$*"; }
EBUILD_PHASE=install
'''


def bash_read_replies(cases):
    """cases: [(nonfatal, cmd, reply_line)] -> [(status text, stdout text, died)] from the REAL
    __ebd_read_array + __ipc_exit, one bash process"""
    with tempfile.TemporaryDirectory(prefix="c32b_") as td:
        with open(os.path.join(td, "replies"), "wb") as f:
            for _, _, line in cases:
                f.write(line.encode("latin-1") + b"\n")
        script = BASH_PRELUDE + 'PKGCORE_EBD_READ_FD=3\n'
        for i, (nf, cmd, _) in enumerate(cases):
            script += (f'DIED=0; PKGCORE_NONFATAL={"true" if nf else "false"}; IPC_CMD={shlex.quote(cmd)}\n'
                       'ret=(); __ebd_read_array ret\n'
                       '__ipc_exit "${ret[@]}" >"$O" 2>/dev/null; rc=$?\n'
                       'printf "%s\\0%s\\0\\n" "$rc" "$(<"$O")" >&5\n')
        with open(os.path.join(td, "s.sh"), "w") as f:
            f.write(script)
        with open(os.path.join(td, "replies"), "rb") as r3, open(os.path.join(td, "out"), "wb") as o5:
            subprocess.run(["bash", os.path.join(td, "s.sh")],
                           env={**os.environ, "LIB": str(BASH_LIB), "O": os.path.join(td, "o")},
                           close_fds=False, stdin=subprocess.DEVNULL, stdout=subprocess.DEVNULL,
                           stderr=subprocess.DEVNULL, timeout=120,
                           preexec_fn=lambda: (os.dup2(r3.fileno(), 13), os.dup2(o5.fileno(), 15),
                                               os.dup2(13, 3), os.dup2(15, 5), os.close(13), os.close(15)))
        recs = open(os.path.join(td, "out"), "rb").read().decode("latin-1").split("\0\n")[:-1]
    res = []
    for rec in recs:
        rc, _, out = rec.partition("\0")
        died = out.startswith("DIE:")
        res.append((rc, out, died))
    return res


def bash_roundtrip(w, calls):
    """REAL bash __ebd_ipc_cmd <-> REAL python handler over a pipe pair.
    calls: [(cmd, nonfatal, opts, args)]; -> (request bytes bash wrote, wire text, [(rc, out)], end kind)"""
    from pkgcore.ebuild import ebd as ebd_mod
    from pkgcore.ebuild import processor

    td = tempfile.mkdtemp(prefix="c32rt_")
    script = BASH_PRELUDE + "PKGCORE_EBD_READ_FD=3\nPKGCORE_EBD_WRITE_FD=4\n" + f"cd {shlex.quote(w.src)} || exit 96\n"
    for cmd, nonfatal, opts, args in calls:
        script += (f'DIED=0; PKGCORE_NONFATAL={"true" if nonfatal else "false"}\n'
                   f'__ebd_ipc_cmd {shlex.quote(cmd)} {shlex.quote(opts)} '
                   + " ".join(shlex.quote(a) for a in args) + ' >"$O" 2>/dev/null; rc=$?\n'
                   'out=$(<"$O"); printf "%s\\0%s\\0\\n" "$rc" "$out" >&5\n'
                   'case $out in DIE:*) exit 0;; esac\n')
    script += '__ebd_write_line "phases succeeded"\n'
    with open(os.path.join(td, "s.sh"), "w") as f:
        f.write(script)
    down_r, down_w = os.pipe()   # bash -> python
    up_r, up_w = os.pipe()       # python -> bash
    o5 = open(os.path.join(td, "out"), "wb")
    p = subprocess.Popen(["bash", os.path.join(td, "s.sh")],
                         env={**os.environ, "LIB": str(BASH_LIB), "O": os.path.join(td, "o")},
                         stdin=subprocess.DEVNULL, stdout=subprocess.DEVNULL, stderr=subprocess.DEVNULL,
                         preexec_fn=lambda: (os.dup2(up_r, 13), os.dup2(down_w, 14), os.dup2(o5.fileno(), 15),
                                             os.close(down_r), os.close(up_w), os.close(up_r), os.close(down_w),
                                             os.dup2(13, 3), os.dup2(14, 4), os.dup2(15, 5),
                                             os.close(13), os.close(14), os.close(15)),
                         close_fds=False)
    os.close(down_w)
    os.close(up_r)
    seen = bytearray()

    class Tee:
        def __init__(self, f):
            self.f = f

        def readline(self):
            l = self.f.readline()
            seen.extend(l)
            return l

        def close(self):
            self.f.close()

    class Up:
        def __init__(self, fd):
            self.f = os.fdopen(fd, "w")
            self.text = []

        def write(self, s):
            self.text.append(s)
            self.f.write(s)

        def flush(self):
            self.f.flush()

        def close(self):
            self.f.close()

    proc = make_processor(b"")
    proc.ebd_read = Tee(os.fdopen(down_r, "rb"))
    proc.ebd_write = Up(up_w)
    saved = ebd_mod.request_ebuild_processor, ebd_mod.release_ebuild_processor
    ebd_mod.request_ebuild_processor = lambda **kw: proc
    ebd_mod.release_ebuild_processor = lambda p_: True
    exc = None
    cwd = os.getcwd()
    old = os.umask(0o022)
    try:
        try:
            ebd_mod.run_generic_phase(w.pkg, "install", {"T": None}, False, False, extra_handlers=w.handlers)
        except BaseException as e:  # noqa: BLE001
            exc = e
    finally:
        os.umask(old)
        ebd_mod.request_ebuild_processor, ebd_mod.release_ebuild_processor = saved
        os.chdir(cwd)
        try:
            proc.ebd_write.close()
        except OSError:
            pass
        try:
            p.wait(timeout=60)
        except subprocess.TimeoutExpired:
            p.kill()
            p.wait()
        proc.ebd_read.close()
        o5.close()
    recs = open(os.path.join(td, "out"), "rb").read().decode("latin-1").split("\0\n")[:-1]
    shutil.rmtree(td, ignore_errors=True)
    results = [tuple(r.split("\0", 1)) for r in recs]
    return bytes(seen), "".join(proc.ebd_write.text), results, classify_end(exc, proc.shutdowns, w.ebd_ipc)


# ------------------------------------------------------------------ small streams
def gen_shlex(rng, n):
    alpha = ["a", "b", "-", "=", " ", " ", "\t", "'", '"', "\\", "m", "0", "/"]
    fixed = ["", " ", "--dest=/usr --insoptions='-m 0644'", "a\\", "'a", '"a\\"b"', "'' \"\"", "a'b'\"c\"\\ d",
             '"a\\b\\"c"', "--insoptions=-m0644", "\\\n", "x\ty", "  lead trail  ", "''"]
    out = list(fixed)
    for _ in range(n):
        out.append("".join(rng.choice(alpha) for _ in range(rng.randint(0, 12))))
    return out


def gen_repr(rng, n):
    alpha = ["a", "Z", "0", " ", "'", '"', "\\", "\n", "\t", "\r", "\x07", "\x00", "\x7f", "/", ".", "-", "~"]
    out = ["", "a", "it's", 'say "hi"', "both'\"", "\\", "\x1b[0m"]
    for _ in range(n):
        out.append("".join(rng.choice(alpha) for _ in range(rng.randint(0, 8))))
    return out


def gen_enc(rng, n):
    """(kind, code, payload) for IpcCommand._encode_ret / IpcCommandError(...).ret"""
    msgs = ["boom", "", "a\nb", "\n", "x\n\ny\n", "tar: not an archive\ntar: Exiting\n", "bell\x07in", "tr \\",
            "applying 'x.patch' failed: The text leading up to this was:\n", "  spaced  ", "\n\nlead", "a\r\nb"]
    out = [("n", 0, ""), ("i", 0, ""), ("i", 1, ""), ("i", -3, ""), ("i", 1234567, "")]
    for m in msgs:
        out.append(("s", 0, m))
        out.append(("t", rng.choice([1, 2, 127, 256, -1, 0, 1000]), m))
        out.append(("e", rng.choice([1, 2, 3]), m))
    for _ in range(n):
        m = "".join(rng.choice(["a", " ", "\n", "\n", "\x07", "b", "'", "\\"]) for _ in range(rng.randint(0, 10)))
        out.append((rng.choice("ste"), rng.choice([1, 2, 99, 512, -9]), m))
    return out


def gen_bashrd(rng, n, wires):
    """(nonfatal, cmd, reply line): real reply lines seen in this run + hand-made ones"""
    fixed = ["0", "0\x07cat/a-1.0", "0\x071", "0\x07", "1\x07boom bang", "2\x07x\x07y", "1\x07", "1\x07\x07z",
             "256\x07killed", "512\x07x", "-1\x07neg", "127\x07not found", "1\x07back\\slash", "1\x07trail\\",
             "1\x07  sp  ", "0\x07a\x00b", "", "Try help", "1\x07tab\tx", "1\x07*", "300\x07big"]
    lines = list(fixed) + list(wires)
    out = []
    for l in lines:
        out.append((True, "doins", l))
        if rng.random() < 0.35:
            out.append((False, rng.choice(["dodoc", "eapply"]), l))
    for _ in range(n):
        code = rng.choice(["0", "1", "2", "77", "255", "256", "257"])
        msg = "".join(rng.choice(["a", " ", "\x07", "\\", "b", "'", "*", "?"]) for _ in range(rng.randint(0, 8)))
        out.append((rng.random() < 0.7, "doexe", code + ("\x07" + msg if rng.random() < 0.8 else "")))
    return out


# ------------------------------------------------------------------ main
def main(chk: Check):
    from pkgcore.ebuild import ebd_ipc

    chk.rule("sessions: 1-4 requests drawn from 8 flavours (plain install family / forced install(1) fallback that "
             "succeeds (real command) / fails (real or scripted status+stderr) / malformed options+arguments / dodir / "
             "docompress+dostrip / has_version+best_version / eapply with scripted patch(1)), over a scratch tree, "
             "8 pre-populated images, injected OSErrors in 25 %, broken framing (bad cwd, unclosed quote, extra "
             "word, unknown command, truncated stream, failed phase) in ~12 %; non-trivial = a session in which a "
             "request fails, takes the fallback, or the framing is broken (keyed by the request shapes + "
             "outcome); small streams: shlex / repr / _encode_ret incl. multi-line messages; every reply line "
             "seen is also read back by the REAL bash __ebd_read_array + __ipc_exit; REAL bash __ebd_ipc_cmd "
             "round trips over a pipe pair")
    import time
    tm = {"startup": time.time() - chk.t0}
    t0 = time.time()
    ok = chk.build(["C32/Prop_C32.vo"])
    tm["build"] = time.time() - t0
    t0 = time.time()
    if ok:
        chk.check_assumptions("C32/Prop_C32.v")
    tm["assumptions"] = time.time() - t0
    t0 = time.time()
    chk.lint(["C32"])
    chk.check_fingerprint(ANCHORS + ["../../data/lib/pkgcore/ebd/ebuild-daemon-lib.bash"])
    tm["lint+fingerprint"] = time.time() - t0
    rng = chk.rng
    scale = float(os.environ.get("C32_SCALE", "1"))
    scratch = str(chk.scratch)
    prop_bad = []      # (class_id or None, detail)

    # ---- sessions
    sess_cases, sess_meta, wires = [], [], []

    def add_session(w, down, meta, res):
        wire, consumed, end, snap, left = res
        sess_cases.append((w.case_term(down), Raw(rval([wire, consumed, end, ";".join(snap), left]))))
        sess_meta.append((meta, res, down))
        for l in wire.split("\n")[:-1]:
            if len(wires) < 400 and l not in wires:
                wires.append(l)
        interesting = (end != "finished" or any(not l.startswith("0") for l in wire.split("\n")[:-1])
                       or w.oracle.calls or meta.get("broken"))
        if interesting:
            chk.nontrivial(("sess", tuple((r[0], r[1], r[2], tuple(r[3])) for r in meta["reqs"]),
                            tuple(meta.get("pre", ())), tuple(meta.get("faults", ())), end, meta.get("broken")))
        for cls, detail in session_oracle(w, meta, res):
            prop_bad.append((cls, detail))

    t0 = time.time()
    # fixed sessions: the replayed defects (repaired ones must now be fine) and the known classes
    fixed = [
        # install(1) succeeds / fails: the status must follow (C33-install-fallback-status)
        ([], [("real",)], [("doexe", True, "--dest=/usr '--insoptions=-m u=rwx,go=rx'", ["a"])], None),
        ([], [("real",)], [("doexe", True, "--dest=/usr '--insoptions=-m u=zzz'", ["a"])], None),
        ([], [("say", 2, ["tar: not an archive", "tar: Exiting with failure status"])],
         [("eapply", True, "", ["a"]), ("doins", True, "--dest=/usr", ["b"])], None),
        # the exit status of a failing install(1) is the status of the reply, fatal or not
        ([], [("say", 2, ["install: boom"])], [("doexe", False, "--dest=/usr '--insoptions=-m u=rwx,go=rx'", ["a"])], None),
        ([], [("say", 77, ["install: boom", "more"])],
         [("dodir", True, "'--diroptions=-m u=rwx,go=rx'", ["/x"]), ("dodir", True, "", ["/y"])], None),
        # a nonfatal failure inside a copy loop must not poison the helper object (C32-helper-state-reset)
        ([("usr/a", "d")], [], [("doins", True, "--dest=/usr", ["a"]), ("doins", True, "--dest=/opt", ["a"])], None),
        # a fallback request must not make later plain requests of the same helper use install(1)
        ([], [("real",), ("say", 1, ["must not be asked"])],
         [("doexe", True, "--dest=/usr '--insoptions=-m a=r'", ["a"]), ("doexe", True, "--dest=/usr", ["b"])], None),
        # (seed 8) `c32env mkdir` on a directory that exists keeps its contents
        ([("usr/a", "d")], [("emul",), ("emul",)],
         [("dodir", True, "'--diroptions=-m a=r'", ["/usr/share/doc"]), (ENV_CMD, True, "", ["mkdir", "usr"]),
          ("dodir", True, "'--diroptions=-m a=r'", ["/usr/share/doc"]), (ENV_CMD, True, "", ["mkdir", "usr/a/b"]),
          ("dodoc", True, "--dest=/usr/share", ["e.1"])], None),
        # (seed 24) a stream cut right after the header of a c32env request: no arguments -> IndexError in
        # the pseudo-helper -> one "internal failure" reply, daemon torn down
        ([], [], [("dodoc", True, "--dest=/usr --diroptions=-m0700 --insoptions=-m0755", ["a", "b", "e.1", "dd"]),
                  (ENV_CMD, True, "", []), ("dodoc", True, "--dest=/usr", ["a"])], "envcut"),
        # FATAL requests failing through every exception class (UnknownOptions, UnknownArguments, argparse
        # error, fs error, plain IpcCommandError, external command): one non-zero reply, then the build fails
        ([], [], [("doins", False, "--dest=/usr --bogus=1", ["a"])], None),
        ([], [], [("dodir", False, "--frobnicate", ["/x"])], None),
        ([], [], [("doins", False, "--dest=/usr", ["a", "-r", "b"])], None),
        ([], [], [("has_version", False, "", ["cat/a", "surplus"])], None),
        ([], [], [("dodoc", True, "--dest=/usr --bogus=1", ["a"]), ("dodoc", False, "--dest=/usr", ["a", "-r", "zz", "b"])], None),
        ([], [], [("doexe", False, "--dest=/usr", ["nope"])], None),
        ([], [], [("doexe", False, "--dest=/usr", [])], None),
        ([("usr", 7)], [], [("doexe", False, "--dest=/usr/share", ["a"])], None),
        ([], [], [("dodoc", False, "--dest=/usr", ["dd"])], None),
        ([], [], [("docompress", False, "", [])], None),
        ([], [("say", 1, ["patch: boom"])], [("eapply", False, "", ["a"])], None),
        # state carried across calls on the long-lived helper objects: the ebuild removes what the first
        # call created, the repeated call has to create it again (or fail truthfully)
        ([], [], [("dodir", True, "", ["/x/y"]), (ENV_CMD, True, "", ["rmtree", "x"]), ("dodir", True, "", ["/x/y"])], None),
        ([], [], [("dodir", True, "--diroptions=-m0700", ["/x/y", "z"]), (ENV_CMD, True, "", ["rmtree", "x/y"]),
                  ("dodir", True, "--diroptions=-m0700", ["/x/y", "z"])], None),
        ([], [], [("keepdir", True, "", ["/var/lib/foo"]), (ENV_CMD, True, "", ["rmtree", "var"]),
                  ("keepdir", True, "", ["/var/lib/foo"])], None),
        ([], [], [("doins", True, "--dest=/usr/share", ["a"]), (ENV_CMD, True, "", ["rmtree", "usr"]),
                  ("doins", True, "--dest=/usr/share", ["a"])], None),
        ([], [], [("doins", True, "--dest=/usr", ["-r", "dd"]), (ENV_CMD, True, "", ["rmtree", "usr/dd"]),
                  ("doins", True, "--dest=/usr", ["-r", "dd"]), (ENV_CMD, True, "", ["mkfile", "usr/dd", "9"]),
                  ("doins", True, "--dest=/usr", ["-r", "dd"])], None),
        ([], [], [("dodir", True, "", ["/x/y"]), (ENV_CMD, True, "", ["mkfile", "x", "9"]), ("dodir", False, "", ["/x/y"])], None),
        ([], [("emul",), ("emul",)],
         [("doexe", True, "--dest=/usr '--insoptions=-m a=r'", ["a"]), (ENV_CMD, True, "", ["rmtree", "usr/a"]),
          ("doexe", True, "--dest=/usr '--insoptions=-m a=r'", ["a"])], None),
        # -r + directory + fallback-forcing options: the walk must use install(1) too (status and mode)
        ([], [("real",), ("real",), ("real",)],
         [("doins", True, "--dest=/usr '--insoptions=-m u=rwx,go=rx'", ["-r", "dd", "a"])], None),
        ([], [("say", 2, ["install: boom"])],
         [("doins", True, "--dest=/usr '--insoptions=-m a=r'", ["-r", "dd"])], None),
        ([], [("say", 3, ["install: boom", "again"])],
         [("dodoc", False, "--dest=/usr --insoptions=-S", ["-r", "dd"])], None),
        ([], [("real",)], [("dodoc", True, "--dest=/usr '--insoptions=-m0644 --bogus'", ["-r", "dd"])], None),
        ([], [("real",)], [("doins", True, "--dest=/usr '--diroptions=-m a=r'", ["-r", "d"])], None),
        ([], [("say", 2, ["install: cannot create directory"])],
         [("doins", True, "--dest=/opt '--diroptions=-m u=rwx,go=rx'", ["d", "-r"]), ("doins", True, "--dest=/opt", ["a"])], None),
        # known class: install(1) treats an existing directory at the destination as the target directory
        ([("usr/a", "d")], [("real",)], [("doexe", True, "--dest=/usr '--insoptions=-m u=rwx,go=rx'", ["a"])], None),
        # known class: a newline inside an argument splits the request
        ([], [], [("dodoc", True, "--dest=/usr", ["a\nb"]), ("dodoc", True, "--dest=/usr", ["c"])], "newline"),
    ]
    for j, (pre, plan, reqs, tag) in enumerate(fixed):
        w = World(None, os.path.join(scratch, f"f{j}"), pre, plan, [])
        down = b"".join(bash_request(c, nf, w.src, "install", o, a) for c, nf, o, a in reqs) + b"phases succeeded\n"
        meta = {"reqs": reqs, "flavours": ["fixed"], "pre": pre, "faults": [], "broken": tag}
        try:
            res = w.run(down)
            if tag == "newline":
                wire, consumed, end, snap, left = res
                if end != "finished" or wire.count("\n") != len(reqs):
                    prop_bad.append(("newline-in-argument",
                                     {"what": "a newline inside an argument desynchronises the channel",
                                      "request": list(reqs[0]), "end": end, "wire": wire}))
                sess_cases.append((w.case_term(down), Raw(rval([wire, consumed, end, ";".join(snap), left]))))
                sess_meta.append((meta, res, down))
            else:
                add_session(w, down, meta, res)
        finally:
            shutil.rmtree(w.top, ignore_errors=True)
    n_sess = int(chk.n(80, 600) * scale)
    for i in range(n_sess):
        w, down, meta = gen_session(rng, scratch, i)
        try:
            res = w.run(down)
            add_session(w, down, meta, res)
        finally:
            shutil.rmtree(w.top, ignore_errors=True)
    chk.count("sess", len(sess_cases))
    for m, r, d in sess_meta[:2]:
        chk.sample({"stream": "sess", "requests": [list(x) for x in m["reqs"]], "pre": m["pre"],
                    "faults": m["faults"], "wire": r[0], "end": r[2], "image": r[3]})

    tm["sessions"] = time.time() - t0
    t0 = time.time()
    # ---- real bash round trips
    rq_cases, rt_reply_cases = [], []
    n_rt = int(chk.n(3, 20) * scale) or 1
    for i in range(n_rt):
        plan = []
        calls = []
        for _ in range(rng.randint(2, 5)):
            fl = rng.choices(["plain", "fallback", "fallback_fail", "malformed", "dodir", "alter", "query", "eapply",
                              "recursive_fallback"], [28, 10, 10, 13, 11, 4, 10, 8, 6])[0]
            cmd, nf, opts, args = gen_request(rng, plan, fl)
            # what unquoted ${opts}/${PWD} expansion and echo would mangle is exercised by stream bashrq only
            # through tame values: no glob characters, no leading dash-n, single spaces
            if any(ch in opts for ch in "*?[\t") or "  " in opts or any("\n" in a for a in args):
                continue
            calls.append((cmd, nf, opts, args))
        if not calls:
            continue
        w = World(None, os.path.join(scratch, f"r{i}"), rng.choice(PRE_CHOICES), plan, [])
        oracle = ExtOracle(w.plan, ebd_ipc.spawn.spawn_get_output)
        saved = ebd_ipc.spawn.spawn_get_output
        ebd_ipc.spawn.spawn_get_output = oracle
        try:
            seen, wire, results, end = bash_roundtrip(w, calls)
        finally:
            ebd_ipc.spawn.spawn_get_output = saved
        w.oracle = oracle
        snap = snapshot(w.ED) if w.image_comparable() else []
        answered = wire.split("\n")[:-1]
        expect = b"".join(bash_request(c, nf, w.src, "install", o, a) for c, nf, o, a in calls[:max(1, len(results))])
        if not seen.startswith(expect[:len(seen)]) or (end == "finished" and seen != expect + b"phases succeeded\n"):
            chk.violation("correspondence", {"what": "request bytes written by the real __ebd_ipc_cmd differ from "
                                                     "harness.bash_request (the model of the request framing)",
                                             "calls": [list(c) for c in calls], "seen": seen.decode("latin-1")},
                          no_input=True)
        meta = {"reqs": calls[:len(answered)] if end != "finished" else calls, "flavours": ["roundtrip"],
                "pre": [], "faults": [], "broken": "roundtrip"}
        res = (wire, len(seen), end, snap, len(oracle.plan))
        sess_cases.append((w.case_term(seen), Raw(rval([wire, len(seen), end, ";".join(snap), len(oracle.plan)]))))
        sess_meta.append((meta, res, seen))
        chk.count("sess", 1)
        chk.nontrivial(("rt", tuple((c[0], c[1], c[2], tuple(c[3])) for c in calls), end))
        for (cmd, nf, opts, args), line, (rc, out) in zip(calls, answered, results):
            died = out.startswith("DIE:")
            txt = out[4:] if died else (out[7:] if out.startswith("EERROR:") else out)
            rt_reply_cases.append((bs("%s@%s@%s" % ("t" if nf else "f", esc(cmd), esc(line))),
                                   Raw(rval(["die" if died else rc, txt]))))
            rq_cases.append((bs("@".join(["t" if nf else "f", esc(cmd), esc(w.src), "install", esc(opts),
                                          ";".join(esc(a) for a in args)])),
                             Raw(rval(bash_request(cmd, nf, w.src, "install", opts, args).decode("latin-1")))))
        if len(results) != len(answered) and not (end in ("fatal", "internal", "crash", "unhandled", "empty")):
            prop_bad.append((None, {"what": "bash saw a different number of replies than python wrote",
                                    "calls": [list(c) for c in calls], "wire": wire, "bash": results}))
        shutil.rmtree(w.top, ignore_errors=True)
    chk.count("bashrt", len(rt_reply_cases))
    chk.count("bashrq", len(rq_cases))

    tm["roundtrips"] = time.time() - t0
    t0 = time.time()
    # ---- small streams
    shlex_cases = [(bs(esc(s)), Raw(rval(impl_call(lambda: shlex.split(s), kinds={"ValueError": "ValueError"}))))
                   for s in gen_shlex(rng, int(chk.n(150, 1500) * scale))]
    chk.count("shlex", len(shlex_cases))
    repr_cases = [(bs(esc(s)), Raw(rval(repr(s)))) for s in gen_repr(rng, int(chk.n(90, 1000) * scale))]
    chk.count("repr", len(repr_cases))
    enc_cases = []
    for kind, code, payload in gen_enc(rng, int(chk.n(80, 800) * scale)):
        if kind == "n":
            v = ebd_ipc.IpcCommand._encode_ret(None)
        elif kind == "i":
            v = ebd_ipc.IpcCommand._encode_ret(code)
        elif kind == "s":
            v = ebd_ipc.IpcCommand._encode_ret(payload)
        elif kind == "t":
            v = ebd_ipc.IpcCommand._encode_ret((code, payload))
        else:
            v = ebd_ipc.IpcCommandError(payload, code=code).ret
        enc_cases.append((bs("%s@%d@%s" % (kind, code, esc(payload))), Raw(rval(str(v)))))
        if "\n" in payload:
            chk.nontrivial(("enc", kind, code, payload))
        if "\n" in str(v):
            prop_bad.append((None, {"what": "an encoded reply contains a newline: more than one line reaches the "
                                            "bash side for one request", "kind": kind, "code": code,
                                    "payload": payload, "reply": str(v)}))
    chk.count("enc", len(enc_cases))
    chk.sample({"stream": "enc", "input": ["t", 2, "tar: not an archive\ntar: Exiting\n"],
                "impl": str(ebd_ipc.IpcCommand._encode_ret((2, "tar: not an archive\ntar: Exiting\n")))})

    # ---- real bash reading reply lines
    rd_in = gen_bashrd(rng, int(chk.n(40, 300) * scale), wires[: int(chk.n(80, 300))])
    rd_out = bash_read_replies(rd_in)
    rd_cases = []
    if len(rd_out) != len(rd_in):
        # a reply joined with the next one (backslash-newline) shifts everything after it
        chk.violation("property", {"what": "the real __ebd_read_array consumed more than one line for one reply "
                                           "(or died): replies and reads are out of step",
                                   "input": {"replies": [c[2] for c in rd_in][:40], "reads": len(rd_out)}})
    else:
        for (nf, cmd, line), (rc, out, died) in zip(rd_in, rd_out):
            txt = out[4:] if died else (out[7:] if out.startswith("EERROR:") else out)
            rd_cases.append((bs("%s@%s@%s" % ("t" if nf else "f", esc(cmd), esc(line))),
                             Raw(rval(["die" if died else rc, txt]))))
            st = line.split("\x07", 1)[0]
            if nf and st.lstrip("-").isdigit() and int(st) != 0 and rc == "0" and not died:
                prop_bad.append(("status-multiple-of-256" if in_status_multiple_of_256(int(st)) else None,
                                 {"what": "nonfatal failure code reaches the caller as success", "reply": line,
                                  "bash_status": rc}))
            if "\\" in line or st not in ("0", "1"):
                chk.nontrivial(("rd", nf, line))
    chk.count("bashrd", len(rd_cases))

    tm["small+bash"] = time.time() - t0
    t0 = time.time()
    # ---- evaluate model and spec inside Coq
    streams = [("shlex", "x", shlex_cases), ("repr", "r", repr_cases), ("enc", "e", enc_cases),
               ("sess", "S", sess_cases), ("bashrd", "b", rd_cases + rt_reply_cases), ("bashrq", "q", rq_cases)]
    # one cases file (sharded) for all streams: the literal carries a one-letter stream tag (Spec_C32.run_any);
    # shards are interleaved so that every coqc gets the same mix
    allc = []
    for name, tag, cases in streams:
        for k, (inp, res) in enumerate(cases):
            assert inp.startswith('"')
            allc.append(('"' + tag + ":" + inp[1:], res, name, k))
    nshards = max(1, min(max(int(os.environ.get("C32_SHARDS", "4")), -(-len(allc) // 350)), len(allc)))
    per = -(-len(allc) // nshards)
    order = [x for j in range(nshards) for x in allc[j::nshards]]
    spec_bad = []
    by_stream = {name: ([], []) for name, _, _ in streams}
    r_all = chk.coq_eval("all", IMPORTS, "bstr", [(i, r) for i, r, _, _ in order],
                         ["mismatches run_any cases", "where_ (fun i r => negb (spec_any_ok i r)) cases"],
                         shard=max(per, 1)) if ok else None
    if r_all is not None:
        for which in (0, 1):
            for gi in r_all[which]:
                _, _, name, k = order[gi]
                by_stream[name][which].append(k)
    for name, tag, cases in streams:
        if r_all is None:
            continue
        r = by_stream[name]
        if True:
            for i in r[1][:3]:
                detail = {"what": f"Spec_C32 rejects what the implementation did (stream '{name}')",
                          "input": cases[i][0][:3000]}
                if name == "sess":
                    m, res, down = sess_meta[i]
                    detail.update({"requests": [list(x) for x in m["reqs"]], "pre": m["pre"], "faults": m["faults"],
                                   "wire": res[0], "end": res[2], "image": res[3]})
                    if m.get("broken") == "newline":
                        continue     # reported through the known class below
                spec_bad.append(detail)
        for i in r[0][:3]:
            detail = {"what": f"implementation and Model_C32 disagree on stream '{name}' "
                              "(the theorems of Prop_C32 no longer speak about this code)",
                      "input": cases[i][0][:3000], "implementation": cases[i][1].term[:3000]}
            if name == "sess":
                m, res, down = sess_meta[i]
                detail.update({"requests": [list(x) for x in m["reqs"]], "pre": m["pre"], "faults": m["faults"],
                               "broken": m["broken"], "wire": res[0], "end": res[2], "image": res[3],
                               "down": down.decode("latin-1")})
            chk.violation("correspondence", detail, no_input=not (prop_bad or spec_bad))

    tm["coq_eval"] = time.time() - t0
    tm["total_so_far"] = time.time() - chk.t0
    chk.cov["timing_s"] = {k: round(v, 1) for k, v in tm.items()}
    # ---- property failures
    seen_cls = set()
    n_viol = 0
    for cls, detail in prop_bad:
        if cls is not None and chk.known_finding(cls, detail):
            seen_cls.add(cls)
            continue
        if n_viol < 5:
            chk.violation("property", {"what": detail.get("what"), "input": detail})
            n_viol += 1
    for d in spec_bad[:3]:
        if n_viol < 5:
            chk.violation("property", {"what": d["what"], "input": d})
            n_viol += 1


def replay(chk, data):
    """re-run the request list of a recorded session violation against the current tree"""
    d = data.get("detail", {})
    inp = d.get("input", d)
    reqs = inp.get("requests") if isinstance(inp, dict) else None
    if not reqs:
        print("nothing to re-run (no request list recorded)")
        return
    top = tempfile.mkdtemp(prefix="c32replay_")
    try:
        w = World(None, os.path.join(top, "w"), [tuple(p) for p in inp.get("pre", [])], [("real",)] * 8,
                  [tuple(f) for f in inp.get("faults", [])])
        down = b"".join(bash_request(c, nf, w.src, "install", o, a) for c, nf, o, a in reqs) + b"phases succeeded\n"
        print("re-run:", w.run(down))
    finally:
        shutil.rmtree(top, ignore_errors=True)
