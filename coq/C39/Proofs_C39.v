(* Proofs_C39.v — lemmas and proofs; the property theorems are re-exported in Prop_C39.v. *)
From Coq Require Import List NArith ZArith Bool Lia.
Import ListNotations.
From Verif Require Import Base.Val C39.Model_C39 C39.Spec_C39.

Lemma mem_In x l : mem x l = true <-> In x l.
Proof.
  unfold mem. rewrite existsb_exists. split.
  - intros [y [Hy He]]. apply N.eqb_eq in He. subst. exact Hy.
  - intro H. exists x. split; [exact H | apply N.eqb_refl].
Qed.

Lemma mem_false x l : mem x l = false <-> ~ In x l.
Proof.
  rewrite <- mem_In. destruct (mem x l); split; intro H.
  - discriminate.
  - exfalso. apply H. reflexivity.
  - discriminate.
  - reflexivity.
Qed.

Lemma In_dec_N (x : N) l : In x l \/ ~ In x l.
Proof. destruct (in_dec N.eq_dec x l); [left|right]; assumption. Qed.

Lemma keep_In ex l x : In x (keep_not_in ex l) <-> In x l /\ ~ In x ex.
Proof.
  unfold keep_not_in. rewrite filter_In. rewrite negb_true_iff, mem_false. reflexivity.
Qed.

Lemma overlap_false a r : overlap a r = false <-> forall x, In x a -> ~ In x r.
Proof.
  unfold overlap. split.
  - intros H x Hx Hr.
    assert (E : existsb (fun x => mem x r) a = true).
    { apply existsb_exists. exists x. split; [exact Hx | apply mem_In; exact Hr]. }
    congruence.
  - intro H. destruct (existsb (fun x => mem x r) a) eqn:E; [|reflexivity].
    apply existsb_exists in E as [x [Hx Hm]]. apply mem_In in Hm. exfalso. exact (H x Hx Hm).
Qed.

Lemma is_nil_true l : is_nil l = true <-> l = [].
Proof. destruct l; cbn; split; intro H; congruence. Qed.

(* membership characterisation of the reference semantics *)
Lemma apply_In c l x :
  In x (apply c l) <->
  match replace c with
  | Some s => In x s
  | None => (In x l /\ ~ In x (remove c)) \/ In x (add c)
  end.
Proof.
  unfold apply. destruct (replace c) as [s|]; [reflexivity|].
  rewrite in_app_iff, !keep_In.
  destruct (In_dec_N x l), (In_dec_N x (remove c)); tauto.
Qed.

Lemma valid_None c : valid c = true -> replace c = None ->
  forall x, In x (add c) -> ~ In x (remove c).
Proof.
  unfold valid. intros Hv Hr. rewrite Hr in Hv. apply negb_true_iff in Hv.
  apply overlap_false. exact Hv.
Qed.

Lemma mk_Some a r s c : mk a r s = Some c ->
  c = {| add := a; remove := r; replace := s |} /\ valid c = true.
Proof.
  unfold mk. destruct (valid _) eqn:E; intro H; [|discriminate].
  injection H as <-. split; [reflexivity | exact E].
Qed.

Theorem or_is_sequential_proof a b c :
  valid a = true -> valid b = true -> or_ a b = Some c ->
  forall l, same_set (apply c l) (apply b (apply a l)).
Proof.
  intros Va Vb Hor l x. unfold or_ in Hor.
  destruct (replace b) as [sb|] eqn:Rb.
  - injection Hor as <-. rewrite !apply_In, Rb. reflexivity.
  - pose proof (valid_None b Vb Rb) as Db.
    destruct (replace a) as [sa|] eqn:Ra.
    + apply mk_Some in Hor as [-> _].
      rewrite apply_In. cbn [replace].
      rewrite (apply_In b), Rb, (apply_In a), Ra.
      rewrite in_app_iff, !keep_In. specialize (Db x).
      destruct (In_dec_N x sa), (In_dec_N x (remove b)); tauto.
    + apply mk_Some in Hor as [-> Vc].
      unfold valid in Vc. cbn [replace add remove] in Vc. apply negb_true_iff in Vc.
      pose proof (proj1 (overlap_false _ _) Vc x) as Dc.
      rewrite in_app_iff, in_app_iff, !keep_In in Dc.
      rewrite apply_In. cbn [replace add remove].
      rewrite (apply_In b), Rb, (apply_In a), Ra.
      rewrite !in_app_iff, !keep_In.
      pose proof (valid_None a Va Ra x) as Da. specialize (Db x).
      destruct (In_dec_N x (add a)), (In_dec_N x (remove a)), (In_dec_N x (remove b)),
        (In_dec_N x (add b)); tauto.
Qed.

(* when is a combination refused?  exactly on an add/remove conflict between the two sides *)
Theorem or_refused_iff_proof a b :
  valid a = true -> valid b = true ->
  (or_ a b = None <->
   replace a = None /\ replace b = None /\
   exists x, (In x (add a) \/ In x (add b)) /\ (In x (remove a) \/ In x (remove b))).
Proof.
  intros Va Vb. unfold or_.
  destruct (replace b) as [sb|] eqn:Rb.
  - split; [discriminate | intros [_ [H _]]; discriminate].
  - destruct (replace a) as [sa|] eqn:Ra.
    + unfold mk, valid. cbn. split; [discriminate | intros [H _]; discriminate].
    + unfold mk, valid. cbn [replace add remove].
      destruct (overlap _ _) eqn:E; cbn [negb].
      * split; [intros _|reflexivity]. repeat split.
        unfold overlap in E. apply existsb_exists in E as [x [Hx Hm]].
        apply mem_In in Hm. exists x.
        rewrite in_app_iff, keep_In in Hx. rewrite in_app_iff, keep_In in Hm. tauto.
      * split; [discriminate|]. intros [_ [_ [x [Hx Hr]]]]. exfalso.
        pose proof (proj1 (overlap_false _ _) E x) as D.
        rewrite !in_app_iff, !keep_In in D.
        destruct (In_dec_N x (add a)), (In_dec_N x (remove a)); tauto.
Qed.

(* the wire object of one list field means, to Bugzilla, exactly the change *)
Theorem change_wire_exact_proof c l :
  valid c = true -> apply_wire (change_wire c) l = apply c l.
Proof.
  intro V. unfold change_wire, apply. destruct (replace c) as [s|] eqn:R; [reflexivity|].
  destruct (add c) as [|a0 ar], (remove c) as [|r0 rr]; cbn; rewrite ?app_nil_r; reflexivity.
Qed.

(* a wire object never carries "set" together with "add"/"remove", and no empty key *)
Theorem change_wire_keys_proof c :
  map fst (change_wire c) =
  match replace c with
  | Some _ => [0%N]
  | None => (if is_nil (add c) then [] else [1%N]) ++ (if is_nil (remove c) then [] else [2%N])
  end.
Proof.
  unfold change_wire. destruct (replace c); [reflexivity|].
  destruct (is_nil (add c)), (is_nil (remove c)); reflexivity.
Qed.

Lemma keys_from_In k base bs :
  In k (keys_from base bs) <-> exists i, nth_error bs i = Some true /\ k = (base + N.of_nat i)%N.
Proof.
  revert base. induction bs as [|b bs IH]; intro base; cbn [keys_from].
  - split; [intros [] | intros [i [H _]]; destruct i; discriminate].
  - rewrite in_app_iff, IH. split.
    + intros [H | [i [Hn Hk]]].
      * destruct b; [|destruct H]. destruct H as [<-|[]]. exists 0%nat. split; [reflexivity|lia].
      * exists (S i). split; [exact Hn | lia].
    + intros [[|i] [Hn Hk]].
      * cbn in Hn. injection Hn as ->. left. left. lia.
      * right. exists i. split; [exact Hn | lia].
Qed.

(* BugUpdate.to_wire: key k is present exactly when the field with that index was set *)
Theorem update_wire_exact_proof u k :
  length (scalars u) = 7%nat -> length (changes u) = 6%nat ->
  (In k (update_wire_keys u) <->
   k = 0%N
   \/ (exists i, nth_error (scalars u) i = Some true /\ k = (1 + N.of_nat i)%N)
   \/ (exists i c, nth_error (changes u) i = Some c /\ change_bool c = true /\ k = (8 + N.of_nat i)%N)
   \/ (k = 14%N /\ nflags u <> O) \/ (k = 15%N /\ has_comment u = true)
   \/ (k = 16%N /\ has_pkglist u = true) \/ (k = 17%N /\ has_rtr u = true)).
Proof.
  intros _ _. unfold update_wire_keys.
  rewrite !in_app_iff, !keys_from_In. cbn [In].
  assert (E : (exists i, nth_error (map change_bool (changes u)) i = Some true /\ k = (8 + N.of_nat i)%N)
              <-> (exists i c, nth_error (changes u) i = Some c /\ change_bool c = true /\ k = (8 + N.of_nat i)%N)).
  { split.
    - intros [i [Hn Hk]]. rewrite nth_error_map in Hn.
      destruct (nth_error (changes u) i) as [c|] eqn:Ec; [|discriminate].
      cbn in Hn. injection Hn as Hc. exists i, c. auto.
    - intros [i [c [Hn [Hc Hk]]]]. exists i. rewrite nth_error_map, Hn. cbn. rewrite Hc. auto. }
  rewrite E. clear E.
  assert (F : (exists i, nth_error [match nflags u with O => false | _ => true end; has_comment u; has_pkglist u; has_rtr u] i = Some true
                         /\ k = (14 + N.of_nat i)%N)
              <-> ((k = 14%N /\ nflags u <> O) \/ (k = 15%N /\ has_comment u = true)
                   \/ (k = 16%N /\ has_pkglist u = true) \/ (k = 17%N /\ has_rtr u = true))).
  { split.
    - intros [i [Hn Hk]].
      destruct i as [|[|[|[|i]]]]; cbn in Hn.
      + left. split; [lia|]. destruct (nflags u); [discriminate|discriminate].
      + right; left. split; [lia|congruence].
      + right; right; left. split; [lia|congruence].
      + right; right; right. split; [lia|congruence].
      + destruct i; discriminate.
    - intros [[Hk H]|[[Hk H]|[[Hk H]|[Hk H]]]].
      + exists 0%nat. cbn. destruct (nflags u); [congruence|]. split; [reflexivity|lia].
      + exists 1%nat. cbn. rewrite H. split; [reflexivity|lia].
      + exists 2%nat. cbn. rewrite H. split; [reflexivity|lia].
      + exists 3%nat. cbn. rewrite H. split; [reflexivity|lia]. }
  rewrite F. clear F.
  split.
  - intros [[H|[]]|[H|[H|H]]]; [left; lia | tauto..].
  - intros [H|[H|[H|H]]]; [left; left; lia | tauto..].
Qed.

(* non-vacuity: the hypotheses are met by concrete non-trivial values, and both outcomes occur *)
Example ex_set_then_add :
  let a := {| add := []; remove := []; replace := Some [1;2]%N |} in
  let b := {| add := [3]%N; remove := [1]%N; replace := None |} in
  valid a = true /\ valid b = true /\
  or_ a b = Some {| add := []; remove := []; replace := Some [2;3]%N |}.
Proof. vm_compute. repeat split. Qed.

Example ex_refused :
  let a := {| add := [1]%N; remove := []; replace := None |} in
  let b := {| add := []; remove := [1]%N; replace := None |} in
  valid a = true /\ valid b = true /\ or_ a b = None.
Proof. vm_compute. repeat split. Qed.
