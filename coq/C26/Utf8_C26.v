(* Utf8_C26.v — the UTF-8 functions of Model_C26: decoding after encoding is the identity
   (lemmas used by Proofs_C26; kept apart because the case analysis is slow to check). *)
From Coq Require Import List NArith ZArith Bool Lia.
Import ListNotations.
From Verif Require Import Base.Val C26.Model_C26.
Local Open Scope N_scope.

Ltac Zify.zify_post_hook ::= Z.to_euclidean_division_equations.
Ltac dec_bools :=
  repeat match goal with
  | |- context [N.eqb ?a ?b] => destruct (N.eqb_spec a b); try lia
  | |- context [N.ltb ?a ?b] => destruct (N.ltb_spec a b); try lia
  | |- context [N.leb ?a ?b] => destruct (N.leb_spec a b); try lia
  end.
Ltac side := unfold between, cont; dec_bools; reflexivity.

Lemma dec1 b0 r : b0 <? 128 = true ->
  utf8_decode (b0 :: r) = match utf8_decode r with Some t => Some (b0 :: t) | None => None end.
Proof. intro H. cbn [utf8_decode]. rewrite H. reflexivity. Qed.

Lemma dec2 b0 b1 r : b0 <? 128 = false -> between 194 b0 223 = true -> cont b1 = true ->
  utf8_decode (b0 :: b1 :: r)
  = match utf8_decode r with Some t => Some ((b0 - 192) * 64 + (b1 - 128) :: t) | None => None end.
Proof. intros H1 H2 H3. cbn [utf8_decode]. rewrite H1, H2, H3. reflexivity. Qed.

Lemma dec3 b0 b1 b2 r :
  b0 <? 128 = false -> between 194 b0 223 = false -> between 224 b0 239 = true ->
  between (if b0 =? 224 then 160 else 128) b1 (if b0 =? 237 then 159 else 191) && cont b2 = true ->
  utf8_decode (b0 :: b1 :: b2 :: r)
  = match utf8_decode r with
    | Some t => Some ((b0 - 224) * 4096 + (b1 - 128) * 64 + (b2 - 128) :: t) | None => None end.
Proof. intros H1 H2 H3 H4. cbn [utf8_decode]. rewrite H1, H2, H3, H4. reflexivity. Qed.

Lemma dec4 b0 b1 b2 b3 r :
  b0 <? 128 = false -> between 194 b0 223 = false -> between 224 b0 239 = false ->
  between 240 b0 244 = true ->
  between (if b0 =? 240 then 144 else 128) b1 (if b0 =? 244 then 143 else 191) && cont b2 && cont b3 = true ->
  utf8_decode (b0 :: b1 :: b2 :: b3 :: r)
  = match utf8_decode r with
    | Some t => Some ((b0 - 240) * 262144 + (b1 - 128) * 4096 + (b2 - 128) * 64 + (b3 - 128) :: t)
    | None => None end.
Proof. intros H1 H2 H3 H4 H5. cbn [utf8_decode]. rewrite H1, H2, H3, H4, H5. reflexivity. Qed.

Ltac inj H :=
  apply (f_equal (fun o : option bytes => match o with Some x => x | None => [] end)) in H;
  cbv beta iota in H; subst.

Lemma enc_cp_decode c e r t :
  enc_cp c = Some e -> utf8_decode r = Some t -> utf8_decode (e ++ r) = Some (c :: t).
Proof.
  unfold enc_cp. intros He Hr.
  destruct (N.ltb_spec c 128).
  { inj He. cbn [app]. rewrite dec1 by side. rewrite Hr. reflexivity. }
  destruct (N.ltb_spec c 2048).
  { inj He. cbn [app]. rewrite dec2 by side. rewrite Hr. do 2 f_equal. lia. }
  destruct (N.ltb_spec c 65536).
  { destruct (N.leb_spec 55296 c); destruct (N.ltb_spec c 57344); cbn [andb] in He; try discriminate;
      inj He; cbn [app]; rewrite dec3 by side; rewrite Hr; do 2 f_equal; lia. }
  destruct (N.ltb_spec c 1114112); [|discriminate].
  inj He. cbn [app]. rewrite dec4 by side. rewrite Hr. do 2 f_equal. lia.
Qed.

Lemma utf8_roundtrip_proof : forall c b, utf8_encode c = Some b -> utf8_decode b = Some c.
Proof.
  induction c as [|x c IH]; intros b H.
  - injection H as <-. reflexivity.
  - cbn [utf8_encode] in H.
    destruct (enc_cp x) as [e|] eqn:Ex; [|discriminate].
    destruct (utf8_encode c) as [r|] eqn:Er; [|discriminate].
    injection H as <-. apply (enc_cp_decode x e r c Ex). apply IH. reflexivity.
Qed.

(* encodable = Unicode scalar values *)
Lemma enc_cp_defined c : (exists e, enc_cp c = Some e) <-> (c < 1114112 /\ ~ (55296 <= c < 57344)).
Proof.
  unfold enc_cp.
  destruct (N.ltb_spec c 128); [split; [intros _; lia | eexists; reflexivity]|].
  destruct (N.ltb_spec c 2048); [split; [intros _; lia | eexists; reflexivity]|].
  destruct (N.ltb_spec c 65536).
  - destruct (N.leb_spec 55296 c); destruct (N.ltb_spec c 57344); cbn [andb];
      (split; [intros [e He]; try discriminate; lia | intro; try lia; eexists; reflexivity]).
  - destruct (N.ltb_spec c 1114112); (split; [intros [e He]; try discriminate; lia | intro; try lia; eexists; reflexivity]).
Qed.

Lemma utf8_encode_ascii : forall c, Forall (fun b => b < 128) c -> utf8_encode c = Some c.
Proof.
  induction c as [|x c IH]; intro H; [reflexivity|].
  inversion H as [|y l Hx Hc]; subst. cbn [utf8_encode]. unfold enc_cp.
  apply N.ltb_lt in Hx. rewrite Hx. rewrite (IH Hc). reflexivity.
Qed.
