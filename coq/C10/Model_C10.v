(* Model_C10.v — executable model of pkgcore.restrictions.required_use
   (src/pkgcore/restrictions/required_use.py): the compilation of a parsed REQUIRED_USE
   restriction into solver constraints (__to_single_constraint / __to_multiple_constraint),
   the domain set-up of find_constraint_satisfaction (four add_variable calls + the
   missing_vars -> (False,) rule) and the call of snakeoil.constraints.Problem, which is OUTSIDE
   /repo and enters as the explicit argument [solve] (contract S: Spec_C10.v).
   [solve_ref] is a plain generate-and-filter DFS used (a) to show the contract is satisfiable,
   (b) as the solver when the harness evaluates the model.  No proofs here. *)
From Coq Require Import List NArith ZArith Bool Arith.
Import ListNotations.
From Verif Require Import Base.Val.

(* ------------------------------------------------------------------ restriction trees *)
Inductive kind := KOr | KAnd | KOne | KAmo.   (* || , all-of, ^^ , ?? *)

Inductive ru :=
| Flag (neg all_ : bool) (vals : list N)        (* values.ContainmentMatch(vals, match_all, negate) *)
| Cond (neg : bool) (v : N) (kids : list ru)     (* packages.Conditional on [!]v with payload kids *)
| Grp (k : kind) (neg : bool) (kids : list ru).  (* boolean.{Or,And,JustOne,AtMostOneOf}Restriction *)

Inductive err := EAssert | EValue.               (* AssertionError | ValueError *)
Inductive res (A : Type) := Ok (a : A) | Fail (e : err).
Arguments Ok {A} a.
Arguments Fail {A} e.

Definition bind {A B} (x : res A) (f : A -> res B) : res B :=
  match x with Ok a => f a | Fail e => Fail e end.

(* first failure in list order, like a Python generator consumed left to right *)
Fixpoint sequence {A} (l : list (res A)) : res (list A) :=
  match l with
  | [] => Ok []
  | x :: r => match x with
              | Fail e => Fail e
              | Ok a => match sequence r with Fail e => Fail e | Ok t => Ok (a :: t) end
              end
  end.

(* ------------------------------------------------------------------ sets of flags as lists *)
Definition memb (x : N) (l : list N) : bool := existsb (N.eqb x) l.
Definition disjointb (a b : list N) : bool := negb (existsb (fun x => memb x b) a).
Definition subsetb (a b : list N) : bool := forallb (fun x => memb x b) a.
Definition inter (a b : list N) : list N := filter (fun x => memb x b) a.
Definition diff (a b : list N) : list N := filter (fun x => negb (memb x b)) a.
Fixpoint dedup (l : list N) : list N :=
  match l with [] => [] | x :: r => if memb x r then dedup r else x :: dedup r end.
Definition count (l : list bool) : nat := length (filter (fun b => b) l).

(* ------------------------------------------------------------------ constraint functions *)
Definition cfun := list N -> bool.               (* on = the enabled flags *)
Definition constr := (cfun * list N)%type.       (* function and its variable set *)

(* __use_flags_state_any: vals.isdisjoint(on) == negate *)
Definition c_flag (neg : bool) (vals : list N) : cfun :=
  fun on => Bool.eqb (disjointb vals on) neg.
(* __condition: vals.issubset(on) == negate or all(children) *)
Definition c_cond (neg : bool) (v : N) (cs : list cfun) : cfun :=
  fun on => Bool.eqb (memb v on) neg || forallb (fun c => c on) cs.
(* __or/__and/__just_one/__at_most_one_constraint *)
Definition c_grp (k : kind) (neg : bool) (cs : list cfun) : cfun :=
  fun on =>
    let bs := map (fun c => c on) cs in
    xorb (match k with
          | KOr => existsb (fun b => b) bs
          | KAnd => forallb (fun b => b) bs
          | KOne => Nat.eqb (count bs) 1
          | KAmo => Nat.leb (count bs) 1
          end) neg.

(* the unpacking of zip over the children raises ValueError on an empty sequence *)
Definition nonempty {A} (l : list A) : res (list A) :=
  match l with [] => Fail EValue | _ => Ok l end.

(* __to_single_constraint *)
Fixpoint to_single (r : ru) : res constr :=
  match r with
  | Flag neg al vals => if al then Fail EAssert else Ok (c_flag neg vals, vals)
  | Cond neg v kids =>
      bind (bind (sequence (map to_single kids)) nonempty)
           (fun l => Ok (c_cond neg v (map fst l), v :: concat (map snd l)))
  | Grp k neg kids =>
      bind (bind (sequence (map to_single kids)) nonempty)
           (fun l => Ok (c_grp k neg (map fst l), concat (map snd l)))
  end.

(* __to_multiple_constraint *)
Fixpoint to_multi (r : ru) : res (list constr) :=
  match r with
  | Cond neg v kids =>
      bind (sequence (map to_multi kids))
           (fun ls => Ok (map (fun p : constr => (c_cond neg v [fst p], v :: snd p)) (concat ls)))
  | Grp KAnd neg kids =>
      if neg then Fail EAssert
      else bind (sequence (map to_multi kids)) (fun ls => Ok (concat ls))
  | _ => bind (to_single r) (fun p => Ok [p])
  end.

(* _compiled_constraints *)
Definition compile (rs : list ru) : res (list constr) :=
  bind (sequence (map to_multi rs)) (fun ls => Ok (concat ls)).

(* ------------------------------------------------------------------ the problem's domains *)
Definition dom := (N * list bool)%type.          (* variable, its values in add_variable order *)
Definition keys (p : list dom) : list N := map fst p.

(* Problem.add_variable(domain, *variables): asserts the variable is new *)
Fixpoint add_vars (d : list bool) (vs : list N) (p : list dom) : res (list dom) :=
  match vs with
  | [] => Ok p
  | v :: r => if memb v (keys p) then Fail EAssert else add_vars d r (p ++ [(v, d)])
  end.

Definition domains (iuse ft ff pt : list N) : res (list dom) :=
  let iu := dedup iuse in
  bind (add_vars [true; false] (diff (diff (diff iu ft) ff) pt) [])
  (fun p => bind (add_vars [false; true] (diff (diff (inter iu pt) ff) ft) p)
  (fun p => bind (add_vars [false] (inter iu ff) p)
  (fun p => add_vars [true] (inter iu ft) p))).

(* the loop over the compiled constraints: variables not yet known get the domain (False,) *)
Fixpoint add_missing (cs : list constr) (p : list dom) : list dom :=
  match cs with
  | [] => p
  | (_, vs) :: r =>
      add_missing r (p ++ map (fun v => (v, [false])) (dedup (diff vs (keys p))))
  end.

(* ------------------------------------------------------------------ find_constraint_satisfaction *)
Definition assignment := list (N * bool).        (* a solution dict, in the order of the domains *)
Definition solver := list dom -> list constr -> list assignment.

(* the Problem handed to the solver: its domains and constraints *)
Definition problem (rs : list ru) (iuse ft ff pt : list N) : res (list dom * list constr) :=
  bind (domains iuse ft ff pt)
       (fun p0 => bind (compile rs) (fun cs => Ok (add_missing cs p0, cs))).
Definition fcs (solve : solver) (rs : list ru) (iuse ft ff pt : list N) : res (list assignment) :=
  bind (problem rs iuse ft ff pt) (fun pc => Ok (solve (fst pc) (snd pc))).

(* ------------------------------------------------------------------ how the solver reads a constraint *)
Definition on_of (a : assignment) : list N := map fst (filter (fun p => snd p) a).
(* Problem.__check calls the constraint with exactly the constraint's variables *)
Definition sat1 (a : assignment) (c : constr) : bool :=
  fst c (filter (fun v => memb v (on_of a)) (snd c)).
(* a constraint over no variable is never looked at by Problem (it is in no vconstraints list) *)
Definition has_vars (c : constr) : bool := match snd c with [] => false | _ => true end.
Definition sat_all (cs : list constr) (a : assignment) : bool :=
  forallb (fun c => implb (has_vars c) (sat1 a c)) cs.

(* ------------------------------------------------------------------ reference solver *)
(* every assignment within the domains, the one taking the LAST value of every domain first *)
Fixpoint enum (p : list dom) : list assignment :=
  match p with
  | [] => [[]]
  | (v, d) :: r => flat_map (fun b => map (cons (v, b)) (enum r)) (rev d)
  end.
Definition solve_ref : solver := fun p cs => filter (sat_all cs) (enum p).

(* the assignment taking the LAST value of every domain (none if some domain is empty) *)
Fixpoint last_assign (p : list dom) : option assignment :=
  match p with
  | [] => Some []
  | (v, d) :: r =>
      match rev d, last_assign r with
      | b :: _, Some a => Some ((v, b) :: a)
      | _, _ => None
      end
  end.

(* ------------------------------------------------------------------ encoders for the harness *)
Definition mask (l : list N) : N := fold_left (fun acc v => N.lor acc (N.shiftl 1 v)) l 0%N.
Definition enc_assign (a : assignment) : val :=
  VL [VZ (Z.of_N (mask (map fst a))); VZ (Z.of_N (mask (on_of a)))].
Fixpoint insert_by (x : N * val) (l : list (N * val)) : list (N * val) :=
  match l with
  | [] => [x]
  | y :: r => if N.leb (fst x) (fst y) then x :: l else y :: insert_by x r
  end.
Definition sort_by (l : list (N * val)) : list (N * val) := fold_right insert_by [] l.
Definition e_assert : val := VErr [65;115;115;101;114;116;105;111;110;69;114;114;111;114]%N. (* AssertionError *)
Definition e_value : val := VErr [86;97;108;117;101;69;114;114;111;114]%N.                  (* ValueError *)
Definition enc_err (e : err) : val := match e with EAssert => e_assert | EValue => e_value end.

(* result: [is the first solution the preferred (last-value) assignment?;
            all solutions sorted by their on-mask (duplicates kept)].
   Which solution comes first when the preferred one does not satisfy is the solver's
   heuristic and is not part of the contract, so it is not compared. *)
Definition enc_sols (pref : option assignment) (l : list assignment) : val :=
  VL [VB (match l, pref with
          | a :: _, Some p => N.eqb (mask (on_of a)) (mask (on_of p))
          | _, _ => false
          end);
      VL (map snd (sort_by (map (fun a => (mask (on_of a), enc_assign a)) l)))].

(* stream "fcs": list(find_constraint_satisfaction(restricts, iuse, force_true, force_false, prefer_true)) *)
Definition fcs_input := (list ru * (list N * list N * list N * list N))%type.
Definition run_fcs (i : fcs_input) : val :=
  let '(rs, (iuse, ft, ff, pt)) := i in
  match problem rs iuse ft ff pt with
  | Ok pc => enc_sols (last_assign (fst pc)) (solve_ref (fst pc) (snd pc))
  | Fail e => enc_err e
  end.

(* truth table of every compiled constraint over all subsets of its variables,
   [[vars mask; [on-masks accepted]] ...] *)
Fixpoint subsets (l : list N) : list (list N) :=
  match l with [] => [[]] | x :: r => let s := subsets r in s ++ map (cons x) s end.
Definition enc_constr (c : constr) : val :=
  let vs := dedup (snd c) in
  VL [VZ (Z.of_N (mask vs));
      VL (map snd (sort_by (map (fun on => (mask on, VZ (Z.of_N (mask on))))
                               (filter (fst c) (subsets vs)))))].
(* compact constructors for the results recorded by the harness (cheap to parse) *)
Definition sols_val (first : bool) (km : N) (ons : list N) : val :=
  VL [VB first; VL (map (fun o => VL [VZ (Z.of_N km); VZ (Z.of_N o)]) ons)].
Arguments sols_val first km%N_scope ons%N_scope.
Definition prob_val (ds : list (N * list bool)) (cs : list (N * list N)) : val :=
  VL [VL (map (fun d : N * list bool => VL [VZ (Z.of_N (fst d)); VL (map VB (snd d))]) ds);
      VL (map (fun c : N * list N => VL [VZ (Z.of_N (fst c)); VL (map (fun o => VZ (Z.of_N o)) (snd c))]) cs)].
Arguments prob_val ds%N_scope cs%N_scope.
Definition enc_dom (d : dom) : val := VL [VZ (Z.of_N (fst d)); VL (map VB (snd d))].
(* stream "problem": the Problem as find_constraint_satisfaction sets it up — domains (sorted by
   variable, the dict order being hash order) and the constraints' truth tables in order *)
(* The constraints are compared as a SET of truth tables: _compiled_constraints is cached on the
   DepSet, whose equality/hash ignore order and multiplicity of the top-level items, so the order
   and multiplicity of the recorded constraints depend on which equal DepSet was compiled first.
   A conjunction does not care. *)
Definition ckey (c : constr) : N :=
  let vs := dedup (snd c) in
  N.lor (mask vs)
        (N.shiftl (fold_left (fun acc on => N.lor acc (N.shiftl 1 (mask on))) (filter (fst c) (subsets vs)) 0%N) 8).
Fixpoint insert_uniq (x : N * val) (l : list (N * val)) : list (N * val) :=
  match l with
  | [] => [x]
  | y :: r => if N.eqb (fst x) (fst y) then l
              else if N.ltb (fst x) (fst y) then x :: l else y :: insert_uniq x r
  end.
Definition sort_uniq (l : list (N * val)) : list (N * val) := fold_right insert_uniq [] l.
Definition run_problem (i : fcs_input) : val :=
  let '(rs, (iuse, ft, ff, pt)) := i in
  match problem rs iuse ft ff pt with
  | Fail e => enc_err e
  | Ok pc =>
      VL [VL (map snd (sort_by (map (fun d => (fst d, enc_dom d)) (fst pc))));
          VL (map snd (sort_uniq (map (fun c => (ckey c, enc_constr c)) (snd pc))))]
  end.

(* stream "solver": a raw Problem — domains and constraints given by truth tables
   (vars, accepted on-masks) — solved by solve_ref *)
Definition tconstr := (list N * list N)%type.
Definition of_table (t : tconstr) : constr :=
  (fun on => memb (mask on) (snd t), fst t).
Definition solver_input := (list dom * list tconstr)%type.
Definition run_solver (i : solver_input) : val :=
  enc_sols (last_assign (fst i)) (solve_ref (fst i) (map of_table (snd i))).
