(* Prop_C40.v — the property theorems of C40 and nothing else. *)
From Coq Require Import List NArith ZArith Bool.
Import ListNotations.
From Verif Require Import Base.Val C40.Model_C40 C40.Spec_C40 C40.Proofs_C40.

(* ---- every yielded request, every repository, request list and option combination ---- *)

(* each arch of a yielded request is (a) validated against the known arches or inherited from
   cc, inside cc when cc is given, not already carried when only_new, inside the filter when a
   filter is given — or (b) an allarches stabilization candidate of that version *)
Theorem yield_general : forall c key p ks,
  In (key, p, ks) (fst (run c)) ->
  forall k, In k ks ->
    ( (In k (c_known c) \/ In k (o_cc (c_opts c)))
      /\ (o_cc (c_opts c) <> [] -> In k (o_cc (c_opts c)))
      /\ (o_only_new (c_opts c) = true -> ~ carried (o_stable (c_opts c)) p k)
      /\ (o_filt (c_opts c) <> [] -> In k (o_filt (c_opts c))) )
    \/ (allarches_active (c_opts c) = true /\ candidate (versions (c_repo c) key) p k).
Proof. exact yield_general_proof. Qed.
Print Assumptions yield_general.

(* arches ⊆ filter ∪ allarches candidates *)
Theorem filter_clause : forall c y, In y (fst (run c)) -> cl_filter c y.
Proof. exact filter_clause_proof. Qed.
Print Assumptions filter_clause.

(* arches ⊆ known arches: outside the class {cc has an unknown arch, or allarches is active and
   some candidate of the repository is not a known arch}; the full statement is false *)
Theorem known_partial : forall c y, known_class c = false -> In y (fst (run c)) -> cl_known c y.
Proof. exact known_partial_proof. Qed.
Print Assumptions known_partial.
Theorem C40_known_refuted : ~ C40_known_full.
Proof. exact C40_known_refuted_proof. Qed.
Print Assumptions C40_known_refuted.

(* arches ⊆ cc when cc is given: outside {allarches active and some candidate outside cc} *)
Theorem cc_partial : forall c y, cc_class c = false -> In y (fst (run c)) -> cl_cc c y.
Proof. exact cc_partial_proof. Qed.
Print Assumptions cc_partial.
Theorem C40_cc_refuted : ~ C40_cc_full.
Proof. exact C40_cc_refuted_proof. Qed.
Print Assumptions C40_cc_refuted.

(* only_new ⇒ no arch already carried: outside {allarches active and some candidate is carried
   as stable by its own version} *)
Theorem new_partial : forall c y, new_class c = false -> In y (fst (run c)) -> cl_new c y.
Proof. exact new_partial_proof. Qed.
Print Assumptions new_partial.
Theorem C40_new_refuted : ~ C40_new_full.
Proof. exact C40_new_refuted_proof. Qed.
Print Assumptions C40_new_refuted.

(* the package acted on is in the repository and named by a request line's spec; when
   stabilizing that spec is exact (=) and without slot *)
Theorem acts_on_named : forall c y, In y (fst (run c)) -> cl_acts c y.
Proof. exact acts_proof. Qed.
Print Assumptions acts_on_named.

(* a spec that cannot be acted on (stabilizing: not "=" or slotted; either mode: matches
   nothing) is rejected: the run ends in an exception, nothing is yielded for it or after it *)
Theorem unactionable_rejected : forall c l1 r l2,
  c_reqs c = l1 ++ r :: l2 -> unactionable (c_opts c) (c_repo c) r = true ->
  (exists e, fst (snd (run c)) = Some e) /\ (length (fst (run c)) <= length l1)%nat.
Proof. exact unactionable_rejected_proof. Qed.
Print Assumptions unactionable_rejected.

(* ---- suggestions ---- *)

(* no prefix keyword is ever suggested (stabilizing or keywording) *)
Theorem suggested_no_prefix : forall stable vs p k,
  In k (suggested stable vs p) -> ~ has_dash k.
Proof. exact suggested_no_prefix_proof. Qed.
Print Assumptions suggested_no_prefix.

(* stabilization suggestions are exactly: no prefix, testing on the package, stable on a version *)
Theorem suggested_stable_iff : forall vs p k,
  In k (suggested true vs p) <-> candidate vs p k.
Proof. exact suggested_stable_iff_proof. Qed.
Print Assumptions suggested_stable_iff.

(* ... stable on ANOTHER version, unless the version itself lists k as stable next to ~k;
   the unconditional statement is false *)
Theorem suggested_stable_elsewhere_partial : forall vs p k,
  In k (suggested true vs p) -> ~ In k (p_kws p) ->
  testing_on p k /\ exists other, In other vs /\ other <> p /\ stable_on other k.
Proof. exact suggested_stable_elsewhere_partial_proof. Qed.
Print Assumptions suggested_stable_elsewhere_partial.
Theorem C40_sugg_elsewhere_refuted : ~ C40_sugg_elsewhere_full.
Proof. exact C40_sugg_elsewhere_refuted_proof. Qed.
Print Assumptions C40_sugg_elsewhere_refuted.

(* keywording suggestions: no prefix, not carried (k / ~k) here, keyworded on some version *)
Theorem suggested_keywording : forall vs p k,
  In k (suggested false vs p) ->
  ~ has_dash k /\ ~ carried false p k /\
  exists other x, In other vs /\ In x (p_kws other) /\ head_in [minus] x = false /\ lstrip [tilde] x = k.
Proof. exact suggested_keywording_proof. Qed.
Print Assumptions suggested_keywording.

(* filter_prefix_keywords keeps exactly the keywords without "-" *)
Theorem filter_prefix_exact : forall l k, In k (filter_prefix l) <-> In k l /\ ~ has_dash k.
Proof. exact filter_prefix_exact_proof. Qed.
Print Assumptions filter_prefix_exact.
