(* Prop_C44.v — the property theorems of C44 and nothing else. *)
From Coq Require Import List NArith ZArith Bool.
Import ListNotations.
From Verif Require Import Base.Val C01.Model_C01 C04.Model_C04 C44.Model_C44 C44.Spec_C44 C44.Proofs_C44.

(* a text containing a blocker mark is rejected (pinned and repaired behaviour alike) *)
Theorem blocker_rejected : forall fix_ t, mem c_bang t = true -> parse_match_gen fix_ t = EParse.
Proof. exact blocker_rejected_proof. Qed.
Print Assumptions blocker_rejected.
