(* GENERATED from merge/triggers.py (BaseSystemUnmergeProtection, unmerge), fs/ops.py (unmerge_contents) by harness/tables.py on every run — do not edit. *)
From Coq Require Import List ZArith NArith Bool.
Import ListNotations.
From Verif Require Import Base.Val.

(* BaseSystemUnmergeProtection._preserve_sequence, verbatim *)
Definition preserve_sequence : list str := [[47;117;115;114]%N; [47;117;115;114;47;108;105;98]%N; [47;117;115;114;47;108;105;98;54;52]%N; [47;117;115;114;47;108;105;98;51;50]%N; [47;117;115;114;47;98;105;110]%N; [47;117;115;114;47;115;98;105;110]%N; [47;98;105;110]%N; [47;115;98;105;110]%N; [47;108;105;98]%N; [47;108;105;98;51;50]%N; [47;108;105;98;54;52]%N; [47;101;116;99]%N; [47;118;97;114]%N; [47;104;111;109;101]%N; [47;114;111;111;116]%N].
(* /usr, /usr/lib, /usr/lib64, /usr/lib32, /usr/bin, /usr/sbin, /bin, /sbin, /lib, /lib32, /lib64, /etc, /var, /home, /root *)
(* errno values the rmdir loop of unmerge_contents ignores: ENOTEMPTY, ENOENT, ENOTDIR, EBUSY, EEXIST *)
Definition rmdir_ignored : list N := [39%N; 2%N; 20%N; 16%N; 17%N].
Definition E_NOENT : N := 2%N.
Definition E_NOTDIR : N := 20%N.
Definition E_NOTEMPTY : N := 39%N.
Definition E_BUSY : N := 16%N.

(* merge/const.py *)
Definition REPLACE_MODE : N := 0%N.
Definition INSTALL_MODE : N := 1%N.
Definition UNINSTALL_MODE : N := 2%N.
(* default_plugins_triggers(): (class name, priority, _hooks, _engine_types) in source order; the
   function returns them sorted(reverse=True, key=(priority, name)); execute_hook runs
   sorted(hooks[hook], key=priority) - both shapes are checked when this file is generated *)
Definition default_triggers : list (str * Z * list str * option (list N)) :=
  [([108;100;99;111;110;102;105;103]%N, 10%Z, [[112;114;101;95;109;101;114;103;101]%N; [112;111;115;116;95;109;101;114;103;101]%N; [112;114;101;95;117;110;109;101;114;103;101]%N; [112;111;115;116;95;117;110;109;101;114;103;101]%N], (@None (list N))); ([109;101;114;103;101]%N, 50%Z, [[109;101;114;103;101]%N], (Some [0%N; 1%N])); ([117;110;109;101;114;103;101]%N, 50%Z, [[117;110;109;101;114;103;101]%N], (Some [0%N; 2%N])); ([102;105;120;95;117;105;100;95;112;101;114;109;115]%N, 50%Z, [[112;114;101;95;109;101;114;103;101]%N], (Some [0%N; 1%N])); ([102;105;120;95;103;105;100;95;112;101;114;109;115]%N, 50%Z, [[112;114;101;95;109;101;114;103;101]%N], (Some [0%N; 1%N])); ([102;105;120;95;115;101;116;95;98;105;116;115]%N, 50%Z, [[112;114;101;95;109;101;114;103;101]%N], (Some [0%N; 1%N])); ([100;101;116;101;99;116;95;119;111;114;108;100;95;119;114;105;116;97;98;108;101]%N, 50%Z, [[112;114;101;95;109;101;114;103;101]%N], (Some [0%N; 1%N])); ([73;110;102;111;82;101;103;101;110]%N, 50%Z, [[112;114;101;95;109;101;114;103;101]%N; [112;111;115;116;95;109;101;114;103;101]%N; [112;114;101;95;117;110;109;101;114;103;101]%N; [112;111;115;116;95;117;110;109;101;114;103;101]%N], (@None (list N))); ([67;111;109;109;111;110;68;105;114;101;99;116;111;114;121;77;111;100;101;115]%N, 50%Z, [[112;114;101;95;109;101;114;103;101]%N], (Some [0%N; 1%N])); ([66;97;115;101;83;121;115;116;101;109;85;110;109;101;114;103;101;80;114;111;116;101;99;116;105;111;110]%N, (-100)%Z, [[117;110;109;101;114;103;101]%N], (Some [0%N; 2%N]))].
(* MergeEngine.install_hooks / uninstall_hooks (replace_hooks is their union) *)
Definition install_hooks : list str := [[115;97;110;105;116;121;95;99;104;101;99;107]%N; [112;114;101;95;109;101;114;103;101]%N; [109;101;114;103;101]%N; [112;111;115;116;95;109;101;114;103;101]%N; [102;105;110;97;108]%N].
Definition uninstall_hooks : list str := [[115;97;110;105;116;121;95;99;104;101;99;107]%N; [112;114;101;95;117;110;109;101;114;103;101]%N; [117;110;109;101;114;103;101]%N; [112;111;115;116;95;117;110;109;101;114;103;101]%N; [102;105;110;97;108]%N].
Definition name_unmerge : str := [117;110;109;101;114;103;101]%N.                       (* trigger class and hook *)
Definition name_protection : str := [66;97;115;101;83;121;115;116;101;109;85;110;109;101;114;103;101;80;114;111;116;101;99;116;105;111;110]%N.
