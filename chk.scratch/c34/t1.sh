a=simple
b='with space'
c="it's"
d=$'line1\nline2\ttab'
e=
f='}{#;'
g='$x `y` "q"'
h=(one "two three" $'f\nour' "it's" '"dq"' '$v')
i='a=b'
j=$'\001x'
k='\'
l="a'b'c"
set | grep -a -E '^[a-l]='
f1() { echo "a}b" '}' ${x%\}} "${y//\}/\{}"; echo ${z:-'}'}; }
f2() { if true; then { echo a; echo b; }; else ( echo c; echo d ) fi; for i in 1 2; do echo $i; done; while :; do break; done; }
f3() { case $x in a|b) echo 1;; "}") echo 2 ;; *) echo 3;; esac; }
f4() { cat <<EOF
 hello } $x
EOF
 cat <<-'E2'
	raw } text
	E2
 echo after; }
f5() { echo $(( (1+2)*3 )) $((x<<2)) $(echo hi; echo "}" ) `echo bq` ; local v=$(cat <<< "here}string") ; }
f6() { echo a # comment }
 echo b#notcomment; echo 'q'"r"\}; [[ $a == "}" ]] && echo } ; }
f7() { x=1 y="a b" cmd arg; arr=(1 2 "3 }") ; echo ${arr[@]} ${#arr[@]} ${x:+"}"} ; }
f8() { function inner { echo in; }; inner2() ( echo sub ); echo $'ansi\'}' ; }
declare -f f1 f2 f3 f4 f5 f6 f7 f8
