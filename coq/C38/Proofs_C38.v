(* Proofs_C38.v — lemmas and proofs for C38. *)
From Coq Require Import List NArith ZArith Bool Lia.
Import ListNotations.
From Verif Require Import Base.Val C38.Model_C38 C38.Spec_C38.
Local Open Scope N_scope.

(* ------------------------------------------------------------------ splitlines / rstrip *)
Lemma concat_splitlines t : concat (splitlines t) = t.
Proof.
  induction t as [|c t IH]; cbn [splitlines]; [reflexivity|].
  destruct (ends_line c t).
  - cbn. now rewrite IH.
  - destruct (splitlines t) as [|l r] eqn:E; cbn in *.
    + now rewrite <- IH.
    + now rewrite <- IH.
Qed.

Lemma rstrip_crlf_prefix s : rstrip_crlf s ++ skipn (length (rstrip_crlf s)) s = s.
Proof.
  induction s as [|c s IH]; [reflexivity|].
  cbn [rstrip_crlf]. destruct (all_crlf (c :: s)); cbn; [reflexivity|].
  now rewrite IH.
Qed.

Section Parse.
Variable aof : str -> option str.

Lemma parse_line_raw_eol n line e :
  parse_line aof n line = Ok e -> raw e ++ eol e = line /\ lineno e = n.
Proof.
  unfold parse_line. destruct (split_comment (rstrip_crlf line)) as [[pre sep] cmt].
  destruct (tokens pre) as [|t ks].
  - intros [= <-]; cbn. split; [apply rstrip_crlf_prefix|reflexivity].
  - destruct (aof t); [|discriminate]. intros [= <-]; cbn.
    split; [apply rstrip_crlf_prefix|reflexivity].
Qed.

Lemma parse_lines_render n ls es :
  parse_lines aof n ls = Ok es -> render es = concat ls.
Proof.
  revert n es; induction ls as [|l r IH]; intros n es; cbn [parse_lines].
  - intros [= <-]; reflexivity.
  - destruct (parse_line aof n l) as [e|] eqn:E; [|discriminate].
    destruct (parse_lines aof (n + 1) r) as [es'|] eqn:E'; [|discriminate].
    intros [= <-]. unfold render in *; cbn.
    apply parse_line_raw_eol in E as [-> _]. now rewrite (IH _ _ E').
Qed.

Theorem render_parse_id_proof t es : parse aof t = Ok es -> render es = t.
Proof.
  unfold parse; intros H. rewrite (parse_lines_render _ _ _ H). apply concat_splitlines.
Qed.
End Parse.

(* ------------------------------------------------------------------ character facts *)
Lemma isspace_not_hash c : isspace c = true -> (c =? HASH) = false.
Proof.
  intros H. destruct (c =? HASH) eqn:E; [|reflexivity].
  apply N.eqb_eq in E; subst c. vm_compute in H. discriminate.
Qed.
Lemma crlf_is_lb c : is_crlf c = true -> is_lb c = true.
Proof.
  unfold is_crlf. intros H. apply orb_true_iff in H as [H|H]; apply N.eqb_eq in H; subst; reflexivity.
Qed.
Lemma lb_isspace c : is_lb c = true -> isspace c = true.
Proof.
  unfold is_lb, isspace. intros H.
  repeat (apply orb_true_iff in H as [H|H]);
    repeat match goal with
           | H : (_ && _) = true |- _ => apply andb_true_iff in H as [? ?]
           | H : (_ <=? _) = true |- _ => apply N.leb_le in H
           | H : (_ =? _) = true |- _ => apply N.eqb_eq in H; subst
           end; try reflexivity.
  - assert (E : (9 <=? c) = true) by (apply N.leb_le; lia). rewrite E.
    assert (E' : (c <=? 13) = true) by (apply N.leb_le; lia). rewrite E'. reflexivity.
  - assert (E : (28 <=? c) = true) by (apply N.leb_le; lia).
    assert (E' : (c <=? 32) = true) by (apply N.leb_le; lia). rewrite E, E'.
    cbn. now rewrite orb_true_r.
Qed.
Lemma is_lb_bounded c : is_lb c = true -> c < 12544.
Proof. intros H. apply lb_isspace in H. revert H. unfold isspace. intros H.
  repeat (apply orb_true_iff in H as [H|H]);
    repeat match goal with
           | H : (_ && _) = true |- _ => apply andb_true_iff in H as [? ?]
           | H : (_ <=? _) = true |- _ => apply N.leb_le in H
           | H : (_ =? _) = true |- _ => apply N.eqb_eq in H; subst
           end; lia.
Qed.
Lemma isspace_bounded c : isspace c = true -> c < 12544.
Proof. unfold isspace. intros H.
  repeat (apply orb_true_iff in H as [H|H]);
    repeat match goal with
           | H : (_ && _) = true |- _ => apply andb_true_iff in H as [? ?]
           | H : (_ <=? _) = true |- _ => apply N.leb_le in H
           | H : (_ =? _) = true |- _ => apply N.eqb_eq in H; subst
           end; lia.
Qed.
Lemma crlf_isspace c : is_crlf c = true -> isspace c = true.
Proof. intro H. apply lb_isspace, crlf_is_lb, H. Qed.
Lemma isspace_SP : isspace SP = true. Proof. reflexivity. Qed.

Lemma forallb_app' {A} (p : A -> bool) a b : forallb p (a ++ b) = forallb p a && forallb p b.
Proof. induction a; cbn; [reflexivity|]. now rewrite IHa, andb_assoc. Qed.

(* ------------------------------------------------------------------ tokens *)
Definition all_nws (s : str) : bool := forallb notspace s.

Lemma tokens_ws_cons c s : isspace c = true -> tokens (c :: s) = tokens s.
Proof. intros H; cbn. now rewrite H. Qed.
Lemma tokens_ws_app w s : all_ws w = true -> tokens (w ++ s) = tokens s.
Proof.
  induction w as [|c w IH]; cbn [app]; [reflexivity|]. intros H.
  cbn in H. apply andb_true_iff in H as [Hc Hw]. rewrite tokens_ws_cons by assumption. auto.
Qed.
Lemma tokens_all_ws w : all_ws w = true -> tokens w = [].
Proof. intros H. rewrite <- (app_nil_r w). rewrite tokens_ws_app by assumption. reflexivity. Qed.

Lemma tokens_cons2 a b s :
  tokens (a :: b :: s) =
  if isspace a then tokens (b :: s)
  else if isspace b then [a] :: tokens (b :: s)
       else match tokens (b :: s) with t :: r => (a :: t) :: r | [] => [[a]] end.
Proof. reflexivity. Qed.

Lemma tokens_tok_ws t c s :
  t <> [] -> all_nws t = true -> isspace c = true -> tokens (t ++ c :: s) = t :: tokens s.
Proof.
  induction t as [|a t IH]; [congruence|]. intros _ H Hc.
  cbn in H. apply andb_true_iff in H as [Ha Ht]. unfold notspace in Ha. apply negb_true_iff in Ha.
  destruct t as [|b t].
  - cbn. now rewrite Ha, Hc.
  - assert (Hb : isspace b = false).
    { cbn in Ht. apply andb_true_iff in Ht as [Hb _]. now apply negb_true_iff in Hb. }
    change ((a :: b :: t) ++ c :: s) with (a :: b :: (t ++ c :: s)).
    rewrite tokens_cons2, Ha, Hb.
    change (b :: t ++ c :: s) with ((b :: t) ++ c :: s). rewrite IH; [reflexivity|discriminate|assumption|assumption].
Qed.
Lemma tokens_tok t : t <> [] -> all_nws t = true -> tokens t = [t].
Proof.
  induction t as [|a t IH]; [congruence|]. intros _ H.
  cbn in H. apply andb_true_iff in H as [Ha Ht]. unfold notspace in Ha. apply negb_true_iff in Ha.
  destruct t as [|b t].
  - cbn. now rewrite Ha.
  - assert (Hb : isspace b = false).
    { cbn in Ht. apply andb_true_iff in Ht as [Hb _]. now apply negb_true_iff in Hb. }
    rewrite tokens_cons2, Ha, Hb. rewrite IH; [reflexivity|discriminate|assumption].
Qed.
Lemma tokens_app_ws s w : all_ws w = true -> tokens (s ++ w) = tokens s.
Proof.
  intros Hw. induction s as [|c s IH]; cbn [app].
  - now apply tokens_all_ws.
  - cbn [tokens]. destruct (isspace c); [assumption|].
    destruct s as [|d s]; cbn [app].
    + destruct w as [|d w]; [reflexivity|].
      cbn in Hw. apply andb_true_iff in Hw as [Hd Hw']. rewrite Hd.
      rewrite tokens_ws_cons by assumption. now rewrite tokens_all_ws.
    + cbn [app] in IH. rewrite IH. reflexivity.
Qed.

(* span *)
Lemma span_spec p s a b : span p s = (a, b) ->
  s = a ++ b /\ forallb p a = true /\ (match b with [] => True | c :: _ => p c = false end).
Proof.
  revert a b; induction s as [|c s IH]; intros a b; cbn.
  - intros [= <- <-]; auto.
  - destruct (p c) eqn:E.
    + destruct (span p s) as [a' b'] eqn:E'. intros [= <- <-].
      destruct (IH _ _ eq_refl) as (-> & H1 & H2). cbn. rewrite E. auto.
    + intros [= <- <-]. cbn. rewrite E. auto.
Qed.

(* the first token and what follows it *)
Lemma tokens_decomp s w0 r0 t0 r1 :
  span isspace s = (w0, r0) -> span notspace r0 = (t0, r1) ->
  s = w0 ++ t0 ++ r1 /\ all_ws w0 = true /\ all_nws t0 = true /\
  (match r1 with [] => True | c :: _ => isspace c = true end) /\
  tokens s = (if null t0 then [] else t0 :: tokens r1) /\ (t0 = [] -> r1 = []).
Proof.
  intros H0 H1. apply span_spec in H0 as (-> & Hw0 & Hr0). apply span_spec in H1 as (-> & Ht0 & Hr1).
  repeat split; auto.
  - destruct r1; [trivial|]. unfold notspace in Hr1. now apply negb_false_iff in Hr1.
  - rewrite tokens_ws_app by assumption. destruct t0 as [|a t0].
    + cbn. destruct r1 as [|c r1]; [reflexivity|]. exfalso.
      cbn in Hr0. unfold notspace in Hr1. apply negb_false_iff in Hr1. congruence.
    + cbn [null]. destruct r1 as [|c r1].
      * rewrite app_nil_r. apply tokens_tok; [discriminate|assumption].
      * unfold notspace in Hr1. apply negb_false_iff in Hr1.
        rewrite tokens_tok_ws by (try discriminate; assumption).
        now rewrite tokens_ws_cons.
  - intros ->. destruct r1 as [|c r1]; [reflexivity|]. exfalso.
    cbn in Hr0. unfold notspace in Hr1. apply negb_false_iff in Hr1. congruence.
Qed.

(* rstrip_ws / trail_ws *)
Lemma rstrip_trail s : s = rstrip_ws s ++ trail_ws s.
Proof.
  induction s as [|c s IH]; [reflexivity|]. cbn [rstrip_ws trail_ws].
  destruct (all_ws (c :: s)); [reflexivity|]. cbn. now rewrite <- IH.
Qed.
Lemma trail_ws_all_ws s : all_ws (trail_ws s) = true.
Proof.
  induction s as [|c s IH]; [reflexivity|]. cbn [trail_ws].
  destruct (all_ws (c :: s)) eqn:E; assumption.
Qed.
Lemma trail_ws_app_ws a w : all_ws w = true -> trail_ws (a ++ w) = trail_ws a ++ w.
Proof.
  intros Hw. induction a as [|c a IH]; cbn [app].
  - destruct w as [|d w]; [reflexivity|]. cbn [trail_ws]. now rewrite Hw.
  - cbn [trail_ws]. unfold all_ws in *. cbn [forallb]. rewrite forallb_app', Hw, andb_true_r.
    destruct (isspace c && forallb isspace a); [reflexivity|assumption].
Qed.
Lemma trail_ws_app_nws a b : all_ws b = false -> trail_ws (a ++ b) = trail_ws b.
Proof.
  intros Hb. induction a as [|c a IH]; cbn [app]; [reflexivity|].
  cbn [trail_ws]. unfold all_ws in *. cbn [forallb]. rewrite forallb_app', Hb, andb_false_r, andb_false_r.
  assumption.
Qed.
Lemma rstrip_ws_nil s : rstrip_ws s = [] -> all_ws s = true.
Proof. destruct s as [|c s]; [reflexivity|]. cbn [rstrip_ws]. destruct (all_ws (c :: s)); [reflexivity|discriminate]. Qed.
Lemma tokens_rstrip s : tokens (rstrip_ws s) = tokens s.
Proof. rewrite (rstrip_trail s) at 2. now rewrite tokens_app_ws by apply trail_ws_all_ws. Qed.

Lemma last_ws_cons c x : x <> [] -> last_ws (c :: x) = last_ws x.
Proof.
  intros Hx. unfold last_ws. cbn [rev]. destruct (rev x) as [|d r] eqn:E.
  - exfalso. apply Hx. apply (f_equal (@rev N)) in E. now rewrite rev_involutive in E.
  - reflexivity.
Qed.
Lemma last_ws_rstrip s : last_ws (rstrip_ws s) = false.
Proof.
  induction s as [|c s IH]; [reflexivity|]. cbn [rstrip_ws].
  destruct (all_ws (c :: s)) eqn:E; [reflexivity|].
  destruct (rstrip_ws s) as [|d r] eqn:E'.
  - apply rstrip_ws_nil in E'. cbn in E. unfold all_ws in E'. rewrite E', andb_true_r in E.
    unfold last_ws; cbn. assumption.
  - rewrite last_ws_cons by discriminate. assumption.
Qed.
Lemma last_ws_app a b : b <> [] -> last_ws (a ++ b) = last_ws b.
Proof.
  intros Hb. induction a as [|c a IH]; [reflexivity|]. cbn [app].
  rewrite last_ws_cons; [assumption|]. destruct a; cbn; [assumption|discriminate].
Qed.

Lemma tokens_nonempty d s : isspace d = false -> tokens (d :: s) <> [].
Proof.
  intros Hd. destruct s as [|e s]; [cbn; rewrite Hd; discriminate|].
  rewrite tokens_cons2, Hd. destruct (isspace e); [discriminate|].
  destruct (tokens (e :: s)); discriminate.
Qed.
Lemma tokens_nil_all_ws s : tokens s = [] -> all_ws s = true.
Proof.
  induction s as [|c s IH]; [reflexivity|]. intros H. cbn [all_ws forallb].
  destruct (isspace c) eqn:E.
  - rewrite tokens_ws_cons in H by assumption. cbn. now apply IH.
  - exfalso. now apply (tokens_nonempty c s E).
Qed.

(* tokens distribute over ++ when the two parts are separated by whitespace *)
Lemma tokens_app_sep a b :
  last_ws a = true \/ hd_ws b = true \/ b = [] -> tokens (a ++ b) = tokens a ++ tokens b.
Proof.
  induction a as [|c a IH]; intros H; [reflexivity|].
  destruct a as [|d a].
  - cbn [app]. destruct (isspace c) eqn:Ec.
    + now rewrite !tokens_ws_cons by assumption.
    + destruct H as [H|[H|H]].
      * unfold last_ws in H; cbn in H. congruence.
      * destruct b as [|e b]; [discriminate|]. cbn in H.
        rewrite tokens_cons2, Ec, H. cbn. now rewrite Ec.
      * subst b. now rewrite app_nil_r.
  - assert (H' : last_ws (d :: a) = true \/ hd_ws b = true \/ b = []).
    { destruct H as [H|H]; [left|right; assumption]. now rewrite last_ws_cons in H by discriminate. }
    specialize (IH H'). change ((c :: d :: a) ++ b) with (c :: d :: (a ++ b)).
    rewrite !tokens_cons2. change (d :: a ++ b) with ((d :: a) ++ b). rewrite IH.
    destruct (isspace c); [reflexivity|]. destruct (isspace d) eqn:Ed; [reflexivity|].
    destruct (tokens (d :: a)) as [|t r] eqn:Et; [|reflexivity].
    exfalso. now apply (tokens_nonempty d a Ed).
Qed.

(* ------------------------------------------------------------------ the comment regex *)
(* no '#' at a position where a comment may start; pw = the previous character is whitespace
   (or we are at the start of the string) *)
Fixpoint nohash_after (pw : bool) (x : str) : bool :=
  match x with
  | [] => true
  | c :: x' => negb (pw && (c =? HASH)) && nohash_after (isspace c) x'
  end.
Fixpoint ends_ws (pw : bool) (x : str) : bool :=
  match x with [] => pw | c :: x' => ends_ws (isspace c) x' end.

Lemma nohash_app pw x y :
  nohash_after pw (x ++ y) = nohash_after pw x && nohash_after (ends_ws pw x) y.
Proof.
  revert pw; induction x as [|c x IH]; intros pw; cbn; [reflexivity|].
  now rewrite IH, andb_assoc.
Qed.
Lemma nohash_mono b x : nohash_after true x = true -> nohash_after b x = true.
Proof. destruct x as [|c x]; [reflexivity|]. destruct b; cbn; [auto|]. intros H. apply andb_true_iff in H as [_ H]. exact H. Qed.
Lemma nohash_app_true b x y :
  nohash_after b x = true -> nohash_after true y = true -> nohash_after b (x ++ y) = true.
Proof. intros Hx Hy. rewrite nohash_app, Hx. cbn. now apply nohash_mono. Qed.
Lemma nohash_all_ws b w : all_ws w = true -> nohash_after b w = true.
Proof.
  revert b; induction w as [|c w IH]; intros b H; [reflexivity|].
  cbn in H. apply andb_true_iff in H as [Hc Hw]. cbn. rewrite (isspace_not_hash c Hc), andb_false_r. cbn. auto.
Qed.
Lemma nohash_nws k : all_nws k = true -> nohash_after false k = true.
Proof.
  induction k as [|c k IH]; [reflexivity|]. intros H. cbn in H. apply andb_true_iff in H as [Hc Hk].
  unfold notspace in Hc. apply negb_true_iff in Hc. cbn. rewrite Hc. auto.
Qed.
Lemma wf_tok_parts k : wf_tok k ->
  k <> [] /\ all_nws k = true /\ hd_is HASH k = false.
Proof.
  unfold wf_tok, wf_tokb. intros H. apply andb_true_iff in H as [H H3]. apply andb_true_iff in H as [H1 H2].
  repeat split; auto.
  - destruct k; [discriminate|discriminate].
  - now apply negb_true_iff in H3.
Qed.
Lemma nohash_tok k : wf_tok k -> nohash_after true k = true.
Proof.
  intros H. apply wf_tok_parts in H as (Hn & Hw & Hh). destruct k as [|c k]; [reflexivity|].
  cbn in Hh. cbn. rewrite Hh. cbn. cbn in Hw. apply andb_true_iff in Hw as [Hc Hk].
  unfold notspace in Hc. apply negb_true_iff in Hc. rewrite Hc. now apply nohash_nws.
Qed.
Lemma nohash_join ks : Forall wf_tok ks -> nohash_after true (join [SP] ks) = true.
Proof.
  induction 1 as [|k ks Hk Hks IH]; [reflexivity|].
  destruct ks as [|k2 ks]; [now apply nohash_tok|].
  change (join [SP] (k :: k2 :: ks)) with (k ++ [SP] ++ join [SP] (k2 :: ks)).
  apply nohash_app_true; [now apply nohash_tok|]. apply nohash_app_true; [reflexivity|exact IH].
Qed.
Lemma tokens_join ks : Forall wf_tok ks -> tokens (join [SP] ks) = ks.
Proof.
  induction 1 as [|k ks Hk Hks IH]; [reflexivity|].
  apply wf_tok_parts in Hk as (Hn & Hw & _).
  destruct ks as [|k2 ks]; [now apply tokens_tok|].
  change (join [SP] (k :: k2 :: ks)) with (k ++ SP :: join [SP] (k2 :: ks)).
  rewrite tokens_tok_ws by (auto using isspace_SP). now rewrite IH.
Qed.

Lemma split_ws_hash_none x : split_ws_hash x = None -> nohash_after false x = true.
Proof.
  induction x as [|c x IH]; [reflexivity|]. cbn [split_ws_hash].
  destruct (isspace c && hd_is HASH x) eqn:E; [discriminate|].
  destruct (split_ws_hash x) as [[[p w] r]|] eqn:E'; [discriminate|]. intros _.
  specialize (IH eq_refl). cbn. destruct (isspace c) eqn:Ec; [|exact IH].
  cbn in E. destruct x as [|d x]; [reflexivity|]. cbn in E. cbn. rewrite E. cbn. exact IH.
Qed.
Lemma split_ws_hash_some x p w r : split_ws_hash x = Some (p, w, r) ->
  x = p ++ w :: r /\ isspace w = true /\ hd_is HASH r = true /\ nohash_after false p = true.
Proof.
  revert p; induction x as [|c x IH]; intros p; [discriminate|]. cbn [split_ws_hash].
  destruct (isspace c && hd_is HASH x) eqn:E.
  - intros [= <- <- <-]. apply andb_true_iff in E as [E1 E2]. auto.
  - destruct (split_ws_hash x) as [[[p' w'] r']|] eqn:E'; [|discriminate].
    intros [= <- <- <-]. destruct (IH _ eq_refl) as (-> & Hw & Hr & Hp). repeat split; auto.
    cbn. destruct (isspace c) eqn:Ec; [|exact Hp]. cbn in E.
    destruct p' as [|d p']; [reflexivity|]. cbn in E. cbn. rewrite E. exact Hp.
Qed.

Lemma split_comment_spec s pre sep cmt : split_comment s = (pre, sep, cmt) ->
  s = pre ++ sep ++ cmt /\ nohash_after true pre = true /\
  ((sep = [] /\ cmt = []) \/
   (hd_is HASH cmt = true /\ ((sep = [] /\ pre = []) \/ exists w, sep = [w] /\ isspace w = true))).
Proof.
  unfold split_comment. destruct (hd_is HASH s) eqn:Eh.
  - intros [= <- <- <-]. split; [reflexivity|]. split; [reflexivity|]. right. split; [exact Eh|]. left. auto.
  - destruct (split_ws_hash s) as [[[p w] r]|] eqn:E.
    + intros [= <- <- <-]. apply split_ws_hash_some in E as (-> & Hw & Hr & Hp).
      split; [reflexivity|]. split.
      * destruct p as [|c p]; [reflexivity|]. cbn in Eh. cbn. rewrite Eh. exact Hp.
      * right. split; [exact Hr|]. right. exists w. auto.
    + intros [= <- <- <-]. rewrite app_nil_r. split; [reflexivity|]. split; [|left; auto].
      apply split_ws_hash_none in E. destruct s as [|c s]; [reflexivity|].
      cbn in Eh. cbn. rewrite Eh. exact E.
Qed.

Lemma nohash_true_hd x : nohash_after true x = true -> hd_is HASH x = false.
Proof. destruct x as [|c x]; [reflexivity|]. cbn. intros H. apply andb_true_iff in H as [H _]. now apply negb_true_iff in H. Qed.
Lemma nohash_false_none x : nohash_after false x = true -> split_ws_hash x = None.
Proof.
  induction x as [|c x IH]; [reflexivity|]. cbn. intros H.
  assert (E : isspace c && hd_is HASH x = false).
  { destruct (isspace c); [|reflexivity]. cbn. now apply nohash_true_hd. }
  rewrite E. rewrite IH; [reflexivity|]. destruct (isspace c); [now apply nohash_mono|exact H].
Qed.
Lemma split_comment_none x : nohash_after true x = true -> split_comment x = (x, [], []).
Proof.
  intros H. unfold split_comment. rewrite (nohash_true_hd _ H).
  rewrite nohash_false_none; [reflexivity|now apply nohash_mono].
Qed.
Lemma split_ws_hash_app x w cmt :
  nohash_after false x = true -> isspace w = true -> hd_is HASH cmt = true ->
  split_ws_hash (x ++ w :: cmt) = Some (x, w, cmt).
Proof.
  intros Hx Hw Hc. induction x as [|c x IH]; cbn [app split_ws_hash].
  - now rewrite Hw, Hc.
  - cbn in Hx.
    assert (E : isspace c && hd_is HASH (x ++ w :: cmt) = false).
    { destruct (isspace c); [|reflexivity]. cbn. destruct x as [|d x]; cbn.
      - now apply isspace_not_hash.
      - cbn in Hx. apply andb_true_iff in Hx as [Hx _]. now apply negb_true_iff in Hx. }
    rewrite E. rewrite IH; [reflexivity|]. destruct (isspace c); [now apply nohash_mono|exact Hx].
Qed.
Lemma split_comment_app x w cmt :
  nohash_after true x = true -> isspace w = true -> hd_is HASH cmt = true ->
  split_comment (x ++ w :: cmt) = (x, [w], cmt).
Proof.
  intros Hx Hw Hc. unfold split_comment.
  assert (E : hd_is HASH (x ++ w :: cmt) = false).
  { destruct x as [|c x]; cbn; [now apply isspace_not_hash|]. cbn in Hx.
    apply andb_true_iff in Hx as [Hx _]. now apply negb_true_iff in Hx. }
  rewrite E. rewrite split_ws_hash_app; auto using nohash_mono.
Qed.

(* ------------------------------------------------------------------ \r \n at the end of a line *)
Definition nocrlf (s : str) : bool := forallb (fun c => negb (is_crlf c)) s.
Definition nolb (s : str) : bool := forallb (fun c => negb (is_lb c)) s.

Lemma rstrip_crlf_all e : all_crlf e = true -> rstrip_crlf e = [].
Proof. destruct e as [|c e]; [reflexivity|]. cbn [rstrip_crlf]. now intros ->. Qed.
Lemma rstrip_crlf_app r e : nocrlf r = true -> all_crlf e = true -> rstrip_crlf (r ++ e) = r.
Proof.
  intros Hr He. induction r as [|c r IH]; cbn [app]; [now apply rstrip_crlf_all|].
  cbn in Hr. apply andb_true_iff in Hr as [Hc Hr]. apply negb_true_iff in Hc.
  cbn [rstrip_crlf all_crlf forallb]. rewrite Hc. cbn. now rewrite IH.
Qed.
Lemma skipn_app_exact {A} (r e : list A) : skipn (length r) (r ++ e) = e.
Proof. induction r; cbn; auto. Qed.
Lemma nolb_nocrlf s : nolb s = true -> nocrlf s = true.
Proof.
  unfold nolb, nocrlf. induction s as [|c s IH]; [reflexivity|]. cbn. intros H.
  apply andb_true_iff in H as [Hc Hs]. rewrite IH by assumption. rewrite andb_true_r.
  destruct (is_crlf c) eqn:E; [|reflexivity]. apply crlf_is_lb in E. rewrite E in Hc. discriminate.
Qed.
Lemma nws_nocrlf s : all_nws s = true -> nocrlf s = true.
Proof.
  unfold all_nws, nocrlf. induction s as [|c s IH]; [reflexivity|]. cbn. intros H.
  apply andb_true_iff in H as [Hc Hs]. rewrite IH by assumption. rewrite andb_true_r.
  destruct (is_crlf c) eqn:E; [|reflexivity]. apply crlf_isspace in E. unfold notspace in Hc. rewrite E in Hc. discriminate.
Qed.

(* shape of the lines str.splitlines produces *)
Definition line_shape (l : str) : Prop :=
  exists b term, l = b ++ term /\ nolb b = true /\
                 (term = [] \/ (exists c, term = [c] /\ is_lb c = true) \/ term = [CR; LF]).

Lemma splitlines_shape t : Forall line_shape (splitlines t).
Proof.
  induction t as [|c t IH]; cbn [splitlines]; [constructor|].
  destruct (ends_line c t) eqn:E.
  - constructor; [|exact IH]. exists [], [c]. repeat split. right; left. exists c. split; [reflexivity|].
    unfold ends_line in E. now apply andb_true_iff in E as [E _].
  - destruct (is_lb c) eqn:Elb.
    + (* the \r of \r\n *)
      unfold ends_line in E. rewrite Elb in E. cbn in E. apply negb_false_iff in E.
      apply andb_true_iff in E as [E1 E2]. apply N.eqb_eq in E1; subst c.
      destruct t as [|d t]; [discriminate|]. cbn in E2. apply N.eqb_eq in E2; subst d.
      cbn [splitlines] in *. change (ends_line LF t) with true in *. cbn iota in *.
      inversion IH as [|? ? _ IH']; subst. constructor; [|exact IH'].
      exists [], [CR; LF]. repeat split. right; right; reflexivity.
    + destruct (splitlines t) as [|l r].
      * constructor; [|constructor]. exists [c], []. repeat split; [|now left]. cbn. now rewrite Elb.
      * inversion IH as [|? ? (b & term & -> & Hb & Ht) IH']; subst. constructor; [|exact IH'].
        exists (c :: b), term. repeat split; [|exact Ht]. cbn. now rewrite Elb.
Qed.

Lemma line_shape_raw_eol l : line_shape l ->
  exists r e, l = r ++ e /\ nocrlf r = true /\ all_crlf e = true.
Proof.
  intros (b & term & -> & Hb & [->|[(c & -> & Hc)| ->]]).
  - exists b, []. rewrite app_nil_r. auto using nolb_nocrlf.
  - destruct (is_crlf c) eqn:E.
    + exists b, [c]. repeat split; [now apply nolb_nocrlf|]. cbn. now rewrite E.
    + exists (b ++ [c]), []. rewrite app_nil_r. repeat split.
      unfold nocrlf. rewrite forallb_app'. cbn. rewrite E. cbn.
      rewrite andb_true_r. now apply nolb_nocrlf.
  - exists b, [CR; LF]. auto using nolb_nocrlf.
Qed.

(* ------------------------------------------------------------------ with_keywords *)
Lemma trail_ws_tok t : all_nws t = true -> trail_ws t = [].
Proof.
  induction t as [|a t IH]; [reflexivity|]. intros H. cbn in H. apply andb_true_iff in H as [Ha Ht].
  unfold notspace in Ha. apply negb_true_iff in Ha. cbn [trail_ws all_ws forallb]. rewrite Ha. cbn. auto.
Qed.
Lemma rstrip_ws_id t : trail_ws t = [] -> rstrip_ws t = t.
Proof. intros H. rewrite (rstrip_trail t) at 2. now rewrite H, app_nil_r. Qed.
Lemma last_ws_tok t : all_nws t = true -> last_ws t = false.
Proof. intros H. rewrite <- (rstrip_ws_id t) by now apply trail_ws_tok. apply last_ws_rstrip. Qed.
Lemma last_ws_all_ws w : w <> [] -> all_ws w = true -> last_ws w = true.
Proof.
  induction w as [|c w IH]; [congruence|]. intros _ H. cbn in H. apply andb_true_iff in H as [Hc Hw].
  destruct w as [|d w]; [unfold last_ws; cbn; exact Hc|].
  rewrite last_ws_cons by discriminate. apply IH; [discriminate|exact Hw].
Qed.
Lemma all_ws_tokens w : all_ws w = true -> tokens w = [].
Proof. apply tokens_all_ws. Qed.
Lemma hd_ws_rstrip s : hd_ws s = false -> hd_ws (rstrip_ws s) = false.
Proof. destruct s as [|c s]; [reflexivity|]. cbn [rstrip_ws]. destruct (all_ws (c :: s)); [reflexivity|]. auto. Qed.

Lemma wk_decomp body t ks0 w0 r0 t0 r1 w1 r2 :
  tokens body = t :: ks0 ->
  span isspace body = (w0, r0) -> span notspace r0 = (t0, r1) -> span isspace r1 = (w1, r2) ->
  t0 = t /\ t <> [] /\ all_nws t = true /\ all_ws w0 = true /\
  match ks0 with
  | [] => body = (w0 ++ t) ++ trail_ws body
  | _ => body = (w0 ++ t ++ w1) ++ rstrip_ws r2 ++ trail_ws body /\ all_ws w1 = true /\ w1 <> [] /\
         tokens (rstrip_ws r2) = ks0 /\ tightb (rstrip_ws r2) = true
  end.
Proof.
  intros Htok H0 H1 H2.
  destruct (tokens_decomp _ _ _ _ _ H0 H1) as (Hb & Hw0 & Ht0 & Hr1 & Htk & Hnil).
  rewrite Htok in Htk. destruct t0 as [|a t0]; [discriminate|]. change (null (a :: t0)) with false in Htk. cbv iota in Htk.
  injection Htk as -> Hks. split; [reflexivity|]. split; [discriminate|]. split; [exact Ht0|]. split; [exact Hw0|].
  apply span_spec in H2 as (Hr1e & Hw1 & Hr2).
  destruct ks0 as [|k ks0].
  - symmetry in Hks. apply tokens_nil_all_ws in Hks.
    rewrite Hb at 2. rewrite app_assoc. rewrite trail_ws_app_ws by exact Hks.
    rewrite trail_ws_app_nws.
    + rewrite trail_ws_tok by exact Ht0. rewrite Hb at 1. now rewrite app_assoc.
    + cbn in Ht0. apply andb_true_iff in Ht0 as [Ha _]. unfold notspace in Ha. apply negb_true_iff in Ha.
      cbn. now rewrite Ha.
  - assert (Hr2ws : all_ws r2 = false).
    { destruct (all_ws r2) eqn:E; [|reflexivity]. exfalso.
      rewrite Hr1e, tokens_ws_app, (tokens_all_ws r2 E) in Hks by exact Hw1. discriminate. }
    assert (Htb : trail_ws body = trail_ws r2).
    { rewrite Hb, Hr1e. rewrite !app_assoc. now apply trail_ws_app_nws. }
    split.
    + rewrite Htb, <- (rstrip_trail r2). rewrite Hb at 1. rewrite Hr1e. now rewrite <- !app_assoc.
    + split; [exact Hw1|]. split.
      * intros ->. cbn in Hr1e. subst r2. destruct r1 as [|c r1]; [discriminate|]. cbn in Hr2. congruence.
      * split.
        -- rewrite tokens_rstrip. rewrite Hr1e, tokens_ws_app in Hks by exact Hw1. now symmetry.
        -- unfold tightb. rewrite last_ws_rstrip. rewrite hd_ws_rstrip; [reflexivity|].
           destruct r2 as [|c r2]; [reflexivity|exact Hr2].
Qed.

Lemma with_keywords_region e ks pre sep cmt t p :
  split_comment (raw e) = (pre, sep, cmt) -> tokens pre = t :: keywords e ->
  pkg e = Some p -> comment e = cmt ->
  exists pfx mid wsS,
    kw_region e pfx mid (wsS ++ cmt) /\
    with_keywords e ks = rewritten e pfx (wsS ++ cmt) ks /\
    pre ++ sep = pfx ++ mid ++ wsS /\ wsS = trail_ws (pre ++ sep) /\
    tokens pfx = [t] /\
    (keywords e = [] -> last_ws pfx = false) /\ (keywords e <> [] -> last_ws pfx = true).
Proof.
  intros Hsc Htok Hpkg Hcmt.
  destruct (split_comment_spec _ _ _ _ Hsc) as (Hraw & Hpre & Hsep).
  assert (Hsepws : all_ws sep = true).
  { destruct Hsep as [[-> _]|[_ [[-> _]|(w & -> & Hw)]]]; cbn; auto. now rewrite Hw. }
  assert (Htb : tokens (pre ++ sep) = t :: keywords e) by now rewrite tokens_app_ws.
  unfold with_keywords. rewrite Hpkg, Hsc.
  destruct (span isspace (pre ++ sep)) as [w0 r0] eqn:E0.
  destruct (span notspace r0) as [t0 r1] eqn:E1.
  destruct (span isspace r1) as [w1 r2] eqn:E2.
  destruct (wk_decomp _ _ _ _ _ _ _ _ _ Htb E0 E1 E2) as (-> & Htn & Htw & Hw0 & Hd).
  rewrite Htb. pose proof (trail_ws_all_ws (pre ++ sep)) as Htws.
  assert (Hpt : tokens (w0 ++ t) = [t]) by (rewrite tokens_ws_app by exact Hw0; now apply tokens_tok).
  destruct (keywords e) as [|k ks0] eqn:Ek.
  - exists (w0 ++ t), [], (trail_ws (pre ++ sep)).
    split; [|split; [|split; [|split; [|split; [|split]]]]]; auto.
    + constructor.
      * rewrite Hraw, app_assoc, Hd at 1. cbn [app]. now rewrite <- !app_assoc.
      * eauto.
      * intros _. rewrite last_ws_app by exact Htn. now apply last_ws_tok.
      * now rewrite Ek.
      * reflexivity.
      * rewrite Hcmt. eauto.
    + unfold rewritten. rewrite Ek, Hpkg. unfold glue. cbn [null andb].
      f_equal. destruct ks; cbn [null negb]; now rewrite <- !app_assoc.
    + intros _. rewrite last_ws_app by exact Htn. now apply last_ws_tok.
  - destruct Hd as (Hb & Hw1 & Hw1n & Hmid & Htight).
    exists (w0 ++ t ++ w1), (rstrip_ws r2), (trail_ws (pre ++ sep)).
    split; [|split; [|split; [|split; [|split; [|split]]]]]; auto.
    + constructor.
      * rewrite Hraw, app_assoc, Hb at 1. now rewrite <- !app_assoc.
      * exists t. rewrite app_assoc, tokens_app_ws by exact Hw1. exact Hpt.
      * rewrite Ek. discriminate.
      * now rewrite Ek.
      * exact Htight.
      * rewrite Hcmt. eauto.
    + unfold rewritten. rewrite Ek, Hpkg. unfold glue. cbn [null andb app].
      f_equal; try now rewrite <- !app_assoc.
    + rewrite app_assoc, tokens_app_ws by exact Hw1. exact Hpt.
    + discriminate.
    + intros _. rewrite app_assoc, last_ws_app by exact Hw1n. now apply last_ws_all_ws.
Qed.

Lemma nocrlf_join ks : Forall wf_tok ks -> nocrlf (join [SP] ks) = true.
Proof.
  induction 1 as [|k ks Hk Hks IH]; [reflexivity|].
  apply wf_tok_parts in Hk as (_ & Hw & _). apply nws_nocrlf in Hw.
  destruct ks as [|k2 ks]; [exact Hw|].
  change (join [SP] (k :: k2 :: ks)) with (k ++ [SP] ++ join [SP] (k2 :: ks)).
  unfold nocrlf in *. rewrite !forallb_app', Hw, IH. reflexivity.
Qed.
Lemma all_ws_hd w : all_ws w = true -> w = [] \/ hd_ws w = true.
Proof. destruct w as [|c w]; [now left|]. cbn. intros H. apply andb_true_iff in H as [H _]. now right. Qed.

Lemma in_splitlines_raw_eol t line : In line (splitlines t) ->
  exists r e, line = r ++ e /\ nocrlf r = true /\ all_crlf e = true.
Proof.
  intros H. apply line_shape_raw_eol. pose proof (splitlines_shape t) as F.
  rewrite Forall_forall in F. now apply F.
Qed.

Theorem with_keywords_local_proof (aof : str -> option str) t n line e ks :
  In line (splitlines t) -> parse_line aof n line = Ok e ->
  (pkg e = None -> with_keywords e ks = e) /\
  (pkg e <> None ->
   exists pfx mid sfx,
     kw_region e pfx mid sfx /\
     with_keywords e ks = rewritten e pfx sfx ks /\
     (Forall wf_tok ks ->
      parse_line aof n (raw (with_keywords e ks) ++ eol (with_keywords e ks)) = Ok (with_keywords e ks))).
Proof.
  intros Hin Hp. split.
  { intros H. unfold with_keywords. now rewrite H. }
  intros Hpkg.
  destruct (in_splitlines_raw_eol _ _ Hin) as (r & el & -> & Hr & Hel).
  unfold parse_line in Hp. rewrite rstrip_crlf_app, skipn_app_exact in Hp by assumption.
  destruct (split_comment r) as [[pre sep] cmt] eqn:Hsc.
  destruct (tokens pre) as [|t0 ks0] eqn:Htok.
  { injection Hp as <-. cbn in Hpkg. congruence. }
  destruct (aof t0) as [p|] eqn:Ha; [|discriminate]. injection Hp as <-.
  set (e := {| lineno := n; raw := r; pkg := Some p; keywords := ks0; comment := cmt; eol := el |}).
  destruct (with_keywords_region e ks pre sep cmt t0 p Hsc Htok eq_refl eq_refl)
    as (pfx & mid & wsS & Hreg & Hwk & Hbody & HwsS & Hpt & Hl0 & Hl1).
  exists pfx, mid, (wsS ++ cmt). split; [exact Hreg|]. split; [exact Hwk|].
  intros Hks. rewrite Hwk. unfold rewritten. cbn [raw eol lineno pkg comment keywords e].
  destruct (split_comment_spec _ _ _ _ Hsc) as (Hraw & Hpre & Hsep).
  assert (Hsepws : all_ws sep = true).
  { destruct Hsep as [[-> _]|[_ [[-> _]|(w & -> & Hw)]]]; cbn; auto. now rewrite Hw. }
  assert (HwsS' : wsS = trail_ws pre ++ sep) by (rewrite HwsS; now apply trail_ws_app_ws).
  pose proof (trail_ws_all_ws pre) as Htp.
  set (J := join [SP] ks).
  set (pre' := pfx ++ glue ks0 ks ++ J ++ trail_ws pre).
  assert (Hraw' : pfx ++ glue ks0 ks ++ J ++ wsS ++ cmt = pre' ++ sep ++ cmt).
  { unfold pre'. rewrite HwsS'. now rewrite <- !app_assoc. }
  assert (Hglue : all_ws (glue ks0 ks) = true) by (unfold glue; destruct (null ks0 && negb (null ks)); reflexivity).
  (* no \r \n in the new raw *)
  assert (Hnc : nocrlf (pfx ++ glue ks0 ks ++ J ++ wsS ++ cmt) = true).
  { assert (Hr' : nocrlf (pfx ++ mid ++ wsS ++ cmt) = true).
    { rewrite Hraw in Hr. rewrite app_assoc, Hbody in Hr. now rewrite <- !app_assoc in Hr. }
    unfold nocrlf in *. rewrite !forallb_app' in Hr'. rewrite !forallb_app'.
    apply andb_true_iff in Hr' as [H1 H2]. apply andb_true_iff in H2 as [_ H2].
    rewrite H1, H2. fold (nocrlf J). unfold J. rewrite nocrlf_join by assumption.
    unfold glue. destruct (null ks0 && negb (null ks)); reflexivity. }
  unfold parse_line. rewrite rstrip_crlf_app, skipn_app_exact by assumption.
  (* the comment is found at the same place *)
  assert (Hnh : nohash_after true pre' = true).
  { unfold pre'. assert (Hb : nohash_after true (pre ++ sep) = true).
    { apply nohash_app_true; [exact Hpre|]. now apply nohash_all_ws. }
    rewrite Hbody, nohash_app in Hb. apply andb_true_iff in Hb as [Hb _].
    apply nohash_app_true; [exact Hb|]. apply nohash_app_true; [now apply nohash_all_ws|].
    apply nohash_app_true; [now apply nohash_join|]. now apply nohash_all_ws. }
  assert (Htk' : tokens pre' = t0 :: ks).
  { unfold pre'. rewrite tokens_app_sep.
    - rewrite Hpt. cbn [app]. f_equal. rewrite tokens_ws_app by exact Hglue.
      rewrite tokens_app_ws by exact Htp. now apply tokens_join.
    - destruct ks0 as [|k0 ks0].
      + right. unfold glue. cbn [null andb]. destruct ks as [|k ks]; cbn [null negb app].
        * destruct (all_ws_hd _ Htp) as [->|H]; auto.
        * left. reflexivity.
      + left. apply Hl1. discriminate. }
  rewrite Hraw'.
  assert (Hsplit : split_comment (pre' ++ sep ++ cmt) = (pre', sep, cmt)).
  { destruct Hsep as [[-> ->]|[Hc [[-> ->]|(w & -> & Hw)]]].
    - rewrite !app_nil_r. now apply split_comment_none.
    - discriminate.
    - now apply split_comment_app. }
  rewrite Hsplit, Htk', Ha. reflexivity.
Qed.

(* ------------------------------------------------------------------ expand *)
Lemma kws_eqb_eq a b : kws_eqb a b = true <-> a = b.
Proof.
  revert b; induction a as [|x a IH]; intros [|y b]; cbn; split; intro H; try reflexivity; try discriminate.
  - apply andb_true_iff in H as [H1 H2]. apply str_eqb_eq in H1. apply IH in H2. congruence.
  - injection H as -> ->. apply andb_true_iff; split; [apply str_eqb_refl|now apply IH].
Qed.

(* exact meaning of the keyword loop, including when it refuses *)
Lemma expand_kws_spec sug prev multi ks :
  expand_kws sug prev multi ks =
  if has_kw SAME_KW ks && match prev with None => true | Some p => null p && multi end
  then inl (match prev with None => 1 | Some _ => 2 end)
  else inr (expansion sug prev ks).
Proof.
  induction ks as [|k ks IH]; [reflexivity|].
  cbn [expand_kws]. unfold has_kw in *. cbn [existsb]. unfold expansion in *. cbn [map concat].
  unfold subst_kw at 1.
  destruct (str_eqb k ALL_KW) eqn:Ea.
  - apply str_eqb_eq in Ea; subst k. change (str_eqb ALL_KW SAME_KW) with false. cbn [orb].
    rewrite IH. destruct (existsb _ ks && _); reflexivity.
  - destruct (str_eqb k SAME_KW) eqn:Es.
    + cbn [orb andb]. destruct prev as [p|]; [|reflexivity].
      destruct (null p && multi) eqn:En; [reflexivity|].
      rewrite IH. rewrite ?En, andb_false_r. reflexivity.
    + cbn [orb]. rewrite IH. destruct (existsb _ ks && _); reflexivity.
Qed.

Theorem sentinel_meaning_proof sug prev ks :
  expand_kws sug prev (more_than_one ks) ks =
  if refused prev ks then inl (match prev with None => 1 | Some _ => 2 end)
  else inr (expansion sug prev ks).
Proof. rewrite expand_kws_spec. reflexivity. Qed.

Lemma expansion_no_sentinel sug prev ks : has_sentinel ks = false -> expansion sug prev ks = ks.
Proof.
  unfold has_sentinel, has_kw, expansion. induction ks as [|k ks IH]; [reflexivity|].
  cbn [existsb map concat]. intros H. apply orb_false_iff in H as [H1 H2].
  apply orb_false_iff in H1 as [Ha H1]. apply orb_false_iff in H2 as [Hs H2].
  unfold subst_kw at 1. rewrite Ha, Hs. cbn [app]. f_equal. apply IH. now rewrite H1, H2.
Qed.

Lemma multi_kw_eq e : multi_kw e = more_than_one (keywords e).
Proof. reflexivity. Qed.

Definition parsed_in (aof : str -> option str) (t : str) (e : entry) : Prop :=
  exists n line, In line (splitlines t) /\ parse_line aof n line = Ok e.

Lemma parse_lines_parsed aof n ls es :
  parse_lines aof n ls = Ok es ->
  Forall (fun e => exists n line, In line ls /\ parse_line aof n line = Ok e) es.
Proof.
  revert n es; induction ls as [|l r IH]; intros n es; cbn [parse_lines].
  - intros [= <-]. constructor.
  - destruct (parse_line aof n l) as [e|] eqn:E; [|discriminate].
    destruct (parse_lines aof (n + 1) r) as [es'|] eqn:E'; [|discriminate].
    intros [= <-]. constructor.
    + exists n, l. split; [now left|exact E].
    + specialize (IH _ _ E'). eapply Forall_impl; [|exact IH].
      intros a (n' & l' & Hin & Hp). exists n', l'. split; [now right|exact Hp].
Qed.
Lemma parse_parsed aof t es : parse aof t = Ok es -> Forall (parsed_in aof t) es.
Proof. apply parse_lines_parsed. Qed.

Lemma line_frame_refl e : line_frame e e.
Proof. unfold line_frame. repeat split; auto. Qed.

Lemma expand_entries_frame aof t suggest prev es es' ch :
  Forall (parsed_in aof t) es -> expand_entries suggest prev es = Ok (es', ch) ->
  Forall2 line_frame es es' /\ (ch = false -> es' = es) /\
  map keywords es' = expected_kws suggest prev es.
Proof.
  intros HF. revert prev es' ch. induction HF as [|e es He HF IH]; intros prev es' ch; cbn [expand_entries].
  - intros [= <- <-]. repeat split; auto.
  - destruct (pkg e) as [p|] eqn:Ep.
    + rewrite multi_kw_eq, sentinel_meaning_proof.
      destruct (refused prev (keywords e)); [discriminate|].
      set (ks := expansion (suggest p) prev (keywords e)).
      destruct (expand_entries suggest (Some ks) es) as [[es1 ch1]|] eqn:E; [|discriminate].
      intros [= <- <-]. destruct (IH _ _ _ E) as (F2 & Hch & Hk).
      destruct (kws_eqb ks (keywords e)) eqn:Eq.
      * apply kws_eqb_eq in Eq. split; [constructor; [apply line_frame_refl|exact F2]|]. split.
        -- cbn. intros H. f_equal. now apply Hch.
        -- cbn [map expected_kws]. rewrite Ep. fold ks. now rewrite Hk, Eq.
      * split; [|split].
        -- constructor; [|exact F2].
           destruct He as (n & line & Hin & Hp).
           destruct (with_keywords_local_proof aof t n line e ks Hin Hp) as [_ Hw].
           destruct Hw as (pfx & mid & sfx & Hreg & Hwk & _); [congruence|].
           assert (Hne : keywords e <> []).
           { intros H0. unfold ks in Eq. rewrite H0 in Eq. cbn in Eq. discriminate. }
           rewrite Hwk. unfold line_frame, rewritten. cbn [lineno pkg comment eol keywords].
           repeat split; auto.
           ++ intros Hs. exfalso. unfold ks in Eq. rewrite expansion_no_sentinel in Eq by exact Hs.
              assert (kws_eqb (keywords e) (keywords e) = true) by now apply kws_eqb_eq. congruence.
           ++ right. exists pfx, mid, sfx. auto.
        -- cbn. discriminate.
        -- cbn [map expected_kws]. rewrite Ep. fold ks. rewrite Hk. f_equal.
           destruct He as (n & line & Hin & Hp).
           destruct (with_keywords_local_proof aof t n line e ks Hin Hp) as [_ Hw].
           destruct Hw as (pfx & mid & sfx & _ & Hwk & _); [congruence|].
           rewrite Hwk. reflexivity.
    + destruct (expand_entries suggest prev es) as [[es1 ch1]|] eqn:E; [|discriminate].
      intros [= <- <-]. destruct (IH _ _ _ E) as (F2 & Hch & Hk).
      split; [constructor; [apply line_frame_refl|exact F2]|]. split.
      * intros H. f_equal. now apply Hch.
      * cbn [map expected_kws]. rewrite Ep. now rewrite Hk.
Qed.

Theorem expand_frame_proof (aof : str -> option str) suggest t t' :
  expand_text aof suggest t = Ok t' ->
  exists es es', parse aof t = Ok es /\ render es = t /\ render es' = t' /\
                 Forall2 line_frame es es' /\
                 map keywords es' = expected_kws suggest None es.
Proof.
  unfold expand_text. destruct (parse aof t) as [es|] eqn:Ep; [|discriminate].
  destruct (expand_entries suggest None es) as [[es' ch]|] eqn:Ee; [|discriminate].
  intros [= <-]. exists es, es'.
  destruct (expand_entries_frame aof t suggest None es es' ch (parse_parsed _ _ _ Ep) Ee) as (F & Hch & Hk).
  pose proof (render_parse_id_proof aof t es Ep) as Hr.
  repeat split; auto. destruct ch; [reflexivity|]. now rewrite Hch.
Qed.

(* ------------------------------------------------------------------ build *)
Lemma last_ws_trail s : last_ws s = false -> trail_ws s = [].
Proof.
  intros H. pose proof (rstrip_trail s) as E. pose proof (trail_ws_all_ws s) as W.
  destruct (trail_ws s) as [|c w] eqn:Et; [reflexivity|]. exfalso.
  rewrite E, last_ws_app in H by discriminate. rewrite last_ws_all_ws in H; [discriminate|discriminate|exact W].
Qed.
Lemma join_nonempty k ks : k <> [] -> join [SP] (k :: ks) <> [].
Proof. intros Hk. destruct ks; cbn; [exact Hk|]. destruct k; [congruence|discriminate]. Qed.
Lemma last_ws_join k ks : Forall wf_tok (k :: ks) -> last_ws (join [SP] (k :: ks)) = false.
Proof.
  revert k; induction ks as [|k2 ks IH]; intros k H; inversion H as [|? ? Hk Hks]; subst.
  - cbn. apply wf_tok_parts in Hk as (_ & Hw & _). now apply last_ws_tok.
  - change (join [SP] (k :: k2 :: ks)) with (k ++ SP :: join [SP] (k2 :: ks)).
    assert (Hn : join [SP] (k2 :: ks) <> []).
    { apply join_nonempty. inversion Hks as [|? ? Hk2 _]; subst. now apply wf_tok_parts in Hk2 as (? & _). }
    rewrite last_ws_app by discriminate. rewrite last_ws_cons by exact Hn. now apply IH.
Qed.
Lemma build_line_wf s ks : Forall wf_tok (s :: ks) -> build_line (s, ks) = join [SP] (s :: ks).
Proof. intros H. unfold build_line. cbn [fst snd]. apply rstrip_ws_id, last_ws_trail, last_ws_join, H. Qed.

Lemma nws_nolb s : all_nws s = true -> nolb s = true.
Proof.
  unfold all_nws, nolb. induction s as [|c s IH]; [reflexivity|]. cbn. intros H.
  apply andb_true_iff in H as [Hc Hs]. rewrite IH by assumption. rewrite andb_true_r.
  destruct (is_lb c) eqn:E; [|reflexivity]. apply lb_isspace in E. unfold notspace in Hc. rewrite E in Hc. discriminate.
Qed.
Lemma nolb_join ks : Forall wf_tok ks -> nolb (join [SP] ks) = true.
Proof.
  induction 1 as [|k ks Hk Hks IH]; [reflexivity|].
  apply wf_tok_parts in Hk as (_ & Hw & _). apply nws_nolb in Hw.
  destruct ks as [|k2 ks]; [exact Hw|].
  change (join [SP] (k :: k2 :: ks)) with (k ++ [SP] ++ join [SP] (k2 :: ks)).
  unfold nolb in *. rewrite !forallb_app', Hw, IH. reflexivity.
Qed.

Lemma splitlines_nolb_lf b rest : nolb b = true ->
  splitlines (b ++ LF :: rest) = (b ++ [LF]) :: splitlines rest.
Proof.
  intros Hb. induction b as [|c b IH]; cbn [app].
  - reflexivity.
  - cbn in Hb. apply andb_true_iff in Hb as [Hc Hb]. apply negb_true_iff in Hc.
    cbn [splitlines]. unfold ends_line at 1. rewrite Hc. cbn [andb]. now rewrite IH.
Qed.
Lemma splitlines_nolb_last b : nolb b = true -> b <> [] -> splitlines b = [b].
Proof.
  induction b as [|c b IH]; [congruence|]. intros Hb _.
  cbn in Hb. apply andb_true_iff in Hb as [Hc Hb]. apply negb_true_iff in Hc.
  cbn [splitlines]. unfold ends_line at 1. rewrite Hc. cbn [andb].
  destruct b as [|d b]; [reflexivity|]. rewrite IH; [reflexivity|exact Hb|discriminate].
Qed.

Definition build_ok (aof : str -> option str) (x : str * list str) : Prop :=
  wf_tok (fst x) /\ Forall wf_tok (snd x) /\ aof (fst x) <> None.

Lemma parse_built_line aof n s ks el :
  Forall wf_tok (s :: ks) -> all_crlf el = true ->
  parse_line aof n (join [SP] (s :: ks) ++ el) =
  match aof s with
  | Some p => Ok {| lineno := n; raw := join [SP] (s :: ks); pkg := Some p; keywords := ks;
                    comment := []; eol := el |}
  | None => Fail 0 n (join [SP] (s :: ks))
  end.
Proof.
  intros H Hel. unfold parse_line.
  rewrite rstrip_crlf_app, skipn_app_exact by (auto using nocrlf_join).
  rewrite split_comment_none by now apply nohash_join. now rewrite tokens_join.
Qed.

Lemma build_parse_gen aof n es :
  Forall (build_ok aof) es ->
  exists ents, parse_lines aof n (splitlines (join [LF] (map build_line es))) = Ok ents /\
               map (fun e => (pkg e, keywords e, comment e)) ents
               = map (fun x => (aof (fst x), snd x, [])) es.
Proof.
  intros H. revert n. induction H as [|[s ks] es (Hs & Hks & Ha) Hes IH]; intros n.
  - exists []. split; reflexivity.
  - cbn [fst snd] in *. assert (Hwf : Forall wf_tok (s :: ks)) by now constructor.
    cbn [map]. rewrite build_line_wf by exact Hwf.
    destruct (aof s) as [p|] eqn:Ea; [|congruence].
    destruct es as [|x es].
    + change (join [LF] (join [SP] (s :: ks) :: map build_line [])) with (join [SP] (s :: ks)).
      rewrite splitlines_nolb_last.
      * cbn [parse_lines]. pose proof (parse_built_line aof n s ks [] Hwf eq_refl) as P.
        rewrite app_nil_r in P. rewrite P, Ea. eexists. split; [reflexivity|]. cbn. now rewrite Ea.
      * now apply nolb_join.
      * apply join_nonempty. now apply wf_tok_parts in Hs as (? & _).
    + change (join [LF] (join [SP] (s :: ks) :: map build_line (x :: es)))
        with (join [SP] (s :: ks) ++ LF :: join [LF] (map build_line (x :: es))).
      rewrite splitlines_nolb_lf by now apply nolb_join.
      cbn [parse_lines]. rewrite parse_built_line, Ea by auto.
      destruct (IH (n + 1)) as (ents & -> & Hm).
      eexists. split; [reflexivity|]. cbn [map]. cbn [pkg keywords comment fst snd]. now rewrite Ea, Hm.
Qed.

Theorem build_parse_proof (aof : str -> option str) es :
  Forall (build_ok aof) es ->
  exists ents, parse aof (build es) = Ok ents /\
               map (fun e => (pkg e, keywords e, comment e)) ents
               = map (fun x => (aof (fst x), snd x, [])) es.
Proof. apply build_parse_gen. Qed.

(* ------------------------------------------------------------------ re-splitting a rewritten text *)
Definition term_ok (term rest : str) : Prop :=
  (exists c, term = [c] /\ is_lb c = true /\ (c =? CR) && hd_is LF rest = false) \/ term = [CR; LF].
(* [l] is a complete line in front of [rest] *)
Definition complete (l rest : str) : Prop :=
  exists b term, l = b ++ term /\ nolb b = true /\
                 ((term = [] /\ rest = [] /\ b <> []) \/ term_ok term rest).

Lemma ends_line_LF rest : ends_line LF rest = true.
Proof. reflexivity. Qed.

Lemma splitlines_nolb_term b c rest : nolb b = true -> is_lb c = true ->
  (c =? CR) && hd_is LF rest = false ->
  splitlines (b ++ c :: rest) = (b ++ [c]) :: splitlines rest.
Proof.
  intros Hb Hc Hn. induction b as [|d b IH]; cbn [app].
  - cbn [splitlines]. unfold ends_line. now rewrite Hc, Hn.
  - cbn in Hb. apply andb_true_iff in Hb as [Hd Hb]. apply negb_true_iff in Hd.
    cbn [splitlines]. unfold ends_line at 1. rewrite Hd. cbn [andb]. now rewrite IH.
Qed.
Lemma splitlines_nolb_crlf b rest : nolb b = true ->
  splitlines (b ++ CR :: LF :: rest) = (b ++ [CR; LF]) :: splitlines rest.
Proof.
  intros Hb. induction b as [|d b IH]; cbn [app].
  - cbn [splitlines]. rewrite ends_line_LF. reflexivity.
  - cbn in Hb. apply andb_true_iff in Hb as [Hd Hb]. apply negb_true_iff in Hd.
    specialize (IH Hb). cbn [splitlines]. unfold ends_line at 1. rewrite Hd. cbn [andb]. now rewrite IH.
Qed.

Lemma splitlines_complete l rest : complete l rest -> splitlines (l ++ rest) = l :: splitlines rest.
Proof.
  intros (b & term & -> & Hb & [(-> & -> & Hn)|[(c & -> & Hc & Hn)| ->]]).
  - rewrite !app_nil_r. now apply splitlines_nolb_last.
  - rewrite <- app_assoc. cbn [app]. now apply splitlines_nolb_term.
  - rewrite <- app_assoc. cbn [app]. now apply splitlines_nolb_crlf.
Qed.

Lemma splitlines_nil t : splitlines t = [] -> t = [].
Proof. intros H. rewrite <- (concat_splitlines t), H. reflexivity. Qed.

Lemma splitlines_cons_complete t l ls : splitlines t = l :: ls -> complete l (concat ls).
Proof.
  revert l ls; induction t as [|c t IH]; intros l ls; [discriminate|]. cbn [splitlines].
  destruct (ends_line c t) eqn:E.
  - intros [= <- <-]. rewrite concat_splitlines. exists [], [c]. split; [reflexivity|]. split; [reflexivity|].
    right. left. exists c. unfold ends_line in E. apply andb_true_iff in E as [E1 E2].
    apply negb_true_iff in E2. auto.
  - destruct (is_lb c) eqn:Elb.
    + unfold ends_line in E. rewrite Elb in E. cbn in E. apply negb_false_iff in E.
      apply andb_true_iff in E as [E1 E2]. apply N.eqb_eq in E1; subst c.
      destruct t as [|d t]; [discriminate|]. cbn in E2. apply N.eqb_eq in E2; subst d.
      cbn [splitlines]. rewrite ends_line_LF. intros [= <- <-].
      exists [], [CR; LF]. split; [reflexivity|]. split; [reflexivity|]. right. right. reflexivity.
    + destruct (splitlines t) as [|l0 r] eqn:Es.
      * intros [= <- <-]. apply splitlines_nil in Es. subst t. exists [c], []. split; [reflexivity|].
        split; [cbn; now rewrite Elb|]. left. repeat split. discriminate.
      * intros [= <- <-]. destruct (IH _ _ eq_refl) as (b & term & -> & Hb & Ht).
        exists (c :: b), term. split; [reflexivity|]. split; [cbn; now rewrite Elb|].
        destruct Ht as [(-> & Hr & Hn)|Ht]; [left; repeat split; auto; discriminate|right; exact Ht].
Qed.

Inductive lines_ok : list str -> Prop :=
| lo_nil : lines_ok []
| lo_cons l ls : complete l (concat ls) -> lines_ok ls -> lines_ok (l :: ls).

Lemma splitlines_lines_ok ls : forall t, splitlines t = ls -> lines_ok ls.
Proof.
  induction ls as [|l ls IH]; intros t H; [constructor|].
  pose proof (splitlines_cons_complete _ _ _ H) as Hc. constructor; [exact Hc|].
  apply (IH (concat ls)). pose proof (splitlines_complete _ _ Hc) as Hs.
  assert (Ht : l ++ concat ls = t) by (rewrite <- (concat_splitlines t), H; reflexivity).
  rewrite Ht, H in Hs. now injection Hs as <-.
Qed.
Lemma lines_ok_splitlines ls : lines_ok ls -> splitlines (concat ls) = ls.
Proof. induction 1 as [|l ls Hc _ IH]; [reflexivity|]. cbn [concat]. rewrite splitlines_complete by exact Hc. now rewrite IH. Qed.

Lemma complete_nonempty l rest : complete l rest -> l <> [].
Proof.
  intros (b & term & -> & _ & [(-> & _ & Hn)|[(c & -> & _)| ->]]).
  - now rewrite app_nil_r.
  - destruct b; discriminate.
  - destruct b; discriminate.
Qed.
Lemma complete_rest l rest rest' : complete l rest ->
  (rest = [] <-> rest' = []) -> hd_is LF rest = hd_is LF rest' -> complete l rest'.
Proof.
  intros (b & term & -> & Hb & H) Hn Hh. exists b, term. split; [reflexivity|]. split; [exact Hb|].
  destruct H as [(-> & Hr & Hbn)|[(c & -> & Hc & Hx)| ->]].
  - left. repeat split; auto. now apply Hn.
  - right. left. exists c. rewrite <- Hh. auto.
  - right. right. reflexivity.
Qed.

(* l' may stand wherever l stands *)
Definition sim (l l' : str) : Prop :=
  hd_is LF l' = hd_is LF l /\ (l <> [] -> l' <> []) /\ (forall rest, complete l rest -> complete l' rest).
Lemma sim_refl l : sim l l.
Proof. unfold sim; auto. Qed.

Lemma hd_is_app c a b : a <> [] -> hd_is c (a ++ b) = hd_is c a.
Proof. destruct a; [congruence|reflexivity]. Qed.

Lemma lines_ok_sim ls ls' : lines_ok ls -> Forall2 sim ls ls' ->
  lines_ok ls' /\ (concat ls = [] <-> concat ls' = []) /\ hd_is LF (concat ls) = hd_is LF (concat ls').
Proof.
  intros H F. revert H. induction F as [|l l' ls ls' Hs F IH]; intros H.
  - split; [constructor|]. split; [tauto|reflexivity].
  - inversion H as [|? ? Hc Hl]; subst. destruct (IH Hl) as (Hok & Hn & Hh).
    destruct Hs as (Hhd & Hne & Hcomp). pose proof (complete_nonempty _ _ Hc) as Hln.
    pose proof (Hne Hln) as Hl'n.
    split; [|split].
    + constructor; [|exact Hok]. apply (complete_rest _ (concat ls)); auto.
    + cbn [concat]. split; intros E; apply app_eq_nil in E as [E _]; congruence.
    + cbn [concat]. rewrite !hd_is_app by assumption. now symmetry.
Qed.

(* ---- facts about a parsed line *)
Lemma parse_line_shape aof t n line e :
  In line (splitlines t) -> parse_line aof n line = Ok e ->
  line = raw e ++ eol e /\ nocrlf (raw e) = true /\ all_crlf (eol e) = true.
Proof.
  intros Hin Hp. destruct (in_splitlines_raw_eol _ _ Hin) as (r & el & -> & Hr & Hel).
  unfold parse_line in Hp. rewrite rstrip_crlf_app, skipn_app_exact in Hp by assumption.
  destruct (split_comment r) as [[pre sep] cmt]. destruct (tokens pre) as [|t0 ks0].
  - injection Hp as <-. cbn. auto.
  - destruct (aof t0); [|discriminate]. injection Hp as <-. cbn. auto.
Qed.

Lemma ends_ws_all_ws w : all_ws w = true -> ends_ws true w = true.
Proof.
  assert (G : forall b, b = true -> all_ws w = true -> ends_ws b w = true).
  { induction w as [|c w IH]; intros b Hb H; [exact Hb|]. cbn in H. apply andb_true_iff in H as [Hc Hw].
    cbn. apply IH; assumption. }
  intros H. now apply G.
Qed.

(* tokens of a comment-free string are well formed *)
Lemma tokens_wf_len n : forall s, (length s <= n)%nat -> nohash_after true s = true -> Forall wf_tok (tokens s).
Proof.
  induction n as [|n IH]; intros s Hl Hn.
  - destruct s; [constructor|cbn in Hl; lia].
  - destruct (span isspace s) as [w0 r0] eqn:E0. destruct (span notspace r0) as [t0 r1] eqn:E1.
    destruct (tokens_decomp _ _ _ _ _ E0 E1) as (Hs & Hw0 & Ht0 & Hr1 & Htk & Hnil).
    rewrite Htk. destruct t0 as [|a t0]; [constructor|]. cbn [null].
    rewrite Hs, nohash_app in Hn. apply andb_true_iff in Hn as [_ Hn].
    rewrite ends_ws_all_ws in Hn by exact Hw0. rewrite nohash_app in Hn. apply andb_true_iff in Hn as [Hta Hr].
    constructor.
    + unfold wf_tok, wf_tokb. cbn [null negb andb]. fold (all_nws (a :: t0)). rewrite Ht0. cbn [andb].
      apply nohash_true_hd in Hta. now rewrite Hta.
    + destruct r1 as [|c r1]; [constructor|]. rewrite tokens_ws_cons by exact Hr1.
      apply IH.
      * rewrite Hs in Hl. rewrite !app_length in Hl. cbn in Hl. lia.
      * cbn in Hr. apply andb_true_iff in Hr as [_ Hr]. now rewrite Hr1 in Hr.
Qed.
Lemma tokens_wf s : nohash_after true s = true -> Forall wf_tok (tokens s).
Proof. apply (tokens_wf_len (length s)). lia. Qed.

Lemma parse_line_kws_wf aof n line e : parse_line aof n line = Ok e -> Forall wf_tok (keywords e).
Proof.
  unfold parse_line. destruct (split_comment (rstrip_crlf line)) as [[pre sep] cmt] eqn:Hsc.
  destruct (split_comment_spec _ _ _ _ Hsc) as (_ & Hpre & _). apply tokens_wf in Hpre.
  destruct (tokens pre) as [|t0 ks0].
  - intros [= <-]. constructor.
  - destruct (aof t0); [|discriminate]. intros [= <-]. cbn. now inversion Hpre.
Qed.

Definition wf_prev (prev : option (list str)) : Prop :=
  match prev with Some p => Forall wf_tok p | None => True end.
Lemma expansion_wf sug prev ks :
  Forall wf_tok sug -> wf_prev prev -> Forall wf_tok ks -> Forall wf_tok (expansion sug prev ks).
Proof.
  intros Hs Hp Hk. unfold expansion. induction Hk as [|k ks Hk Hks IH]; [constructor|].
  cbn [map concat]. apply Forall_app. split; [|exact IH].
  unfold subst_kw. destruct (str_eqb k ALL_KW).
  - destruct (null sug); [repeat constructor|exact Hs].
  - destruct (str_eqb k SAME_KW); [|now repeat constructor].
    destruct prev as [p|]; [exact Hp|constructor].
Qed.

(* ---- a rewritten line may stand where the original stood *)
Lemma app_last_split (a x b : str) c : x <> [] -> a ++ x = b ++ [c] -> exists s0, x = s0 ++ [c].
Proof.
  intros Hx H. destruct (exists_last Hx) as (s0 & d & ->). exists s0.
  rewrite app_assoc in H. apply app_inj_tail in H as [_ ->]. reflexivity.
Qed.
Lemma last_ws_snoc b c : last_ws (b ++ [c]) = isspace c.
Proof. unfold last_ws. rewrite rev_app_distr. reflexivity. Qed.
Lemma tokens_nonnil_nonempty s : tokens s <> [] -> s <> [].
Proof. destruct s; [cbn; congruence|discriminate]. Qed.

Lemma rewritten_sim aof t n line e pfx mid sfx ks :
  In line (splitlines t) -> parse_line aof n line = Ok e ->
  kw_region e pfx mid sfx -> keywords e <> [] -> Forall wf_tok ks ->
  sim line (pfx ++ join [SP] ks ++ sfx ++ eol e).
Proof.
  intros Hin Hp Hreg Hne Hks.
  destruct (parse_line_shape _ _ _ _ _ Hin Hp) as (Hl & Hr & Hel).
  destruct Hreg as [Hraw (spec & Hpfx) _ Hmid Htight _].
  assert (Hpn : pfx <> []) by (apply tokens_nonnil_nonempty; rewrite Hpfx; discriminate).
  assert (Hmn : mid <> []) by (apply tokens_nonnil_nonempty; now rewrite Hmid).
  assert (Hml : last_ws mid = false).
  { unfold tightb in Htight. apply andb_true_iff in Htight as [_ H]. now apply negb_true_iff in H. }
  assert (HL : line = pfx ++ mid ++ sfx ++ eol e) by (rewrite Hl, Hraw; now rewrite <- !app_assoc).
  unfold sim. split; [|split].
  - rewrite HL. now rewrite !hd_is_app by assumption.
  - intros _. destruct pfx; [congruence|discriminate].
  - intros rest (b & term & Hb & Hnb & Ht).
    (* the terminator lies inside sfx ++ eol *)
    assert (Hs0 : exists s0, sfx ++ eol e = s0 ++ term).
    { destruct Ht as [(-> & _)|[(c & -> & Hc & _)| ->]].
      - exists (sfx ++ eol e). now rewrite app_nil_r.
      - remember (sfx ++ eol e) as xx eqn:Ex. destruct xx as [|x xs].
        + exfalso. rewrite HL, app_nil_r in Hb.
          assert (last_ws (pfx ++ mid) = last_ws (b ++ [c])) by now rewrite Hb.
          rewrite last_ws_app, last_ws_snoc, Hml in H by exact Hmn. apply lb_isspace in Hc. congruence.
        + apply (app_last_split (pfx ++ mid) (x :: xs) b c); [discriminate|].
          rewrite <- Hb, HL. now rewrite <- !app_assoc.
      - exists sfx. f_equal.
        assert (E1 : rstrip_crlf line = raw e) by (rewrite Hl; now apply rstrip_crlf_app).
        assert (E2 : rstrip_crlf line = b) by (rewrite Hb; apply rstrip_crlf_app; [now apply nolb_nocrlf|reflexivity]).
        rewrite Hl, <- E1, E2 in Hb. now apply app_inv_head in Hb. }
    destruct Hs0 as (s0 & Hs0).
    assert (Hbe : b = pfx ++ mid ++ s0).
    { apply (app_inv_tail term). rewrite <- Hb, HL, <- !app_assoc. now rewrite <- Hs0. }
    exists (pfx ++ join [SP] ks ++ s0), term. split; [rewrite <- !app_assoc; now rewrite <- Hs0|]. split.
    + rewrite Hbe in Hnb. unfold nolb in *. rewrite !forallb_app' in *.
      apply andb_true_iff in Hnb as [H1 H2]. apply andb_true_iff in H2 as [_ H2].
      rewrite H1, H2. fold (nolb (join [SP] ks)). now rewrite nolb_join.
    + destruct Ht as [(-> & Hr0 & _)|Ht]; [|right; exact Ht].
      left. repeat split; auto. destruct pfx; [congruence|discriminate].
Qed.

Definition line_of (e : entry) : str := raw e ++ eol e.

Lemma expand_entries_reparse aof t suggest :
  (forall p, Forall wf_tok (suggest p)) ->
  forall ls n es prev es' ch,
    (forall l, In l ls -> In l (splitlines t)) ->
    parse_lines aof n ls = Ok es -> wf_prev prev ->
    expand_entries suggest prev es = Ok (es', ch) ->
    parse_lines aof n (map line_of es') = Ok es' /\ Forall2 sim ls (map line_of es').
Proof.
  intros Hsug. induction ls as [|l ls IH]; intros n es prev es' ch Hin Hp Hprev He.
  - cbn in Hp. injection Hp as <-. cbn in He. injection He as <- <-. split; [reflexivity|constructor].
  - cbn [parse_lines] in Hp. destruct (parse_line aof n l) as [e|] eqn:El; [|discriminate].
    destruct (parse_lines aof (n + 1) ls) as [es0|] eqn:Els; [|discriminate]. injection Hp as <-.
    assert (Hinl : In l (splitlines t)) by (apply Hin; now left).
    assert (Hin' : forall x, In x ls -> In x (splitlines t)) by (intros x Hx; apply Hin; now right).
    destruct (parse_line_raw_eol aof n l e El) as [Hle _].
    cbn [expand_entries] in He. destruct (pkg e) as [p|] eqn:Ep.
    + rewrite multi_kw_eq, sentinel_meaning_proof in He.
      destruct (refused prev (keywords e)); [discriminate|].
      set (ks := expansion (suggest p) prev (keywords e)) in *.
      assert (Hks : Forall wf_tok ks).
      { apply expansion_wf; auto. eapply parse_line_kws_wf; eauto. }
      destruct (expand_entries suggest (Some ks) es0) as [[es1 ch1]|] eqn:E; [|discriminate].
      injection He as <- <-. destruct (IH _ _ (Some ks) _ _ Hin' Els Hks E) as (Hpl & Hsim).
      destruct (kws_eqb ks (keywords e)) eqn:Eq.
      * cbn [map parse_lines]. unfold line_of at 1. rewrite Hle, El, Hpl. split; [reflexivity|].
        constructor; [|exact Hsim]. unfold line_of. rewrite Hle. apply sim_refl.
      * destruct (with_keywords_local_proof aof t n l e ks Hinl El) as [_ Hw].
        destruct Hw as (pfx & mid & sfx & Hreg & Hwk & Hre); [congruence|].
        assert (Hne : keywords e <> []).
        { intros H0. unfold ks in Eq. rewrite H0 in Eq. cbn in Eq. discriminate. }
        cbn [map parse_lines]. unfold line_of at 1. rewrite (Hre Hks), Hpl. split; [reflexivity|].
        constructor; [|exact Hsim]. unfold line_of. rewrite Hwk. unfold rewritten. cbn [raw eol].
        unfold glue. destruct (keywords e) as [|k0 kr] eqn:Ek; [congruence|]. cbn [null andb app].
        rewrite <- !app_assoc. rewrite <- Ek in Hne. eapply rewritten_sim; eauto.
    + destruct (expand_entries suggest prev es0) as [[es1 ch1]|] eqn:E; [|discriminate].
      injection He as <- <-. destruct (IH _ _ _ _ _ Hin' Els Hprev E) as (Hpl & Hsim).
      cbn [map parse_lines]. unfold line_of at 1. rewrite Hle, El, Hpl. split; [reflexivity|].
      constructor; [|exact Hsim]. unfold line_of. rewrite Hle. apply sim_refl.
Qed.

Theorem expand_reparse_proof (aof : str -> option str) suggest t t' :
  (forall p, Forall wf_tok (suggest p)) ->
  expand_text aof suggest t = Ok t' ->
  exists es es', parse aof t = Ok es /\ parse aof t' = Ok es' /\
                 Forall2 line_frame es es' /\ map keywords es' = expected_kws suggest None es.
Proof.
  intros Hsug. unfold expand_text. destruct (parse aof t) as [es|] eqn:Ep; [|discriminate].
  destruct (expand_entries suggest None es) as [[es' ch]|] eqn:Ee; [|discriminate].
  intros [= <-]. exists es, es'.
  destruct (expand_entries_frame aof t suggest None es es' ch (parse_parsed _ _ _ Ep) Ee) as (F & Hch & Hk).
  split; [reflexivity|]. split; [|auto].
  destruct ch; [|now rewrite (Hch eq_refl)].
  destruct (expand_entries_reparse aof t suggest Hsug (splitlines t) 1 es None es' true
              (fun l H => H) Ep I Ee) as (Hpl & Hsim).
  pose proof (splitlines_lines_ok _ t eq_refl) as Hok.
  destruct (lines_ok_sim _ _ Hok Hsim) as (Hok' & _).
  unfold parse. replace (render es') with (concat (map line_of es')) by reflexivity.
  rewrite (lines_ok_splitlines _ Hok'). exact Hpl.
Qed.

(* ------------------------------------------------------------------ non-vacuity *)
(* text: '  c/a *\t ^  # why\r\nc/b\n# x\nc/d ^ ppc\x0b'; every token containing '/' is a valid spec; suggest = ["amd64";"x86"] for c/a *)
Definition ex_aof (s : str) : option str := if existsb (N.eqb 47) s then Some s else None.
Definition ex_text : str := [32;32;99;47;97;32;42;9;32;94;32;32;35;32;119;104;121;13;10;99;47;98;10;35;32;120;10;99;47;100;32;94;32;112;112;99;11].
Definition ex_sug (p : str) : list str := if str_eqb p [99;47;97] then [[97;109;100;54;52]; [120;56;54]] else [].
Example ex_parse_ok :
  match parse ex_aof ex_text with
  | Ok es => map (fun e => (lineno e, keywords e, comment e, eol e)) es =
             [(1, [[42]; [94]], [35;32;119;104;121], [13;10]); (2, [], [], [10]); (3, [], [35;32;120], [10]);
              (4, [[94]; [112;112;99]], [], [])]
  | Fail _ _ _ => False
  end.
Proof. vm_compute. reflexivity. Qed.
(* "^" on the first spec line is refused (kind 1); "^" copying the empty "c/b" onto a line with another keyword too (kind 2) *)
Example ex_expand_refused : expand_text ex_aof ex_sug ex_text = Fail 1 1 [32;32;99;47;97;32;42;9;32;94;32;32;35;32;119;104;121].
Proof. vm_compute. reflexivity. Qed.
Definition ex_text2 : str := [32;32;99;47;97;32;42;9;32;45;32;32;35;32;119;104;121;13;10;99;47;98;32;126;97;114;109;10;35;32;120;10;99;47;100;32;94;32;112;112;99;11].
Example ex_expand_ok :
  expand_text ex_aof ex_sug ex_text2 = Ok [32;32;99;47;97;32;97;109;100;54;52;32;120;56;54;32;45;32;32;35;32;119;104;121;13;10;99;47;98;32;126;97;114;109;10;35;32;120;10;99;47;100;32;126;97;114;109;32;112;112;99;11].
Proof. vm_compute. reflexivity. Qed.
Example ex_build :
  build [([99;47;97], [[97;109;100;54;52]; [42]]); ([99;47;98], [])] = [99;47;97;32;97;109;100;54;52;32;42;10;99;47;98]
  /\ Forall (build_ok ex_aof) [([99;47;97], [[97;109;100;54;52]; [42]]); ([99;47;98], [])].
Proof. split; [vm_compute; reflexivity|]. repeat constructor; try reflexivity; vm_compute; discriminate. Qed.
(* the well-formedness hypothesis of with_keywords_local cannot be dropped: a keyword starting
   with '#' turns into a comment when the line is parsed again *)
Example ex_wf_needed :
  match parse ex_aof [99;47;97;32;120] with
  | Ok [e] => let e' := with_keywords e [[35;121]] in
              match parse_line ex_aof 1 (raw e' ++ eol e') with
              | Ok e'' => keywords e'' = [] /\ comment e'' = [35;121]
              | Fail _ _ _ => False
              end
  | _ => False
  end.
Proof. vm_compute. split; reflexivity. Qed.
(* the hypothesis of expand_reparse is satisfiable by a non-trivial suggestion function *)
Example ex_sug_wf : forall p, Forall wf_tok (ex_sug p).
Proof. intros p. unfold ex_sug. destruct (str_eqb p _); repeat constructor. Qed.
