(* Prop_C27.v — the property theorems of C27 and nothing else. *)
From Coq Require Import List NArith ZArith Bool.
Import ListNotations.
From Verif Require Import Base.Val C18.Fs C27.Model_C27 C27.Spec_C27 C27.Proofs_C27.

Theorem parse_num_dec : forall n, parse_num (dec n) = Some n.
Proof. exact parse_num_dec_proof. Qed.
Print Assumptions parse_num_dec.
