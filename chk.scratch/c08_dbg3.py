from harness import c08
m = c08.load_mods(); n=0; first=None
for t in c08.ladder_trees():
    robj,_ = c08.make_case(m, c08.FULL, t); res=c08.run_impl(m, c08.FULL, robj); want=c08.oracle(m, c08.FULL, robj)
    if res[1]!=want[0]: n+=1; first = first or (t,res[1][:3],want[0][:4])
print("ladder failing:", n, first)
