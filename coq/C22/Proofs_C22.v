(* Proofs_C22.v — lemmas and proofs for C22. *)
From Coq Require Import List NArith ZArith Bool Arith Lia.
Import ListNotations.
From Verif Require Import Base.Val C22.Model_C22 C22.Spec_C22.

(* ================================================================== strings *)
Lemma str_eqb_false a b : a <> b -> str_eqb a b = false.
Proof. destruct (str_eqb a b) eqn:E; auto. apply str_eqb_eq in E. contradiction. Qed.
Lemma str_eqb_neq a b : str_eqb a b = false -> a <> b.
Proof. intros H ->. rewrite str_eqb_refl in H. discriminate. Qed.
Lemma str_eqb_sym a b : str_eqb a b = str_eqb b a.
Proof.
  destruct (str_eqb a b) eqn:E.
  - apply str_eqb_eq in E. subst. symmetry. apply str_eqb_refl.
  - symmetry. apply str_eqb_false. intros ->. rewrite str_eqb_refl in E. discriminate.
Qed.

(* ================================================================== normpath *)
Definition nosl (c : str) : Prop := forallb (fun x => negb (is_sl x)) c = true.
Definition plainc (c : str) : Prop := c <> [] /\ c <> dot /\ c <> dotdot /\ nosl c.

Lemma split_ne s : split_sl s <> [].
Proof. destruct s as [|c r]; cbn; [discriminate|]. destruct (is_sl c); [discriminate|].
  destruct (split_sl r); discriminate. Qed.

Lemma split_nosl s : Forall nosl (split_sl s).
Proof.
  induction s as [|c r IH]; cbn.
  - constructor; [reflexivity|constructor].
  - destruct (is_sl c) eqn:E.
    + constructor; [reflexivity|exact IH].
    + destruct (split_sl r) as [|h t] eqn:S.
      * constructor; [|constructor]. unfold nosl. cbn. rewrite E. reflexivity.
      * inversion IH; subst. constructor; [|assumption]. unfold nosl in *. cbn. rewrite E. cbn. assumption.
Qed.

Lemma split_nosl_one a : nosl a -> split_sl a = [a].
Proof.
  induction a as [|c a IH]; intros H; cbn; [reflexivity|].
  unfold nosl in H. cbn in H. apply andb_true_iff in H as [H1 H2].
  apply negb_true_iff in H1. rewrite H1. rewrite (IH H2). reflexivity.
Qed.

Lemma split_app_sl a s : nosl a -> split_sl (a ++ SL :: s) = a :: split_sl s.
Proof.
  induction a as [|c a IH]; intros H; cbn.
  - reflexivity.
  - unfold nosl in H. cbn in H. apply andb_true_iff in H as [H1 H2].
    apply negb_true_iff in H1. rewrite H1. rewrite (IH H2). reflexivity.
Qed.

Lemma split_join l : l <> [] -> Forall nosl l -> split_sl (join_sl l) = l.
Proof.
  induction l as [|a r IH]; intros Hne HF; [congruence|].
  inversion HF as [|? ? Ha Hr]; subst. cbn [join_sl].
  destruct r as [|b r'].
  - apply split_nosl_one; assumption.
  - rewrite split_app_sl by assumption. f_equal. apply IH; [discriminate|assumption].
Qed.

Lemma split_cons_sl s : split_sl (SL :: s) = [] :: split_sl s.
Proof. reflexivity. Qed.

Lemma join_head l c0 c r : l = (c0 :: c) :: r -> exists t, join_sl l = c0 :: t.
Proof. intros ->. cbn. destruct r; eexists; reflexivity. Qed.

(* normal form of the component stack (top first): plain components above a block of ".."s,
   and no ".." at all under a root *)
Definition nf (rooted : bool) (acc : list str) : Prop :=
  exists n pl, acc = pl ++ repeat dotdot n /\ Forall plainc pl /\ (rooted = true -> n = 0).

Lemma np_step_plain rooted acc c : plainc c -> np_step rooted acc c = c :: acc.
Proof.
  intros (H1 & H2 & H3 & _). unfold np_step.
  rewrite (str_eqb_false _ _ H1), (str_eqb_false _ _ H2), (str_eqb_false _ _ H3). reflexivity.
Qed.

Lemma np_step_nf rooted acc c : nosl c -> nf rooted acc -> nf rooted (np_step rooted acc c).
Proof.
  intros Hc (n & pl & -> & Hpl & Hr). unfold np_step.
  destruct (str_eqb c []) eqn:E1; cbn [orb]; [exists n, pl; auto|].
  destruct (str_eqb c dot) eqn:E2; cbn [orb]; [exists n, pl; auto|].
  destruct (str_eqb c dotdot) eqn:E3; cbn [negb].
  - apply str_eqb_eq in E3; subst c.
    destruct pl as [|t pl'].
    + cbn [app]. destruct n as [|n'].
      * cbn [repeat]. destruct rooted.
        -- exists 0, []. auto.
        -- exists 1, []. repeat split; auto. discriminate.
      * cbn [repeat]. rewrite str_eqb_refl.
        exists (S (S n')), []. repeat split; auto.
        intros H. specialize (Hr H). discriminate.
    + cbn [app]. inversion Hpl as [|? ? Ht Hpl']; subst.
      destruct Ht as (_ & _ & Ht & _). rewrite (str_eqb_false _ _ Ht).
      exists n, pl'. auto.
  - exists n, (c :: pl). repeat split; auto. constructor; auto.
    repeat split; auto using str_eqb_neq.
Qed.

Lemma fold_nf rooted l acc : Forall nosl l -> nf rooted acc -> nf rooted (fold_left (np_step rooted) l acc).
Proof.
  revert acc; induction l as [|c l IH]; intros acc HF Hn; cbn; [assumption|].
  inversion HF; subst. apply IH; [assumption|]. apply np_step_nf; assumption.
Qed.

Lemma nf_nil rooted : nf rooted [].
Proof. exists 0, []. auto. Qed.

Lemma fold_dotdots n m : fold_left (np_step false) (repeat dotdot n) (repeat dotdot m) = repeat dotdot (n + m).
Proof.
  revert m; induction n as [|n IH]; intros m; cbn [repeat fold_left]; [reflexivity|].
  replace (np_step false (repeat dotdot m) dotdot) with (repeat dotdot (S m)).
  - rewrite IH. f_equal. lia.
  - destruct m; reflexivity.
Qed.

Lemma fold_plain rooted l acc : Forall plainc l -> fold_left (np_step rooted) l acc = rev l ++ acc.
Proof.
  revert acc; induction l as [|c l IH]; intros acc HF; cbn; [reflexivity|].
  inversion HF; subst. rewrite np_step_plain by assumption. rewrite IH by assumption.
  rewrite <- app_assoc. reflexivity.
Qed.

Lemma rev_repeat {A} (x : A) n : rev (repeat x n) = repeat x n.
Proof.
  induction n as [|n IH]; cbn; [reflexivity|]. rewrite IH.
  clear IH. induction n; cbn; [reflexivity|]. f_equal. assumption.
Qed.

Lemma fold_nf_fix rooted acc : nf rooted acc -> fold_left (np_step rooted) (rev acc) [] = acc.
Proof.
  intros (n & pl & -> & Hpl & Hr). rewrite rev_app_distr, rev_repeat, fold_left_app.
  assert (E : fold_left (np_step rooted) (repeat dotdot n) [] = repeat dotdot n).
  { destruct rooted.
    - rewrite (Hr eq_refl). reflexivity.
    - change (@nil str) with (repeat dotdot 0). rewrite fold_dotdots. f_equal. lia. }
  rewrite E. rewrite fold_plain.
  - rewrite rev_involutive. reflexivity.
  - apply Forall_rev. assumption.
Qed.

Lemma fold_skip_empties rooted k l acc :
  fold_left (np_step rooted) (repeat [] k ++ l) acc = fold_left (np_step rooted) l acc.
Proof. induction k; cbn; auto. Qed.

Lemma fold_cons_empty rooted l acc :
  fold_left (np_step rooted) ([] :: l) acc = fold_left (np_step rooted) l acc.
Proof. reflexivity. Qed.

Lemma init_slashes_le2 p : init_slashes p <= 2.
Proof.
  destruct p as [|a [|b [|c r]]]; cbn; repeat (match goal with |- context [if ?x then _ else _] => destruct x end); lia.
Qed.

Lemma nf_comp_shape rooted acc : nf rooted acc -> Forall (fun c => c <> [] /\ nosl c) acc.
Proof.
  intros (n & pl & -> & Hpl & _). apply Forall_app. split.
  - eapply Forall_impl; [|exact Hpl]. intros c (H1 & _ & _ & H4). auto.
  - clear. induction n; cbn; constructor; auto. split; [discriminate|reflexivity].
Qed.

(* every string of the shape "slashes ++ joined normal components" is a fixpoint of normpath *)
Lemma normpath_nf k acc :
  k <= 2 -> nf (Nat.ltb 0 k) acc ->
  normpath (or_dot (repeat SL k ++ join_sl (rev acc))) = or_dot (repeat SL k ++ join_sl (rev acc)).
Proof.
  intros Hk Hnf.
  destruct acc as [|top acc'] eqn:Eacc.
  - destruct k as [|[|[|k]]]; try lia; reflexivity.
  - assert (Hacc : acc <> []) by (rewrite Eacc; discriminate).
    rewrite <- Eacc in *. clear Eacc top acc'.
    assert (Hne : rev acc <> []).
    { intro H. apply (f_equal (@rev str)) in H. rewrite rev_involutive in H. cbn in H. contradiction. }
    pose proof (nf_comp_shape _ _ Hnf) as Hsh. apply Forall_rev in Hsh.
    pose proof (fold_nf_fix _ _ Hnf) as Hfold.
    remember (rev acc) as l eqn:El.
    assert (Hsh' : Forall (fun c : str => c <> [] /\ nosl c) l) by (rewrite El; exact Hsh).
    clear Hsh; rename Hsh' into Hsh.
    assert (HF : Forall nosl l) by (eapply Forall_impl; [|exact Hsh]; intros c [_ H]; exact H).
    destruct l as [|c0 r]; [congruence|].
    destruct c0 as [|x c0'].
    { exfalso. inversion Hsh as [|? ? HH ?]. destruct HH as [HH _]. apply HH. reflexivity. }
    destruct (join_head (( x :: c0') :: r) x c0' r eq_refl) as [t Ht].
    assert (Hx : is_sl x = false).
    { inversion HF as [|? ? Hn _]; subst. unfold nosl in Hn. cbn in Hn.
      apply andb_true_iff in Hn as [Hn _]. apply negb_true_iff in Hn. exact Hn. }
    assert (Hsplit : split_sl (join_sl ((x :: c0') :: r)) = (x :: c0') :: r)
      by (apply split_join; [discriminate|assumption]).
    unfold str in *. rewrite Ht in Hsplit. rewrite Ht.
    assert (Hs : is_sl SL = true) by reflexivity.
    destruct k as [|[|[|k]]]; try lia; cbn [repeat app or_dot].
    + unfold normpath, np_comps. unfold str. cbn [init_slashes]. rewrite Hx.
      rewrite Hsplit. cbn [Nat.ltb Nat.leb] in *. rewrite Hfold.
      cbn [repeat app]. rewrite <- El, Ht. reflexivity.
    + unfold normpath, np_comps. unfold str. cbn [init_slashes]. repeat (rewrite ?Hs, ?Hx; cbn iota).
      rewrite !split_cons_sl.
      rewrite Hsplit. cbn [Nat.ltb Nat.leb] in *.
      rewrite !fold_cons_empty. unfold str.
      rewrite Hfold. cbn [repeat app]. rewrite <- El, Ht. reflexivity.
    + unfold normpath, np_comps. unfold str. cbn [init_slashes]. repeat (rewrite ?Hs, ?Hx; cbn iota).
      rewrite !split_cons_sl.
      rewrite Hsplit. cbn [Nat.ltb Nat.leb] in *.
      rewrite !fold_cons_empty. unfold str.
      rewrite Hfold. cbn [repeat app]. rewrite <- El, Ht. reflexivity.
Qed.

Lemma np_comps_nf p : nf (Nat.ltb 0 (init_slashes p)) (np_comps p).
Proof. unfold np_comps. apply fold_nf; [apply split_nosl|apply nf_nil]. Qed.

Theorem normpath_idempotent_proof : forall p, normpath (normpath p) = normpath p.
Proof.
  intros p. destruct p as [|c r]; [reflexivity|].
  set (p := c :: r).
  assert (Hp : normpath p = or_dot (repeat SL (init_slashes p) ++ join_sl (rev (np_comps p)))) by reflexivity.
  rewrite Hp. apply normpath_nf; [apply init_slashes_le2|apply np_comps_nf].
Qed.

Example normpath_ex1 : normpath [47;97;47;47;98;47;46;47;99;47;46;46;47]%N = [47;97;47;98]%N.  (* "/a//b/./c/../" -> "/a/b" *)
Proof. reflexivity. Qed.
Example normpath_ex2 : normpath [47;47;97]%N = [47;47;97]%N /\ normpath [47;47;47;97]%N = [47;97]%N
                       /\ normpath [] = dot /\ normpath [47;46;46]%N = [47]%N /\ normpath [97;47;46;46;47;46;46]%N = dotdot.
Proof. repeat split; reflexivity. Qed.

(* ================================================================== the dict layer *)
Ltac seqb :=
  repeat match goal with
         | |- context [str_eqb ?a ?b] => let E := fresh "E" in destruct (str_eqb a b) eqn:E
         end;
  repeat match goal with
         | H : str_eqb _ _ = true |- _ => apply str_eqb_eq in H
         | H : str_eqb _ _ = false |- _ => apply str_eqb_neq in H
         end;
  subst; cbn in *; try congruence; auto.

Lemma dget_dset p e d : dget p (dset e d) = if str_eqb p (eloc e) then Some e else dget p d.
Proof. induction d as [|x r IH]; cbn; [seqb|]. destruct (str_eqb (eloc x) (eloc e)) eqn:E0; cbn; [|rewrite IH]; seqb. Qed.

Lemma dget_filter_key (f : str -> bool) d p :
  dget p (filter (fun e => f (eloc e)) d) = if f p then dget p d else None.
Proof.
  induction d as [|x r IH]; cbn; [destruct (f p); reflexivity|].
  destruct (f (eloc x)) eqn:F; cbn; rewrite IH; destruct (str_eqb (eloc x) p) eqn:E.
  - apply str_eqb_eq in E; subst. rewrite F. reflexivity.
  - reflexivity.
  - apply str_eqb_eq in E; subst. rewrite F. reflexivity.
  - reflexivity.
Qed.

Lemma dget_ddel p k d : dget p (ddel k d) = if str_eqb p k then None else dget p d.
Proof.
  unfold ddel. rewrite (dget_filter_key (fun x => negb (str_eqb x k))). destruct (str_eqb p k); reflexivity.
Qed.

Lemma dhas_dget k d : dhas k d = match dget k d with Some _ => true | None => false end.
Proof. induction d as [|x r IH]; cbn; [reflexivity|]. destruct (str_eqb (eloc x) k); cbn; auto. Qed.

Lemma dget_app p d1 d2 : dget p (d1 ++ d2) = match dget p d1 with Some e => Some e | None => dget p d2 end.
Proof. induction d1 as [|x r IH]; cbn; [reflexivity|]. destruct (str_eqb (eloc x) p); auto. Qed.

Lemma dget_dupdate p l d :
  dget p (dupdate d l) = match dget p (rev l) with Some e => Some e | None => dget p d end.
Proof.
  revert d; induction l as [|e l IH]; intros d; cbn; [reflexivity|].
  unfold dupdate in *. rewrite IH. rewrite dget_app. destruct (dget p (rev l)); [reflexivity|].
  cbn. rewrite dget_dset. rewrite (str_eqb_sym p). destruct (str_eqb (eloc e) p); reflexivity.
Qed.

Lemma dget_some p d e : dget p d = Some e -> In e d /\ eloc e = p.
Proof.
  induction d as [|x r IH]; cbn; [discriminate|]. destruct (str_eqb (eloc x) p) eqn:E.
  - intros [= ->]. apply str_eqb_eq in E. auto.
  - intros H. destruct (IH H). auto.
Qed.

Lemma dget_none p d : dget p d = None <-> ~ In p (map eloc d).
Proof.
  induction d as [|x r IH]; cbn; [tauto|]. destruct (str_eqb (eloc x) p) eqn:E.
  - apply str_eqb_eq in E. split; [discriminate|]. intros H. exfalso. apply H. auto.
  - apply str_eqb_neq in E. rewrite IH. tauto.
Qed.

Lemma dget_nodup_in d e : NoDup (map eloc d) -> In e d -> dget (eloc e) d = Some e.
Proof.
  induction d as [|x r IH]; cbn; [tauto|]. intros ND [->|Hin].
  - rewrite str_eqb_refl. reflexivity.
  - inversion ND as [|? ? Hn ND']; subst. destruct (str_eqb (eloc x) (eloc e)) eqn:E.
    + apply str_eqb_eq in E. exfalso. apply Hn. rewrite E. apply in_map. assumption.
    + apply IH; assumption.
Qed.

Lemma dget_rev_nodup p d : NoDup (map eloc d) -> dget p (rev d) = dget p d.
Proof.
  intros ND. destruct (dget p d) as [e|] eqn:G.
  - destruct (dget_some _ _ _ G) as [Hin <-]. apply dget_nodup_in.
    + rewrite map_rev. apply NoDup_rev. assumption.
    + apply in_rev. rewrite rev_involutive. assumption.
  - apply dget_none. apply dget_none in G. rewrite map_rev. intros H. apply G. apply in_rev. assumption.
Qed.

(* ---- keys stay unique and normalised *)
Lemma in_keys_dset k e d : In k (map eloc (dset e d)) -> k = eloc e \/ In k (map eloc d).
Proof.
  induction d as [|x r IH]; cbn; [intuition|]. destruct (str_eqb (eloc x) (eloc e)) eqn:E; cbn.
  - apply str_eqb_eq in E. rewrite E. intuition.
  - intros [H|H]; [auto|]. destruct (IH H); auto.
Qed.

Lemma wf_dset e d : wf_entry e -> wf_dict d -> wf_dict (dset e d).
Proof.
  intros He [ND HF]. split.
  - induction d as [|x r IH]; cbn; [constructor; [tauto|constructor]|].
    inversion ND as [|? ? Hn ND']; subst. inversion HF; subst.
    destruct (str_eqb (eloc x) (eloc e)) eqn:E; cbn.
    + apply str_eqb_eq in E. rewrite <- E. constructor; assumption.
    + apply str_eqb_neq in E. constructor; [|apply IH; assumption].
      intros H. apply in_keys_dset in H as [H|H]; [congruence|contradiction].
  - clear ND. induction d as [|x r IH]; cbn; [constructor; [assumption|constructor]|].
    inversion HF; subst. destruct (str_eqb (eloc x) (eloc e)); constructor; auto.
Qed.

Lemma wf_filter f d : wf_dict d -> wf_dict (filter f d).
Proof.
  intros [ND HF]. split.
  - induction d as [|x r IH]; cbn; [constructor|].
    inversion ND as [|? ? Hn ND']; subst. inversion HF; subst.
    destruct (f x); cbn; [|apply IH; assumption].
    constructor; [|apply IH; assumption]. intros H. apply Hn.
    apply in_map_iff in H as (y & Hy & Hin). apply filter_In in Hin as [Hin _].
    rewrite <- Hy. apply in_map. assumption.
  - apply Forall_forall. intros x Hx. apply filter_In in Hx as [Hx _].
    rewrite Forall_forall in HF. auto.
Qed.

Lemma wf_nil : wf_dict [].
Proof. split; constructor. Qed.

Lemma wf_dupdate l d : Forall wf_entry l -> wf_dict d -> wf_dict (dupdate d l).
Proof.
  revert d; induction l as [|e l IH]; intros d HF Hd; cbn; [assumption|].
  inversion HF; subst. apply IH; [assumption|]. apply wf_dset; assumption.
Qed.

Lemma wf_mk_entry p k t : wf_entry (mk_entry p k t).
Proof. unfold wf_entry; cbn. apply normpath_idempotent_proof. Qed.
Lemma wf_with_loc e l : wf_entry (with_loc e l).
Proof. unfold wf_entry; cbn. apply normpath_idempotent_proof. Qed.

(* ================================================================== element-level operations *)
Lemma wf_unnormalised_absent d p : wf_dict d -> normpath p <> p -> dget p d = None.
Proof.
  intros [_ HF] Hp. destruct (dget p d) as [e|] eqn:G; [|reflexivity].
  destruct (dget_some _ _ _ G) as [Hin <-]. rewrite Forall_forall in HF. specialize (HF _ Hin).
  contradiction.
Qed.

Theorem lookup_refines_proof : forall s it,
  contains s it = (match abs s (norm_key it) with Some _ => true | None => false end)
  /\ getitem s it = (match abs s (norm_key it) with Some e => Ok e | None => Er KeyError end).
Proof. intros s it. unfold contains, getitem, abs. rewrite dhas_dget. split; reflexivity. Qed.

Theorem lookup_spelling_proof : forall s p q e, wf_entry e ->
  (normpath p = normpath q -> getitem s (IS p) = getitem s (IS q) /\ contains s (IS p) = contains s (IS q))
  /\ (normpath p = eloc e -> getitem s (IS p) = getitem s (IE e) /\ contains s (IS p) = contains s (IE e))
  /\ getitem s (IS (eloc e)) = getitem s (IE e).
Proof.
  intros s p q e He. unfold getitem, contains; cbn. repeat split.
  - rewrite H; reflexivity.
  - rewrite H; reflexivity.
  - rewrite H; reflexivity.
  - rewrite H; reflexivity.
  - rewrite He. reflexivity.
Qed.

Theorem add_refines_proof : forall s e,
  (mut s = false -> add s e = Er AttributeError)
  /\ (mut s = true -> exists s', add s e = Ok s' /\ mut s' = true /\ same_map (abs s') (M_set e (abs s))).
Proof.
  intros s e. unfold add. split; intros Hm; rewrite Hm; [reflexivity|].
  eexists; split; [reflexivity|]. split; [exact Hm|]. intros p. unfold abs, M_set; cbn. apply dget_dset.
Qed.

Theorem remove_refines_proof : forall s it,
  (mut s = false -> remove s it = Er AttributeError)
  /\ (mut s = true ->
      match remove s it with
      | Ok s' => dom (abs s) (norm_key it) /\ mut s' = true /\ same_map (abs s') (M_remove (norm_key it) (abs s))
      | Er k => k = KeyError /\ abs s (norm_key it) = None
      end).
Proof.
  intros s it. unfold remove. split; intros Hm; rewrite Hm; [reflexivity|]. cbn [negb].
  rewrite dhas_dget. unfold dom, abs, norm_key, key_of.
  destruct (dget _ (ents s)) eqn:G.
  - split; [first [discriminate | rewrite G; discriminate]|]. split; [exact Hm|]. intros p. unfold M_remove; cbn. apply dget_ddel.
  - auto.
Qed.

Theorem discard_refines_proof : forall s it,
  same_map (abs (discard s it)) (M_remove (norm_key it) (abs s)) /\ mut (discard s it) = mut s.
Proof. intros s it. split; [|reflexivity]. intros p. unfold abs, M_remove, discard; cbn. apply dget_ddel. Qed.

(* the pinned tree's discard: refuted, and right exactly when the string is already normalised *)
Theorem discard_pinned_refuted_proof : ~ discard_pinned_full_statement.
Proof.
  intros H.
  specialize (H {| mut := true; ents := [mk_entry [47;97;47;98]%N 0 1] |} (IS [47;97;47;47;98]%N)).
  assert (W : wf {| mut := true; ents := [mk_entry [47;97;47;98]%N 0 1] |}).
  { split; cbn; [constructor; [tauto|constructor]|constructor; [apply wf_mk_entry|constructor]]. }
  specialize (H W [47;97;47;98]%N). vm_compute in H. discriminate.
Qed.
Theorem discard_pinned_partial_proof : forall s it,
  (match it with IS p => normpath p = p | IE _ => True end) ->
  same_map (abs (discard_pinned s it)) (M_remove (norm_key it) (abs s)).
Proof.
  intros s it Hn p. unfold abs, M_remove, discard_pinned; cbn. rewrite dget_ddel.
  destruct it; cbn; [reflexivity|]. rewrite Hn. reflexivity.
Qed.

(* ================================================================== raw `location in other` *)
Lemma dhas_iff k d : dhas k d = true <-> exists e, In e d /\ eloc e = k.
Proof.
  unfold dhas. rewrite existsb_exists. split; intros (e & H1 & H2); exists e; split; auto.
  - apply str_eqb_eq; assumption.
  - apply str_eqb_eq; assumption.
Qed.

Lemma dom_iff s p : dom (abs s) p <-> exists e, In e (ents s) /\ eloc e = p.
Proof.
  unfold dom, abs. rewrite <- dhas_iff, dhas_dget. destruct (dget p (ents s)); split; congruence.
Qed.

Lemma loc_in_arg_spec a loc :
  raw_in_class a = false -> normpath loc = loc -> (loc_in_arg loc a = true <-> arg_keys a loc).
Proof.
  intros Hc Hl. destruct a as [o|l|l]; cbn in *.
  - rewrite Hl, dhas_iff. unfold arg_keys; cbn. split.
    + intros (e & H1 & H2). exists (IE e). split; [apply in_map; assumption|assumption].
    + intros (it & H1 & H2). apply in_map_iff in H1 as (e & <- & Hin). exists e; auto.
  - apply negb_false_iff in Hc. rewrite forallb_forall in Hc. rewrite existsb_exists. unfold arg_keys; cbn. split.
    + intros (it & Hin & H). destruct it as [e|q]; [discriminate|]. apply str_eqb_eq in H; subst.
      exists (IS loc). split; [assumption|]. cbn. assumption.
    + intros (it & Hin & H). exists it. split; [assumption|]. specialize (Hc _ Hin).
      destruct it as [e|q]; cbn in *; [discriminate|]. apply str_eqb_eq in Hc. rewrite Hc in H. subst.
      apply str_eqb_refl.
  - apply negb_false_iff in Hc. rewrite forallb_forall in Hc. rewrite existsb_exists. unfold arg_keys; cbn. split.
    + intros (it & Hin & H). apply str_eqb_eq in H. exists it. split; [assumption|]. specialize (Hc _ Hin).
      destruct it as [e|q]; cbn in *; [assumption|]. apply str_eqb_eq in Hc. congruence.
    + intros (it & Hin & H). exists it. split; [assumption|]. specialize (Hc _ Hin).
      destruct it as [e|q]; cbn in *; [subst; apply str_eqb_refl|]. apply str_eqb_eq in Hc. rewrite Hc in H. subst.
      apply str_eqb_refl.
Qed.

Lemma restrict_by_loc_in_arg keep s a :
  wf s -> raw_in_class a = false ->
  is_restrict keep (arg_keys a) (abs s)
    (fun p => dget p (filter (fun x => if keep then loc_in_arg (eloc x) a else negb (loc_in_arg (eloc x) a)) (ents s))).
Proof.
  intros W Hc p.
  rewrite (dget_filter_key (fun k => if keep then loc_in_arg k a else negb (loc_in_arg k a))).
  unfold abs. destruct (str_eq_dec (normpath p) p) as [Hn|Hn].
  - pose proof (loc_in_arg_spec a p Hc Hn) as Hs. destruct (loc_in_arg p a) eqn:L.
    + split; [intros _; destruct keep; reflexivity|]. intros HK. exfalso. apply HK. apply Hs. reflexivity.
    + split; [|intros _; destruct keep; reflexivity]. intros HK. apply Hs in HK. discriminate.
  - rewrite (wf_unnormalised_absent _ _ W Hn). split; intros _; destruct keep, (loc_in_arg p a); reflexivity.
Qed.

Theorem difference_partial_proof : forall s a, wf s -> raw_in_class a = false ->
  is_restrict false (arg_keys a) (abs s) (abs (difference s a)) /\ mut (difference s a) = mut s.
Proof. intros s a W Hc. split; [|reflexivity]. exact (restrict_by_loc_in_arg false s a W Hc). Qed.

Theorem intersection_update_partial_proof : forall s a, wf s -> raw_in_class a = false ->
  (mut s = false -> intersection_update s a = Er TypeError)
  /\ (mut s = true -> exists s', intersection_update s a = Ok s' /\ is_restrict true (arg_keys a) (abs s) (abs s')).
Proof.
  intros s a W Hc. unfold intersection_update. split; intros ->; [reflexivity|].
  eexists; split; [reflexivity|]. exact (restrict_by_loc_in_arg true s a W Hc).
Qed.

Lemma wf_key_normal s e : wf s -> In e (ents s) -> normpath (eloc e) = eloc e.
Proof. intros [_ HF] Hin. rewrite Forall_forall in HF. exact (HF _ Hin). Qed.

Theorem issubset_partial_proof : forall s a, wf s -> raw_in_class a = false ->
  (issubset s a = true <-> forall p, dom (abs s) p -> arg_keys a p).
Proof.
  intros s a W Hc. unfold issubset. rewrite forallb_forall. split.
  - intros H p Hp. apply dom_iff in Hp as (e & Hin & <-).
    apply loc_in_arg_spec; auto. eapply wf_key_normal; eauto.
  - intros H e Hin. apply loc_in_arg_spec; auto; [eapply wf_key_normal; eauto|].
    apply H. apply dom_iff. eauto.
Qed.

Theorem isdisjoint_partial_proof : forall s a, wf s -> raw_in_class a = false ->
  (isdisjoint s a = true <-> forall p, dom (abs s) p -> ~ arg_keys a p).
Proof.
  intros s a W Hc. unfold isdisjoint. rewrite negb_true_iff. split.
  - intros H p Hp HK. apply dom_iff in Hp as (e & Hin & <-).
    apply (loc_in_arg_spec a _ Hc (wf_key_normal _ _ W Hin)) in HK.
    assert (X : existsb (fun x => loc_in_arg (eloc x) a) (ents s) = true) by (apply existsb_exists; eauto).
    congruence.
  - intros H. destruct (existsb _ (ents s)) eqn:X; [|reflexivity]. exfalso.
    apply existsb_exists in X as (e & Hin & L).
    apply (loc_in_arg_spec a _ Hc (wf_key_normal _ _ W Hin)) in L.
    apply (H (eloc e)); [apply dom_iff; eauto|assumption].
Qed.

(* witnesses: a list holding the very fs object / an unnormalised spelling of a stored path *)
Definition w_ab : entry := mk_entry [47;97;47;98]%N 0 1.          (* file /a/b *)
Definition w_set : cset := {| mut := true; ents := [w_ab] |}.
Lemma w_set_wf : wf w_set.
Proof. split; cbn; [constructor; [tauto|constructor]|constructor; [apply wf_mk_entry|constructor]]. Qed.
Lemma w_list_wf : wf_arg (AList [IE w_ab]).
Proof. cbn. constructor; [apply wf_mk_entry|constructor]. Qed.
Lemma w_list_key : arg_keys (AList [IE w_ab]) [47;97;47;98]%N.
Proof. exists (IE w_ab). split; [left; reflexivity|reflexivity]. Qed.
Lemma w_dom : dom (abs w_set) [47;97;47;98]%N.
Proof. vm_compute. discriminate. Qed.

Theorem difference_refuted_proof : ~ difference_full_statement.
Proof.
  intros H. destruct (H w_set (AList [IE w_ab]) w_set_wf w_list_wf [47;97;47;98]%N) as [H1 _].
  specialize (H1 w_list_key). vm_compute in H1. discriminate.
Qed.
Theorem intersection_update_refuted_proof : ~ intersection_update_full_statement.
Proof.
  intros H. destruct (H w_set (AList [IE w_ab]) w_set_wf w_list_wf eq_refl) as (s' & E & R).
  vm_compute in E. injection E as <-. destruct (R [47;97;47;98]%N) as [H1 _].
  specialize (H1 w_list_key). vm_compute in H1. discriminate.
Qed.
Theorem issubset_refuted_proof : ~ issubset_full_statement.
Proof.
  intros H. destruct (H w_set (AList [IE w_ab]) w_set_wf w_list_wf) as [_ H2].
  assert (X : issubset w_set (AList [IE w_ab]) = true).
  { apply H2. intros p Hp. apply dom_iff in Hp as (e & [<-|[]] & <-). exact w_list_key. }
  vm_compute in X. discriminate.
Qed.
Theorem isdisjoint_refuted_proof : ~ isdisjoint_full_statement.
Proof.
  intros H. destruct (H w_set (AList [IE w_ab]) w_set_wf w_list_wf) as [H1 _].
  apply (H1 eq_refl [47;97;47;98]%N w_dom w_list_key).
Qed.
(* the second half of the class: a path string that is not normalised, here through an iterator *)
Example difference_unnormalised_string :
  abs (difference w_set (AIter [IS [47;97;47;47;98]%N])) [47;97;47;98]%N = Some w_ab
  /\ arg_keys (AIter [IS [47;97;47;47;98]%N]) [47;97;47;98]%N.
Proof. split; [reflexivity|]. exists (IS [47;97;47;47;98]%N). split; [left; reflexivity|reflexivity]. Qed.

(* ================================================================== normalising bulk operations *)
Lemma dget_fold_ddel p (l : list item) d :
  dget p (fold_left (fun d it => ddel (key_of it) d) l d)
  = if existsb (fun it => str_eqb p (key_of it)) l then None else dget p d.
Proof.
  revert d; induction l as [|it l IH]; intros d; cbn; [reflexivity|].
  rewrite IH, dget_ddel. destruct (str_eqb p (key_of it)); cbn; [destruct (existsb _ l); reflexivity|reflexivity].
Qed.

Lemma arg_keys_existsb a p : existsb (fun it => str_eqb p (key_of it)) (arg_items a) = true <-> arg_keys a p.
Proof.
  rewrite existsb_exists. unfold arg_keys. split; intros (it & Hin & H); exists it; split; auto.
  - apply str_eqb_eq in H. symmetry. exact H.
  - change (norm_key it) with (key_of it) in H. rewrite H. apply str_eqb_refl.
Qed.

Theorem difference_update_refines_proof : forall s a,
  (mut s = false -> difference_update s a = Er TypeError)
  /\ (mut s = true -> exists s', difference_update s a = Ok s' /\ mut s' = true
                      /\ is_restrict false (arg_keys a) (abs s) (abs s')).
Proof.
  intros s a. unfold difference_update. split; intros Hm; rewrite Hm; [reflexivity|].
  eexists; split; [reflexivity|]. split; [exact Hm|]. intros p. unfold abs; cbn.
  rewrite dget_fold_ddel. pose proof (arg_keys_existsb a p) as K.
  destruct (existsb _ (arg_items a)); split; intros HK; try reflexivity.
  - exfalso. apply HK. apply K. reflexivity.
  - apply K in HK. discriminate.
Qed.

Theorem issuperset_refines_proof : forall s a,
  issuperset s a = true <-> forall p, arg_keys a p -> dom (abs s) p.
Proof.
  intros s a. unfold issuperset. rewrite forallb_forall. split.
  - intros H p (it & Hin & <-). specialize (H _ Hin). unfold contains in H. apply dom_iff, dhas_iff. exact H.
  - intros H it Hin. unfold contains. apply dhas_iff, dom_iff. apply H. exists it. auto.
Qed.

(* ================================================================== value-producing operations *)
Lemma all_entries_map es : all_entries (map IE es) = Some es.
Proof. induction es as [|e es IH]; cbn; [reflexivity|]. unfold all_entries in IH. rewrite IH. reflexivity. Qed.

Lemma all_entries_some l es : all_entries l = Some es -> l = map IE es.
Proof.
  revert es; induction l as [|it l IH]; intros es; cbn.
  - intros [= <-]. reflexivity.
  - destruct it as [e|q]; [|discriminate]. fold (all_entries l). destruct (all_entries l) as [r|]; [|discriminate].
    intros [= <-]. cbn. f_equal. apply IH. reflexivity.
Qed.

Lemma ents_map_wf d : NoDup (map eloc d) -> forall p, ents_map d p = dget p d.
Proof. intros ND p. apply dget_rev_nodup. assumption. Qed.

Theorem union_refines_proof : forall s a,
  match all_entries (arg_items a) with
  | Some es => exists r, union s a = Ok r /\ mut r = true
                         /\ (wf s -> same_map (abs r) (M_union (abs s) (ents_map es)))
  | None => union s a = Er TypeError
  end.
Proof.
  intros s a. unfold union. destruct (all_entries (arg_items a)) as [es|]; [|reflexivity].
  eexists; split; [reflexivity|]. split; [reflexivity|]. intros [ND _] p. unfold abs, M_union, ents_map; cbn.
  rewrite !dget_dupdate. rewrite (dget_rev_nodup _ _ ND). cbn. destruct (dget p (ents s)); [reflexivity|].
  destruct (dget p (rev es)); reflexivity.
Qed.

Lemma filter_rev {A} (f : A -> bool) l : rev (filter f l) = filter f (rev l).
Proof.
  induction l as [|x l IH]; cbn; [reflexivity|]. rewrite filter_app; cbn.
  destruct (f x); cbn; rewrite IH; [reflexivity|rewrite app_nil_r; reflexivity].
Qed.

Lemma filter_contains_map s es :
  filter (contains s) (map IE es) = map IE (filter (fun e => dhas (eloc e) (ents s)) es).
Proof.
  induction es as [|e es IH]; cbn; [reflexivity|]. unfold contains at 1; cbn.
  destruct (dhas (eloc e) (ents s)); cbn; rewrite IH; reflexivity.
Qed.

(* intersection: the key set is right; the values are the ARGUMENT's *)
Theorem intersection_refines_proof : forall s es,
  exists r, intersection s (AIter (map IE es)) = Ok r /\ intersection s (AList (map IE es)) = Ok r
            /\ mut r = mut s
            /\ same_map (abs r) (M_inter (ents_map es) (abs s))
            /\ (forall p, dom (abs r) p <-> dom (abs s) p /\ arg_keys (AIter (map IE es)) p).
Proof.
  intros s es. unfold intersection; cbn [arg_items]. rewrite filter_contains_map, all_entries_map.
  eexists; split; [reflexivity|]. split; [reflexivity|]. split; [reflexivity|].
  assert (M : same_map (abs (with_ents s (dupdate [] (filter (fun e => dhas (eloc e) (ents s)) es))))
                       (M_inter (ents_map es) (abs s))).
  { intros p. unfold abs, M_inter, ents_map; cbn. rewrite dget_dupdate, filter_rev.
    rewrite (dget_filter_key (fun k => dhas k (ents s))). rewrite dhas_dget.
    destruct (dget p (ents s)); cbn; destruct (dget p (rev es)); reflexivity. }
  split; [exact M|]. intros p. unfold dom. rewrite (M p). unfold M_inter, ents_map, abs.
  assert (K : dget p (rev es) <> None <-> arg_keys (AIter (map IE es)) p).
  { unfold arg_keys; cbn. split.
    - intros H. destruct (dget p (rev es)) as [e|] eqn:G; [|congruence].
      destruct (dget_some _ _ _ G) as [Hin <-]. exists (IE e). split; [|reflexivity].
      apply in_map. apply in_rev. assumption.
    - intros (it & Hin & <-). apply in_map_iff in Hin as (e & <- & Hin). cbn.
      intros G. apply dget_none in G. apply G. rewrite map_rev. apply in_rev. rewrite rev_involutive.
      apply in_map. assumption. }
  rewrite <- K. destruct (dget p (ents s)), (dget p (rev es)); split; try tauto; try congruence;
    try (intros _; split; discriminate); try (intros [? ?]; congruence).
Qed.

Theorem intersection_refuted_proof : ~ intersection_full_statement.
Proof.
  intros H.
  specialize (H w_set [mk_entry [47;97;47;98]%N 1 2]
                {| mut := true; ents := [mk_entry [47;97;47;98]%N 1 2] |} w_set_wf).
  assert (F : Forall wf_entry [mk_entry [47;97;47;98]%N 1 2]) by (constructor; [apply wf_mk_entry|constructor]).
  specialize (H F eq_refl [47;97;47;98]%N). vm_compute in H. discriminate.
Qed.

(* outside the class: when self and the argument hold the same object under every common path *)
Theorem intersection_partial_proof : forall s es r,
  (forall p e e', abs s p = Some e -> ents_map es p = Some e' -> e = e') ->
  intersection s (AIter (map IE es)) = Ok r -> same_map (abs r) (M_inter (abs s) (ents_map es)).
Proof.
  intros s es r Hag E. destruct (intersection_refines_proof s es) as (r' & E' & _ & _ & M & _).
  rewrite E in E'. injection E' as <-. intros p. rewrite (M p). unfold M_inter.
  destruct (abs s p) eqn:A, (ents_map es p) eqn:B; try reflexivity. f_equal. symmetry. eapply Hag; eauto.
Qed.

(* ---- symmetric difference *)
Fixpoint addnew (d : dict) (es : list entry) : dict :=
  match es with
  | [] => d
  | e :: r => if dhas (eloc e) d then addnew d r else addnew (dset e d) r
  end.
Lemma add_absent_entries d es : add_absent d (map IE es) = Ok (addnew d es).
Proof. revert d; induction es as [|e es IH]; intros d; cbn; [reflexivity|]. destruct (dhas (eloc e) d); apply IH. Qed.
Lemma dget_addnew p es d : dget p (addnew d es) = match dget p d with Some e => Some e | None => dget p es end.
Proof.
  revert d; induction es as [|e es IH]; intros d; cbn; [destruct (dget p d); reflexivity|].
  destruct (dhas (eloc e) d) eqn:H; rewrite IH.
  - destruct (dget p d) eqn:G; [reflexivity|]. destruct (str_eqb (eloc e) p) eqn:E; [|reflexivity].
    apply str_eqb_eq in E; subst. rewrite dhas_dget, G in H. discriminate.
  - rewrite dget_dset. rewrite (str_eqb_sym p). destruct (str_eqb (eloc e) p) eqn:E; [|reflexivity].
    apply str_eqb_eq in E; subst. rewrite dhas_dget in H. destruct (dget (eloc e) d); [discriminate|reflexivity].
Qed.
Lemma dget_fold_ddel_ents p (l : list entry) d :
  dget p (fold_left (fun acc x => ddel (eloc x) acc) l d)
  = if existsb (fun x => str_eqb p (eloc x)) l then None else dget p d.
Proof.
  revert d; induction l as [|x l IH]; intros d; cbn; [reflexivity|].
  rewrite IH, dget_ddel. destruct (str_eqb p (eloc x)); cbn; [destruct (existsb _ l); reflexivity|reflexivity].
Qed.
Lemma existsb_key_filter p (g : str -> bool) d :
  existsb (fun x => str_eqb p (eloc x)) (filter (fun x => g (eloc x)) d) = dhas p d && g p.
Proof.
  induction d as [|x d IH]; cbn; [reflexivity|].
  destruct (str_eqb (eloc x) p) eqn:E.
  - apply str_eqb_eq in E; subst. destruct (g (eloc x)) eqn:G; cbn.
    + rewrite str_eqb_refl. reflexivity.
    + rewrite IH, andb_false_r. reflexivity.
  - destruct (g (eloc x)) eqn:G; cbn; [|exact IH].
    rewrite (str_eqb_sym p (eloc x)), E. cbn. exact IH.
Qed.

Lemma symdiff_core_cset d o :
  exists d', symdiff_core d (ACs o) = Ok d'
             /\ forall p, dget p d' = M_symdiff (fun p => dget p d) (abs o) p.
Proof.
  unfold symdiff_core; cbn [arg_items entry_in_arg]. rewrite add_absent_entries.
  eexists; split; [reflexivity|]. intros p. rewrite dget_fold_ddel_ents.
  rewrite (existsb_key_filter p (fun k => dhas k (ents o))). rewrite dget_addnew.
  unfold M_symdiff, abs. rewrite !dhas_dget. destruct (dget p d), (dget p (ents o)); reflexivity.
Qed.

Theorem symdiff_refines_proof : forall s,
  (forall o, exists r, symmetric_difference s (ACs o) = Ok r /\ mut r = mut s
                       /\ same_map (abs r) (M_symdiff (abs s) (abs o))
                       /\ symmetric_difference_update s (ACs o) = (if mut s then Ok r else Er TypeError))
  /\ (forall es, exists r, symmetric_difference s (AIter (map IE es)) = Ok r /\ mut r = mut s
                       /\ same_map (abs r) (M_symdiff (abs s) (ents_map es))
                       /\ symmetric_difference_update s (AIter (map IE es)) = (if mut s then Ok r else Er TypeError))
  /\ (forall l, all_entries l = None -> symmetric_difference s (AIter l) = Er ValueError).
Proof.
  intros s. split; [|split].
  - intros o. destruct (symdiff_core_cset (ents s) o) as (d' & E & M).
    unfold symmetric_difference_update, symmetric_difference. rewrite E.
    eexists; split; [reflexivity|]. split; [reflexivity|]. split; [exact M|]. destruct (mut s); reflexivity.
  - intros es.
    destruct (symdiff_core_cset (ents s) {| mut := true; ents := dupdate [] es |}) as (d' & E & M).
    unfold symmetric_difference_update, symmetric_difference.
    assert (E2 : symdiff_core (ents s) (AIter (map IE es)) = Ok d').
    { unfold symdiff_core in *. rewrite all_entries_map. exact E. }
    rewrite E2. eexists; split; [reflexivity|]. split; [reflexivity|]. split; [|destruct (mut s); reflexivity].
    intros p. unfold abs at 1; cbn. rewrite (M p). unfold M_symdiff, abs, ents_map; cbn.
    rewrite dget_dupdate; cbn. destruct (dget p (ents s)), (dget p (rev es)); reflexivity.
  - intros l H. unfold symmetric_difference, symdiff_core. rewrite H. reflexivity.
Qed.

(* given a LIST, membership of self's objects is fsBase.__eq__ (class and location) *)
Theorem symdiff_list_refuted_proof : ~ symdiff_full_statement.
Proof.
  intros H.
  specialize (H w_set [mk_entry [47;97;47;98]%N 1 2] w_set w_set_wf).
  assert (F : Forall wf_entry [mk_entry [47;97;47;98]%N 1 2]) by (constructor; [apply wf_mk_entry|constructor]).
  specialize (H F eq_refl [47;97;47;98]%N). vm_compute in H. discriminate.
Qed.

(* ================================================================== child nodes *)
Lemma starts_with_iff pre s : starts_with pre s = true <-> exists rest, s = pre ++ rest.
Proof.
  revert s; induction pre as [|a pre IH]; intros s; cbn.
  - split; [intros _; exists s; reflexivity|reflexivity].
  - destruct s as [|b s]; [split; [discriminate|intros [r H]; discriminate]|].
    rewrite andb_true_iff, N.eqb_eq, IH. split.
    + intros [-> [r ->]]. exists r. reflexivity.
    + intros [r H]. injection H as -> ->. split; [reflexivity|exists r; reflexivity].
Qed.

Theorem child_nodes_exact_proof : forall s start p e,
  abs (child_nodes s start) p = Some e
  <-> abs s p = Some e /\ exists rest, p = rstrip_sl (normpath start) ++ SL :: rest.
Proof.
  intros s start p e. unfold abs, child_nodes; cbn.
  rewrite (dget_filter_key (fun k => starts_with (child_prefix start) k)).
  pose proof (starts_with_iff (child_prefix start) p) as S. unfold child_prefix in *.
  destruct (starts_with _ p).
  - split; [intros H; split; [exact H|]|tauto].
    destruct (proj1 S eq_refl) as [r Hr]. exists r. rewrite Hr, <- app_assoc. reflexivity.
  - split; [discriminate|]. intros [_ [r Hr]]. assert (X : false = true); [|discriminate].
    apply S. exists r. rewrite Hr, <- app_assoc. reflexivity.
Qed.

(* ================================================================== well-formedness is preserved *)
Lemma wf_mk_arg a : wf_arg (mk_arg a).
Proof.
  destruct a as [m l|l|l]; cbn.
  - apply wf_dupdate; [|apply wf_nil]. apply Forall_forall. intros e H. apply in_map_iff in H as ([[p k] t] & <- & _).
    apply wf_mk_entry.
  - apply Forall_forall. intros it H. apply in_map_iff in H as ([[[p k] t]|q] & <- & _); cbn; [apply wf_mk_entry|exact I].
  - apply Forall_forall. intros it H. apply in_map_iff in H as ([[[p k] t]|q] & <- & _); cbn; [apply wf_mk_entry|exact I].
Qed.

Lemma wf_arg_items a : wf_arg a -> Forall wf_item (arg_items a).
Proof.
  destruct a as [o|l|l]; cbn; auto. intros [_ HF]. apply Forall_forall. intros it H.
  apply in_map_iff in H as (e & <- & Hin). rewrite Forall_forall in HF. exact (HF _ Hin).
Qed.

Lemma all_entries_wf l es : Forall wf_item l -> all_entries l = Some es -> Forall wf_entry es.
Proof.
  intros HF H. apply all_entries_some in H. subst. apply Forall_forall. intros e Hin.
  rewrite Forall_forall in HF. exact (HF (IE e) (in_map IE _ _ Hin)).
Qed.

Lemma wf_fold_ddel {A} (k : A -> str) l d : wf_dict d -> wf_dict (fold_left (fun acc x => ddel (k x) acc) l d).
Proof. revert d; induction l as [|x l IH]; intros d W; cbn; [assumption|]. apply IH. apply wf_filter. assumption. Qed.

Lemma wf_add_absent l d d' : Forall wf_item l -> wf_dict d -> add_absent d l = Ok d' -> wf_dict d'.
Proof.
  revert d; induction l as [|it l IH]; intros d HF W; cbn.
  - intros [= <-]. assumption.
  - inversion HF; subst. destruct (dhas (key_of it) d); [apply IH; assumption|].
    destruct it as [e|q]; [|discriminate]. apply IH; [assumption|]. apply wf_dset; assumption.
Qed.

Lemma wf_symdiff_core d a d' : wf_dict d -> wf_arg a -> symdiff_core d a = Ok d' -> wf_dict d'.
Proof.
  intros W Wa. unfold symdiff_core.
  assert (G : forall o, wf_arg o ->
             match add_absent d (arg_items o) with
             | Er k => Er k
             | Ok d1 => Ok (fold_left (fun acc x => ddel (eloc x) acc) (filter (fun x => entry_in_arg x o) d) d1)
             end = Ok d' -> wf_dict d').
  { intros o Wo. destruct (add_absent d (arg_items o)) as [d1|k] eqn:E; [|discriminate].
    intros [= <-]. apply wf_fold_ddel. eapply wf_add_absent; [apply wf_arg_items; exact Wo|exact W|exact E]. }
  destruct a as [o|l|l]; try (apply G; assumption).
  destruct (all_entries l) as [es|] eqn:E; [|discriminate].
  apply G. cbn. apply wf_dupdate; [|apply wf_nil]. eapply all_entries_wf; [exact Wa|exact E].
Qed.

Lemma Forall_filter {A} (P : A -> Prop) f l : Forall P l -> Forall P (filter f l).
Proof. intros H. apply Forall_forall. intros x Hx. apply filter_In in Hx as [Hx _]. rewrite Forall_forall in H. auto. Qed.

Lemma wf_difference s a : wf s -> wf (difference s a).
Proof. intros W. apply wf_filter. exact W. Qed.
Lemma wf_intersection s a s' : wf s -> wf_arg a -> intersection s a = Ok s' -> wf s'.
Proof.
  intros W Wa. unfold intersection. destruct (all_entries _) as [es|] eqn:E; [|discriminate]. intros [= <-].
  apply wf_dupdate; [|apply wf_nil]. eapply all_entries_wf; [|exact E].
  apply Forall_filter. apply wf_arg_items. exact Wa.
Qed.
Lemma wf_union s a s' : wf s -> wf_arg a -> union s a = Ok s' -> wf s'.
Proof.
  intros W Wa. unfold union. destruct (all_entries _) as [es|] eqn:E; [|discriminate]. intros [= <-].
  apply wf_dupdate; [destruct W; assumption|]. apply wf_dupdate; [|apply wf_nil].
  eapply all_entries_wf; [|exact E]. apply wf_arg_items. exact Wa.
Qed.
Lemma wf_symdiff s a s' : wf s -> wf_arg a -> symmetric_difference s a = Ok s' -> wf s'.
Proof.
  intros W Wa. unfold symmetric_difference. destruct (symdiff_core _ _) eqn:E; [|discriminate]. intros [= <-].
  eapply wf_symdiff_core; eauto.
Qed.
Lemma wf_symdiff_update s a s' : wf s -> wf_arg a -> symmetric_difference_update s a = Ok s' -> wf s'.
Proof. unfold symmetric_difference_update. destruct (mut s); cbn; [apply wf_symdiff|discriminate]. Qed.
Lemma wf_difference_update s a s' : wf s -> difference_update s a = Ok s' -> wf s'.
Proof.
  intros W. unfold difference_update. destruct (mut s); cbn; [|discriminate]. intros [= <-].
  apply wf_fold_ddel. exact W.
Qed.
Lemma wf_intersection_update s a s' : wf s -> intersection_update s a = Ok s' -> wf s'.
Proof.
  intros W. unfold intersection_update. destruct (mut s); cbn; [|discriminate]. intros [= <-].
  apply wf_filter. exact W.
Qed.
Lemma wf_update s a s' : wf s -> wf_arg a -> update s a = Ok s' -> wf s'.
Proof.
  intros W Wa. unfold update. destruct (all_entries _) as [es|] eqn:E; [|discriminate]. intros [= <-].
  apply wf_dupdate; [|exact W]. eapply all_entries_wf; [|exact E]. apply wf_arg_items. exact Wa.
Qed.

Lemma wf_update_partial l d : Forall wf_item l -> wf_dict d -> wf_dict (update_partial d l).
Proof.
  revert d; induction l as [|it l IH]; intros d HF W; cbn; [assumption|].
  inversion HF; subst. destruct it as [e|q]; [|assumption]. apply IH; [assumption|]. apply wf_dset; assumption.
Qed.
Lemma wf_add_absent_partial l d : Forall wf_item l -> wf_dict d -> wf_dict (add_absent_partial d l).
Proof.
  revert d; induction l as [|it l IH]; intros d HF W; cbn; [assumption|].
  inversion HF; subst. destruct (dhas (key_of it) d); [apply IH; assumption|].
  destruct it as [e|q]; [|assumption]. apply IH; [assumption|]. apply wf_dset; assumption.
Qed.
Lemma wf_failed_update_state s u a : wf s -> wf_arg a -> wf (failed_update_state s u a).
Proof.
  intros W Wa. pose proof (wf_arg_items a Wa) as Wi. unfold failed_update_state.
  destruct u as [|[[?|?|]|[?|?|]|]]; try exact W;
    try (apply wf_update_partial; assumption).
  destruct (mut s); [|exact W]. destruct a; try exact W; apply wf_add_absent_partial; assumption.
Qed.

Theorem ops_preserve_wf_proof :
  (forall m l, wf (mk_cset m l))
  /\ forall s o, wf s -> wf (snd (step s o)).
Proof.
  split.
  - intros m l. exact (wf_mk_arg (RCs m l)).
  - intros s o W.
    assert (R : forall (r : res cset) failed, wf failed -> (forall s', r = Ok s' -> wf s') ->
                wf (snd (match r with Ok s' => (VNone, s') | Er k => (enc_err k, failed) end))).
    { intros [s'|k] failed Wf H; cbn; [apply H; reflexivity|exact Wf]. }
    destruct o; cbn [step]; try exact W.
    + apply R; [exact W|]. unfold add. destruct (mut s); [|discriminate]. intros s' [= <-].
      apply wf_dset; [|exact W]. destruct r as [[p k] t]. apply wf_mk_entry.
    + apply R; [exact W|]. unfold remove. destruct (mut s); cbn; [|discriminate]. destruct (dhas _ _); [|discriminate].
      intros s' [= <-]. apply wf_filter. exact W.
    + apply wf_filter. exact W.
    + apply R; [exact W|]. unfold clear. destruct (mut s); [|discriminate]. intros s' [= <-]. apply wf_nil.
    + pose proof (wf_mk_arg a) as Wa. apply R; [exact W|]. intros s' H.
      destruct b as [|[[?|?|]|[?|?|]|]]; cbn in H;
        first [ injection H as <-; apply wf_difference; exact W
              | eapply wf_intersection; eassumption
              | eapply wf_union; eassumption
              | eapply wf_symdiff; eassumption ].
    + pose proof (wf_mk_arg a) as Wa. apply R; [apply wf_failed_update_state; assumption|]. intros s' H.
      destruct u as [|[[?|?|]|[?|?|]|]]; cbn in H;
        first [ eapply wf_difference_update; eassumption
              | eapply wf_intersection_update; eassumption
              | eapply wf_symdiff_update; eassumption
              | eapply wf_update; eassumption ].
    + apply wf_dupdate; [|apply wf_nil]. apply Forall_forall. intros e H.
      apply in_map_iff in H as (x & <- & _). apply wf_with_loc.
    + apply wf_dupdate; [|apply wf_nil]. apply Forall_forall. intros e H.
      apply in_map_iff in H as (x & <- & _). apply wf_with_loc.
    + apply wf_dupdate; [|exact W]. apply Forall_forall. intros e H.
      apply in_map_iff in H as (x & <- & _). apply wf_mk_entry.
    + apply wf_filter. exact W.
Qed.

(* ================================================================== relocation *)
Lemma plain_last c : plainc c -> exists b z, c = b ++ [z] /\ is_sl z = false.
Proof.
  intros (Hne & _ & _ & Hn). destruct (exists_last Hne) as (b & z & E). exists b, z. split; [exact E|].
  subst c. unfold nosl in Hn. rewrite forallb_app in Hn. apply andb_true_iff in Hn as [_ Hn]. cbn in Hn.
  rewrite andb_true_r in Hn. apply negb_true_iff in Hn. exact Hn.
Qed.
Lemma plain_head c : plainc c -> exists x t, c = x :: t /\ is_sl x = false.
Proof.
  intros (Hne & _ & _ & Hn). destruct c as [|x t]; [congruence|]. exists x, t. split; [reflexivity|].
  unfold nosl in Hn. cbn in Hn. apply andb_true_iff in Hn as [Hn _]. apply negb_true_iff in Hn. exact Hn.
Qed.
Lemma plain_nosl l : Forall plainc l -> Forall nosl l.
Proof. intros H. eapply Forall_impl; [|exact H]. intros c (_ & _ & _ & Hn). exact Hn. Qed.

Lemma join_app l1 l2 : l1 <> [] -> l2 <> [] -> join_sl (l1 ++ l2) = join_sl l1 ++ SL :: join_sl l2.
Proof.
  intros H1 H2. induction l1 as [|a l1 IH]; [congruence|]. destruct l1 as [|b l1'].
  - cbn [app join_sl]. destruct l2; [congruence|reflexivity].
  - change ((a :: b :: l1') ++ l2) with (a :: ((b :: l1') ++ l2)).
    change (join_sl (a :: (b :: l1') ++ l2)) with (a ++ SL :: join_sl ((b :: l1') ++ l2)).
    rewrite IH by discriminate.
    change (join_sl (a :: b :: l1')) with (a ++ SL :: join_sl (b :: l1')).
    rewrite <- app_assoc. reflexivity.
Qed.

Lemma join_starts l : Forall plainc l -> l <> [] -> exists x t, join_sl l = x :: t /\ is_sl x = false.
Proof.
  intros HF Hne. destruct l as [|c r]; [congruence|]. inversion HF; subst.
  destruct (plain_head c) as (x & t & -> & Hx); [assumption|].
  destruct (join_head ((x :: t) :: r) x t r eq_refl) as [t' Ht]. exists x, t'. auto.
Qed.

Lemma join_ends l : Forall plainc l -> l <> [] -> exists pre z, join_sl l = pre ++ [z] /\ is_sl z = false.
Proof.
  intros HF Hne. destruct (exists_last Hne) as (l' & c & ->).
  apply Forall_app in HF as [_ Hc]. inversion Hc; subst.
  destruct (plain_last c) as (b & z & -> & Hz); [assumption|].
  destruct l' as [|a l''].
  - exists b, z. split; [reflexivity|exact Hz].
  - rewrite join_app by discriminate. cbn [join_sl].
    exists (join_sl (a :: l'') ++ SL :: b), z. split; [|exact Hz].
    rewrite <- app_assoc. reflexivity.
Qed.

Lemma lstrip_join l : Forall plainc l -> lstrip_sl (join_sl l) = join_sl l.
Proof.
  intros HF. destruct l as [|c r] eqn:E; [reflexivity|]. rewrite <- E in *.
  destruct (join_starts l HF) as (x & t & -> & Hx); [rewrite E; discriminate|].
  unfold lstrip_sl; cbn. rewrite Hx. reflexivity.
Qed.

Lemma ends_sl_snoc pre z : ends_sl (pre ++ [z]) = is_sl z.
Proof. unfold ends_sl. rewrite rev_app_distr. reflexivity. Qed.

Lemma normpath_rooted_comps l :
  Forall nosl l -> (match l with [] => True | c :: _ => c <> [] end) ->
  normpath (SL :: join_sl l) = SL :: join_sl (rev (fold_left (np_step true) l [])).
Proof.
  intros HF Hc. destruct l as [|c r] eqn:E; [reflexivity|]. rewrite <- E in *.
  destruct c as [|x c']; [congruence|].
  destruct (join_head l x c' r E) as [t Ht].
  assert (Hx : is_sl x = false).
  { rewrite E in HF. inversion HF as [|? ? Hn _]; subst. unfold nosl in Hn. cbn in Hn.
    apply andb_true_iff in Hn as [Hn _]. apply negb_true_iff in Hn. exact Hn. }
  assert (Hsplit : split_sl (join_sl l) = l) by (apply split_join; [rewrite E; discriminate|assumption]).
  assert (Hs : is_sl SL = true) by reflexivity.
  unfold str in *. rewrite Ht in *.
  unfold normpath, np_comps. unfold str. cbn [init_slashes]. repeat (rewrite ?Hs, ?Hx; cbn iota).
  rewrite split_cons_sl, Hsplit. cbn [Nat.ltb Nat.leb]. rewrite fold_cons_empty. reflexivity.
Qed.

Lemma rstrip_snoc_sl s n z pre : s = pre ++ [z] -> is_sl z = false -> rstrip_sl (s ++ repeat SL n) = s.
Proof.
  intros -> Hz. unfold rstrip_sl. rewrite rev_app_distr, rev_repeat.
  assert (D : forall y, drop_while is_sl (repeat SL n ++ y) = drop_while is_sl y) by (intros y; induction n; cbn; auto).
  rewrite D, rev_app_distr. cbn. rewrite Hz. cbn. rewrite rev_involutive. reflexivity.
Qed.

(* Relocating replaces the old prefix with the new one: for a location  /co…/cr…  under the old
   offset /co… (spelled with any number of trailing slashes; "/" when co is empty), the new
   location is  /cn…/cr… . *)
Theorem relocate_prefix_proof : forall co cn cr n,
  Forall plainc co -> Forall plainc cn -> Forall plainc cr ->
  reloc ((SL :: join_sl co) ++ repeat SL n) (SL :: join_sl cn) (SL :: join_sl (co ++ cr))
  = SL :: join_sl (cn ++ cr).
Proof.
  intros co cn cr n Hco Hcn Hcr. unfold reloc.
  (* what is left of the location after the old prefix, stripped of slashes *)
  assert (Hrest : lstrip_sl (skipn (length (rstrip_sl ((SL :: join_sl co) ++ repeat SL n))) (SL :: join_sl (co ++ cr)))
                  = join_sl cr).
  { destruct co as [|c0 co'] eqn:Eco.
    - assert (R : rstrip_sl ((SL :: join_sl []) ++ repeat SL n) = []).
      { unfold rstrip_sl. cbn [join_sl app]. change (SL :: repeat SL n) with (repeat SL (S n)).
        rewrite rev_repeat. induction n; cbn in *; auto. }
      rewrite R. cbn [length skipn app]. unfold lstrip_sl. cbn [drop_while].
      change (is_sl SL) with true. cbn iota. apply lstrip_join. assumption.
    - rewrite <- Eco in *. assert (Hne : co <> []) by (rewrite Eco; discriminate).
      destruct (join_ends co Hco Hne) as (pre & z & Ej & Hz).
      rewrite (rstrip_snoc_sl (SL :: join_sl co) n z (SL :: pre)); [|rewrite Ej; reflexivity|exact Hz].
      cbn [length skipn]. destruct cr as [|c1 cr'] eqn:Ecr.
      + rewrite app_nil_r. rewrite skipn_all. reflexivity.
      + rewrite <- Ecr in *. rewrite join_app; [|assumption|rewrite Ecr; discriminate].
        rewrite skipn_app, skipn_all, Nat.sub_diag. cbn [app skipn].
        unfold lstrip_sl. cbn [drop_while]. change (is_sl SL) with true. cbn iota.
        apply lstrip_join. assumption. }
  rewrite Hrest. clear Hrest.
  destruct cr as [|c1 cr'] eqn:Ecr.
  - (* the offset itself *)
    rewrite app_nil_r. cbn [join_sl]. destruct cn as [|d cn'] eqn:Ecn; [reflexivity|]. rewrite <- Ecn in *.
    assert (Hne : cn <> []) by (rewrite Ecn; discriminate).
    destruct (join_ends cn Hcn Hne) as (pre & z & Ej & Hz).
    unfold pjoin. replace (ends_sl (SL :: join_sl cn)) with false
      by (rewrite Ej; change (SL :: pre ++ [z]) with ((SL :: pre) ++ [z]); rewrite ends_sl_snoc, Hz; reflexivity).
    change ((SL :: join_sl cn) ++ [SL]) with (SL :: (join_sl cn ++ SL :: join_sl [[]])).
    rewrite <- join_app by (assumption || discriminate).
    rewrite normpath_rooted_comps.
    + rewrite fold_left_app. rewrite (fold_plain true cn [] Hcn). cbn. rewrite app_nil_r, rev_involutive. reflexivity.
    + apply Forall_app. split; [apply plain_nosl; assumption|constructor; [reflexivity|constructor]].
    + rewrite Ecn in Hcn |- *. cbn. inversion Hcn as [|? ? (H & _) _]. exact H.
  - rewrite <- Ecr in *. assert (Hne : cr <> []) by (rewrite Ecr; discriminate).
    destruct (join_starts cr Hcr Hne) as (x & t & Ej & Hx).
    assert (P : pjoin (SL :: join_sl cn) (join_sl cr) = SL :: join_sl (cn ++ cr)).
    { unfold pjoin. rewrite Ej, Hx. rewrite <- Ej. destruct cn as [|d cn'] eqn:Ecn; [reflexivity|].
      rewrite <- Ecn in *. assert (Hn : cn <> []) by (rewrite Ecn; discriminate).
      destruct (join_ends cn Hcn Hn) as (pre & z & Ejn & Hz).
      replace (ends_sl (SL :: join_sl cn)) with false
        by (rewrite Ejn; change (SL :: pre ++ [z]) with ((SL :: pre) ++ [z]); rewrite ends_sl_snoc, Hz; reflexivity).
      rewrite join_app by assumption. reflexivity. }
    rewrite P. rewrite normpath_rooted_comps.
    + rewrite fold_plain by (apply Forall_app; split; assumption). rewrite app_nil_r, rev_involutive. reflexivity.
    + apply plain_nosl. apply Forall_app; split; assumption.
    + destruct cn as [|d cn']; cbn.
      * rewrite Ecr in Hcr |- *. cbn. inversion Hcr as [|? ? (H & _) _]. exact H.
      * inversion Hcn as [|? ? (H & _) _]. exact H.
Qed.

Example relocate_ex :
  reloc [47;117;115;114;47]%N [47;111;112;116]%N [47;117;115;114;47;98;105;110;47;120]%N
  = [47;111;112;116;47;98;105;110;47;120]%N.      (* old "/usr/", new "/opt": "/usr/bin/x" -> "/opt/bin/x" *)
Proof. reflexivity. Qed.
(* known class: an old offset that is not normalised cuts the wrong prefix
   (old "/usr///lib", new "/x": "/usr/lib/foo" -> "/x/oo") *)
Example relocate_unnormalised_old :
  reloc [47;117;115;114;47;47;47;108;105;98]%N [47;120]%N [47;117;115;114;47;108;105;98;47;102;111;111]%N
  = [47;120;47;111;111]%N.
Proof. reflexivity. Qed.

(* ================================================================== change_offset at map level *)
Theorem change_offset_image_proof : forall s old new,
  (forall q e', abs (change_offset s old new) q = Some e' ->
     exists e, In e (ents s) /\ e' = with_loc e (reloc old new (eloc e)) /\ q = eloc e')
  /\ (forall e, In e (ents s) -> dom (abs (change_offset s old new)) (normpath (reloc old new (eloc e))))
  /\ mut (change_offset s old new) = true.
Proof.
  intros s old new. unfold abs, change_offset; cbn. repeat split.
  - intros q e' H. rewrite dget_dupdate in H. cbn in H.
    destruct (dget q (rev _)) as [x|] eqn:G; [|discriminate]. injection H as ->.
    destruct (dget_some _ _ _ G) as [Hin Hq]. apply in_rev in Hin.
    apply in_map_iff in Hin as (e & <- & Hin). exists e. auto.
  - intros e Hin. unfold dom. rewrite dget_dupdate.
    destruct (dget _ (rev _)) eqn:G; [discriminate|]. exfalso. apply dget_none in G. apply G.
    rewrite map_rev. apply in_rev. rewrite rev_involutive. rewrite map_map. cbn.
    apply in_map_iff. exists e. auto.
Qed.

(* ================================================================== missing directories (soundness) *)
Definition minv (d : dict) (m : list str) : Prop :=
  Forall (fun x => dhas (normpath x) d = false /\ exists e, In e d /\ ancestor (eloc e) x) m.

Lemma sdedupe_in x l : In x (sdedupe l) -> In x l.
Proof.
  induction l as [|y l IH]; cbn; [tauto|]. destruct (smem y l); cbn; [auto|]. intros [H|H]; auto.
Qed.

Lemma ascend_inv fuel d target m :
  minv d m -> (exists e, In e d /\ ancestor (eloc e) target) -> minv d (ascend fuel d target m).
Proof.
  revert target m; induction fuel as [|f IH]; intros target m Hm Ht; cbn; [assumption|].
  destruct (smem target m || dhas (normpath target) d) eqn:E; [assumption|].
  apply orb_false_iff in E as [_ E]. apply IH.
  - constructor; [split; assumption|assumption].
  - destruct Ht as (e & Hin & Ha). exists e. split; [assumption|]. apply anc_up. assumption.
Qed.

Lemma missing_dirs_inv d : minv d (missing_dirs d) /\ ~ In [SL] (missing_dirs d).
Proof.
  unfold missing_dirs.
  set (m0 := sdedupe (filter (fun x => negb (dhas (normpath x) d)) (map (fun e => dirname (eloc e)) d))).
  assert (H0 : minv d m0).
  { apply Forall_forall. intros x Hx. apply sdedupe_in in Hx. apply filter_In in Hx as [Hx Hd].
    apply negb_true_iff in Hd. split; [assumption|]. apply in_map_iff in Hx as (e & <- & Hin).
    exists e. split; [assumption|apply anc_parent]. }
  assert (HF : forall l m, minv d l -> minv d m ->
               minv d (fold_left (fun m x => ascend (S (S (length x))) d (dirname x) m) l m)).
  { induction l as [|x l IH]; intros m Hl Hm; cbn [fold_left]; [assumption|]. inversion Hl as [|? ? [_ (e & Hin & Ha)] Hl']; subst.
    apply IH; [assumption|]. apply ascend_inv; [assumption|]. exists e. split; [assumption|apply anc_up; assumption]. }
  split.
  - apply Forall_filter. apply HF; assumption.
  - intros H. apply filter_In in H as [_ H]. rewrite str_eqb_refl in H. discriminate.
Qed.

Theorem missing_dirs_sound_partial_proof : forall s tag, missing_sound s (add_missing_directories s tag) tag.
Proof.
  intros s tag. destruct (missing_dirs_inv (ents s)) as [Hinv Hroot].
  unfold missing_sound, abs, add_missing_directories; cbn.
  assert (L : forall q e', dget q (rev (map (fun x => mk_entry x 1%N tag) (missing_dirs (ents s)))) = Some e' ->
              exists x, In x (missing_dirs (ents s)) /\ e' = mk_entry x 1%N tag /\ q = normpath x).
  { intros q e' G. destruct (dget_some _ _ _ G) as [Hin Hq]. apply in_rev in Hin.
    apply in_map_iff in Hin as (x & <- & Hin). exists x. cbn in Hq. auto. }
  unfold minv in Hinv. rewrite Forall_forall in Hinv.
  repeat split.
  - intros p e G. rewrite dget_dupdate. destruct (dget p (rev _)) as [e'|] eqn:G'; [|assumption].
    destruct (L _ _ G') as (x & Hx & _ & ->). destruct (Hinv _ Hx) as [Hd _].
    rewrite dhas_dget, G in Hd. discriminate.
  - intros q e' Gn G. rewrite dget_dupdate in G. destruct (dget q (rev _)) as [e''|] eqn:G'; [|congruence].
    injection G as ->. destruct (L _ _ G') as (x & Hx & -> & ->). exists x. repeat split.
    + intros ->. contradiction.
    + destruct (Hinv _ Hx) as [_ H]. exact H.
Qed.

Example missing_dirs_ex :
  map eloc (sort_ents (ents (add_missing_directories
     {| mut := true; ents := [mk_entry [47;97;47;98;47;99;47;100]%N 0 1; mk_entry [47;120]%N 0 2] |} 9)))
  = [[47;97]; [47;97;47;98]; [47;97;47;98;47;99]; [47;97;47;98;47;99;47;100]; [47;120]]%N.
Proof. reflexivity. Qed.

(* ================================================================== dirname *)
Lemma dw_length f l : length (drop_while f l) <= length l.
Proof. induction l as [|c r IH]; cbn; [lia|]. destruct (f c); cbn; lia. Qed.

Lemma dirname_length t : length (dirname t) < length t \/ dirname t = t.
Proof.
  unfold dirname. destruct (rev t) as [|c r] eqn:E.
  - right. apply (f_equal (@rev N)) in E. rewrite rev_involutive in E. subst. reflexivity.
  - assert (L : length t = S (length r)) by (rewrite <- (rev_length t), E; reflexivity).
    cbn [drop_while]. destruct (is_sl c) eqn:C; cbn [negb].
    + destruct (forallb is_sl (c :: r)) eqn:F.
      * right. rewrite <- E. apply rev_involutive.
      * left. rewrite rev_length. cbn [drop_while]. rewrite C.
        pose proof (dw_length is_sl r). lia.
    + left. set (rh := drop_while (fun c0 => negb (is_sl c0)) r).
      pose proof (dw_length (fun c0 => negb (is_sl c0)) r) as H1. fold rh in H1.
      destruct (forallb is_sl rh); rewrite rev_length; [lia|].
      pose proof (dw_length is_sl rh). lia.
Qed.

Lemma dirname_le t : length (dirname t) <= length t.
Proof. destruct (dirname_length t) as [H|H]; [lia|rewrite H; lia]. Qed.

Lemma dw_nonsl_app l Y : (forall x, In x l -> is_sl x = false) ->
  drop_while (fun c => negb (is_sl c)) (l ++ Y) = drop_while (fun c => negb (is_sl c)) Y.
Proof.
  induction l as [|c l IH]; intros H; cbn [app]; [reflexivity|]. cbn [drop_while].
  rewrite (H c (or_introl eq_refl)). cbn [negb]. apply IH. intros x Hx. apply H. right. exact Hx.
Qed.

Lemma nosl_in c x : nosl c -> In x (rev c) -> is_sl x = false.
Proof.
  unfold nosl. rewrite forallb_forall. intros H Hx. apply in_rev in Hx. specialize (H _ Hx).
  apply negb_true_iff in H. exact H.
Qed.

Lemma forallb_sl_repeat k : forallb is_sl (repeat SL k) = true.
Proof. induction k; cbn; auto. Qed.

Lemma dirname_single k c : nosl c -> dirname (repeat SL k ++ c) = repeat SL k.
Proof.
  intros Hc. unfold dirname. rewrite rev_app_distr, rev_repeat.
  rewrite dw_nonsl_app by (intros x; apply nosl_in; exact Hc).
  assert (D : drop_while (fun c0 => negb (is_sl c0)) (repeat SL k) = repeat SL k) by (destruct k; reflexivity).
  rewrite D, forallb_sl_repeat. apply rev_repeat.
Qed.

Lemma dirname_snoc_comp B z c : nosl c -> is_sl z = false ->
  dirname ((B ++ [z]) ++ SL :: c) = B ++ [z].
Proof.
  intros Hc Hz. unfold dirname. rewrite rev_app_distr. cbn [rev]. rewrite <- app_assoc. cbn [app].
  rewrite dw_nonsl_app by (intros x; apply nosl_in; exact Hc).
  cbn [drop_while]. change (is_sl SL) with true. cbn [negb].
  rewrite rev_app_distr. cbn [rev app]. cbn [forallb]. change (is_sl SL) with true. rewrite Hz. cbn [andb].
  cbn [drop_while]. change (is_sl SL) with true. cbn iota. rewrite Hz.
  cbn [rev]. rewrite rev_involutive. reflexivity.
Qed.

(* components that are non-empty and slash-free (plain ones and "..") *)
Definition goodc (c : str) : Prop := c <> [] /\ nosl c.
Lemma good_last c : goodc c -> exists b z, c = b ++ [z] /\ is_sl z = false.
Proof.
  intros (Hne & Hn). destruct (exists_last Hne) as (b & z & E). exists b, z. split; [exact E|].
  subst c. unfold nosl in Hn. rewrite forallb_app in Hn. apply andb_true_iff in Hn as [_ Hn]. cbn in Hn.
  rewrite andb_true_r in Hn. apply negb_true_iff in Hn. exact Hn.
Qed.
Lemma join_ends_good l : Forall goodc l -> l <> [] -> exists pre z, join_sl l = pre ++ [z] /\ is_sl z = false.
Proof.
  intros HF Hne. destruct (exists_last Hne) as (l' & c & ->).
  apply Forall_app in HF as [_ Hc]. inversion Hc; subst.
  destruct (good_last c) as (b & z & -> & Hz); [assumption|].
  destruct l' as [|a l''].
  - exists b, z. split; [reflexivity|exact Hz].
  - rewrite join_app by discriminate. cbn [join_sl].
    exists (join_sl (a :: l'') ++ SL :: b), z. split; [|exact Hz].
    rewrite <- app_assoc. reflexivity.
Qed.

Lemma nf_tail rooted c acc : nf rooted (c :: acc) -> nf rooted acc.
Proof.
  intros (n & pl & E & Hpl & Hr). destruct pl as [|p pl'].
  - cbn in E. destruct n as [|n']; [discriminate|]. cbn in E. injection E as _ ->.
    exists n', []. repeat split; auto. intros H. specialize (Hr H). discriminate.
  - cbn in E. injection E as _ ->. inversion Hpl; subst. exists n, pl'. auto.
Qed.

Lemma dirname_nf k acc :
  k <= 2 -> nf (Nat.ltb 0 k) acc ->
  let q := or_dot (repeat SL k ++ join_sl (rev acc)) in
  normpath (dirname q) = dirname q \/ dirname q = [].
Proof.
  intros Hk Hnf q. subst q. destruct acc as [|c acc'].
  - destruct k as [|[|[|k]]]; try lia; [right|left|left]; reflexivity.
  - pose proof (nf_comp_shape _ _ Hnf) as Hsh. inversion Hsh as [|? ? [Hcne Hc] Hsh']; subst.
    pose proof (nf_tail _ _ _ Hnf) as Hnf'.
    cbn [rev]. destruct acc' as [|c2 acc''] eqn:Eacc.
    + cbn [rev app join_sl].
      assert (Q : or_dot (repeat SL k ++ c) = repeat SL k ++ c).
      { destruct c; [congruence|]. destruct k as [|[|[|k]]]; reflexivity. }
      rewrite Q, dirname_single by assumption.
      destruct k as [|[|[|k]]]; try lia; [right|left|left]; reflexivity.
    + rewrite <- Eacc in *.
      assert (Hne : rev acc' <> []).
      { intros H. apply (f_equal (@rev str)) in H. rewrite rev_involutive in H. rewrite Eacc in H. discriminate. }
      assert (HG : Forall goodc (rev acc')) by (apply Forall_rev; exact Hsh').
      destruct (join_ends_good _ HG Hne) as (pre & z & Ej & Hz).
      rewrite join_app by (assumption || discriminate). cbn [join_sl].
      assert (Q : or_dot (repeat SL k ++ join_sl (rev acc') ++ SL :: c)
                  = ((repeat SL k ++ pre) ++ [z]) ++ SL :: c).
      { rewrite Ej. rewrite <- !app_assoc. cbn [app].
        destruct (repeat SL k ++ pre ++ z :: SL :: c) eqn:X; [|reflexivity].
        destruct k, pre; discriminate. }
      rewrite Q, dirname_snoc_comp by assumption.
      left.
      assert (R : (repeat SL k ++ pre) ++ [z] = or_dot (repeat SL k ++ join_sl (rev acc'))).
      { rewrite Ej, <- app_assoc. destruct (repeat SL k ++ pre ++ [z]) eqn:X; [|reflexivity].
        destruct k, pre; discriminate. }
      rewrite R. apply normpath_nf; assumption.
Qed.

Lemma dirname_normal p : normpath p = p -> normpath (dirname p) = dirname p \/ dirname p = [].
Proof.
  intros H. destruct p as [|c r]; [discriminate|].
  set (p := c :: r) in *.
  pose proof (dirname_nf (init_slashes p) (np_comps p) (init_slashes_le2 p) (np_comps_nf p)) as X.
  cbv zeta in X.
  change (or_dot (repeat SL (init_slashes p) ++ join_sl (rev (np_comps p)))) with (normpath p) in X.
  rewrite H in X. exact X.
Qed.

Lemma ancestor_normal p a : normpath p = p -> ancestor p a -> normpath a = a \/ a = [].
Proof.
  intros Hp Ha. revert Hp. induction Ha as [p|p a' Ha' IH]; intros Hp.
  - apply dirname_normal. exact Hp.
  - destruct (IH Hp) as [H| ->]; [apply dirname_normal; exact H|right; reflexivity].
Qed.

(* ================================================================== missing directories (completeness) *)
Lemma smem_iff x l : smem x l = true <-> In x l.
Proof.
  unfold smem. rewrite existsb_exists. split.
  - intros (y & Hy & E). apply str_eqb_eq in E. subst. exact Hy.
  - intros H. exists x. split; [exact H|apply str_eqb_refl].
Qed.

Lemma in_sdedupe x l : In x l -> In x (sdedupe l).
Proof.
  induction l as [|y l IH]; cbn; [tauto|]. intros [->|H].
  - destruct (smem x l) eqn:S; [apply IH; apply smem_iff; exact S|left; reflexivity].
  - destruct (smem y l); [auto|right; auto].
Qed.

Definition covered (d : dict) (m : list str) (t : str) : Prop := In t m \/ dhas (normpath t) d = true.

Lemma ascend_incl fuel d t m : incl m (ascend fuel d t m).
Proof.
  revert t m; induction fuel as [|f IH]; intros t m; cbn; [apply incl_refl|].
  destruct (smem t m || dhas (normpath t) d); [apply incl_refl|].
  intros x Hx. apply IH. right. exact Hx.
Qed.

Lemma ascend_covers fuel d t m : covered d (ascend (S fuel) d t m) t.
Proof.
  cbn. destruct (smem t m || dhas (normpath t) d) eqn:E.
  - apply orb_true_iff in E as [E|E]; [left; apply smem_iff; exact E|right; exact E].
  - left. apply ascend_incl. left. reflexivity.
Qed.

(* every string the loop adds has its own parent covered, provided the fuel bounds the walk *)
Lemma ascend_closed fuel d t m :
  length t < fuel ->
  forall y, In y (ascend fuel d t m) -> In y m \/ covered d (ascend fuel d t m) (dirname y).
Proof.
  revert t m; induction fuel as [|f IH]; intros t m Hf y Hy; [lia|].
  cbn in Hy |- *. destruct (smem t m || dhas (normpath t) d) eqn:E; [left; exact Hy|].
  destruct (dirname_length t) as [Hlt|Hfix].
  - assert (Hf' : length (dirname t) < f) by lia.
    destruct (IH (dirname t) (t :: m) Hf' y Hy) as [[<-|Hin]|Hc]; auto.
    right. destruct f as [|f']; [lia|]. apply ascend_covers.
  - rewrite Hfix in *.
    assert (A : ascend f d t (t :: m) = t :: m).
    { destruct f; cbn [ascend]; [reflexivity|]. assert (S : smem t (t :: m) = true) by (apply smem_iff; left; reflexivity).
      rewrite S. reflexivity. }
    unfold str in *. rewrite A in Hy |- *. destruct Hy as [<-|Hin]; [|left; exact Hin].
    right. left. rewrite Hfix. left. reflexivity.
Qed.

Definition walk (d : dict) (l m : list str) : list str :=
  fold_left (fun m x => ascend (S (S (length x))) d (dirname x) m) l m.

Opaque ascend.
Lemma walk_incl d l m : incl m (walk d l m).
Proof.
  revert m; induction l as [|x l IH]; intros m; cbn; [apply incl_refl|].
  eapply incl_tran; [apply ascend_incl|apply IH].
Qed.

Lemma covered_mono d m m' t : incl m m' -> covered d m t -> covered d m' t.
Proof. intros Hi [H|H]; [left; apply Hi; exact H|right; exact H]. Qed.

Lemma walk_closed d l m :
  (forall y, In y m -> In y l \/ covered d m (dirname y)) ->
  forall y, In y (walk d l m) -> covered d (walk d l m) (dirname y).
Proof.
  revert m; induction l as [|x l IH]; intros m Hm y Hy; cbn in *.
  - destruct (Hm y Hy) as [[]|H]; exact H.
  - apply IH; [|exact Hy]. clear y Hy. intros y Hy.
    set (m' := ascend (S (S (length x))) d (dirname x) m) in *.
    assert (Hf : length (dirname x) < S (S (length x))) by (pose proof (dirname_le x); lia).
    destruct (ascend_closed _ d (dirname x) m Hf y Hy) as [Hin|Hc]; [|right; exact Hc].
    destruct (Hm y Hin) as [[<-|Hl]|Hc].
    + right. apply ascend_covers.
    + left. exact Hl.
    + right. eapply covered_mono; [apply ascend_incl|exact Hc].
Qed.

Lemma missing_core d : wf_dict d ->
  forall e a, In e d -> ancestor (eloc e) a ->
  covered d (walk d (sdedupe (filter (fun x => negb (dhas (normpath x) d)) (map (fun e => dirname (eloc e)) d)))
                    (sdedupe (filter (fun x => negb (dhas (normpath x) d)) (map (fun e => dirname (eloc e)) d)))) a.
Proof.
  intros W. set (m0 := sdedupe _). set (M := walk d m0 m0).
  assert (Base : forall e, In e d -> covered d M (dirname (eloc e))).
  { intros e Hin. destruct (dhas (normpath (dirname (eloc e))) d) eqn:H; [right; exact H|].
    left. apply walk_incl. apply in_sdedupe. apply filter_In. split.
    - apply in_map_iff. exists e. auto.
    - rewrite H. reflexivity. }
  assert (Closed : forall y, In y M -> covered d M (dirname y)).
  { apply walk_closed. intros y Hy. left. exact Hy. }
  intros e a Hin Ha.
  assert (He : normpath (eloc e) = eloc e).
  { destruct W as [_ HF]. rewrite Forall_forall in HF. exact (HF _ Hin). }
  remember (eloc e) as p eqn:Ep. revert e Hin Ep.
  induction Ha as [p|p a' Ha' IH]; intros e Hin Ep; subst p.
  - apply Base. exact Hin.
  - destruct (IH He e Hin eq_refl) as [HM|Hd].
    + apply Closed. exact HM.
    + destruct (ancestor_normal _ _ He Ha') as [Hn| ->].
      * rewrite Hn in Hd. apply dhas_iff in Hd as (e' & Hin' & E'). rewrite <- E'. apply Base. exact Hin'.
      * right. exact Hd.
Qed.

Transparent ascend.

Theorem missing_dirs_complete_proof : forall s tag, wf s -> missing_complete s (add_missing_directories s tag).
Proof.
  intros s tag W e a Hin Ha Hroot.
  pose proof (missing_core (ents s) W e a Hin Ha) as C.
  unfold dom, abs, add_missing_directories; cbn. rewrite dget_dupdate.
  destruct (dget (normpath a) (rev _)) eqn:G; [discriminate|].
  destruct C as [HM|Hd].
  - exfalso. apply dget_none in G. apply G. rewrite map_rev. apply in_rev. rewrite rev_involutive.
    rewrite map_map. cbn. apply in_map_iff. exists a. split; [reflexivity|].
    unfold missing_dirs. apply filter_In. split; [exact HM|].
    apply negb_true_iff. apply str_eqb_false. exact Hroot.
  - rewrite dhas_dget in Hd. destruct (dget (normpath a) (ents s)); [discriminate|discriminate].
Qed.

Theorem missing_dirs_exact_proof : missing_dirs_exact_statement.
Proof.
  intros s tag W. split; [apply missing_dirs_sound_partial_proof|apply missing_dirs_complete_proof; exact W].
Qed.

(* ================================================================== symmetric difference with a list *)
Lemma entry_in_list_spec d es x :
  NoDup (map eloc d) -> In x d ->
  existsb (fun e => match dget (eloc e) d with Some y => negb (N.eqb (ekind y) (ekind e)) | None => false end) es = false ->
  entry_in_arg x (AList (map IE es)) = dhas (eloc x) es.
Proof.
  intros ND Hin Hc. cbn [entry_in_arg].
  induction es as [|e es IH]; cbn; [reflexivity|].
  cbn in Hc. apply orb_false_iff in Hc as [Hc1 Hc2]. rewrite (IH Hc2).
  destruct (str_eqb (eloc e) (eloc x)) eqn:E; [|rewrite andb_false_r; reflexivity].
  apply str_eqb_eq in E. rewrite E in Hc1. rewrite (dget_nodup_in _ _ ND Hin) in Hc1.
  apply negb_false_iff in Hc1. rewrite N.eqb_sym, Hc1. reflexivity.
Qed.

Theorem symdiff_list_partial_proof : forall s es,
  wf s -> NoDup (map eloc es) -> symdiff_list_class s es = false ->
  exists r, symmetric_difference s (AList (map IE es)) = Ok r /\ mut r = mut s
            /\ same_map (abs r) (M_symdiff (abs s) (ents_map es))
            /\ symmetric_difference_update s (AList (map IE es)) = (if mut s then Ok r else Er TypeError).
Proof.
  intros s es [ND _] NDe Hc.
  assert (F : filter (fun x => entry_in_arg x (AList (map IE es))) (ents s)
              = filter (fun x => dhas (eloc x) es) (ents s)).
  { apply filter_ext_in. intros x Hx. apply (entry_in_list_spec (ents s)); assumption. }
  unfold symmetric_difference_update, symmetric_difference, symdiff_core. cbn [arg_items].
  rewrite F, add_absent_entries.
  eexists; split; [reflexivity|]. split; [reflexivity|]. split; [|destruct (mut s); reflexivity].
  intros p. unfold abs at 1; cbn. rewrite dget_fold_ddel_ents.
  rewrite (existsb_key_filter p (fun k => dhas k es)). rewrite dget_addnew.
  unfold M_symdiff, abs. rewrite (ents_map_wf es NDe p). rewrite !dhas_dget.
  destruct (dget p (ents s)), (dget p es); reflexivity.
Qed.
