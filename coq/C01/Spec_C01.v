(* Spec_C01.v — the property's statement: the PMS version-comparison algorithm (PMS §3.3,
   Algorithms 3.1–3.7) over a parsed version, written from the statement of C01 and not from
   cpv.py.  A version is an AST; its text is [print_vast].

     * the first numeric component and the revisions compare as integers;
     * later numeric components compare as integers unless either has a leading zero, then as
       strings with trailing zeros stripped; more components win when the common ones are equal;
     * a trailing letter breaks ties (no letter is below any letter);
     * suffixes order _alpha < _beta < _pre < _rc < (none) < _p, equal kinds by their number, an
       omitted number meaning 0;
     * an absent revision is revision 0.                                                        *)
From Coq Require Import List NArith ZArith Bool.
Import ListNotations.
From Verif Require Import Base.Val C01.Model_C01.

Inductive skind := Alpha | Beta | Pre | Rc | P.

Record vast := { nums : list str;             (* digit strings, at least one *)
                 letter : option N;           (* trailing letter of the last component *)
                 sufs : list (skind * str) }. (* suffix kind, digit string (may be empty) *)

Definition kind_name (k : skind) : str :=
  match k with
  | Alpha => [97;108;112;104;97] | Beta => [98;101;116;97] | Pre => [112;114;101]
  | Rc => [114;99] | P => [112]
  end%N.

Definition kind_eqb (a b : skind) : bool :=
  match a, b with
  | Alpha, Alpha | Beta, Beta | Pre, Pre | Rc, Rc | P, P => true
  | _, _ => false
  end.

(* ---- well-formed ASTs and their text *)
Definition wf_digits (s : str) : bool := negb (is_nil s) && all_digits s.
Definition wf_vast (a : vast) : bool :=
  negb (is_nil (nums a)) && forallb wf_digits (nums a)
  && match letter a with Some c => is_alpha c | None => true end
  && forallb (fun s => all_digits (snd s)) (sufs a).

Fixpoint join_dot (l : list str) : str :=
  match l with
  | [] => []
  | [x] => x
  | x :: l' => x ++ 46%N :: join_dot l'
  end.
Definition print_suffix (s : skind * str) : str := kind_name (fst s) ++ snd s.
Definition print_vast (a : vast) : str :=
  join_dot (nums a) ++ match letter a with Some c => [c] | None => [] end
  ++ concat (map (fun s => 95%N :: print_suffix s) (sufs a)).

Definition is_version (v : str) : Prop := exists a, wf_vast a = true /\ print_vast a = v.

(* ---- PMS Algorithm 3.4: a non-first numeric component *)
Definition pms_comp (a b : str) : Z :=
  if lead0 a || lead0 b then str_cmp (rstrip0 a) (rstrip0 b)
  else cmpN (int_of a) (int_of b).

(* ---- PMS Algorithm 3.3: the components after the first *)
Fixpoint pms_rest (l1 l2 : list str) : Z :=
  match l1, l2 with
  | a :: t1, b :: t2 => let c := pms_comp a b in if Z.eqb c 0 then pms_rest t1 t2 else c
  | [], [] => 0
  | [], _ :: _ => -1
  | _ :: _, [] => 1
  end%Z.

(* ---- PMS Algorithm 3.2 + 3.3 *)
Definition pms_nums (n1 n2 : list str) : Z :=
  match n1, n2 with
  | a :: t1, b :: t2 => let c := cmpN (int_of a) (int_of b) in
                        if Z.eqb c 0 then pms_rest t1 t2 else c
  | [], [] => 0
  | [], _ :: _ => -1
  | _ :: _, [] => 1
  end%Z.

(* ---- PMS Algorithm 3.5 *)
Definition pms_letter (l1 l2 : option N) : Z :=
  match l1, l2 with
  | None, None => 0
  | None, Some _ => -1
  | Some _, None => 1
  | Some x, Some y => cmpN x y
  end%Z.

(* ---- PMS Algorithms 3.6 / 3.7 *)
Definition rank (k : skind) : Z :=
  match k with Alpha => 0 | Beta => 1 | Pre => 2 | Rc => 3 | P => 5 end%Z.
Definition rank_none : Z := 4%Z.
Definition suf_num (d : str) : N := int_of d.     (* omitted number = 0 *)

Definition pms_suffix (s1 s2 : skind * str) : Z :=
  if kind_eqb (fst s1) (fst s2) then cmpN (suf_num (snd s1)) (suf_num (snd s2))
  else cmpZ (rank (fst s1)) (rank (fst s2)).

Fixpoint pms_sufs (l1 l2 : list (skind * str)) : Z :=
  match l1, l2 with
  | s1 :: t1, s2 :: t2 => let c := pms_suffix s1 s2 in if Z.eqb c 0 then pms_sufs t1 t2 else c
  | [], [] => 0%Z
  | s1 :: _, [] => cmpZ (rank (fst s1)) rank_none
  | [], s2 :: _ => cmpZ rank_none (rank (fst s2))
  end.

(* ---- PMS Algorithm 3.1: the whole comparison; revisions are integers (absent = 0) *)
Definition pms_cmp (a : vast) (ra : N) (b : vast) (rb : N) : Z :=
  let c := pms_nums (nums a) (nums b) in
  if negb (Z.eqb c 0) then c else
  let c := pms_letter (letter a) (letter b) in
  if negb (Z.eqb c 0) then c else
  let c := pms_sufs (sufs a) (sufs b) in
  if negb (Z.eqb c 0) then c else
  cmpN ra rb.

(* ---- what the six operators of a version restriction mean (statement: "every version-operator
        restriction agrees with" the order).  c = comparison of the package against the
        restriction's version.  op ids 0:"<" 1:"<=" 2:"=" 3:">=" 4:">" 5:"~" *)
Definition op_holds (op : N) (c : Z) : bool :=
  match op with
  | 0 => Z.ltb c 0 | 1 => Z.leb c 0 | 2 => Z.eqb c 0 | 3 => Z.geb c 0 | 4 => Z.gtb c 0
  | 5 => Z.eqb c 0
  | _ => false
  end%N.
Definition spec_match (op : N) (negate : bool) (a : vast) (ra : N) (p : vast) (rp : N) : bool :=
  let c := if N.eqb op 5 then pms_cmp p 0 a 0 else pms_cmp p rp a ra in
  xorb (op_holds op c) negate.

(* ---- the suffix rank order the table must realise *)
Definition all_kinds : list skind := [Alpha; Beta; Pre; Rc; P].

(* =========================================================================================
   executable forms used in the cases files: inputs are ASTs; the model runs on their text (A),
   the spec judges the IMPLEMENTATION's recorded result (B). *)
Definition ast_case : Type := (vast * option N * vast * option N)%type.
Definition run_vercmp_ast (i : ast_case) : val :=
  let '(a, r1, b, r2) := i in VZ (ver_cmp (print_vast a) r1 (print_vast b) r2).
Definition spec_vercmp_ok (i : ast_case) (res : val) : bool :=
  let '(a, r1, b, r2) := i in
  wf_vast a && wf_vast b && val_eqb res (VZ (pms_cmp a (rev_val r1) b (rev_val r2))).

Definition match_case : Type := (N * bool * vast * option N * vast * option N)%type.
Definition run_match_ast (i : match_case) : val :=
  let '(op, neg, a, r, p, rp) := i in run_match (op, neg, print_vast a, r, print_vast p, rp).
Definition spec_match_ok (i : match_case) (res : val) : bool :=
  let '(op, neg, a, r, p, rp) := i in
  if (op <=? 5)%N then val_eqb res (VB (spec_match op neg a (rev_val r) p (rev_val rp)))
  else match res with VErr _ => true | _ => false end.

(* the text a case was run with is the text of its AST *)
Definition run_print (a : vast) : val := VS (print_vast a).
