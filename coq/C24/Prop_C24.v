(* Prop_C24.v — the property theorems of C24 and nothing else. *)
From Coq Require Import List NArith ZArith Bool Permutation.
Import ListNotations.
From Verif Require Import Base.Val C18.Fs C24.Model_C24 C24.Spec_C24 C24.Proofs_C24.

(* every crash prefix of ContentsFile.flush(): CONTENTS is the old file or the complete new one *)
Theorem flush_atomic : flush_atomic_stmt.
Proof. exact flush_atomic_proof. Qed.
Print Assumptions flush_atomic.

Theorem flush_complete : forall s c d s',
  tmp_ok s P_TMP -> run_opt (flush_ops s c d) s = Some s' ->
  is_file_with (utf8 (write_contents d)) 420 (lookup s' P_CONTENTS) /\ lookup s' P_TMP = None.
Proof. exact flush_complete_proof. Qed.
Print Assumptions flush_complete.

Theorem flush_eio : forall s c d k,
  tmp_ok s P_TMP -> 1 <= k ->
  let sk := fault_state s P_TMP (flush_ops s c d) k true in
  (forall q, q <> P_CONTENTS -> q <> P_TMP -> lookup sk q = lookup s q) /\
  (lookup sk P_CONTENTS = lookup s P_CONTENTS \/
   is_file_with (utf8 (write_contents d)) 420 (lookup sk P_CONTENTS)) /\
  lookup sk P_TMP = None.
Proof. exact flush_eio_proof. Qed.
Print Assumptions flush_eio.
