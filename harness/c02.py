"""C02 — equality, ordering and hashing of package versions (CPV) and atoms agree (DESIGN §6 C02).

Streams
  cpv       pairs of VersionedCPV: [==,!=,<,<=,>,>=, hash equal]     impl vs Model_C02.run_cpv (A)
  cpvkey    one CPV: the hashed text (cpvstr after normalisation)     impl vs Model_C02.cpv_hash_key
  atom      pairs of atoms: [==,!=,<,<=,>,>=, hash equal]             impl vs Model_C02.run_atom (A)
  atomtext  one atom: original text and sorted USE tuple              impl vs Model_C02.atom_text / a_use
  (B) the property's clauses are judged directly on the implementation's results (Python oracle):
      eq => hash equal; eq => neither < nor >; not eq => < or >; the six operators mutually consistent.
      Failures are classified against known_findings/C02.json by the predicates k_* below.
"""

import ast
import json
import sys

from . import tables
from .common import VERIF, Check, Err, cN, cbool, clist, copt, cpair, cstr, impl_call
from .tables import TableError

ATTR_IDS = {"cpvstr": 0, "op": 1, "blocks": 2, "negate_vers": 3, "use": 4, "slot": 5, "subslot": 6,
            "slot_operator": 7, "repo_id": 8, "blocks_strongly": 9}
CHAIN_IDS = {"category": 0, "package": 1, "op": 2, "blocks_strongly": 5, "negate_vers": 6, "use": 8, "repo_id": 9}


def _is_cmp_of(call, attr):
    """call is cmp(self.<attr>, other.<attr>)"""
    return (isinstance(call, ast.Call) and isinstance(call.func, ast.Name) and call.func.id == "cmp"
            and len(call.args) == 2 and not call.keywords
            and ast.dump(call.args[0]) == ast.dump(ast.parse(f"self.{attr}", mode="eval").body)
            and ast.dump(call.args[1]) == ast.dump(ast.parse(f"other.{attr}", mode="eval").body))


def gen_tables():
    t = tables.parse("ebuild/atom.py")
    attrs = tables.literal(tables.find_assign(t, "__attr_comparison__", cls="atom"))
    if not (isinstance(attrs, tuple) and attrs and all(isinstance(a, str) for a in attrs)):
        raise TableError("atom.__attr_comparison__: expected a tuple of strings")
    unknown = [a for a in attrs if a not in ATTR_IDS]
    if unknown:
        raise TableError(f"atom.__attr_comparison__ names attributes the model does not know: {unknown}")
    # atom.__eq__/__ne__ must still come from GenericEquality (popped from the class namespace)
    cls = tables.find_func(t, "atom")
    pops = [ast.dump(n) for n in cls.body if isinstance(n, ast.Expr)]
    for nm in ("__eq__", "__ne__"):
        want = ast.dump(ast.parse(f'locals().pop("{nm}", None)').body[0])
        if want not in pops:
            raise TableError(f"atom no longer drops the cmp-based {nm} (equality would come from __cmp__)")
    # the key chain of __cmp__
    f = tables.find_func(t, "atom.__cmp__")
    chain = []
    body = list(f.body)
    i = 0
    # leading isinstance check
    if not (isinstance(body[0], ast.If) and isinstance(body[0].body[0], ast.Raise)):
        raise TableError("atom.__cmp__: expected the isinstance guard first")
    i = 1
    while i < len(body):
        st = body[i]
        if isinstance(st, ast.FunctionDef):
            want = ast.dump(ast.parse('def f(v):\n    return "" if v is None else v').body[0])
            if ast.dump(st) != want:
                raise TableError("atom.__cmp__: helper f changed")
            i += 1
            continue
        if isinstance(st, ast.Return):
            if i != len(body) - 1:
                raise TableError("atom.__cmp__: return before the end")
            for name, cid in CHAIN_IDS.items():
                if _is_cmp_of(st.value, name):
                    chain.append(cid)
                    break
            else:
                raise TableError("atom.__cmp__: unrecognised final return")
            i += 1
            continue
        if not (isinstance(st, ast.Assign) and len(st.targets) == 1 and isinstance(st.targets[0], ast.Name)
                and i + 1 < len(body) and isinstance(body[i + 1], ast.If)):
            raise TableError(f"atom.__cmp__: unrecognised statement at line {st.lineno}")
        var = st.targets[0].id          # any local name will do (`c` on the pinned tree)
        iff = body[i + 1]
        if not (ast.dump(iff.test) == ast.dump(ast.Name(var, ast.Load())) and len(iff.body) == 1
                and isinstance(iff.body[0], ast.Return) and not iff.orelse):
            raise TableError(f"atom.__cmp__: unrecognised `if {var}` at line {iff.lineno}")
        ret = ast.dump(iff.body[0].value)
        plain = ret == ast.dump(ast.Name(var, ast.Load()))
        inverted = ret == ast.dump(ast.parse(f"-{var}", mode="eval").body)
        if not (plain or inverted):
            raise TableError(f"atom.__cmp__: unrecognised return at line {iff.lineno}")
        call = st.value
        cid = None
        if ast.dump(call) == ast.dump(ast.parse(
                "cpv.ver_cmp(self.version, self.revision, other.version, other.revision)", mode="eval").body):
            cid = 3
        elif ast.dump(call) == ast.dump(ast.parse("cmp(f(self.slot), f(other.slot))", mode="eval").body):
            cid = 7
        elif _is_cmp_of(call, "blocks"):
            cid = 4 if inverted else 10
            inverted = False
        else:
            for name, k in CHAIN_IDS.items():
                if _is_cmp_of(call, name):
                    cid = k
                    break
        if cid is None or inverted:
            raise TableError(f"atom.__cmp__: unrecognised comparison at line {st.lineno}")
        chain.append(cid)
        i += 2
    # the hash is the hash of the original text
    init = tables.find_func(t, "atom.__init__")
    want = ast.dump(ast.parse("self._hash = hash(orig_atom)").body[0])
    if want not in [ast.dump(n) for n in init.body]:
        raise TableError("atom.__init__ no longer sets self._hash = hash(orig_atom)")
    txt = tables.header("ebuild/atom.py (atom.__attr_comparison__, the key chain of atom.__cmp__)")
    txt += ("\n(* atom.__attr_comparison__ as attribute ids: 0 cpvstr 1 op 2 blocks 3 negate_vers 4 use 5 slot\n"
            "   6 subslot 7 slot_operator 8 repo_id 9 blocks_strongly *)\n")
    txt += "Definition attr_comparison : list N :=\n  %s.\n" % clist([cN(ATTR_IDS[a]) for a in attrs], "N")
    txt += ("\n(* the ordered key chain of atom.__cmp__: 0 category 1 package 2 op 3 ver_cmp 4 blocks (inverted)\n"
            "   5 blocks_strongly 6 negate_vers 7 slot (None as \"\") 8 use 9 repo_id 10 blocks (not inverted) *)\n")
    txt += "Definition cmp_chain : list N :=\n  %s.\n" % clist([cN(c) for c in chain], "N")
    return {"Tables_C02.v": txt}


# =========================================================================================
# the check
# =========================================================================================
from . import c01  # noqa: E402  (version generator and the independent PMS oracle)

IMPORTS = ("From Coq Require Import List NArith ZArith Bool.\n"
           "From Verif Require Import Base.Val gen.Tables_C01 gen.Tables_C02 C01.Model_C01 C01.Spec_C01 "
           "C02.Model_C02 C02.Spec_C02.")
ANCHORS = ["ebuild/cpv.py::CPV.__init__", "ebuild/cpv.py::CPV.__hash__", "ebuild/cpv.py::CPV.__eq__",
           "ebuild/cpv.py::CPV.__ne__", "ebuild/cpv.py::CPV.__lt__", "ebuild/cpv.py::CPV.__le__",
           "ebuild/cpv.py::CPV.__gt__", "ebuild/cpv.py::CPV.__ge__", "ebuild/cpv.py::ver_cmp",
           "ebuild/cpv.py::Revision", "ebuild/atom.py::atom.__cmp__",
           "ebuild/atom.py::atom.__attr_comparison__"]
ATOM_OPS = ("", "<", "<=", "=", "=*", "~", ">=", ">")
USE_POOL = ("x", "y", "-z", "x?", "!y?", "z=", "x(+)", "-y(-)", "w", "!w=", "x1", "x01", "-x10", "x9")
# spellings with leading-zero digit runs and mixed alphanumerics: text equality, text order and any
# "natural"/numeric reading of the same attribute disagree exactly on these
SLOT_POOL = ("0", "00", "1", "01", "9", "10", "1.2", "1.02", "a1", "a01", "2.1", "2a")
SUBSLOT_POOL = ("1", "01", "2", "a", "a1", "a01", "1.2", "1.02", "10", "9")
REPO_POOL = ("gentoo", "other", "repo1", "repo01", "r9", "r10")
FLAG_POOL = ("x", "x1", "x01", "x9", "x10", "y")
# names in which one is a proper prefix of another, continued by a character sorting below '/' (+ - .),
# or above it (digit, _ , letter): comparing (category, package) is not comparing any joined text
CAT_POOL = ("dev", "dev-util", "dev.x", "dev+", "dev_x", "devel", "dev0", "a", "x11", "x11-libs")
PKG_POOL = ("foo", "foo-bar", "foo+", "foo_x", "foo1", "fo", "b", "b-c")


def prefix_related(a, b):
    return a != b and (a.startswith(b) or b.startswith(a))


class SortKey:
    """sorted() through the object's own __lt__ (indices are sorted so ties keep their place)"""
    __slots__ = ("o",)

    def __init__(self, o):
        self.o = o

    def __lt__(self, other):
        return self.o < other.o


def zero_respell(rng, s):
    """respell one digit run of s with a leading zero added or removed (text differs, numeric reading equal);
    None when s has no digit run"""
    import re
    runs = list(re.finditer(r"\d+", s))
    if not runs:
        return None
    m = rng.choice(runs)
    d = m.group(0)
    nd = d[1:] if (d[0] == "0" and len(d) > 1 and rng.random() < 0.5) else "0" + d
    return s[:m.start()] + nd + s[m.end():]


# ---------------------------------------------------------------- atoms as field records
class A:
    """an atom as the generator knows it (the text is rendered from the fields)."""
    FIELDS = ("blocks", "bstrong", "op", "cat", "pkg", "ver", "rev", "slot", "subslot", "slotop", "repo", "use", "negate")

    def __init__(self, **kw):
        for f in self.FIELDS:
            setattr(self, f, kw.get(f))

    def copy(self, **kw):
        d = {f: getattr(self, f) for f in self.FIELDS}
        d.update(kw)
        return A(**d)

    def cpvstr(self):
        s = f"{self.cat}/{self.pkg}"
        if self.ver is not None:
            s += "-" + self.ver.text() + ("" if self.rev is None else "-r" + self.rev)
        return s

    def text(self):
        s = ("!!" if self.bstrong else "!") if self.blocks else ""
        s += ("=" if self.op == "=*" else self.op) + self.cpvstr() + ("*" if self.op == "=*" else "")
        if self.slot is not None:
            s += ":" + self.slot + ("" if self.subslot is None else "/" + self.subslot) + (self.slotop or "")
        elif self.slotop is not None:
            s += ":" + self.slotop
        if self.repo is not None:
            s += "::" + self.repo
        if self.use is not None:
            s += "[" + ",".join(self.use) + "]"
        return s

    def eq_attrs(self):
        """the attributes atom equality inspects (as the statement sees them)."""
        return {"cpvstr": self.cpvstr(), "op": self.op, "blocks": self.blocks, "negate": self.negate,
                "use": None if self.use is None else tuple(sorted(self.use)), "slot": self.slot,
                "subslot": self.subslot, "slotop": self.slotop, "repo": self.repo}


def gen_atom(rng) -> A:
    op = rng.choice(ATOM_OPS) if rng.random() < 0.75 else ""
    ver = rev = None
    if op:
        ver = c01.gen_version(rng)
        if op != "~" and rng.random() < 0.4:
            rev = rng.choice(("0", "00", "1", "01", "2", "10"))
    blocks = rng.random() < 0.3
    slot = subslot = slotop = None
    x = rng.random()
    if x < 0.35:
        slot = rng.choice(SLOT_POOL)
        if rng.random() < 0.5:
            subslot = rng.choice(SUBSLOT_POOL)
        if rng.random() < 0.3:
            slotop = "="
    elif x < 0.45:
        slotop = rng.choice(("*", "="))
    use = None
    if rng.random() < 0.4:
        use = tuple(rng.sample(USE_POOL, rng.choice((1, 2, 2, 3))))
    return A(blocks=blocks, bstrong=blocks and rng.random() < 0.5, op=op, cat=rng.choice(CAT_POOL),
             pkg=rng.choice(PKG_POOL), ver=ver, rev=rev, slot=slot, subslot=subslot, slotop=slotop,
             repo=rng.choice((None, None, None) + REPO_POOL), use=use,
             negate=bool(op) and rng.random() < 0.15)


def respell_atom(rng, a: A) -> A:
    """an equivalent spelling (under the statement's reading) or a one-attribute change of a"""
    k = rng.randrange(18)
    if k == 0 and a.blocks:
        return a.copy(bstrong=not a.bstrong)
    if k == 1 and a.use and len(a.use) > 1:
        u = list(a.use)
        rng.shuffle(u)
        return a.copy(use=tuple(u))
    if k == 2 and a.ver is not None:
        return a.copy(ver=respell_version(rng, a.ver))
    if k == 3 and a.ver is not None and a.op != "~":
        return a.copy(rev=rng.choice((None, "0", "00")) if a.rev in (None, "0", "00") else
                      rng.choice((a.rev, "0" + a.rev, str(int(a.rev)))))
    if k == 4 and a.slot is not None:
        return a.copy(subslot=rng.choice((None,) + SUBSLOT_POOL))
    if k == 5 and a.slot is not None:
        return a.copy(slotop=None if a.slotop else "=")
    if k == 6:
        if a.slot is None:
            return a.copy(slot=None, subslot=None, slotop=rng.choice((None, "*", "=")))
        return a.copy(slot=rng.choice(SLOT_POOL))
    if k == 7:
        return a.copy(repo=rng.choice((None,) + REPO_POOL))
    # the same attribute respelled with a leading zero in one digit run (slot, sub-slot, repo id, USE flag)
    if k == 14 and a.slot is not None and zero_respell(rng, a.slot):
        return a.copy(slot=zero_respell(rng, a.slot))
    if k == 15 and a.subslot is not None and zero_respell(rng, a.subslot):
        return a.copy(subslot=zero_respell(rng, a.subslot))
    if k == 16 and a.repo is not None and zero_respell(rng, a.repo):
        return a.copy(repo=zero_respell(rng, a.repo))
    if k == 17 and a.use:
        u = list(a.use)
        i = rng.randrange(len(u))
        z = zero_respell(rng, u[i])
        if z and z not in u:
            u[i] = z
            return a.copy(use=tuple(u))
    if k == 8:
        if a.use is None:
            return a.copy(use=(rng.choice(USE_POOL),))
        u = list(a.use)
        if rng.random() < 0.5 and len(u) > 1:
            u.pop(rng.randrange(len(u)))
        else:
            c = [x for x in USE_POOL if x not in u]
            u[rng.randrange(len(u))] = rng.choice(c)
        return a.copy(use=tuple(u))
    if k == 9 and a.op and a.op != "~":
        return a.copy(op=rng.choice([o for o in ATOM_OPS if o and o != "~"]))
    if k == 10 and a.op:
        return a.copy(negate=not a.negate)
    if k == 11:
        return a.copy(blocks=not a.blocks, bstrong=False)
    if k == 12 and a.ver is not None:
        return a.copy(ver=c01.neighbour(rng, a.ver))
    if k == 13:
        return a.copy(pkg=rng.choice(PKG_POOL)) if rng.random() < 0.5 else a.copy(cat=rng.choice(CAT_POOL))
    return a.copy()


def respell_version(rng, v):
    """a version that PMS compares equal to v but is spelled differently (when possible)"""
    nums, letter, sufs = list(v.nums), v.letter, list(v.sufs)
    k = rng.randrange(4)
    if k == 0:
        nums[0] = "0" + nums[0]
    elif k == 1 and len(nums) > 1:
        i = rng.randrange(1, len(nums))
        if nums[i][0] == "0":
            nums[i] = nums[i] + "0"
        else:
            nums[i] = nums[i]  # a non-leading-zero later component has one spelling
            nums[0] = "00" + nums[0]
    elif k == 2 and sufs:
        i = rng.randrange(len(sufs))
        kd, d = sufs[i]
        sufs[i] = (kd, "0" if d == "" else ("" if d.strip("0") == "" else "0" + d))
    else:
        nums[0] = str(int(nums[0])) if nums[0] != str(int(nums[0])) else "0" + nums[0]
    return c01.V(nums, letter, sufs)


def c_ostr(s):
    return copt(s, cstr, "str")


def atom_term(a: A, obj):
    """the Coq record: generator fields for what the text determines, the REAL object's parse for
    category/package/version/revision and for the attributes equality reads."""
    rv = obj.revision
    rev = None if (rv is None or rv.data == "") else int(rv.data)
    return ("{| a_cpvstr := %s; a_op := %s; a_blocks := %s; a_bstrong := %s; a_negate := %s; a_use_raw := %s; "
            "a_slot := %s; a_subslot := %s; a_slotop := %s; a_repo := %s; a_cat := %s; a_pkg := %s; a_ver := %s; "
            "a_rev := %s |}" % (
                cstr(obj.cpvstr), cstr(obj.op), cbool(obj.blocks), cbool(obj.blocks_strongly), cbool(obj.negate_vers),
                copt(a.use, lambda u: clist([cstr(x) for x in u], "str"), "list str"),
                c_ostr(obj.slot), c_ostr(obj.subslot), c_ostr(obj.slot_operator), c_ostr(obj.repo_id),
                cstr(obj.category), cstr(obj.package), c_ostr(obj.version), copt(rev, cN, "N")))


# ---------------------------------------------------------------- the property's clauses (B)
def clauses(res, rres):
    """names of the clauses of C02 that (==,!=,<,<=,>,>=,hash-equal) of (a,b) and of (b,a) violate"""
    e, n, lt, le, gt, ge, h = res
    bad = []
    if e and not h:
        bad.append("eq-hash")
    if e and (lt or gt):
        bad.append("eq-not-ordered")
    if not e and not (lt or gt):
        bad.append("neq-strict")
    if n != (not e) or le != (lt or e) or ge != (gt or e) or (lt and gt):
        bad.append("six-ops")
    if rres is not None and not isinstance(rres, Err):
        if rres[0] != e or rres[4] != lt or rres[2] != gt or rres[6] != h:
            bad.append("symmetry")
    return bad


# ---- known-finding classes (precise predicates on the generator's fields; see known_findings/C02.json)
def k_cpv_respelled(ca, cb):
    """CPVs: same category/package, different version text, PMS-equal versions and revisions"""
    (c1, p1, v1, r1), (c2, p2, v2, r2) = ca, cb
    return (c1, p1) == (c2, p2) and v1.text() != v2.text() and c01.py_pms_cmp(v1, r1 or 0, v2, r2 or 0) == 0


def _eq_diff(a: A, b: A):
    x, y = a.eq_attrs(), b.eq_attrs()
    return {k for k in x if x[k] != y[k]}


def k_atom_blocker_strength(a: A, b: A):
    """atoms equal in every attribute equality reads, differing in blocker strength (! vs !!)"""
    return not _eq_diff(a, b) and a.blocks and b.blocks and a.bstrong != b.bstrong


def k_atom_use_order(a: A, b: A):
    """atoms equal in every attribute equality reads and in blocker strength, USE deps written in another order"""
    return (not _eq_diff(a, b) and a.bstrong == b.bstrong and a.use is not None and a.use != b.use
            and sorted(a.use) == sorted(b.use))


def _cmp_blind_only(a: A, b: A):
    d = _eq_diff(a, b)
    return bool(d) and d <= {"subslot", "slotop", "cpvstr"} and a.bstrong == b.bstrong


def _same_version_value(a: A, b: A):
    if (a.cat, a.pkg) != (b.cat, b.pkg) or (a.ver is None) != (b.ver is None):
        return False
    if a.ver is None:
        return True
    return c01.py_pms_cmp(a.ver, int(a.rev or 0), b.ver, int(b.rev or 0)) == 0


def k_atom_slot_unordered(a: A, b: A):
    """unequal atoms that differ only in sub-slot and/or slot operator (neither is read by __cmp__)"""
    d = _eq_diff(a, b)
    return _cmp_blind_only(a, b) and "cpvstr" not in d


def k_atom_respelled_unordered(a: A, b: A):
    """unequal atoms whose version/revision text differs but is PMS-equal (1.0 vs 1.00, -r0 vs none),
    possibly also differing in sub-slot / slot operator"""
    d = _eq_diff(a, b)
    return _cmp_blind_only(a, b) and "cpvstr" in d and _same_version_value(a, b)


def classify_atom(clause, a: A, b: A):
    if clause == "eq-hash":
        if k_atom_blocker_strength(a, b):
            return "atom-blocker-strength"
        if k_atom_use_order(a, b):
            return "atom-use-order"
    elif clause in ("eq-not-ordered",):
        if k_atom_blocker_strength(a, b):
            return "atom-blocker-strength"
    elif clause == "neq-strict":
        if k_atom_slot_unordered(a, b):
            return "atom-subslot-slotop-unordered"
        if k_atom_respelled_unordered(a, b):
            return "atom-respelled-version-unordered"
    elif clause == "six-ops":
        for k, cid in ((k_atom_blocker_strength, "atom-blocker-strength"),
                       (k_atom_slot_unordered, "atom-subslot-slotop-unordered"),
                       (k_atom_respelled_unordered, "atom-respelled-version-unordered")):
            if k(a, b):
                return cid
    return None


def main(chk: Check):
    from pkgcore.ebuild import atom as atommod
    from pkgcore.ebuild import cpv as cpvmod

    rng = chk.rng
    chk.rule("equivalence-biased pairs: a base CPV/atom and a respelling (zero padding, suffix 0, -r0/-r00, "
             "reordered USE deps, ! vs !!) or a change of exactly one attribute (slot, sub-slot, slot operator, "
             "repository, one USE dep, operator, negate_vers, blocker), plus independent random pairs; every "
             "pair is evaluated in both orders; non-trivial = the two texts differ")
    table_errors = []
    for mod in (sys.modules[__name__], c01):
        try:
            tables.regenerate(mod)
        except TableError as e:
            table_errors.append(str(e))
    ok = chk.build(["C02/Prop_C02.vo"])
    if ok:
        chk.check_assumptions("C02/Prop_C02.v")
    chk.lint(["C02", "gen/Tables_C02.v"])
    chk.check_fingerprint(ANCHORS)
    if table_errors or not ok:
        # the tie to the source is broken: the theorems no longer speak about this code.  Keep going
        # with every stream at the thorough budget: the direct oracle on the implementation
        # (trichotomy / six-operator consistency / eq => hash) searches for a concrete failing pair,
        # and the model (with the last good tables) localises the behavioural change.
        chk.fingerprint_changed = True
        chk.note("table extraction or proof build failed; budgets escalated to search for a failing input")

    prop_bad = []
    seen_bad = set()

    def report(kind, clause, inp, cid):
        if cid is not None and chk.known_finding(cid, inp):
            return
        key = (kind, str(inp.get("a")), str(inp.get("b")))
        if key in seen_bad:        # one violation per pair (its first failing clause)
            return
        seen_bad.add(key)
        if len(prop_bad) < 100:
            prop_bad.append({"what": f"{kind}: clause '{clause}' of C02 fails outside the known classes", "input": inp})

    # ------------------------------------------------------------ CPV pairs
    # a CPV spec is (category, package, version AST or None = unversioned, revision or None)
    cpv_cases, key_cases = [], []

    def cpv_text(sp):
        c, p, v, r = sp
        if v is None:
            return f"{c}/{p}"
        return f"{c}/{p}-{v.text()}" + ("" if r is None else "-r" + rng.choice(("", "0", "00")) + str(r))

    def cpv_obj(sp, text):
        return cpvmod.VersionedCPV(text) if sp[2] is not None else cpvmod.UnversionedCPV(text)

    def cpv_term(sp):
        c, p, v, r = sp
        return "{| cat := %s; pkg := %s; ver := %s; rev := %s |}" % (
            cstr(c), cstr(p), cstr("" if v is None else v.text()), copt(r, cN, "N"))

    def seven(x, y):
        return [x == y, x != y, x < y, x <= y, x > y, x >= y, hash(x) == hash(y)]

    def expected_cpv(sa, sb):
        """independent oracle: the order is (category, package, PMS version order), compared field by field"""
        k = ((sa[0] > sb[0]) - (sa[0] < sb[0])) or ((sa[1] > sb[1]) - (sa[1] < sb[1]))
        if not k and sa[2] is not None:
            k = c01.py_pms_cmp(sa[2], sa[3] or 0, sb[2], sb[3] or 0)
        return [k == 0, k != 0, k < 0, k <= 0, k > 0, k >= 0]

    def judge_cpv(sa, sb, idx=1):
        t1, t2 = cpv_text(sa), cpv_text(sb)

        def run(swap):
            x, y = cpv_obj(sa, t1), cpv_obj(sb, t2)
            return seven(y, x) if swap else seven(x, y)
        res, rres = impl_call(run, False), impl_call(run, True)
        cpv_cases.append((cpair(cpv_term(sa), cpv_term(sb)), res))
        cpv_cases.append((cpair(cpv_term(sb), cpv_term(sa)), rres))
        if sa[2] is not None:
            key_cases.append((cpv_term(sa), impl_call(lambda: cpvmod.VersionedCPV(t1).cpvstr)))
        if t1 != t2:
            chk.nontrivial(("cpv", t1, t2))
        inp = {"a": t1, "b": t2, "[==,!=,<,<=,>,>=,hash==]": res}
        if isinstance(res, Err) or isinstance(rres, Err):
            report("CPV", "raised", {"a": t1, "b": t2, "error": (res if isinstance(res, Err) else rres).kind}, None)
            return
        for cl in clauses(res, rres):
            known = (cl == "eq-hash" and sa[2] is not None and sb[2] is not None and k_cpv_respelled(sa, sb))
            report("CPV", cl, inp, "cpv-respelled-version" if known else None)
        want = expected_cpv(sa, sb)
        if res[:6] != want:
            report("CPV", "order is (category, package, version) compared field by field",
                   dict(inp, expected=want), None)
        if idx % 150 == 0:
            chk.sample({"stream": "cpv", "a": t1, "b": t2, "impl[==,!=,<,<=,>,>=,hash==]": res})

    one = c01.parse_text("1")
    # corpus first (fixed cases of past misses)
    cdir = VERIF / "corpus" / "C02"
    corpus = [json.loads(f.read_text()) for f in sorted(cdir.glob("*.json"))] if cdir.exists() else []
    for d in corpus:
        if d.get("stream") == "cpv":
            def sp(x):
                return (x["cat"], x["pkg"], None if x.get("ver") is None else c01.parse_text(x["ver"]), x.get("rev"))
            judge_cpv(sp(d["a"]), sp(d["b"]))
    # names: every pair of categories (same package) and of packages (same category) from pools in which one
    # name is a prefix of another followed by a character sorting below '/' (+ - .), above it (0-9 _ a-z), ...
    name_pairs = []
    for i in range(len(CAT_POOL)):
        for j in range(i + 1, len(CAT_POOL)):
            name_pairs.append(((CAT_POOL[i], "foo"), (CAT_POOL[j], "foo")))
    for i in range(len(PKG_POOL)):
        for j in range(i + 1, len(PKG_POOL)):
            name_pairs.append((("dev", PKG_POOL[i]), ("dev", PKG_POOL[j])))
    must = [p for p in name_pairs if prefix_related(p[0][0], p[1][0]) or prefix_related(p[0][1], p[1][1])]
    rest = [p for p in name_pairs if p not in must]
    if not (chk.thorough or chk.fingerprint_changed):
        rest = rng.sample(rest, 12)
    for n, ((ca, pa), (cb, pb)) in enumerate(must + rest):
        if n % 3 == 2:
            judge_cpv((ca, pa, None, None), (cb, pb, None, None))          # unversioned
        elif n % 3 == 1:
            judge_cpv((ca, pa, one, None), (cb, pb, c01.gen_version(rng), c01.gen_rev(rng)))
        else:
            judge_cpv((ca, pa, one, None), (cb, pb, one, None))
    for i in range(chk.n(260, 4000)):
        v1 = c01.gen_version(rng)
        x = rng.random()
        v2 = v1 if x < 0.1 else (respell_version(rng, v1) if x < 0.5 else
                                 (c01.neighbour(rng, v1) if x < 0.85 else c01.gen_version(rng)))
        r1 = c01.gen_rev(rng)
        r2 = r1 if rng.random() < 0.6 else c01.gen_rev(rng)
        c1, p1 = rng.choice(CAT_POOL), rng.choice(PKG_POOL)
        c2 = c1 if rng.random() < 0.8 else rng.choice(CAT_POOL)
        p2 = p1 if rng.random() < 0.8 else rng.choice(PKG_POOL)
        if rng.random() < 0.06 and (c1, p1) != (c2, p2):
            v1 = r1 = None                      # unversioned against versioned, different keys
        judge_cpv((c1, p1, v1, r1), (c2, p2, v2, r2), i)
    chk.count("cpv", len(cpv_cases))
    chk.count("cpvkey", len(key_cases))

    # ---- long-lived objects: sorting and repeated questions (Python oracle only)
    specs = [(c, p, v, None) for c in CAT_POOL[:7] for p in PKG_POOL[:3] for v in (one, None)]
    specs += [("dev", "foo", c01.parse_text(t), r) for t in ("1.0", "1.00", "1_alpha", "01") for r in (None, 1)]
    if not (chk.thorough or chk.fingerprint_changed):
        specs = rng.sample(specs, 26)
    vers = [s_ for s_ in specs if s_[2] is not None]
    unv = [s_ for s_ in specs if s_[2] is None]
    n_sort = 0
    for group in (vers, unv):
        texts = [cpv_text(s_) for s_ in group]
        objs = impl_call(lambda: [cpv_obj(s_, t) for s_, t in zip(group, texts)])
        if isinstance(objs, Err):
            report("CPV", "raised", {"a": texts[0], "b": texts[-1], "error": objs.kind}, None)
            continue
        first = {}
        for a_ in range(len(objs)):
            for b_ in range(len(objs)):
                first[(a_, b_)] = impl_call(seven, objs[a_], objs[b_])
        order = impl_call(lambda: sorted(range(len(objs)), key=lambda k_: SortKey(objs[k_])))
        {o: 0 for o in objs}            # hash every object once more (dict insertion)
        for a_ in range(len(objs)):
            for b_ in range(len(objs)):
                n_sort += 1
                again = impl_call(seven, objs[a_], objs[b_])
                if again != first[(a_, b_)]:
                    report("CPV", "the same question on the same long-lived objects gets a different answer",
                           {"a": texts[a_], "b": texts[b_], "first": first[(a_, b_)], "again": again}, None)
        if isinstance(order, Err):
            report("CPV", "sorted() raised", {"a": texts[0], "b": texts[-1], "error": order.kind}, None)
            continue
        for x_ in range(len(order)):
            for y_ in range(x_ + 1, len(order)):
                n_sort += 1
                r_ = first[(order[x_], order[y_])]
                if not isinstance(r_, Err) and r_[4]:     # sorted() put a before b although a > b
                    report("CPV", "sorted() disagrees with '>'",
                           {"a": texts[order[x_]], "b": texts[order[y_]], "[==,!=,<,<=,>,>=,hash==]": r_}, None)
    chk.count("cpv-sort", n_sort)

    # ------------------------------------------------------------ atom pairs
    atom_cases, text_cases = [], []
    witness = [  # the classes of DESIGN §6 C02, always present
        (A(blocks=True, bstrong=False, op="", cat="a", pkg="b", negate=False), "bstrong", True),
        (A(blocks=False, bstrong=False, op="", cat="a", pkg="b", use=("x", "y"), negate=False), "use", ("y", "x")),
        (A(blocks=False, bstrong=False, op="", cat="a", pkg="b", slot="0", subslot="1", negate=False), "subslot", "2"),
        (A(blocks=False, bstrong=False, op="", cat="a", pkg="b", slot="0", negate=False), "slotop", "="),
        (A(blocks=False, bstrong=False, op="=", cat="a", pkg="b", ver=c01.parse_text("1.0"), negate=False), "ver", c01.parse_text("1.00")),
        (A(blocks=False, bstrong=False, op="=", cat="a", pkg="b", ver=c01.parse_text("1.0"), negate=False), "rev", "0"),
    ]
    pairs = [(a, a.copy(**{f: v})) for a, f, v in witness]
    for d in corpus:
        if d.get("stream") == "atom":
            def af(x):
                kw = dict(blocks=False, bstrong=False, op="", negate=False)
                kw.update(x)
                if kw.get("ver") is not None:
                    kw["ver"] = c01.parse_text(kw["ver"])
                if kw.get("use") is not None:
                    kw["use"] = tuple(kw["use"])
                return A(**kw)
            pairs.append((af(d["a"]), af(d["b"])))
    # atoms differing in EXACTLY one attribute, over all unordered pairs of its spelling pool
    # (leading-zero digit runs, mixed alphanumerics): slot, sub-slot, repo id, one USE flag
    base = A(blocks=False, bstrong=False, op="", cat="a", pkg="b", negate=False)
    matrix_pairs = []
    for field, pool, extra in (("slot", SLOT_POOL, {}), ("subslot", SUBSLOT_POOL, {"slot": "0"}),
                               ("repo", REPO_POOL, {}), ("cat", CAT_POOL, {"pkg": "foo"}),
                               ("pkg", PKG_POOL, {"cat": "dev"}), ("use", tuple((f,) for f in FLAG_POOL), {}),
                               ("use", tuple(("w", f) for f in FLAG_POOL), {"slot": "1"})):
        for i in range(len(pool)):
            for j in range(i + 1, len(pool)):
                matrix_pairs.append((base.copy(**extra, **{field: pool[i]}), base.copy(**extra, **{field: pool[j]})))
    if not (chk.thorough or chk.fingerprint_changed):
        import re

        def numeric_reading(a):
            return re.sub(r"0*(\d+)", r"\1", a.text())
        def is_must(p):     # :0 vs :00, x1 vs x01 ...; dev vs dev-util, foo vs foo+ ...
            return (numeric_reading(p[0]) == numeric_reading(p[1]) or prefix_related(p[0].cat, p[1].cat)
                    or prefix_related(p[0].pkg, p[1].pkg))
        must = [p for p in matrix_pairs if is_must(p)]
        rest = [p for p in matrix_pairs if not is_must(p)]
        matrix_pairs = must + rng.sample(rest, 60)
    pairs += matrix_pairs
    for _ in range(chk.n(340, 5000)):
        a = gen_atom(rng)
        x = rng.random()
        b = a.copy() if x < 0.05 else (respell_atom(rng, a) if x < 0.8 else gen_atom(rng))
        pairs.append((a, b))
    for i, (a, b) in enumerate(pairs):
        ta, tb = a.text(), b.text()

        def build():
            return atommod.atom(ta, negate_vers=a.negate), atommod.atom(tb, negate_vers=b.negate)
        objs = impl_call(build)
        if isinstance(objs, Err):
            prop_bad.append({"what": "generated atom rejected by the parser (generator/grammar disagreement)",
                             "input": {"a": ta, "b": tb, "error": objs.kind}})
            continue
        x, y = objs

        def run(x, y):
            return [x == y, x != y, x < y, x <= y, x > y, x >= y, hash(x) == hash(y)]
        res, rres = impl_call(run, x, y), impl_call(run, y, x)
        atom_cases.append((cpair(atom_term(a, x), atom_term(b, y)), res))
        atom_cases.append((cpair(atom_term(b, y), atom_term(a, x)), rres))
        text_cases.append((atom_term(a, x), [ta, None if x.use is None else list(x.use)]))
        if ta != tb or a.negate != b.negate:
            chk.nontrivial(("atom", ta, a.negate, tb, b.negate))
        if isinstance(res, Err):
            prop_bad.append({"what": "atom comparison raised", "input": {"a": ta, "b": tb, "error": res.kind}})
            continue
        for cl in clauses(res, rres):
            report("atom", cl, {"a": ta, "a.negate_vers": a.negate, "b": tb, "b.negate_vers": b.negate,
                                "[==,!=,<,<=,>,>=,hash==]": res}, classify_atom(cl, a, b) if cl != "symmetry" else None)
        if i % 120 == 0:
            chk.sample({"stream": "atom", "a": ta, "b": tb, "impl[==,!=,<,<=,>,>=,hash==]": res})
    chk.count("atom", len(atom_cases))
    chk.count("atomtext", len(text_cases))

    # ------------------------------------------------------------ evaluate the model (A) and the spec (B) in Coq
    streams = [
        ("cpv", "cpv * cpv", cpv_cases, ["mismatches run_cpv cases",
                                         "where_ (fun i r => negb (spec_cpv_ok i r)) cases"]),
        ("cpvkey", "cpv", key_cases, ["mismatches run_cpvkey cases"]),
        ("atom", "atomf * atomf", atom_cases, ["mismatches run_atom cases",
                                               "where_ (fun i r => negb (spec_atom_ok i r)) cases"]),
        ("atomtext", "atomf", text_cases, ["mismatches run_atomtext cases"]),
    ]
    corr_bad, spec_bad = [], []
    import concurrent.futures as cf
    with cf.ThreadPoolExecutor(max_workers=4) as ex:   # the streams are independent: evaluate them side by side
        futs = [ex.submit(chk.coq_eval, name, IMPORTS, ty, cs, evals) if ok else None
                for name, ty, cs, evals in streams]
    for (name, ty, cs, evals), fut in zip(streams, futs):
        r = fut.result() if fut is not None else None
        if r is None:
            continue
        corr_bad += [(name, cs[i]) for i in r[0][:3]]
        if len(r) > 1:
            spec_bad += [(name, cs[i]) for i in r[1][:3]]
    for b in prop_bad[:5]:
        chk.violation("property", b)
    if not prop_bad:
        for name, c in spec_bad[:3]:
            chk.violation("property", {"what": f"Spec_C02 rejects the implementation's result on stream '{name}' "
                                               "outside the Coq known classes", "input": c[0], "implementation": c[1]})
    for e in table_errors:
        chk.violation("table", {"what": "atom.__attr_comparison__ / atom.__cmp__ / the tables of C01 no longer have "
                                        "the shape the model assumes (fail-closed extraction); the theorems of "
                                        "Prop_C02 no longer speak about this code", "error": e},
                      no_input=not (prop_bad or spec_bad))
    for name, c in corr_bad[:4]:
        chk.violation("correspondence",
                      {"what": f"implementation and Model_C02 disagree on stream '{name}' (the theorems of Prop_C02 "
                               "no longer speak about this code)", "input": c[0], "implementation": c[1]},
                      no_input=not (prop_bad or spec_bad))


def replay(chk, data):
    """re-run one recorded pair on the implementation."""
    from pkgcore.ebuild import atom as atommod
    from pkgcore.ebuild import cpv as cpvmod
    inp = (data.get("detail") or {}).get("input")
    if not (isinstance(inp, dict) and "a" in inp and "b" in inp):
        print("replay: no structured input recorded (correspondence/proof violation); see 'detail'")
        return

    def run():
        if "a.negate_vers" in inp:
            x = atommod.atom(inp["a"], negate_vers=inp["a.negate_vers"])
            y = atommod.atom(inp["b"], negate_vers=inp["b.negate_vers"])
        else:
            x, y = cpvmod.VersionedCPV(inp["a"]), cpvmod.VersionedCPV(inp["b"])
        return [x == y, x != y, x < y, x <= y, x > y, x >= y, hash(x) == hash(y)]
    res = impl_call(run)
    print("implementation [==,!=,<,<=,>,>=,hash==]:", res)
    if not isinstance(res, Err):
        print("violated clauses:", clauses(res, None))
