import sys; p=sys.argv[1]; s=open(p).read()
a='            if previous != entry.keywords:\n                entry = entry.with_keywords(previous)\n                changed = True\n'; assert a in s
s=s.replace(a,'            if previous != entry.keywords or any(k in (ALL_KEYWORDS, SAME_KEYWORDS, NO_KEYWORDS) for k in entry.keywords):\n                entry = entry.with_keywords(previous)\n                changed = True\n'); open(p,'w').write(s)
