import subprocess, sys, json, os, shutil
WT = "/tmp/wt_C44"
F = WT + "/src/pkgcore/util/parserestrict.py"
V = WT + "/src/pkgcore/restrictions/values.py"
base = {F: open(F).read(), V: open(V).read()}
MUTS = [
 ("M1_star_needs_one_char", F, 'replace("\\\\*", ".*")', 'replace("\\\\*", ".+")'),
 ("M2_regex_not_end_anchored", F, 'pattern = f"^{pattern}$"', 'pattern = f"^{pattern}"'),
 ("M3_subslot_glob_on_slot_attr", F, 'restrictions.append(packages.PackageRestriction("subslot", r))', 'restrictions.append(packages.PackageRestriction("slot", r))'),
 ("M4_fake_category_kept", F, 'attrs=("category",),\n                    invert=True,', 'attrs=("category",),\n                    invert=False,'),
 ("M5_shortest_op", F, 'op = max(x for x in atom.valid_ops if text.startswith(x))', 'op = min(x for x in atom.valid_ops if text.startswith(x))'),
 ("M6_blocker_only_leading", F, 'if "!" in text:', 'if text.startswith("!!"):'),
 ("M7_repo_split_first", F, 'text, repo_id = text.rsplit("::", 1)', 'text, repo_id = text.split("::", 1)'),
 ("M8_revert_fix", F, 'restrictions.extend(parse_globbed_version(text, orig_text))\n            return packages.AndRestriction(*restrictions)', 'return packages.AndRestriction(*parse_globbed_version(text, orig_text))'),
 ("M9_double_star_allowed", F, r'(?<!\*)\*)+$', r'\*)+$'),
 ("M10_exact_case_insensitive", F, 'return values.StrExactMatch(token)', 'return values.StrExactMatch(token, case_sensitive=False)'),
 ("H1_harmless_order", F, '''                packages.PackageRestriction("category", r[0]),
                packages.PackageRestriction("package", r[1]),''', '''                packages.PackageRestriction("package", r[1]),
                packages.PackageRestriction("category", r[0]),'''),
 ("H2_harmless_refactor", F, '    if token in ("*", ""):\n        return None', '    if not token or token == "*":\n        return None'),
]
only = sys.argv[1:]
for name, path, old, new in MUTS:
    if only and name not in only: continue
    for p, s in base.items(): open(p, "w").write(s)
    s = base[path]
    assert s.count(old) == 1, (name, s.count(old))
    open(path, "w").write(s.replace(old, new))
    env = dict(os.environ, VERIF_REPO=WT, VERIF_C44_QUICK="1")
    r = subprocess.run(["./check", "C44"], cwd="/verif", env=env, capture_output=True, text=True)
    lines = [l for l in r.stdout.splitlines() if l.startswith(("VIOLATION", "KNOWN", "[C44]"))]
    what = ""
    for l in lines:
        if l.startswith("VIOLATION"):
            rp = l.split("replay=")[1].split()[0]
            d = json.load(open(rp)); what = d["kind"] + ": " + json.dumps(d["detail"])[:300]; break
    print(name, "exit", r.returncode, "|", sum(l.startswith("VIOLATION") for l in lines), "violations |", what, flush=True)
    open(f"{name}.out", "w").write(r.stdout[-3000:])
for p, s in base.items(): open(p, "w").write(s)
