(* Proofs_C49.v — lemmas and proofs for C49. *)
From Coq Require Import List NArith ZArith Bool Lia.
Import ListNotations.
From Verif Require Import Base.Val gen.Tables_C49 C49.Model_C49 C49.Spec_C49.

Scheme op_mind := Induction for op Sort Prop
  with prog_mind := Induction for prog Sort Prop
  with ecls_mind := Induction for ecls Sort Prop.
Combined Scheme op_prog_ecls_ind from op_mind, prog_mind, ecls_mind.

(* ------------------------------------------------------------------ INHERITED *)
Lemma memN_In x l : memN x l = true <-> In x l.
Proof.
  unfold memN. rewrite existsb_exists. split.
  - intros [y [Hy E]]. apply N.eqb_eq in E. subst. exact Hy.
  - intros H. exists x. split; [exact H | apply N.eqb_refl].
Qed.

Lemma dedup_from_In seen l x : In x (dedup_from seen l) <-> In x l /\ ~ In x seen.
Proof.
  revert seen. induction l as [|y l IH]; intros seen; cbn.
  - tauto.
  - destruct (memN y seen) eqn:E.
    + apply memN_In in E. rewrite IH. split.
      * intros [H1 H2]. split; [right; exact H1 | exact H2].
      * intros [[H1|H1] H2]; [subst; contradiction | split; assumption].
    + assert (~ In y seen) by (intro H; apply memN_In in H; congruence).
      cbn. rewrite IH. cbn. split.
      * intros [H1|[H1 H2]]; [subst; tauto | split; [tauto | intro; apply H2; right; assumption]].
      * intros [[H1|H1] H2]; [left; assumption|].
        destruct (N.eq_dec y x); [left; assumption | right; split; [assumption | intros [?|?]; tauto]].
Qed.

Lemma dedup_In l x : In x (dedup l) <-> In x l.
Proof. unfold dedup. rewrite dedup_from_In. cbn. tauto. Qed.

Lemma dedup_from_NoDup seen l : NoDup (dedup_from seen l).
Proof.
  revert seen. induction l as [|y l IH]; intros seen; cbn; [constructor|].
  destruct (memN y seen); [apply IH|]. constructor; [|apply IH].
  rewrite dedup_from_In. cbn. tauto.
Qed.

Lemma inherited_sourcings :
  (forall o, inherited_op o = map fst (sourcings_op o)) /\
  (forall p, inherited_prog p = map fst (sourcings p)) /\
  (forall es, inherited_ecls es = map fst (sourcings_ecls es)).
Proof.
  apply op_prog_ecls_ind; cbn; intros; try reflexivity.
  - assumption.
  - rewrite map_app. congruence.
  - rewrite map_app. cbn. congruence.
Qed.

Lemma inherited_all_sourced_proof : forall p,
  NoDup (inherited p) /\ forall n, In n (inherited p) <-> sourced n p.
Proof.
  intros p. split; [apply dedup_from_NoDup|].
  intros n. unfold inherited, sourced. rewrite dedup_In.
  destruct inherited_sourcings as [_ [H _]]. rewrite H. tauto.
Qed.
