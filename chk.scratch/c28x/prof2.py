import sys, os, time, subprocess, shutil
from harness.common import Check
from harness import c28
from pkgcore.ebuild import digest
chk = Check("C28")
work = chk.scratch / "c28"; work.mkdir()
rows, metas, bad = c28.stream_text(chk, digest, work)
rows = rows[:120]
t=time.time()
r = chk.coq_eval("text", c28.IMPORTS, "bstr", rows, ["mismatches run_text cases", "where_ (fun i r => negb (spec_text_ok i r)) cases"], shard=120)
print("coq_eval", time.time()-t, r)
f = chk.scratch / "cases_text_0.v"
print(f.stat().st_size)
print(subprocess.run(["coqc","-time","-R","/verif/coq","Verif","-Q",str(chk.scratch),"Cases",str(f)],capture_output=True,text=True,cwd=chk.scratch).stdout[-1500:])
shutil.copy(f, "/verif/chk.scratch/c28x/cases_text_0.v")
