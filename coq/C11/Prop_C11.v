(* Prop_C11.v — the property theorems of C11 and nothing else. *)
From Coq Require Import List NArith ZArith Bool.
Import ListNotations.
From Verif Require Import Base.Val C11.Model_C11 C11.Spec_C11 C11.Sem_C11 C11.Class_C11 C11.Proofs_C11.

(* rendering a chunk list (incremental_chunked) is the left fold of the statement's four rules *)
Theorem chunked_is_fold : forall items p pre,
  same_set (render_list items p pre) (apply_history items p pre).
Proof. exact chunked_is_fold_proof. Qed.
Print Assumptions chunked_is_fold.

(* PARTIAL (full statement: render_is_fold_full, refuted below): for EVERY tree of operations
   (add / merge / freeze / clone / optimize) that the implementation does not refuse, and every
   package outside the three finding classes, the rendered set is the left fold of the entries *)
Theorem render_is_fold_partial : forall pr d p pre,
  run pr = Some d -> wf_prog pr = true -> known_class pr p = false ->
  same_set (render d p pre) (apply_history (entries_of pr) p pre).
Proof. exact render_is_fold_partial_proof. Qed.
Print Assumptions render_is_fold_partial.

Theorem render_is_fold_refuted_a :
  ~ render_is_fold_full /\ class_a pr_a (0, 1)%N = true /\ class_b pr_a (0, 1)%N = false /\ class_c pr_a (0, 1)%N = false.
Proof. exact render_is_fold_refuted_a_proof. Qed.
Print Assumptions render_is_fold_refuted_a.
Theorem render_is_fold_refuted_b :
  ~ render_is_fold_full /\ class_a pr_b (0, 1)%N = false /\ class_b pr_b (0, 1)%N = true /\ class_c pr_b (0, 1)%N = false.
Proof. exact render_is_fold_refuted_b_proof. Qed.
Print Assumptions render_is_fold_refuted_b.
Theorem render_is_fold_refuted_c :
  ~ render_is_fold_full /\ class_a pr_c (0, 1)%N = false /\ class_b pr_c (0, 1)%N = false /\ class_c pr_c (0, 1)%N = true.
Proof. exact render_is_fold_refuted_c_proof. Qed.
Print Assumptions render_is_fold_refuted_c.

(* PARTIAL: _build_cp_atom_payload keeps the fold for a package when the lockable chunks (global,
   simple atom) apply to it, the applicable chunks carry no wildcard negation and no flag both
   negated and added, and the applicable specific chunks never give one flag opposite signs *)
Theorem collapse_is_fold_partial : forall seq restrict p pre,
  (forall c, In c seq -> lockable c = true -> applies (sc c) p = true) ->
  (forall c, In c seq -> applies (sc c) p = true -> good c = true) ->
  (forall c1 c2 x, In c1 seq -> In c2 seq -> lockable c1 = false -> lockable c2 = false ->
     applies (sc c1) p = true -> applies (sc c2) p = true -> In x (neg c1) -> In x (pos c2) -> False) ->
  applies restrict p = true ->
  same_set (render_list (build seq restrict) p pre) (apply_history seq p pre).
Proof. exact collapse_is_fold_partial_proof. Qed.
Print Assumptions collapse_is_fold_partial.

(* the package.use line splitter: its output tokens, applied one by one, mean what the input
   line means token by token (with -* inside a USE_EXPAND section clearing that prefix) *)
Theorem splitter_is_fold : forall ts o s,
  forallb wf_tok ts = true -> split_line ts = Some o ->
  same_set (out_fold o s) (line_fold None ts s).
Proof. exact splitter_is_fold_proof. Qed.
Print Assumptions splitter_is_fold.

Theorem splitter_rejects : forall ts, split_line ts = None <-> In TBad ts.
Proof. exact splitter_rejects_proof. Qed.
Print Assumptions splitter_rejects.

Theorem class_a_tight_sub : forall pr p, class_a_tight pr p = true -> class_a pr p = true.
Proof. exact class_a_tight_sub_proof. Qed.
Print Assumptions class_a_tight_sub.

(* PARTIAL (full statement line_is_fold_full, refuted by `a -a`): outside class (e) the ONE chunk that
   domain.pkg_use makes of a package.use line means what the line says token by token *)
Theorem line_is_fold_partial : forall ts o s,
  forallb wf_tok ts = true -> split_line ts = Some o -> class_e ts = false ->
  same_set (apply_chunk (to_chunk o) s) (line_fold None ts s).
Proof. exact line_is_fold_partial_proof. Qed.
Print Assumptions line_is_fold_partial.
Theorem line_is_fold_refuted : ~ line_is_fold_full /\ class_e [TPos 10%N; TNeg 10%N] = true.
Proof. exact line_is_fold_refuted_proof. Qed.
Print Assumptions line_is_fold_refuted.
