"""C45 — security advisories flag exactly the vulnerable installed versions (DESIGN §6 C45).

Stream
  entry   one GLSA <package> entry (name, arch, vulnerable ranges, unaffected ranges, every range with
          operator / optional slot / version text) written as a real GLSA XML file into a scratch
          metadata/glsa directory, read back with GlsaDirSet, and every yielded restriction matched
          against a pool of installed packages (versions, revisions, slots, keywords).
            (A)  impl vs Model_C45.run_entry (repaired) and run_entry_orig (pinned tree)
            (B)  impl vs Spec_C45.affected_spec inside Coq (spec_entry_bad, outside the known classes)
            (B') impl vs a GLSA-format reference evaluator in Python (ref_affected)
Table: GlsaDirSet.op_translate is regenerated into coq/gen/Tables_C45.v (fail closed) and the theorem
op_translate_is_glsa re-checks it.
"""

import logging
import os
import sys

from . import tables
from .common import Check, Err, Raw, cN, clist, copt, cstr, cval, impl_call
from .tables import TableError

IMPORTS = ("From Coq Require Import List NArith ZArith Bool.\n"
           "From Verif Require Import Base.Val C01.Model_C01 C04.Model_C04 C44.Model_C44 C45.Model_C45 C45.Spec_C45.")
ANCHORS = ["pkgsets/glsa.py::GlsaDirSet.generate_restrict_from_range",
           "pkgsets/glsa.py::GlsaDirSet.generate_intersects_from_pkg_node",
           "pkgsets/glsa.py::GlsaDirSet.iter_vulnerabilities", "pkgsets/glsa.py::GlsaDirSet.__iter__",
           "pkgsets/glsa.py::GlsaDirSet.op_translate"]

NAMES = ["a/b", "a/c", "d-e/f_g"]
VERS = ["0.5", "1.0", "1.00", "1.0.1", "1.5", "10", "10.1", "2.0", "1.0_p1", "1.0_rc1", "1_beta2", "1.1"]
REVS = ["", "", "", "-r1", "-r2", "-r10", "-r0"]
SLOTS = ["0", "1", "2.1"]
KEYWORDS = [("x86",), ("amd64", "~x86"), ("arm",), (), ("x86", "amd64"), ("~amd64",)]
OPS = ["lt", "le", "eq", "ge", "gt", "rlt", "rle", "rge", "rgt"]
ARCHES = [None, None, None, "*", "x86", "x86 amd64", " arm ", "", "amd64 *", "sparc"]


# --------------------------------------------------------------------------- table
def gen_tables():
    t = tables.parse("pkgsets/glsa.py")
    d = tables.literal(tables.find_assign(t, "op_translate", cls="GlsaDirSet"))
    if not (isinstance(d, dict) and d and all(isinstance(k, str) and isinstance(v, str) for k, v in d.items())):
        raise TableError("GlsaDirSet.op_translate is no longer a literal dict of strings")
    L = [tables.header("pkgsets/glsa.py (GlsaDirSet.op_translate)").rstrip("\n"),
         f"(* {d!r} *)",
         "Definition op_translate : list (str * str) := "
         + clist(["(%s, %s)" % (cstr(k), cstr(v)) for k, v in d.items()], "str * str") + "."]
    return {"Tables_C45.v": "\n".join(L) + "\n"}


# --------------------------------------------------------------------------- Coq literals
def bs(s):
    assert all(32 <= ord(c) < 127 for c in s), s
    return '"' + s.replace('"', '""') + '"%bs'


def obs(s):
    return "None" if s is None else "(Some " + bs(s) + ")"


def c_range(r):
    op, slot, text = r
    return f"(R {bs(op)} {obs(slot)} {obs(text)})"


def c_entry(e):
    name, arch, vuln, unaff = e
    return (f"(E {bs(name)} {obs(arch)} {clist([c_range(r) for r in vuln], 'range')} "
            f"{clist([c_range(r) for r in unaff], 'range')})")


def rev_of(r):
    d = getattr(r, "data", r)
    return None if d in ("", None) else int(d)


def c_ipkg(f):
    return ("(P %s %s %s %s %s %s %s %s %s)"
            % (bs(f["cat"]), bs(f["pkg"]), bs(f["ver"]), copt(f["rev"], cN, "N"), bs(f["fullver"]),
               bs(f["slot"]), bs(f["subslot"]), bs(f["repo"]), clist([bs(k) for k in f["kw"]], "bstr")))


# --------------------------------------------------------------------------- generators
def gen_pool(rng, n):
    from pkgcore.test.misc import FakePkg, FakeRepo
    seen, pkgs, fields = set(), [], []
    fixed = [("a/b", "0.5", "0"), ("a/b", "1.0", "0"), ("a/b", "1.0-r1", "1"), ("a/b", "10", "0"),
             ("a/b", "1.5", "1"), ("a/b", "1.00", "0")]          # the corpus entries' witnesses
    while len(pkgs) < n:
        if fixed:
            name, fv, slot = fixed.pop(0)
        else:
            name = rng.choice(NAMES[:2] if rng.random() < 0.8 else NAMES)
            fv = rng.choice(VERS) + rng.choice(REVS)
            slot = rng.choice(SLOTS)
        if (name, fv, slot) in seen:
            continue
        seen.add((name, fv, slot))
        kw = rng.choice(KEYWORDS)
        p = FakePkg(f"{name}-{fv}", slot=slot, keywords=kw, repo=FakeRepo(repo_id="vdb"))
        pkgs.append(p)
        fields.append({"cat": p.category, "pkg": p.package, "ver": p.version, "rev": rev_of(p.revision),
                       "fullver": p.fullver, "slot": p.slot, "subslot": p.subslot, "repo": "vdb",
                       "kw": list(kw), "revtxt": fv.partition("-r")[2]})
    return pkgs, fields


def gen_range(rng, malformed):
    op = rng.choice(OPS)
    v = rng.choice(VERS)
    text = v + (rng.choice(REVS) if rng.random() < 0.6 else "")
    if op == "eq" and rng.random() < 0.45 or rng.random() < 0.03:
        # a glob: the version, or a truncated spelling of it
        k = rng.random()
        base = v if k < 0.5 else v[:max(1, rng.randrange(len(v)))]
        text = base.rstrip("._-r") + ("" if k < 0.85 else "-r1") + "*"
        if text == "*":
            text = "1*"
    slot = None
    if rng.random() < 0.35:
        slot = rng.choice(SLOTS)
        if rng.random() < 0.1:
            slot = " " + slot + " "
    if rng.random() < 0.1:
        text = " " + text + " "
    if malformed:
        k = rng.random()
        if k < 0.25:
            op = rng.choice(["xx", "", "GE", "g e", "ne", "e", "gte"])
        elif k < 0.4:
            op = " " + op + " "
        elif k < 0.6:
            text = rng.choice(["", "x", "1..0", "1.0-", "-r1", "1.0-r", "*", "1.0**", "1.0 -r1", "1.0-r1-r2", None])
        elif k < 0.8:
            slot = rng.choice(["", " ", "3"])
        else:
            text = (text or "1") .rstrip("*") + "*"          # glob with whatever operator
    return (op, slot, text)


def gen_entry(rng, malformed=False):
    name = rng.choice(NAMES[:2] if rng.random() < 0.85 else NAMES)
    if rng.random() < 0.06:
        name = " " + name + " "
    arch = rng.choice(ARCHES)
    nv = rng.choice([1, 1, 1, 2, 2, 3])
    nu = rng.choice([0, 0, 1, 1, 2, 3])
    which = rng.randrange(nv + nu) if malformed else -1
    rs = [gen_range(rng, i == which) for i in range(nv + nu)]
    if malformed and rng.random() < 0.25:
        k = rng.random()
        if k < 0.3:
            name = rng.choice(["a", "a/b-", "!a/b", "=a/b-1.0", "a/b:1", ">=a/b-1.0-r1", "a/b[x]", ""])
        elif k < 0.5:
            nv = 0
    return (name, arch, rs[:nv], rs[nv:])


def entry_xml(e):
    from xml.sax.saxutils import escape, quoteattr
    name, arch, vuln, unaff = e
    out = ['<?xml version="1.0" encoding="UTF-8"?>\n<glsa id="x"><title>t</title><affected>']
    a = "" if arch is None else f" arch={quoteattr(arch)}"
    out.append(f'<package name={quoteattr(name)} auto="yes"{a}>')
    for tag, rs in (("unaffected", unaff), ("vulnerable", vuln)):
        for op, slot, text in rs:
            s = "" if slot is None else f" slot={quoteattr(slot)}"
            out.append(f"<{tag} range={quoteattr(op)}{s}/>" if text is None or text == ""
                       else f"<{tag} range={quoteattr(op)}{s}>{escape(text)}</{tag}>")
    out.append("</package></affected></glsa>\n")
    return "".join(out)


# --------------------------------------------------------------------------- reference evaluator (B')
GLSA_OPS = {"lt": (False, "<"), "le": (False, "<="), "eq": (False, "=="), "ge": (False, ">="), "gt": (False, ">"),
            "rlt": (True, "<"), "rle": (True, "<="), "rge": (True, ">="), "rgt": (True, ">")}


def _holds(c, rel):
    return {"<": c < 0, "<=": c <= 0, "==": c == 0, ">=": c >= 0, ">": c > 0}[rel]


def _tokens(s):
    """components of a version text: digit runs, letter runs, single other characters"""
    out, cur, kind = [], "", None
    for ch in s:
        k = 0 if ch.isdigit() else (1 if ch.isalpha() else 2)
        if cur and k == kind and k != 2:
            cur += ch
        else:
            if cur:
                out.append(cur)
            cur, kind = ch, k
    if cur:
        out.append(cur)
    return out


def read_range(r):
    """-> dict or None (not GLSA format)"""
    from pkgcore.ebuild import cpv
    op, slot, text = r
    op = op.strip()
    if op not in GLSA_OPS or text is None:
        return None
    rf, rel = GLSA_OPS[op]
    base = text.strip()
    glob = base.endswith("*")
    if glob:
        base = base[:-1]
        if op != "eq":
            return None
    try:
        c = cpv.VersionedCPV("cat/pkg-" + base)
    except Exception:  # noqa: BLE001
        return None
    return {"rf": rf, "rel": rel, "slot": (slot or "").strip(), "ver": c.version, "rev": rev_of(c.revision),
            "fullver": c.fullver, "glob": glob}


def range_sat(w, pf):
    from pkgcore.ebuild import cpv
    if w["slot"] and w["slot"] != pf["slot"]:
        return False
    if w["glob"]:
        g, s = _tokens(w["fullver"]), _tokens(pf["fullver"])
        return s[:len(g)] == g
    if w["rf"]:
        return (cpv.ver_cmp(pf["ver"], None, w["ver"], None) == 0
                and _holds((pf["rev"] or 0) - (w["rev"] or 0), w["rel"]))
    return _holds(cpv.ver_cmp(pf["ver"], cpv.Revision(str(pf["rev"])) if pf["rev"] is not None else None,
                              w["ver"], cpv.Revision(str(w["rev"])) if w["rev"] is not None else None), w["rel"])


def read_entry(e):
    from pkgcore.ebuild.atom import atom
    name, arch, vuln, unaff = e
    try:
        a = atom(name.strip())
    except Exception:  # noqa: BLE001
        return None
    vs, us = [read_range(r) for r in vuln], [read_range(r) for r in unaff]
    if not vs or None in vs or None in us:
        return None
    return a, vs, us


def ref_affected(re_, e, p, pf):
    if re_ is None:
        return False
    a, vs, us = re_
    arch = e[1]
    if arch is not None:
        l = arch.split()
        if l and "*" not in l and not any(x in pf["kw"] for x in l):
            return False
    return (a.match(p) and any(range_sat(w, pf) for w in vs) and not any(range_sat(w, pf) for w in us))


# --------------------------------------------------------------------------- known classes
def _ranges(re_):
    return re_[1] + re_[2]


def cls_rlt_r0(e, re_, pf):
    return re_ is not None and any(w["rf"] and w["rel"] == "<" and w["rev"] is None and not w["glob"]
                                   for w in _ranges(re_))


def cls_glob_prefix(e, re_, pf):
    if re_ is None:
        return False
    for w in _ranges(re_):
        if w["glob"]:
            g, s = _tokens(w["fullver"]), _tokens(pf["fullver"])
            if pf["fullver"].startswith(w["fullver"]) != (s[:len(g)] == g):
                return True
    return False


def cls_unaffected_glob(e, re_, pf):
    return re_ is not None and any(w["glob"] for w in re_[2])


def cls_slot_dropped(e, re_, pf):
    return re_ is not None and any(
        w["slot"] and (w["glob"] or (w["rf"] and w["rel"] in ("<=", ">=") and w["rev"] is None))
        for w in _ranges(re_))


CLASSES = [("rlt-r0-discards-entry", cls_rlt_r0), ("glob-string-prefix", cls_glob_prefix),
           ("unaffected-glob-inverted", cls_unaffected_glob), ("slot-dropped", cls_slot_dropped)]
PINNED_ONLY = ("unaffected-glob-inverted", "slot-dropped")


# --------------------------------------------------------------------------- main
def run_entries(entries, pool, scratch):
    """-> per entry: None (nothing yielded) or the match bits over the pool"""
    from pkgcore.pkgsets import glsa
    d = scratch / "repo" / "metadata" / "glsa"
    d.mkdir(parents=True, exist_ok=True)
    for f in d.iterdir():
        f.unlink()
    for i, e in enumerate(entries):
        (d / f"glsa-{200000 + i}-01.xml").write_text(entry_xml(e))
    (d / "timestamp.chk").write_text("x\n")
    out = [None] * len(entries)
    for r in glsa.GlsaDirSet(str(d)):
        tag = r.restrictions[1].tag            # "glsa(2000NN-01)"
        i = int(tag[5:].split("-")[0]) - 200000
        bits = "".join("1" if r.match(p) else "0" for p in pool)
        if out[i] is not None:                 # never: one entry per file
            out[i] = "dup"
        else:
            out[i] = bits
    return out


def main(chk: Check):
    logging.disable(logging.CRITICAL)
    chk.rule("random GLSA <package> entries (1-3 vulnerable, 0-3 unaffected ranges over all nine operators, "
             "45% of eq ranges globbed, 35% slotted, arch lists) as real XML files read by GlsaDirSet, against "
             "a random pool of installed packages (3 names, 12 versions x 7 revision spellings, 3 slots, "
             "6 keyword sets); separate malformed stream (bad operator / version / glob operator / name / no "
             "vulnerable node); non-trivial = the entry yields a restriction that flags a non-empty proper "
             "subset of the pool packages of its name")
    try:
        tables.regenerate(sys.modules[__name__])
    except TableError as e:
        chk.violation("table", {"what": "cannot regenerate Tables_C45.v from pkgsets/glsa.py", "error": str(e)},
                      no_input=True)
    ok = chk.build(["C45/Prop_C45.vo"])
    if ok:
        chk.check_assumptions("C45/Prop_C45.v")
    chk.lint(["C45"])
    chk.check_fingerprint(ANCHORS)
    rng = chk.rng
    quick = os.environ.get("VERIF_C45_QUICK") == "1" and not chk.thorough

    def budget(q, t):
        return q if quick else chk.n(q, t)

    pool, pool_f = gen_pool(rng, budget(40, 70))
    pool_def = "Definition pool : list ipkg := " + clist([c_ipkg(f) for f in pool_f], "ipkg") + ".\n"

    entries = []
    import json
    from .common import VERIF
    cdir = VERIF / "corpus" / "C45"
    if cdir.is_dir():
        for f in sorted(cdir.glob("*.json")):
            for e in json.loads(f.read_text()).get("entries", []):
                entries.append(((e[0], e[1], [tuple(r) for r in e[2]], [tuple(r) for r in e[3]]), "corpus"))
    for _ in range(budget(420, 5000)):
        entries.append((gen_entry(rng), "valid"))
    for _ in range(budget(140, 1500)):
        entries.append((gen_entry(rng, True), "malformed"))

    res = impl_call(lambda: run_entries([e for e, _ in entries], pool, chk.scratch))
    if isinstance(res, Err):
        chk.violation("property", {"what": "GlsaDirSet raised while reading generated advisories", "error": res.kind,
                                   "input": "see stream entry"}, no_input=True)
        return
    cases, prop_bad, shapes = [], [], {}
    for (e, stream), bits in zip(entries, res):
        cases.append((c_entry(e), Raw("VNone" if bits is None else f"(VS (s2l {bs(bits)}))")))
        chk.count("entry:" + stream)
        k = stream + (":none" if bits is None else "")
        shapes[k] = shapes.get(k, 0) + 1
        for r in e[2] + e[3]:
            shapes["op:" + r[0].strip()] = shapes.get("op:" + r[0].strip(), 0) + 1
        re_ = read_entry(e)
        if bits is not None and bits != "dup":
            named = [b for b, pf in zip(bits, pool_f) if f"{pf['cat']}/{pf['pkg']}" == e[0].strip()]
            if "0" in named and "1" in named:
                chk.nontrivial(repr(e))
        for i, (p, pf) in enumerate(zip(pool, pool_f)):
            if re_ is None:
                break            # not GLSA format: the statement says nothing (the model still has to agree, A)
            want = ref_affected(re_, e, p, pf)
            got = bits is not None and bits != "dup" and bits[i] == "1"
            if want != got:
                prop_bad.append({"what": "flagged" if got else "not flagged", "entry": e, "package": pf,
                                 "expected_by_GLSA_reference": want, "implementation": got})
                break            # one witness per entry
    chk.cov["shapes"] = shapes
    for x in cases[::max(1, len(cases) // 5)][:5]:
        chk.sample({"stream": "entry", "input": x[0], "impl": x[1].term[:200]})

    # ---- Coq
    a_bad, spec_bad = [], []
    if ok:
        r = chk.coq_eval("entry", IMPORTS, "entry", cases,
                         ["mismatches (run_entry pool) cases", "mismatches (run_entry_orig pool) cases",
                          "where_ (spec_entry_bad false pool) cases", "where_ (spec_entry_bad true pool) cases",
                          "where_ (versions_bad pool) cases"], shard=300, preamble=pool_def)
        if r is not None:
            fixed_bad, orig_bad, spec_fixed, spec_orig, revs = (set(x) for x in r)
            pinned_listed = all(c in chk.known for c in PINNED_ONLY)
            for i in sorted(fixed_bad):
                e = entries[i][0]
                re_ = read_entry(e)
                if (i not in orig_bad and pinned_listed
                        and (cls_unaffected_glob(e, re_, None) or cls_slot_dropped(e, re_, None))):
                    continue          # explained by the pinned-tree model; reported through (B) below
                a_bad.append(i)
            for i in sorted(spec_fixed if not pinned_listed else spec_orig):
                spec_bad.append(i)
            for i in sorted(revs)[:3]:
                chk.violation("correspondence",
                              {"what": "premise versions_valid of affected_is_spec_partial fails on a generated case "
                                       "(a version accepted by the CPV parser is not a valid version of C01's grammar)",
                               "input": cases[i][0]}, no_input=True)

    # ---- report
    reported = 0
    for b in prop_bad:
        e, pf = b["entry"], b["package"]
        re_ = read_entry(e)
        cid = next((c for c, f in CLASSES if f(e, re_, pf)), None)
        if cid is not None and chk.known_finding(cid, b):
            continue
        if reported < 3:
            chk.violation("property", {"what": "package " + b["what"] + " although the GLSA reference evaluator says "
                                               + ("affected" if b["expected_by_GLSA_reference"] else "not affected"),
                                       "input": b})
            reported += 1
    for i in spec_bad[:3]:
        chk.violation("property", {"what": "Spec_C45.affected_spec disagrees with the implementation outside the "
                                           "known classes", "input": cases[i][0], "implementation": cases[i][1].term})
    for i in a_bad[:3]:
        chk.violation("correspondence",
                      {"what": "implementation and Model_C45 disagree on stream 'entry' (theorems of Prop_C45 no "
                               "longer speak about this code)",
                       "input": cases[i][0], "implementation": cases[i][1].term},
                      no_input=not (reported or spec_bad))


def replay(chk, data):
    logging.disable(logging.CRITICAL)
    inp = data.get("detail", {}).get("input")
    if isinstance(inp, dict) and "entry" in inp:
        e = inp["entry"]
        e = (e[0], e[1], [tuple(r) for r in e[2]], [tuple(r) for r in e[3]])
        from pkgcore.test.misc import FakePkg
        pf = inp["package"]
        p = FakePkg(f"{pf['cat']}/{pf['pkg']}-{pf['fullver']}", slot=pf["slot"], keywords=tuple(pf["kw"]))
        print("xml:", entry_xml(e))
        print("implementation flags:", run_entries([e], [p], chk.scratch))
        print("reference:", ref_affected(read_entry(e), e, p, pf))
