(* Model_C28.v — Manifest generation (pkgcore/ebuild/digest.py), transcribed.

   _manifest_line            -> manifest_line      (size first, other checksums sorted, upper-cased
                                                    names, zero-padded lower-case hex)
   Manifest.update           -> classify / picks / update_text (scan classification, the four sorted
                                sections AUX DIST EBUILD MISC, thin mode), read_nl + update_ops
                                (compare with the file read in text mode; then the REPAIRED write:
                                AtomicWriteFile = open(".update.Manifest","w"); write; rename)
   parse_manifest            -> parse_text          (ignore_gpg=False, as Manifest._pull_manifest calls it)
   [update_ops_inplace] is the write of the unrepaired code (open(path,"w")): kept for the refutation.

   Strings are code points.  The file data of C18.Fs is a [list N]; here it holds the code points of
   the text (the UTF-8 encoding done by the text layer is injective and is not modelled).
   ASCII-only: upper()/lower() and int() are modelled on ASCII letters/digits (the generator only
   produces ASCII checksum names and digits; file names may be any code points).
   No proofs in this file. *)
From Coq Require Import List NArith ZArith Bool.
From Coq Require Strings.Byte.
Import ListNotations.
From Verif Require Import Base.Val C18.Fs.
Open Scope N_scope.

Inductive res (A : Type) : Type := Ok (a : A) | Fail (kind : str).
Arguments Ok {A} a.
Arguments Fail {A} kind.

(* ---------------------------------------------------------------- byte-string literals *)
Inductive bstr := BS (l : list Byte.byte).
Definition bs_parse (l : list Byte.byte) : bstr := BS l.
Definition bs_print (b : bstr) : list Byte.byte := match b with BS l => l end.
Declare Scope bs_scope.
Delimit Scope bs_scope with bs.
String Notation bstr bs_parse bs_print : bs_scope.
Definition s2l (b : bstr) : str := match b with BS l => map Byte.to_N l end.

(* ---------------------------------------------------------------- strings *)
(* Python's str < : lexicographic on code points, a proper prefix is smaller *)
Fixpoint str_ltb (a b : str) : bool :=
  match a, b with
  | _, [] => false
  | [], _ :: _ => true
  | x :: a', y :: b' => if x <? y then true else if y <? x then false else str_ltb a' b'
  end.
Definition str_leb (a b : str) : bool := negb (str_ltb b a).

Section Sort.
  Context {A : Type} (key : A -> str).
  (* sorted(l, key=key): stable insertion sort *)
  Fixpoint insert (x : A) (l : list A) : list A :=
    match l with
    | [] => [x]
    | y :: r => if str_leb (key x) (key y) then x :: l else y :: insert x r
    end.
  Definition sort_by (l : list A) : list A := fold_right insert [] l.
End Sort.

Definition upper_c (c : N) : N := if (97 <=? c) && (c <=? 122) then c - 32 else c.
Definition lower_c (c : N) : N := if (65 <=? c) && (c <=? 90) then c + 32 else c.
Definition upper (s : str) : str := map upper_c s.
Definition lower (s : str) : str := map lower_c s.

Fixpoint starts_with (p s : str) : bool :=
  match p, s with
  | [], _ => true
  | x :: p', y :: s' => (x =? y) && starts_with p' s'
  | _ :: _, [] => false
  end.
Definition ends_with (p s : str) : bool := starts_with (rev p) (rev s).

(* s.split(c): always at least one field *)
Fixpoint split_on_aux (c : N) (cur : str) (s : str) : list str :=
  match s with
  | [] => [rev cur]
  | x :: r => if x =? c then rev cur :: split_on_aux c [] r else split_on_aux c (x :: cur) r
  end.
Definition split_on (c : N) (s : str) : list str := split_on_aux c [] s.

Definition basename (s : str) : str := last (split_on 47 s) [].

Fixpoint assoc {B} (k : str) (l : list (str * B)) : option B :=
  match l with
  | [] => None
  | (k', v) :: r => if str_eqb k k' then Some v else assoc k r
  end.
(* d[k] = v on an insertion-ordered dict *)
Fixpoint dset {B} (k : str) (v : B) (d : list (str * B)) : list (str * B) :=
  match d with
  | [] => [(k, v)]
  | (k', v') :: r => if str_eqb k k' then (k, v) :: r else (k', v') :: dset k v r
  end.

(* ---------------------------------------------------------------- numbers *)
Fixpoint digits_lsb (b : N) (fuel : nat) (n : N) : list N :=
  match fuel with
  | O => []
  | S f => if n =? 0 then [] else (n mod b) :: digits_lsb b f (n / b)
  end.
Definition digit_char (d : N) : N := if d <? 10 then 48 + d else 87 + d.
Definition to_base (b : N) (n : N) : str :=
  if n =? 0 then [48] else map digit_char (rev (digits_lsb b (N.to_nat (N.size n)) n)).
Definition dec (n : N) : str := to_base 10 n.
(* "%x" % n, computed on the binary representation (no division: the values have 512 bits) *)
Fixpoint pos_bits (p : positive) : list bool :=      (* least significant first *)
  match p with
  | xH => [true]
  | xO q => false :: pos_bits q
  | xI q => true :: pos_bits q
  end.
Definition b2n (b : bool) : N := if b then 1 else 0.
Fixpoint nibbles (l : list bool) : list N :=         (* least significant first *)
  match l with
  | b0 :: b1 :: b2 :: b3 :: r => (b2n b0 + 2 * b2n b1 + 4 * b2n b2 + 8 * b2n b3) :: nibbles r
  | [b0; b1; b2] => [b2n b0 + 2 * b2n b1 + 4 * b2n b2]
  | [b0; b1] => [b2n b0 + 2 * b2n b1]
  | [b0] => [b2n b0]
  | [] => []
  end.
Definition hex (n : N) : str :=
  match n with
  | N0 => [48]
  | Npos p => map digit_char (rev (nibbles (pos_bits p)))
  end.
Definition rjust0 (w : nat) (s : str) : str := repeat 48 (w - length s) ++ s.

(* int(s, base) for base 10 / 16 on ASCII: sign, optional 0x prefix (base 16), digits with single
   underscores between them *)
Definition digit_val (b c : N) : option N :=
  let d := if (48 <=? c) && (c <=? 57) then Some (c - 48)
           else if (97 <=? c) && (c <=? 122) then Some (c - 87)
           else if (65 <=? c) && (c <=? 90) then Some (c - 55)
           else None in
  match d with Some v => if v <? b then Some v else None | None => None end.
Fixpoint digits_val (b acc : N) (need_digit : bool) (s : str) : option N :=
  match s with
  | [] => if need_digit then None else Some acc
  | c :: r =>
      if c =? 95 then (if need_digit then None else digits_val b acc true r)
      else match digit_val b c with
           | Some d => digits_val b (acc * b + d) false r
           | None => None
           end
  end.
Definition strip_prefix16 (s : str) : str :=
  match s with
  | 48 :: x :: r => if (x =? 120) || (x =? 88)
                    then match r with 95 :: r' => r' | _ => r end
                    else s
  | _ => s
  end.
Definition py_int (b : N) (s : str) : option Z :=
  let '(neg, s1) := match s with
                    | 43 :: r => (false, r)
                    | 45 :: r => (true, r)
                    | _ => (false, s)
                    end in
  let s2 := if b =? 16 then strip_prefix16 s1 else s1 in
  match digits_val b 0 true s2 with
  | Some n => Some (if neg then (- Z.of_N n)%Z else Z.of_N n)
  | None => None
  end.

(* ---------------------------------------------------------------- constants *)
Definition SIZE : str := s2l "size"%bs.
Definition T_AUX : str := s2l "AUX"%bs.
Definition T_DIST : str := s2l "DIST"%bs.
Definition T_EBUILD : str := s2l "EBUILD"%bs.
Definition T_MISC : str := s2l "MISC"%bs.
Definition E_KEY : str := s2l "KeyError"%bs.
Definition E_HANDLER : str := s2l "MissingChksumHandler"%bs.
Definition E_VALUE : str := s2l "ValueError"%bs.
Definition E_PARSE : str := s2l "ParseChksumError"%bs.
Definition FILESDIR : str := s2l "/files/"%bs.
Definition EBUILD_EXT : str := s2l ".ebuild"%bs.
Definition MANIFEST : str := s2l "Manifest"%bs.
Definition TMPNAME : str := s2l ".update.Manifest"%bs.
Definition EXCLUDES : list str := [s2l "CVS"%bs; s2l ".svn"%bs; MANIFEST; TMPNAME].

(* snakeoil.chksum handlers: length of the hex rendering *)
Definition chf_table : list (str * nat) :=
  [(s2l "blake2b"%bs, 128%nat); (s2l "blake2s"%bs, 64%nat); (s2l "md5"%bs, 32%nat);
   (s2l "rmd160"%bs, 40%nat); (s2l "sha1"%bs, 40%nat); (s2l "sha256"%bs, 64%nat);
   (s2l "sha3_256"%bs, 64%nat); (s2l "sha3_512"%bs, 128%nat); (s2l "sha512"%bs, 128%nat)
  ].
Definition chf_width (c : str) : option nat := assoc c chf_table.

(* ---------------------------------------------------------------- rendering *)
Definition chks := list (str * N).
Definition entry := (str * chks)%type.

Fixpoint render_chfs (l : chks) : res str :=
  match l with
  | [] => Ok []
  | (c, v) :: r =>
      match chf_width c with
      | None => Fail E_HANDLER
      | Some w => match render_chfs r with
                  | Ok t => Ok (32 :: upper c ++ 32 :: rjust0 w (hex v) ++ t)
                  | Fail k => Fail k
                  end
      end
  end.
Definition not_size (e : str * N) : bool := negb (str_eqb (fst e) SIZE).
(* _manifest_line *)
Definition manifest_line (ty name : str) (ck : chks) : res str :=
  match assoc SIZE ck with
  | None => Fail E_KEY
  | Some sz =>
      match render_chfs (sort_by fst (filter not_size ck)) with
      | Ok t => Ok (upper ty ++ 32 :: name ++ 32 :: dec sz ++ t ++ [10])
      | Fail k => Fail k
      end
  end.
Fixpoint concat_res (l : list (res str)) : res str :=
  match l with
  | [] => Ok []
  | Fail k :: _ => Fail k
  | Ok s :: r => match concat_res r with Ok t => Ok (s ++ t) | Fail k => Fail k end
  end.
Definition rapp (a b : res str) : res str :=
  match a with
  | Fail k => Fail k
  | Ok s => match b with Ok t => Ok (s ++ t) | Fail k => Fail k end
  end.
Definition section (ty : str) (nm : str -> str) (l : list entry) : res str :=
  concat_res (map (fun e => manifest_line ty (nm (fst e)) (snd e)) (sort_by fst l)).
Definition manifest_text (aux dist ebuild misc : list entry) : res str :=
  rapp (section T_AUX (fun n => n) aux)
       (rapp (section T_DIST basename dist)
             (rapp (section T_EBUILD (fun n => n) ebuild) (section T_MISC (fun n => n) misc))).

(* ---------------------------------------------------------------- scan classification *)
Record scanned := Scanned { s_loc : str; s_reg : bool; s_cks : chks }.
Inductive cls := CSkip | CAux (n : str) | CEbuild (n : str) | CMisc (n : str) | CBad.

Definition excluded (loc : str) : bool :=
  existsb (fun comp => existsb (str_eqb comp) EXCLUDES) (split_on 47 loc).
(* obj.dirname == "/" *)
Definition top_level (loc : str) : bool :=
  match loc with
  | 47 :: r => negb (existsb (N.eqb 47) r)
  | _ => false
  end.
Definition classify (o : scanned) : cls :=
  if negb (s_reg o) then CSkip
  else if excluded (s_loc o) then CSkip
  else if starts_with FILESDIR (s_loc o) then CAux (skipn 7 (s_loc o))
  else if top_level (s_loc o) then
         (if ends_with EBUILD_EXT (s_loc o) then CEbuild (skipn 1 (s_loc o)) else CMisc (skipn 1 (s_loc o)))
  else CBad.
Definition aux_of (c : cls) : option str := match c with CAux n => Some n | _ => None end.
Definition ebuild_of (c : cls) : option str := match c with CEbuild n => Some n | _ => None end.
Definition misc_of (c : cls) : option str := match c with CMisc n => Some n | _ => None end.
Definition picks (f : cls -> option str) (scan : list scanned) : list entry :=
  fold_left (fun d o => match f (classify o) with Some n => dset n (s_cks o) d | None => d end) scan [].
Definition has_bad (scan : list scanned) : bool :=
  existsb (fun o => match classify o with CBad => true | _ => false end) scan.

(* the text Manifest.update computes; None = thin manifest without distfiles (nothing to do) *)
Definition update_text (thin : bool) (scan : list scanned) (fetch : list entry) : res (option str) :=
  if thin && (match fetch with [] => true | _ => false end) then Ok None
  else if negb thin && has_bad scan then Fail E_VALUE
  else
    let r := if thin then manifest_text [] fetch [] []
             else manifest_text (picks aux_of scan) fetch (picks ebuild_of scan) (picks misc_of scan) in
    match r with Ok t => Ok (Some t) | Fail k => Fail k end.

(* ---------------------------------------------------------------- the write *)
(* handle.read() in text mode: universal newlines *)
Fixpoint read_nl (s : str) : str :=
  match s with
  | [] => []
  | 13 :: (10 :: r') => 10 :: read_nl r'
  | 13 :: r => 10 :: read_nl r
  | c :: r => c :: read_nl r
  end.

Definition P : path := [MANIFEST].
Definition TMP : path := [TMPNAME].
Definition file_data (s : fs) (p : path) : option str :=
  match lookup s p with Some (File d _ _ _ _ _) => Some d | _ => None end.

Fixpoint chunks_fuel (fuel n : nat) (s : str) : list str :=
  match fuel with
  | O => []
  | S f => match s with [] => [] | _ => firstn n s :: chunks_fuel f n (skipn n s) end
  end.
(* the write() calls as the harness splits them: n = 0 -> one call *)
Definition chunks_of (n : nat) (s : str) : list str :=
  match n with
  | O => match s with [] => [] | _ => [s] end
  | _ => chunks_fuel (length s) n s
  end.

(* AtomicWriteFile(path): open(tmp, "w") creates the temporary or truncates a stale one *)
Definition open_tmp (s : fs) (mode : N) : op :=
  match lookup s TMP with
  | Some (File _ _ _ _ _ _) => Truncate TMP
  | _ => Create TMP mode
  end.
Definition write_ops (s : fs) (mode : N) (chunk : nat) (data : str) : list op :=
  open_tmp s mode :: appends TMP (chunks_of chunk data) ++ [Rename TMP P].
(* the unrepaired write: with open(self.path, "w") as handle: handle.write(data) *)
Definition write_ops_inplace (s : fs) (mode : N) (chunk : nat) (data : str) : list op :=
  (match lookup s P with Some (File _ _ _ _ _ _) => Truncate P | _ => Create P mode end)
    :: appends P (chunks_of chunk data).

Record uin := Uin { u_thin : bool; u_scan : list scanned; u_fetch : list entry; u_mode : N; u_chunk : nat }.

Definition update_with (w : fs -> N -> nat -> str -> list op) (i : uin) (s : fs) : res (bool * list op) :=
  match update_text (u_thin i) (u_scan i) (u_fetch i) with
  | Fail k => Fail k
  | Ok None => Ok (false, [])
  | Ok (Some data) =>
      match file_data s P with
      | Some old => if str_eqb (read_nl old) data then Ok (false, [])
                    else Ok (true, w s (u_mode i) (u_chunk i) data)
      | None => Ok (true, w s (u_mode i) (u_chunk i) data)
      end
  end.
Definition update_ops : uin -> fs -> res (bool * list op) := update_with write_ops.
Definition update_ops_inplace : uin -> fs -> res (bool * list op) := update_with write_ops_inplace.
Definition ops_of (r : res (bool * list op)) : list op := match r with Ok (_, l) => l | Fail _ => [] end.

(* an OSError raised by call k: AtomicWriteFile.discard() unlinks the temporary once it exists *)
Definition eio_ops (ops : list op) (k : nat) : list op :=
  firstn k ops ++ match k with O => [] | _ => [Unlink TMP] end.

(* ---------------------------------------------------------------- parse_manifest *)
Definition is_space (c : N) : bool :=
  ((9 <=? c) && (c <=? 13)) || ((28 <=? c) && (c <=? 32)) || (c =? 133) || (c =? 160) || (c =? 5760)
  || ((8192 <=? c) && (c <=? 8202)) || (c =? 8232) || (c =? 8233) || (c =? 8239) || (c =? 8287)
  || (c =? 12288).
(* str.split() *)
Fixpoint split_ws_aux (cur : str) (s : str) : list str :=
  match s with
  | [] => match cur with [] => [] | _ => [rev cur] end
  | c :: r => if is_space c
              then match cur with [] => split_ws_aux [] r | _ => rev cur :: split_ws_aux [] r end
              else split_ws_aux (c :: cur) r
  end.
Definition split_ws (s : str) : list str := split_ws_aux [] s.
(* iteration over a text-mode file: lines end at \n, \r or \r\n; the empty line between a \r and
   a \n is skipped by the parser like every blank line *)
Fixpoint lines_aux (cur : str) (s : str) : list str :=
  match s with
  | [] => [rev cur]
  | c :: r => if (c =? 10) || (c =? 13) then rev cur :: lines_aux [] r else lines_aux (c :: cur) r
  end.
Definition lines (s : str) : list str := lines_aux [] s.

Definition pentry := (str * list (str * Z))%type.
Record pm := Pm { p_dist : list pentry; p_aux : list pentry; p_ebuild : list pentry; p_misc : list pentry }.
Definition pm_empty : pm := Pm [] [] [] [].

(* convert_chksums over zip(i, i) *)
Fixpoint conv_pairs (l : list str) (acc : list (str * Z)) : option (list (str * Z)) :=
  match l with
  | c :: v :: r =>
      let c' := lower c in
      if str_eqb c' SIZE then conv_pairs r acc
      else match py_int 16 v with
           | Some z => conv_pairs r (dset c' z acc)
           | None => None
           end
  | _ => Some acc
  end.
Definition has_key {B} (k : str) (d : list (str * B)) : bool :=
  match assoc k d with Some _ => true | None => false end.
Definition parse_entry (d : list pentry) (toks : list str) : option (list pentry) :=
  match toks with
  | _ :: name :: sz :: rest =>
      if Nat.even (length rest) then
        if has_key name d then None
        else match py_int 10 sz with
             | Some n => match conv_pairs rest [(SIZE, n)] with
                         | Some cks => Some (d ++ [(name, cks)])
                         | None => None
                         end
             | None => None
             end
      else None
  | _ => None
  end.
Definition parse_line (m : pm) (toks : list str) : option pm :=
  match toks with
  | [] => Some m
  | ty :: _ =>
      if str_eqb ty T_DIST then option_map (fun d => Pm d (p_aux m) (p_ebuild m) (p_misc m)) (parse_entry (p_dist m) toks)
      else if str_eqb ty T_AUX then option_map (fun d => Pm (p_dist m) d (p_ebuild m) (p_misc m)) (parse_entry (p_aux m) toks)
      else if str_eqb ty T_EBUILD then option_map (fun d => Pm (p_dist m) (p_aux m) d (p_misc m)) (parse_entry (p_ebuild m) toks)
      else if str_eqb ty T_MISC then option_map (fun d => Pm (p_dist m) (p_aux m) (p_ebuild m) d) (parse_entry (p_misc m) toks)
      else None
  end.
Fixpoint parse_lines (m : pm) (ls : list str) : option pm :=
  match ls with
  | [] => Some m
  | l :: r => match parse_line m (split_ws l) with Some m' => parse_lines m' r | None => None end
  end.
Definition parse_text (t : str) : option pm := parse_lines pm_empty (lines t).

(* ---------------------------------------------------------------- encoders for the harness *)
(* Text travels in byte-string literals; a backslash introduces an escaped code point
   \HEX. (lower-case hex digits, terminated by a dot). *)
Fixpoint unesc_aux (fuel : nat) (s : str) : str :=
  match fuel with
  | O => []
  | S f =>
      match s with
      | [] => []
      | 92 :: r =>
          let fix take (acc : N) (t : str) : N * str :=
            match t with
            | [] => (acc, [])
            | c :: t' => if c =? 46 then (acc, t')
                         else match digit_val 16 c with
                              | Some d => take (acc * 16 + d) t'
                              | None => (acc, t')
                              end
            end in
          let '(cp, rest) := take 0 r in cp :: unesc_aux f rest
      | c :: r => c :: unesc_aux f r
      end
  end.
Definition unesc (s : str) : str := unesc_aux (S (length s)) s.
Definition VT (s : bstr) : val := VS (unesc (s2l s)).

Definition hexval (s : str) : N := match digits_val 16 0 true s with Some n => n | None => 0 end.
Definition decnat (s : str) : nat := match digits_val 10 0 true s with Some n => N.to_nat n | None => O end.
Fixpoint dec_chks (l : list str) : chks :=
  match l with
  | c :: v :: r => (unesc c, hexval v) :: dec_chks r
  | _ => []
  end.
(* entry = "=" name;chf;hex;chf;hex... *)
Definition dec_entry (s : str) : entry :=
  match split_on 59 s with
  | n :: r => (unesc (skipn 1 n), dec_chks r)
  | [] => ([], [])
  end.
(* scanned object = kind;loc;chf;hex;...   kind "r" = regular file *)
Definition dec_scanned (s : str) : scanned :=
  match split_on 59 s with
  | k :: loc :: r => Scanned (unesc loc) (str_eqb k [114]) (dec_chks r)
  | _ => Scanned [] false []
  end.
Definition dec_list {A} (f : str -> A) (s : str) : list A :=
  match s with [] => [] | _ => map f (split_on 124 s) end.
Definition dec_opt (s : str) : option str :=
  match s with 43 :: r => Some (unesc r) | _ => None end.

(* update case:  T @ mode(hex) @ chunk(dec) @ old @ stale @ scan @ fetch
   T = "t" thin | "f" thick; old/stale = "-" absent | "+" text *)
Definition mkfile (d : str) (ino : N) : node := File d 420 ME ME 0%Z ino.
Definition mkfs (old stale : option str) : fs :=
  (match old with Some d => [(P, mkfile d 1)] | None => [] end)
  ++ (match stale with Some d => [(TMP, mkfile d 2)] | None => [] end).
Definition dec_update (b : bstr) : uin * fs :=
  match split_on 64 (s2l b) with
  | [t; mode; chunk; old; stale; scan; fetch] =>
      (Uin (str_eqb t [116]) (dec_list dec_scanned scan) (dec_list dec_entry fetch) (hexval mode) (decnat chunk),
       mkfs (dec_opt old) (dec_opt stale))
  | _ => (Uin false [] [] 0 O, [])
  end.

Definition enc_opt (o : option str) : val := match o with Some d => VS d | None => VNone end.
Definition path_id (p : path) : Z :=
  if path_eq_dec p P then 0%Z else if path_eq_dec p TMP then 1%Z else 2%Z.
Definition enc_op (o : op) : val :=
  match o with
  | Create p m => VL [VZ 0; VZ (path_id p); VZ (Z.of_N m)]
  | Truncate p => VL [VZ 1; VZ (path_id p)]
  | Append p d => VL [VZ 2; VZ (path_id p); VS d]
  | Rename a b => VL [VZ 3; VZ (path_id a); VZ (path_id b)]
  | Unlink p => VL [VZ 4; VZ (path_id p)]
  | _ => VL [VZ 9]
  end.
(* a file content, coded against the old Manifest and the new text to keep the cases small:
   None | 1 = the old Manifest content | 2 = the new text | the data itself *)
Definition enc_data (old new : option str) (o : option str) : val :=
  match o with
  | None => VNone
  | Some d =>
      let is_new := match new with Some t => str_eqb d t | None => false end in
      match old with
      | Some od => if str_eqb d od then VZ 1 else if is_new then VZ 2 else VS d
      | None => if is_new then VZ 2 else VS d
      end
  end.
Definition enc_state (old new : option str) (s : fs) : val :=
  VL [enc_data old new (file_data s P); enc_data old new (file_data s TMP)].
(* stream "update": written?, ops, the state after every crash prefix k = 0..n, the state after
   an OSError at call k = 0..n-1 (with the discard) *)
Definition run_update_with (w : fs -> N -> nat -> str -> list op) (b : bstr) : val :=
  let '(i, s) := dec_update b in
  match update_with w i s with
  | Fail k => VErr k
  | Ok (wr, ops) =>
      let old := file_data s P in
      let new := match update_text (u_thin i) (u_scan i) (u_fetch i) with Ok o => o | Fail _ => None end in
      VL [VB wr; VL (map enc_op ops);
          VL (map (fun k => enc_state old new (run (firstn k ops) s)) (seq 0 (S (length ops))));
          VL (map (fun k => enc_state old new (run (eio_ops ops k) s)) (seq 0 (length ops)))]
  end.
Definition run_update : bstr -> val := run_update_with write_ops.

(* stream "text": the text alone *)
Definition run_text (b : bstr) : val :=
  let '(i, _) := dec_update b in
  match update_text (u_thin i) (u_scan i) (u_fetch i) with
  | Fail k => VErr k
  | Ok None => VNone
  | Ok (Some t) => VS t
  end.

(* stream "parse": the parsed content shown as text: sections joined by TAB, entries by LF,
   fields by SP; numbers in hex *)
Definition show_z (z : Z) : str :=
  match z with
  | Zneg p => 45 :: hex (Npos p)
  | _ => hex (Z.to_N z)
  end.
Fixpoint join (sep : N) (l : list str) : str :=
  match l with
  | [] => []
  | [x] => x
  | x :: r => x ++ sep :: join sep r
  end.
Definition show_pentry (e : pentry) : str :=
  join 32 (fst e :: flat_map (fun kv => [fst kv; show_z (snd kv)]) (snd e)).
Definition show_pm (m : pm) : str :=
  join 9 (map (fun d => join 10 (map show_pentry d)) [p_dist m; p_aux m; p_ebuild m; p_misc m]).
Definition run_parse (b : bstr) : val :=
  match parse_text (unesc (s2l b)) with
  | Some m => VS (show_pm m)
  | None => VErr E_PARSE
  end.

(* stream "line": _manifest_line   ty @ entry *)
Definition run_line (b : bstr) : val :=
  match split_on 64 (s2l b) with
  | [ty; e] => let '(n, ck) := dec_entry e in
               match manifest_line (unesc ty) n ck with Ok t => VS t | Fail k => VErr k end
  | _ => VNone
  end.

(* all streams in one cases file: (stream tag, case) *)
Definition run_any (p : nat * bstr) : val :=
  match fst p with
  | 0%nat => run_line (snd p)
  | 1%nat => run_text (snd p)
  | 2%nat => run_update (snd p)
  | _ => run_parse (snd p)
  end.
