(* Model_C38.v — executable model of pkgcore.bugzilla.pkglist (src/pkgcore/bugzilla/pkglist.py):
   PackageList._parse / entries, PackageListEntry.with_keywords, PackageList.build,
   PackageList.expand, and the rendering "".join(raw + eol).  No proofs here.

   Strings are code-point lists.  [isspace] is Python's str.isspace / re `\s` / str.split()
   class and [is_lb] is the set of characters str.splitlines() breaks on; the harness checks
   both against the running interpreter for EVERY code point 0..0x10FFFF on each run, so the
   model's character classes are Python's on the whole alphabet.

   Package specs are opaque tokens: [aof : str -> option str] (atom-of) maps the first token
   of a line to the canonical text of the atom parse_atom() returns, None = MalformedAtom.
   The harness supplies it as a table built by calling parse_atom on every first token. *)
From Coq Require Import List NArith ZArith Bool.
Import ListNotations.
From Verif Require Import Base.Val.
Local Open Scope N_scope.

(* ------------------------------------------------------------------ character classes *)
(* str.splitlines(): \n \v \f \r \x1c \x1d \x1e \x85 U+2028 U+2029 *)
Definition is_lb (c : N) : bool :=
  ((10 <=? c) && (c <=? 13)) || ((28 <=? c) && (c <=? 30))
  || (c =? 133) || (c =? 8232) || (c =? 8233).
(* str.isspace(): \t \n \v \f \r \x1c-\x1f ' ' \x85 U+00A0 U+1680 U+2000-U+200A U+2028 U+2029
   U+202F U+205F U+3000 *)
Definition isspace (c : N) : bool :=
  ((9 <=? c) && (c <=? 13)) || ((28 <=? c) && (c <=? 32))
  || (c =? 133) || (c =? 160) || (c =? 5760) || ((8192 <=? c) && (c <=? 8202))
  || (c =? 8232) || (c =? 8233) || (c =? 8239) || (c =? 8287) || (c =? 12288).
Definition is_crlf (c : N) : bool := (c =? 13) || (c =? 10).

Definition HASH : N := 35.   (* '#' *)
Definition SP : N := 32.     (* ' ' *)
Definition LF : N := 10.
Definition CR : N := 13.
Definition ALL_KW : str := [42].   (* "*"  ALL_KEYWORDS  *)
Definition SAME_KW : str := [94].  (* "^"  SAME_KEYWORDS *)
Definition NO_KW : str := [45].    (* "-"  NO_KEYWORDS   *)

Definition null {A} (l : list A) : bool := match l with [] => true | _ => false end.
Definition hd_is (c : N) (s : str) : bool := match s with d :: _ => d =? c | [] => false end.

(* ------------------------------------------------------------------ str.splitlines(keepends=True) *)
(* [c] ends its line unless it is the \r of a \r\n pair *)
Definition ends_line (c : N) (rest : str) : bool :=
  is_lb c && negb ((c =? CR) && hd_is LF rest).
Fixpoint splitlines (t : str) : list str :=
  match t with
  | [] => []
  | c :: t' =>
      let r := splitlines t' in
      if ends_line c t' then [c] :: r
      else match r with [] => [[c]] | l :: r' => (c :: l) :: r' end
  end.

(* line.rstrip("\r\n") *)
Definition all_crlf (s : str) : bool := forallb is_crlf s.
Fixpoint rstrip_crlf (s : str) : str :=
  match s with
  | [] => []
  | c :: s' => if all_crlf s then [] else c :: rstrip_crlf s'
  end.
(* str.rstrip() and the whitespace tail it removes *)
Definition all_ws (s : str) : bool := forallb isspace s.
Fixpoint rstrip_ws (s : str) : str :=
  match s with
  | [] => []
  | c :: s' => if all_ws s then [] else c :: rstrip_ws s'
  end.
Fixpoint trail_ws (s : str) : str :=
  match s with
  | [] => []
  | _ :: s' => if all_ws s then s else trail_ws s'
  end.

(* ------------------------------------------------------------------ _COMMENT_RE = (?:^|\s)# *)
(* leftmost  \s#  : Some (before, the whitespace char, from '#' on) *)
Fixpoint split_ws_hash (s : str) : option (str * N * str) :=
  match s with
  | [] => None
  | c :: s' =>
      if isspace c && hd_is HASH s' then Some ([], c, s')
      else match split_ws_hash s' with
           | Some (p, w, r) => Some (c :: p, w, r)
           | None => None
           end
  end.
(* search(): (text before match.start(), the matched whitespace (0 or 1 char), text from '#') *)
Definition split_comment (s : str) : str * str * str :=
  if hd_is HASH s then ([], [], s)
  else match split_ws_hash s with
       | Some (p, w, r) => (p, [w], r)
       | None => (s, [], [])
       end.

(* ------------------------------------------------------------------ str.split() / \S+ *)
Fixpoint tokens (s : str) : list str :=
  match s with
  | [] => []
  | c :: s' =>
      if isspace c then tokens s'
      else match s' with
           | [] => [[c]]
           | d :: _ =>
               if isspace d then [c] :: tokens s'
               else match tokens s' with t :: r => (c :: t) :: r | [] => [[c]] end
           end
  end.
(* longest prefix of characters satisfying p, and the rest *)
Fixpoint span (p : N -> bool) (s : str) : str * str :=
  match s with
  | [] => ([], [])
  | c :: s' => if p c then let '(a, b) := span p s' in (c :: a, b) else ([], s)
  end.
Definition notspace (c : N) : bool := negb (isspace c).

Fixpoint join (sep : str) (l : list str) : str :=
  match l with
  | [] => []
  | [x] => x
  | x :: r => x ++ sep ++ join sep r
  end.

(* ------------------------------------------------------------------ entries *)
Record entry := { lineno : N; raw : str; pkg : option str; keywords : list str;
                  comment : str; eol : str }.

(* PackageListError(kind, lineno, line); kind 0 = malformed package spec,
   1 = '^' with no line above it, 2 = '^' copies an empty line onto a line with other keywords *)
Inductive res (A : Type) : Type :=
| Ok (a : A)
| Fail (kind : N) (line_no : N) (line : str).
Arguments Ok {A} a.
Arguments Fail {A} kind line_no line.

Section WithAtoms.
Variable aof : str -> option str.

(* one iteration of PackageList._parse *)
Definition parse_line (n : N) (line : str) : res entry :=
  let raw := rstrip_crlf line in
  let eol := skipn (length raw) line in
  let '(pre, _, cmt) := split_comment raw in
  match tokens pre with
  | [] => Ok {| lineno := n; raw := raw; pkg := None; keywords := []; comment := cmt; eol := eol |}
  | t :: ks =>
      match aof t with
      | None => Fail 0 n raw
      | Some p => Ok {| lineno := n; raw := raw; pkg := Some p; keywords := ks;
                        comment := cmt; eol := eol |}
      end
  end.
Fixpoint parse_lines (n : N) (ls : list str) : res (list entry) :=
  match ls with
  | [] => Ok []
  | l :: r =>
      match parse_line n l with
      | Fail k i s => Fail k i s
      | Ok e => match parse_lines (n + 1) r with
                | Fail k i s => Fail k i s
                | Ok es => Ok (e :: es)
                end
      end
  end.
(* PackageList(text).entries *)
Definition parse (t : str) : res (list entry) := parse_lines 1 (splitlines t).
End WithAtoms.

(* "".join(x.raw + x.eol for x in entries) *)
Definition render (es : list entry) : str := concat (map (fun e => raw e ++ eol e) es).

(* ------------------------------------------------------------------ with_keywords *)
Definition with_keywords (e : entry) (ks : list str) : entry :=
  match pkg e with
  | None => e
  | Some _ =>
      let '(pre, sep, cmt) := split_comment (raw e) in
      let body := pre ++ sep in                         (* raw[:comment_at] *)
      let '(w0, r0) := span isspace body in
      let '(t0, r1) := span notspace r0 in
      let '(w1, _) := span isspace r1 in
      match tokens body with
      | [] => e
      | [_] =>
          let head := w0 ++ t0 ++ (if null ks then [] else [SP]) in   (* body[:tokens[0].end()] + " " *)
          {| lineno := lineno e; raw := head ++ join [SP] ks ++ trail_ws body ++ cmt;
             pkg := pkg e; keywords := ks; comment := comment e; eol := eol e |}
      | _ =>
          let head := w0 ++ t0 ++ w1 in                               (* body[:tokens[1].start()] *)
          {| lineno := lineno e; raw := head ++ join [SP] ks ++ trail_ws body ++ cmt;
             pkg := pkg e; keywords := ks; comment := comment e; eol := eol e |}
      end
  end.

(* ------------------------------------------------------------------ build *)
Definition build_line (x : str * list str) : str := rstrip_ws (join [SP] (fst x :: snd x)).
Definition build (es : list (str * list str)) : str := join [LF] (map build_line es).

(* ------------------------------------------------------------------ expand *)
Fixpoint kws_eqb (a b : list str) : bool :=
  match a, b with
  | [], [] => true
  | x :: a', y :: b' => str_eqb x y && kws_eqb a' b'
  | _, _ => false
  end.

(* the keyword loop of expand(); sug = suggest(entry.pkg), multi = len(entry.keywords) > 1.
   inl kind = PackageListError *)
Fixpoint expand_kws (sug : list str) (prev : option (list str)) (multi : bool)
         (ks : list str) : N + list str :=
  match ks with
  | [] => inr []
  | k :: r =>
      if str_eqb k ALL_KW then
        match expand_kws sug prev multi r with
        | inl x => inl x
        | inr out => inr ((if null sug then [NO_KW] else sug) ++ out)
        end
      else if str_eqb k SAME_KW then
        match prev with
        | None => inl 1
        | Some p =>
            if null p && multi then inl 2
            else match expand_kws sug prev multi r with
                 | inl x => inl x
                 | inr out => inr (p ++ out)
                 end
        end
      else
        match expand_kws sug prev multi r with
        | inl x => inl x
        | inr out => inr (k :: out)
        end
  end.

Definition multi_kw (e : entry) : bool :=
  match keywords e with _ :: _ :: _ => true | _ => false end.

(* the entry loop; returns the expanded entries and the `changed` flag *)
Fixpoint expand_entries (suggest : str -> list str) (prev : option (list str))
         (es : list entry) : res (list entry * bool) :=
  match es with
  | [] => Ok ([], false)
  | e :: r =>
      match pkg e with
      | None =>
          match expand_entries suggest prev r with
          | Fail k i s => Fail k i s
          | Ok (es', ch) => Ok (e :: es', ch)
          end
      | Some p =>
          match expand_kws (suggest p) prev (multi_kw e) (keywords e) with
          | inl k => Fail k (lineno e) (raw e)
          | inr ks =>
              let same := kws_eqb ks (keywords e) in
              let e' := if same then e else with_keywords e ks in
              match expand_entries suggest (Some ks) r with
              | Fail k i s => Fail k i s
              | Ok (es', ch) => Ok (e' :: es', negb same || ch)
              end
          end
      end
  end.

(* str(PackageList(text).expand(suggest)) *)
Definition expand_text (aof : str -> option str) (suggest : str -> list str) (t : str) : res str :=
  match parse aof t with
  | Fail k i s => Fail k i s
  | Ok es =>
      match expand_entries suggest None es with
      | Fail k i s => Fail k i s
      | Ok (es', ch) => Ok (if ch then render es' else t)
      end
  end.

(* ------------------------------------------------------------------ encoders for the harness *)
(* association tables supplied by the harness *)
Fixpoint lookup {B} (tbl : list (str * B)) (k : str) : option B :=
  match tbl with
  | [] => None
  | (k', v) :: r => if str_eqb k k' then Some v else lookup r k
  end.
Definition sug_of (tbl : list (str * list str)) (dflt : list str) (p : str) : list str :=
  match lookup tbl p with Some v => v | None => dflt end.

Definition enc_kws (ks : list str) : val := VL (map VS ks).
Definition enc_entry (e : entry) : val :=
  VL [VZ (Z.of_N (lineno e)); VS (raw e);
      match pkg e with Some p => VS p | None => VNone end;
      enc_kws (keywords e); VS (comment e); VS (eol e)].
Definition enc_fail (k i : N) (s : str) : val :=
  VL [VS [69]; VZ (Z.of_N k); VZ (Z.of_N i); VS s].          (* ["E", kind, lineno, line] *)
Definition enc_res {A} (f : A -> val) (r : res A) : val :=
  match r with Ok a => f a | Fail k i s => enc_fail k i s end.

(* stream "parse": (atom table, text) -> entries *)
Definition run_parse (i : list (str * str) * str) : val :=
  let '(tbl, t) := i in
  enc_res (fun es => VL (map enc_entry es)) (parse (lookup tbl) t).

(* stream "withkw": (atom table, text, keyword lists) -> for every entry: the entry and, for
   every keyword list ks, [raw of with_keywords entry ks; "keywords = ks and every other field
   is the entry's"] *)
Definition opt_str_eqb (a b : option str) : bool :=
  match a, b with Some x, Some y => str_eqb x y | None, None => true | _, _ => false end.
Definition enc_withkw (e : entry) (ks : list str) : val :=
  let e' := with_keywords e ks in
  VL [VS (raw e');
      VB ((lineno e' =? lineno e) && opt_str_eqb (pkg e') (pkg e) && str_eqb (comment e') (comment e)
          && str_eqb (eol e') (eol e)
          && kws_eqb (keywords e') (match pkg e with Some _ => ks | None => keywords e end))].
Definition run_withkw (i : list (str * str) * str * list (list str)) : val :=
  let '(tbl, t, kss) := i in
  enc_res (fun es => VL (map (fun e => VL [enc_entry e; VL (map (enc_withkw e) kss)]) es))
          (parse (lookup tbl) t).

(* stream "expand": (atom table, text, suggestion table, default suggestion) -> expanded text *)
Definition run_expand (i : list (str * str) * str * list (str * list str) * list str) : val :=
  let '(tbl, t, stbl, dflt) := i in
  enc_res VS (expand_text (lookup tbl) (sug_of stbl dflt) t).

(* stream "build": (atom table, [(str(pkg), keywords)]) -> [text, parsed entries] *)
Definition run_build (i : list (str * str) * list (str * list str)) : val :=
  let '(tbl, es) := i in
  let t := build es in
  VL [VS t; enc_res (fun es' => VL (map enc_entry es')) (parse (lookup tbl) t)].
