import random, collections, time, json
from harness import c17
from pkgcore.resolver import state as st
rng = random.Random(5)
t=time.time()
cnt = collections.Counter(); ex = {}
for i in range(40000):
    cfg = c17.rand_cfg(rng); h = c17.gen_mal(rng, rng.randrange(2, 9))
    tr, f = c17.run_history(st, cfg, h)
    if f:
        k = (f["first_nonwf"][1] if f["first_nonwf"] else "WF", f["what"].split(" raised")[0][:30] if "raised" not in f["what"] else "raise")
        cnt[k]+=1
        if k not in ex or len(h) < len(ex[k][1]): ex[k]=(cfg,h,f)
print(time.time()-t)
for k,v in sorted(cnt.items()): print(k, v)
json.dump({str(k): v for k,v in ex.items()}, open("chk.scratch/ex.json","w"), default=str, indent=0)
t=time.time()
n=0
for i in range(300):
    cfg = c17.rand_cfg(rng); h = c17.gen_wf(st, rng, cfg, 6); n+=1
    tr, f = c17.run_history(st, cfg, h)
    assert f is None, (cfg,h,f)
print("wf gen", time.time()-t)
