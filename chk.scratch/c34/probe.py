import sys, subprocess, tempfile, os, re
sys.path.insert(0,"/verif"); sys.path.insert(0,"/repo/src")
from harness import c34
def probe(bodies):
    d = tempfile.mkdtemp()
    for i,b in enumerate(bodies):
        open(f"{d}/s{i}.sh","w").write("f() {\n"+b+"\n}\n")
    drv = 'for ((i=0;i<%d;i++)); do ( source %s/s$i.sh 2>/dev/null && declare -f f > %s/o$i ); done' % (len(bodies), d, d)
    subprocess.run(c34.BASH+["-c",drv])
    res=[]
    for i,b in enumerate(bodies):
        try: t=open(f"{d}/o{i}").read()
        except OSError: t=""
        if not t: res.append((b,"SYNTAX",None)); continue
        data = "A=1\n"+t+"Z=1\n"
        r1 = c34.run_impl(data, [], ["f"], False, False)
        r2 = c34.run_impl(data, ["Z"], [], False, False)
        r3 = c34.run_impl(data, [], ["f"], False, True)
        ok = (r1=="A=1\n\nZ=1\n", r2=="A=1\n"+t+"\n", r3==data)
        res.append((b, ok, t))
    return res
if __name__=="__main__":
    bodies=[l.rstrip("\n") for l in open(sys.argv[1]) if l.strip()]
    bodies=[b.replace("\\n","\n") if b.startswith("@") else b for b in bodies]
    bodies=[b[1:] if b.startswith("@") else b for b in bodies]
    for b,ok,t in probe(bodies):
        print(("OK  " if ok==(True,True,True) else "BAD "+str(ok)) , repr(b), "" if ok==(True,True,True) or t is None else "\n      "+repr(t))
