(* Spec_C18.v — the statement of C18, written from the property text and not from the
   algorithm of merge_contents.

   "After merging a contents set into a root, every entry exists at its location with its
    type, file data, symlink target and recorded mtime; created entries carry the recorded
    mode and ownership, files that shared an inode in the source are hardlinked where
    possible, and pre-existing directories keep their own permissions.  No path outside the
    contents set, other than missing parent directories, is created, changed or removed."

   [realises x n]      node n is entry x as a created object (type, data/target, mode, owner,
                       mtime — the mtime of symlinks and directories is NOT claimed: known
                       findings symlink-mtime-not-set / directory-mtime-bumped)
   [keeps_dir x n0 n]  a pre-existing directory n0 under a directory entry keeps its mode
   [untouched]         a path that no op names, and whose inode no op writes, along a run
   [spec_ok]           the boolean acceptor evaluated by the harness on the REAL before/after
                       snapshots (comparison B inside Coq) *)
From Coq Require Import List NArith ZArith Bool.
Import ListNotations.
From Verif Require Import Base.Val C18.Fs C18.FsLemmas C18.Model_C18.

Definition mode_ok (x : entry) (m : N) : Prop :=
  match e_mode x with Some v => m = perm_mask v | None => True end.
Definition owner_ok (x : entry) (u g : N) : Prop :=
  match e_uid x with Some v => u = v | None => True end /\
  match e_gid x with Some v => g = v | None => True end.
Definition mtime_ok (x : entry) (t : Z) : Prop :=
  match eff_mtime x with Some v => t = v | None => True end.

Definition realises (x : entry) (n : node) : Prop :=
  match e_kind x, n with
  | KDir, Dir m u g _ => mode_ok x m /\ owner_ok x u g
  | KFile d _, File d' m u g t _ => d' = d /\ mode_ok x m /\ owner_ok x u g /\ mtime_ok x t
  | KSym tg, Sym tg' u g _ => tg' = tg /\ owner_ok x u g
  | KFifo, Fifo m u g t => mode_ok x m /\ owner_ok x u g /\ mtime_ok x t
  | KDev r, Dev m u g t r' => r' = r /\ mode_ok x m /\ owner_ok x u g /\ mtime_ok x t
  | _, _ => False
  end.

Definition keeps_dir (x : entry) (n0 n : node) : Prop :=
  match n0, n with
  | Dir m0 _ _ _, Dir m u g _ => m = m0 /\ (is_some (e_uid x) || is_some (e_gid x) = true -> owner_ok x u g)
  | _, _ => False
  end.

(* a path the run never names and whose inode it never writes *)
Fixpoint untouched (ops : list op) (s : fs) (q : path) : Prop :=
  match ops with
  | [] => True
  | o :: r => ~ affects s o q /\
              match apply_op s o with Some s' => untouched r s' q | None => True end
  end.

(* ------------------------------------------------------------------ boolean acceptor (B) *)
Definition optb {A} (o : option A) (f : A -> bool) : bool := match o with Some a => f a | None => true end.
Definition node_kind (n : node) : N :=
  match n with File _ _ _ _ _ _ => 1 | Dir _ _ _ _ => 2 | Sym _ _ _ _ => 3 | Fifo _ _ _ _ => 4 | Dev _ _ _ _ _ => 5 end%N.
Definition entry_kind (x : entry) : N :=
  match e_kind x with KFile _ _ => 1 | KDir => 2 | KSym _ => 3 | KFifo => 4 | KDev _ => 5 end%N.
Definition node_mode (n : node) : N :=
  match n with File _ m _ _ _ _ | Dir m _ _ _ | Fifo m _ _ _ | Dev m _ _ _ _ => m | Sym _ _ _ _ => 0%N end.

Definition realises_b (x : entry) (n : node) : bool :=
  let '(u, g) := node_owner n in
  N.eqb (node_kind n) (entry_kind x)
  && optb (e_uid x) (N.eqb u) && optb (e_gid x) (N.eqb g)
  && match e_kind x, n with
     | KDir, _ => optb (e_mode x) (fun v => N.eqb (node_mode n) (perm_mask v))
     | KFile d _, File d' _ _ _ t _ =>
         str_eqb d d' && optb (e_mode x) (fun v => N.eqb (node_mode n) (perm_mask v))
         && optb (eff_mtime x) (Z.eqb t)
     | KSym tg, Sym tg' _ _ _ => str_eqb tg tg'
     | KFifo, Fifo _ _ _ t | KDev _, Dev _ _ _ t _ =>
         optb (e_mode x) (fun v => N.eqb (node_mode n) (perm_mask v)) && optb (eff_mtime x) (Z.eqb t)
     | _, _ => false
     end
  && match e_kind x, n with KDev r, Dev _ _ _ _ r' => N.eqb r r' | _, _ => true end.

Definition wpath (w : wres) : option path := match w with WOk p => Some p | _ => None end.
Definition mem_path (p : path) (l : list path) : bool := existsb (fun q => if path_eq_dec p q then true else false) l.

Definition cset_of (i : minput) : list entry :=
  match i_offset i with Some o => map (rebase_entry o) (i_cset i) | None => i_cset i end.

(* the case lies in a known-finding class of the unchanged code (see known_findings/C18.json):
   a stale '#new' next to a replaced entry, or a symlink entry over an existing directory *)
Definition known_class (i : minput) : bool :=
  existsb (fun x =>
    match wpath (canon (i_fs i) (e_loc x)) with
    | Some cp =>
        (negb (is_kdir x) && is_some (lookup (i_fs i) cp) && is_some (lookup (i_fs i) (sibling_new cp)))
        || (is_ksym x && match lookup (i_fs i) cp with Some n => is_dir_node n | None => false end)
    | None => false
    end) (cset_of i).

Definition entry_ok (pre post : fs) (x : entry) : bool :=
  match wpath (walk FUEL post [] (e_loc x) (is_kdir x)) with
  | None => false
  | Some cp =>
      match node_at post cp with
      | None => false
      | Some n =>
          match e_kind x, node_at pre cp with
          | KDir, Some (Dir m0 _ _ _) =>
              (* pre-existing directory: keeps its own permissions *)
              match n with Dir m _ _ _ => N.eqb m m0 | _ => false end
          | _, _ => realises_b x n
          end
      end
  end.

(* hard links: linkable entries with the same source key end up on one inode *)
Definition links_ok (post : fs) (xs : list entry) : bool :=
  forallb (fun x => forallb (fun y =>
    if can_hl x y then
      match wpath (canon post (e_loc x)), wpath (canon post (e_loc y)) with
      | Some a, Some b =>
          match lookup post a, lookup post b with
          | Some na, Some nb =>
              match ino_of na, ino_of nb with Some i, Some j => N.eqb i j | _, _ => false end
          | _, _ => false end
      | _, _ => false end
    else true) xs) xs.

Definition footprint (pre post : fs) (xs : list entry) : list path :=
  flat_map (fun x =>
    match wpath (canon post (e_loc x)), wpath (walk FUEL post [] (e_loc x) (is_kdir x)),
          wpath (canon pre (e_loc x)) with
    | Some a, Some b, c =>
        [a; b; sibling_new a] ++ match c with Some c => [c; sibling_new c] | None => [] end
    | _, _, _ => [] end) xs.

Definition same_node_b (a b : node) : bool :=
  match a, b with
  | Dir m u g t, Dir m' u' g' t' => N.eqb m m' && N.eqb u u' && N.eqb g g' && (Z.eqb t t' || Z.eqb t' BUMPED)
  | _, _ => node_eqb_noino a b
  end.

Definition frame_ok (pre post : fs) (xs : list entry) : bool :=
  let fp := footprint pre post xs in
  forallb (fun e =>
    mem_path (fst e) fp ||
    match lookup post (fst e) with Some n => same_node_b (snd e) n | None => false end) pre
  && forallb (fun e =>
    mem_path (fst e) fp || is_some (lookup pre (fst e))
    || (is_dir_node (snd e) && existsb (fun q => strict_prefix (fst e) q) fp)) post.

Definition spec_ok (c : minput * obs) : bool :=
  let i := fst c in
  let post := o_snap (snd c) in
  let s0 := i_fs i in
  let xs := cset_of i in
  match o_err (snd c) with
  | Some _ => true                       (* the merge raised: the statement claims nothing *)
  | None =>
      known_class i
      || (forallb (entry_ok s0 post) xs && links_ok post xs && frame_ok s0 post xs)
  end.

(* ------------------------------------------------------------------ the NoAlias domain of merged_exact *)
Definition nodot (c : str) : Prop := str_eqb c DOT = false /\ str_eqb c DOTDOT = false.
Definition is_symo (o : option node) : bool := match o with Some n => is_sym_node n | None => false end.
Definition is_diro (o : option node) : bool := match o with Some n => is_dir_node n | None => false end.

(* proper, non-empty prefix *)
Definition pprefix (q p : path) : Prop := exists suf, p = q ++ suf /\ q <> [] /\ suf <> [].

Definition pprefixes (p : path) : list path := map (fun k => firstn k p) (seq 1 (length p - 1)).
Definition pprefix_b (q p : path) : bool := negb (is_nil q) && strict_prefix q p.
Definition nodot_b (c : str) : bool := negb (str_eqb c DOT) && negb (str_eqb c DOTDOT).
Definition is_none {A} (o : option A) : bool := match o with None => true | Some _ => false end.
Fixpoint nodup_paths (l : list path) : bool :=
  match l with [] => true | p :: r => negb (mem_path p r) && nodup_paths r end.
Definition same_data_b (c x : entry) : bool :=
  match e_kind c, e_kind x with KFile d _, KFile d' _ => str_eqb d d' | _, _ => true end.

(* NoAlias: the inputs on which no location of the set reaches another one through a symlink,
   no '#new' name collides with the set, locations are distinct, and the offset exists *)
Definition noalias (i : minput) : bool :=
  let C := cset_of i in
  let s0 := i_fs i in
  (match offset_ops (i_umask i) s0 (i_offset i) with ([], None) => true | _ => false end)
  && nodup_paths (map e_loc C)
  && forallb (fun x =>
       forallb nodot_b (e_loc x) && negb (is_nil (e_loc x)) && Nat.ltb (length (e_loc x)) 120
       && forallb (fun q => negb (is_symo (lookup s0 q))) (pprefixes (e_loc x))
       && (if is_kdir x then negb (is_symo (lookup s0 (e_loc x)))
           else is_none (lookup s0 (sibling_new (e_loc x))))
       && (if is_ksym x then negb (is_diro (lookup s0 (e_loc x))) else true)
       && (if is_some (lookup s0 (e_loc x))
           then forallb (fun q => is_diro (lookup s0 q)) (pprefixes (e_loc x)) else true)
       && forallb (fun y =>
            negb (path_eqb (sibling_new (e_loc x)) (e_loc y))
            && negb (pprefix_b (sibling_new (e_loc x)) (e_loc y))
            && (if is_kdir x then true else negb (pprefix_b (e_loc x) (e_loc y)))
            && (if path_eqb (e_loc x) (e_loc y) then true
                else if can_hl x y then is_none (lookup s0 (e_loc y)) && same_data_b x y else true)) C) C.

Definition installed (s0 : fs) (x : entry) (n : node) : Prop :=
  realises x n \/
  (is_kdir x = true /\ exists n0, lookup s0 (e_loc x) = Some n0 /\ keeps_dir x n0 n).


(* the inode a path names (None: unbound or not a regular file) *)
Definition ino_at (s : fs) (p : path) : option N := match lookup s p with Some n => ino_of n | None => None end.

(* everything the harness compares for one case, computed once *)
Definition run_case (c : minput * obs) : val :=
  VL [VB (trace_ok c); VB (err_ok c); VB (snap_ok c); VB (plan_ok c); VB (spec_ok c)].
Definition all_ok5 : val := VL [VB true; VB true; VB true; VB true; VB true].
