#!/bin/bash
# usage: run.sh M1 ...   (serially; restores the worktree to HEAD + C32 patches each time)
for m in "$@"; do
  cd /tmp/wt_C32m && git checkout -q -- . && git apply /tmp/c32_base.diff || exit 1
  /venv/bin/python /verif/chk.scratch/c32/mut/apply.py $m || exit 1
  cd /verif && C32_SCALE=0.05 VERIF_REPO=/tmp/wt_C32m timeout 1500 ./check C32 > /verif/chk.scratch/c32/mut/$m.out 2>&1
  echo "$m exit=$? $(grep -c '^VIOLATION' /verif/chk.scratch/c32/mut/$m.out) violations; $(tail -1 /verif/chk.scratch/c32/mut/$m.out)"
done
cd /tmp/wt_C32m && git checkout -q -- . && git apply /tmp/c32_base.diff
