(* Model_C42.v — executable model of pkgcore.ebuild.pkg_updates.read_updates
   (_scan_directory, read_updates, _process_updates; src/pkgcore/ebuild/pkg_updates.py) in the
   REPAIRED form (/repo commits 48e78db, 464a8f5, d9e568e = fixes/C42-1..3).  No proofs here.

   The aliasing of the deques is modelled faithfully: a heap of deques, a deque being a list of
   items that are either a command or a REFERENCE to another deque (by heap index; object
   identity is replaced by indices, allocation order is not observable).  `mods[k] = [head,
   tail]` is an association list name -> (head id, tail id) filled on demand (defaultdict).
   The final `iflatten_instance(v[0], tuple)` is [flat] with explicit fuel. *)
From Coq Require Import List NArith ZArith Bool Arith.
From Coq Require Strings.Byte.
Import ListNotations.
From Verif Require Import Base.Val.

(* ------------------------------------------------------------------ strings *)
Definition is_nil {A} (l : list A) : bool := match l with [] => true | _ => false end.
(* str.isspace for the code points that can occur: \t\n\v\f\r, \x1c-\x1f, space *)
Definition is_ws (c : N) : bool :=
  N.eqb c 32 || (N.leb 9 c && N.leb c 13) || (N.leb 28 c && N.leb c 31).

(* str.split(): maximal runs of non-whitespace *)
Fixpoint split_ws_aux (cur : str) (s : str) : list str :=
  match s with
  | [] => if is_nil cur then [] else [rev cur]
  | c :: r =>
      if is_ws c then (if is_nil cur then split_ws_aux [] r else rev cur :: split_ws_aux [] r)
      else split_ws_aux (c :: cur) r
  end.
Definition split_ws (s : str) : list str := split_ws_aux [] s.

(* str.split(sep) for a single character: always at least one part *)
Fixpoint split_on_aux (sep : N) (cur : str) (s : str) : list str :=
  match s with
  | [] => [rev cur]
  | c :: r => if N.eqb c sep then rev cur :: split_on_aux sep [] r else split_on_aux sep (c :: cur) r
  end.
Definition split_on (sep : N) (s : str) : list str := split_on_aux sep [] s.

Definition is_lower (c : N) : bool := N.leb 97 c && N.leb c 122.
Definition is_digit (c : N) : bool := N.leb 48 c && N.leb c 57.
Definition all_of (p : N -> bool) (s : str) : bool := negb (is_nil s) && forallb p s.

(* lexicographic order on code points = Python's str order *)
Fixpoint str_leb (a b : str) : bool :=
  match a, b with
  | [], _ => true
  | _ :: _, [] => false
  | x :: a', y :: b' => if N.ltb x y then true else if N.eqb x y then str_leb a' b' else false
  end.

(* ------------------------------------------------------------------ atoms (the grammar the
   generator emits: [op]cat/pn[-ver][:slot] over [a-z0-9/:=<>~.-]; anything else in that
   alphabet is a MalformedAtom) *)
Record patom := { akey : str; aver : bool; aslot : bool }.

Definition strip_op (t : str) : bool * str :=
  match t with
  | 62 :: 61 :: r => (true, r)      (* >= *)
  | 60 :: 61 :: r => (true, r)      (* <= *)
  | 61 :: r => (true, r)            (* = *)
  | 60 :: r => (true, r)            (* < *)
  | 62 :: r => (true, r)            (* > *)
  | 126 :: r => (true, r)           (* ~ *)
  | _ => (false, t)
  end%N.

Definition valid_ver (v : str) : bool := forallb (all_of is_digit) (split_on 46 v).
Definition valid_slot (s : str) : bool := all_of (fun c => is_lower c || is_digit c) s.

Definition parse_cpv (b : str) : option (str * bool) :=
  match split_on 47 b with
  | [cat; rest] =>
      if all_of is_lower cat then
        match split_on 45 rest with
        | [pn] => if all_of is_lower pn then Some (cat ++ [47%N] ++ pn, false) else None
        | [pn; v] => if all_of is_lower pn && valid_ver v then Some (cat ++ [47%N] ++ pn, true) else None
        | _ => None
        end
      else None
  | _ => None
  end.

Definition parse_atom (t : str) : option patom :=
  let '(has_op, body) := strip_op t in
  match split_on 58 body with
  | [b] =>
      match parse_cpv b with
      | Some (k, v) => if Bool.eqb has_op v then Some {| akey := k; aver := v; aslot := false |} else None
      | None => None
      end
  | [b; sl] =>
      if valid_slot sl then
        match parse_cpv b with
        | Some (k, v) => if Bool.eqb has_op v then Some {| akey := k; aver := v; aslot := true |} else None
        | None => None
        end
      else None
  | _ => None
  end.

(* ------------------------------------------------------------------ lines *)
(* a reported command: ("move", str(src), str(trg)) / ("slotmove", str(src_slot), newslot) *)
Inductive cmd := CMove (src trg : str) | CSlot (srcslot newslot : str).
(* what a line asks for once it passed every syntactic test; OSkip = logged and skipped *)
Inductive op := OMove (s t : str) (c : cmd) | OSlot (s : str) (c : cmd) | OSkip.

Definition s_move : str := [109;111;118;101]%N.
Definition s_slotmove : str := [115;108;111;116;109;111;118;101]%N.

Definition parse_line (raw : str) : op :=
  match split_ws raw with
  | [] => OSkip                                             (* empty line *)
  | c :: args =>
      if str_eqb c s_move then
        match args with
        | [a; b] =>
            match parse_atom a, parse_atom b with
            | Some pa, Some pb =>
                if aver pa || aver pb then OSkip            (* must be versionless *)
                else OMove (akey pa) (akey pb) (CMove a b)
            | _, _ => OSkip                                 (* MalformedAtom: logged, skipped *)
            end
        | _ => OSkip                                        (* bad move form *)
        end
      else if str_eqb c s_slotmove then
        match args with
        | [a; s1; s2] =>
            match parse_atom a with
            | Some pa =>
                if aslot pa then OSkip                      (* slotted atom makes no sense *)
                else
                  let src_slot := a ++ [58%N] ++ s1 in
                  match parse_atom src_slot, parse_atom (akey pa ++ [58%N] ++ s2) with
                  | Some _, Some _ => OSlot (akey pa) (CSlot src_slot s2)
                  | _, _ => OSkip
                  end
            | None => OSkip
            end
        | _ => OSkip                                        (* bad slotmove form *)
        end
      else OSkip                                            (* unknown command *)
  end.

(* ------------------------------------------------------------------ the deque heap *)
Inductive item := ICmd (c : cmd) | IRef (id : nat).
Definition heap := list (list item).
Record st := { hp : heap; mods : list (str * (nat * nat)); moved : list str }.
Definition init : st := {| hp := []; mods := []; moved := [] |}.

Fixpoint lookup (k : str) (m : list (str * (nat * nat))) : option (nat * nat) :=
  match m with
  | [] => None
  | (k', v) :: r => if str_eqb k k' then Some v else lookup k r
  end.
Fixpoint set_tail (k : str) (t : nat) (m : list (str * (nat * nat))) : list (str * (nat * nat)) :=
  match m with
  | [] => []
  | (k', (h, t')) :: r => if str_eqb k k' then (k', (h, t)) :: r else (k', (h, t')) :: set_tail k t r
  end.
Fixpoint upd (h : heap) (j : nat) (extra : list item) : heap :=      (* deque j .extend(extra) *)
  match h, j with
  | [], _ => []
  | d :: r, O => (d ++ extra) :: r
  | d :: r, S j' => d :: upd r j' extra
  end.
Definition tail_of (k : str) (m : list (str * (nat * nat))) : nat :=
  match lookup k m with Some (_, t) => t | None => O end.
Definition mem_str (k : str) (l : list str) : bool := existsb (str_eqb k) l.
Definition remove_str (k : str) (l : list str) : list str := filter (fun x => negb (str_eqb k x)) l.

(* mods[k]  (defaultdict: a missing key gets [d, d] for a fresh deque d) *)
Definition touch (k : str) (s : st) : st :=
  match lookup k (mods s) with
  | Some _ => s
  | None => let d := length (hp s) in
            {| hp := hp s ++ [[]]; mods := mods s ++ [(k, (d, d))]; moved := moved s |}
  end.

(* one line of _process_updates *)
Definition step (s : st) (o : op) : st :=
  match o with
  | OSkip => s
  | OSlot src c =>
      if mem_str src (moved s) then s                       (* redundant *)
      else let s1 := touch src s in
           {| hp := upd (hp s1) (tail_of src (mods s1)) [ICmd c]; mods := mods s1; moved := moved s1 |}
  | OMove src trg c =>
      if mem_str src (moved s) then s                       (* redundant *)
      else
        let s2 := touch trg (touch src s) in
        let n := length (hp s2) in
        let fresh := n in                                   (* mods[src][1] = deque()   *)
        let d := S n in                                     (* d = deque()              *)
        let h3 := hp s2 ++ [[]; []] in
        let h4 := upd h3 (tail_of src (mods s2)) [ICmd c; IRef d] in
        let m3 := set_tail src fresh (mods s2) in
        let h5 := upd h4 (tail_of trg m3) [IRef d] in
        let m4 := set_tail trg d m3 in
        {| hp := h5; mods := m4; moved := remove_str trg (src :: moved s2) |}
  end.

Definition run (ops : list op) : st := fold_left step ops init.

(* list(iflatten_instance(deque, tuple)) *)
Fixpoint flat (n : nat) (h : heap) (i : nat) : list cmd :=
  match n with
  | O => []
  | S n' => flat_map (fun it => match it with ICmd c => [c] | IRef j => flat n' h j end) (nth i h [])
  end.
Definition result (s : st) (k : str) : list cmd :=
  match lookup k (mods s) with
  | Some (hd, _) => flat (S (length (hp s))) (hp s) hd
  | None => []
  end.

(* ------------------------------------------------------------------ _scan_directory *)
(* sort key of a file name; None = incorrectly named (ignored).
   EAPI <= 7: ^([1-4])Q-(\d{4})$, ordered by (year, quarter); EAPI 8: ^[^.], ordered by name *)
Definition file_key (eapi8 : bool) (name : str) : option str :=
  if eapi8 then
    match name with
    | [] => None
    | c :: _ => if N.eqb c 46 then None else Some name
    end
  else
    match name with
    | [q; 81; 45; y1; y2; y3; y4]%N =>
        if N.leb 49 q && N.leb q 52 && forallb is_digit [y1; y2; y3; y4]
        then Some [y1; y2; y3; y4; q] else None
    | _ => None
    end.

Fixpoint insert_by (k : str) (x : list str) (l : list (str * list str)) : list (str * list str) :=
  match l with
  | [] => [(k, x)]
  | (k', x') :: r => if str_leb k k' then (k, x) :: l else (k', x') :: insert_by k x r
  end.
(* files: (name, lines) as listed by the directory, in any order *)
Fixpoint scan (eapi8 : bool) (files : list (str * list str)) : list (str * list str) :=
  match files with
  | [] => []
  | (name, lines) :: r =>
      match file_key eapi8 name with
      | Some k => insert_by k lines (scan eapi8 r)
      | None => scan eapi8 r
      end
  end.
Definition all_lines (eapi8 : bool) (files : list (str * list str)) : list str :=
  concat (map snd (scan eapi8 files)).

Definition read_updates (eapi8 : bool) (files : list (str * list str)) (k : str) : list cmd :=
  result (run (map parse_line (all_lines eapi8 files))) k.

(* ------------------------------------------------------------------ encoders for the harness *)
(* the cases files carry ASCII text as byte-string literals "..."%bs (cheap to elaborate: one
   constructor per character); s2l turns them into str *)
Inductive bstr := BS (l : list Byte.byte).
Definition bs_parse (l : list Byte.byte) : bstr := BS l.
Definition bs_print (b : bstr) : list Byte.byte := match b with BS l => l end.
Declare Scope bs_scope.
Delimit Scope bs_scope with bs.
String Notation bstr bs_parse bs_print : bs_scope.
Definition s2l (b : bstr) : str := match b with BS l => map Byte.to_N l end.
Definition VT (s : bstr) : val := VS (s2l s).

(* A case travels as ONE string literal (cheap to parse):  E "@" file ("|" file)* "@" key (";" key)*
   with E = "7" | "8", file = name (";" line)*.  The characters @ | ; never occur in generated text. *)
Definition dec_file (f : str) : str * list str :=
  match split_on 59 f with
  | name :: lines => (name, lines)
  | [] => ([], [])
  end.
Definition dec_case (s : bstr) : bool * list (str * list str) * list str :=
  match split_on 64 (s2l s) with
  | [e; fs; ks] => (str_eqb e [56%N], map dec_file (split_on 124 fs), split_on 59 ks)
  | _ => (false, [], [])
  end.
Fixpoint join (sep : N) (l : list str) : str :=
  match l with
  | [] => []
  | [x] => x
  | x :: r => x ++ sep :: join sep r
  end.
(* the mapping rendered as text: per queried name (joined by "|") its commands (joined by ";"),
   a command being "0 src trg" (move) or "1 srcslot newslot" (slotmove) *)
Definition show_cmd (c : cmd) : str :=
  match c with
  | CMove a b => [48; 32]%N ++ a ++ [32%N] ++ b
  | CSlot a sl => [49; 32]%N ++ a ++ [32%N] ++ sl
  end.
Definition show_mapping (f : str -> list cmd) (keys : list str) : val :=
  VS (join 124 (map (fun k => join 59 (map show_cmd (f k))) keys)).
(* stream "updates": (eapi, files as listed, names to look up) -> commands per name *)
Definition run_updates (i : bstr) : val :=
  let '(e, files, keys) := dec_case i in
  let s := run (map parse_line (all_lines e files)) in
  show_mapping (result s) keys.
(* stream "atom": the atom classification the line parser relies on *)
Definition run_atom (t : bstr) : val :=
  match parse_atom (s2l t) with
  | Some a => VL [VS (akey a); VB (aver a); VB (aslot a)]
  | None => VErr [77;97;108;102;111;114;109;101;100;65;116;111;109]%N   (* "MalformedAtom" *)
  end.
