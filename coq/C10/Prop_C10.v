(* Prop_C10.v — the property theorems of C10 and nothing else.
   [S solve] is the recorded contract of snakeoil.constraints.Problem (Spec_C10.v);
   [outside_known rs] = no ||, ^^ or ?? group of rs has a use-conditional group as an immediate
   child (finding cond-member-of-group); [everything] = all trees. *)
From Coq Require Import List NArith ZArith Bool Permutation.
Import ListNotations.
From Verif Require Import Base.Val C10.Model_C10 C10.Spec_C10 C10.Proofs_C10.

(* compile: the constraints together are the tree's PMS meaning — outside the known class *)
Theorem constraint_is_match_partial : cim_stmt outside_known.
Proof. exact constraint_is_match_partial_proof. Qed.
Print Assumptions constraint_is_match_partial.

(* ... and not for all trees: || ( a? ( b ) c ) with nothing enabled *)
Theorem constraint_is_match_refuted : ~ cim_stmt everything.
Proof. exact constraint_is_match_refuted_proof. Qed.
Print Assumptions constraint_is_match_refuted.

(* for ALL trees the constraints together are the implication meaning of the tree *)
Theorem constraint_is_implication : forall rs cs on,
  compile rs = Ok cs -> forallb (fun c : constr => fst c on) cs = sat_impl rs on.
Proof. exact constraint_is_impl. Qed.
Print Assumptions constraint_is_implication.

(* every compiled constraint reads only the variables it is registered with *)
Theorem constraints_read_their_variables : forall rs cs c vs,
  compile rs = Ok cs -> In (c, vs) cs -> local c vs /\ incl vs (flags_all rs).
Proof. exact constraints_local. Qed.
Print Assumptions constraints_read_their_variables.

(* the contract is satisfiable: the reference DFS meets it *)
Theorem solve_ref_satisfies_S : S solve_ref.
Proof. exact solve_ref_S. Qed.
Print Assumptions solve_ref_satisfies_S.

(* the error branch: forced-on and forced-off sharing an IUSE flag raises; otherwise no error *)
Theorem precondition_error : forall solve rs iuse ft ff pt,
  (exists v, In v iuse /\ In v ft /\ In v ff) -> fcs solve rs iuse ft ff pt = Fail EAssert.
Proof. exact precondition_error_sets. Qed.
Print Assumptions precondition_error.

Theorem no_error : forall solve rs iuse ft ff pt,
  overlap iuse ft ff = false -> wf_all rs = true ->
  exists p cs, problem rs iuse ft ff pt = Ok (p, cs) /\ fcs solve rs iuse ft ff pt = Ok (solve p cs).
Proof. exact no_error_proof. Qed.
Print Assumptions no_error.

(* the variables of every solution: IUSE plus the flags the constraint mentions *)
Theorem variables : forall rs iuse ft ff pt p cs,
  problem rs iuse ft ff pt = Ok (p, cs) ->
  NoDup (keys p) /\ incl iuse (keys p) /\ incl (keys p) (iuse ++ flags_all rs).
Proof. exact variables_proof. Qed.
Print Assumptions variables.

(* under S, for ALL well-formed trees: exactly the allowed assignments satisfying the
   implication meaning, each once, preferred first *)
Theorem solutions_exact_impl : forall solve, S solve -> exact_impl_stmt solve.
Proof. exact solutions_exact_impl_proof. Qed.
Print Assumptions solutions_exact_impl.

(* forced-on on, forced-off off, non-IUSE off — full *)
Theorem forced_respected : forall solve, S solve -> forced_stmt solve everything.
Proof. exact forced_proof. Qed.
Print Assumptions forced_respected.

Theorem sound_partial : forall solve, S solve -> sound_stmt solve outside_known.
Proof. exact sound_proof. Qed.
Print Assumptions sound_partial.
Theorem sound_refuted : forall solve, S solve -> ~ sound_stmt solve everything.
Proof. exact sound_refuted_proof. Qed.
Print Assumptions sound_refuted.

Theorem complete_nodup_partial : forall solve, S solve -> complete_stmt solve outside_known.
Proof. exact complete_proof. Qed.
Print Assumptions complete_nodup_partial.
Theorem complete_perm_partial : forall solve, S solve -> complete_perm_stmt solve outside_known.
Proof. exact complete_perm_proof. Qed.
Print Assumptions complete_perm_partial.
Theorem complete_refuted : forall solve, S solve -> ~ complete_stmt solve everything.
Proof. exact complete_refuted_proof. Qed.
Print Assumptions complete_refuted.

Theorem preferred_first_partial : forall solve, S solve -> preferred_stmt solve outside_known.
Proof. exact preferred_proof. Qed.
Print Assumptions preferred_first_partial.
Theorem preferred_refuted : forall solve, S solve -> ~ preferred_stmt solve everything.
Proof. exact preferred_refuted_proof. Qed.
Print Assumptions preferred_refuted.
