(* Spec_C24.v — the statement of C24: a contents set written to a CONTENTS file and read back is
   the same set (type, path incl. embedded spaces, md5 and integral mtime of files, target and
   mtime of symlinks, the path of directories / fifos / devices), and the file is replaced
   atomically.  Nothing here looks at how lines are parsed. *)
From Coq Require Import List NArith ZArith Bool Arith Permutation.
Import ListNotations.
From Verif Require Import Base.Val C22.Model_C22 C18.Fs C24.Model_C24.

(* ------------------------------------------------------------------ the domain *)
Definition no_eol (s : str) : bool := forallb (fun c => negb (is_eol c)) s.
Definition ends_plain (s : str) : bool :=
  match List.rev s with c :: _ => negb (py_space c) | [] => false end.
Definition has_arrow_token (l : str) : bool := existsb (str_eqb arrow) (split_sp l).

(* the format's own limits: one line per entry (no line terminator inside a path or target), the
   line is stripped on reading (a dir/dev/fif path — the end of its line — must not end in
   whitespace), locations are normalised paths (every fs object's is) *)
Definition wf_base (e : entry) : bool :=
  str_eqb (normpath (eloc e)) (eloc e) && no_eol (eloc e) &&
  match e with
  | EObj _ _ _ => true
  | ESym _ g _ => no_eol g
  | EDir l | EDev l | EFif l => ends_plain l
  end.
(* the recorded defect: the LOCATION of a symlink holds a stand-alone "->" token *)
Definition known_class (e : entry) : bool :=
  match e with ESym l _ _ => has_arrow_token l | _ => false end.
Definition WFpath (e : entry) : Prop := wf_base e = true /\ known_class e = false.

Definition uniq_locs (d : list entry) : Prop := NoDup (map eloc d).

(* ------------------------------------------------------------------ statements *)
(* one entry *)
Definition line_roundtrip_stmt (dom : entry -> Prop) : Prop :=
  forall e, dom e -> parse_line (strip (write_line e)) = Ok e.
(* the full statement, without the known-class exclusion (false of the code: *_refuted) *)
Definition line_roundtrip_full : Prop := line_roundtrip_stmt (fun e => wf_base e = true).

(* a whole set: reading back yields exactly the entries written (as a set keyed by location) *)
Definition contents_roundtrip_stmt : Prop :=
  forall d, uniq_locs d -> Forall WFpath d ->
  exists d', read_contents (write_contents d) = Ok d' /\ Permutation d' d.

(* atomic replacement: in every crash prefix of flush() CONTENTS is the old file or the complete
   new one (whole text, mode 0644) and nothing else but the temporary changes *)
Definition flush_atomic_stmt : Prop :=
  forall s c d k, tmp_ok s P_TMP ->
  let sk := run (firstn k (flush_ops s c d)) s in
  (forall q, q <> P_CONTENTS -> q <> P_TMP -> lookup sk q = lookup s q) /\
  (lookup sk P_CONTENTS = lookup s P_CONTENTS \/
   is_file_with (utf8 (write_contents d)) 420 (lookup sk P_CONTENTS)).

(* ------------------------------------------------------------------ acceptors (comparison B) *)
Definition in_domain (raw : list entry) : bool :=
  forallb (fun e => wf_base e && negb (known_class e)) (the_set raw).
Definition has_known (raw : list entry) : bool := existsb known_class (the_set raw).

(* stream "file": the implementation's read-back (second component) is the set that was written *)
Definition spec_file_ok (raw : list entry) (r : val) : bool :=
  if forallb wf_base (the_set raw) then
    match r with
    | VL [_; back] => val_eqb back (enc_set (the_set raw))
    | _ => false
    end
  else true.

(* stream "fault": CONTENTS is old or complete-new, the bystander is untouched, an I/O error
   leaves no temporary behind *)
Definition spec_fault_ok (i : fault_in) (r : val) : bool :=
  let s := init_fs i in
  let newn := VL [VS (utf8 (write_contents (the_set (f_set i)))); VZ 420; VZ 0; VZ 0] in
  match r with
  | VL [_; VL [c; t; o]] =>
      (val_eqb c (enc_node (lookup s P_CONTENTS)) || val_eqb c newn)
      && val_eqb o (enc_node (lookup s P_OTHER))
      && (negb (f_eio i && Nat.leb 1 (f_k i)) || val_eqb t VNone)
  | _ => false
  end.
