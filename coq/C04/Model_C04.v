(* Model_C04.v — executable model of atom matching in pkgcore:
     atom.restrictions                       src/pkgcore/ebuild/atom.py:361
     boolean.AndRestriction.match            src/pkgcore/restrictions/boolean.py:292
     packages.PackageRestriction.match       src/pkgcore/restrictions/packages.py:63
     restricts.{PackageDep,CategoryDep,RepositoryDep,VersionMatch,SlotDep,SubSlotDep,
                StaticUseDep,UseDepDefault,_UseDepDefaultContainment,_parse_nontransitive_use}
     values.{StrExactMatch,StrGlobMatch,ContainmentMatch}.match
   Atoms are RECORDS OF PARSED ATTRIBUTES (the atom parser is C03's model); packages are records
   of the attributes the restrictions read.  The version comparison is a parameter [vc] of every
   definition (instantiated with C01's [ver_cmp] by the [run_*] encoders at the end), so the
   theorems of C04 hold for every comparison function.  Bug-compatible: `=*` is a plain string
   prefix of the package's fullver, and a group of several negative USE deps is evaluated as
   "not all of them enabled" (ContainmentMatch(negate=True, match_all=True)).  No proofs here. *)
From Coq Require Import List NArith ZArith Bool.
Import ListNotations.
From Verif Require Import Base.Val C01.Model_C01.

(* ------------------------------------------------------------------ records *)
(* operator ids: 0:"<" 1:"<=" 2:"=" 3:">=" 4:">" 5:"~" 6:"=*" 7:"" (unversioned) *)
Record atom := {
  a_cat : str; a_pkg : str;
  a_op : N;
  a_ver : str;                  (* version ("" when unversioned) *)
  a_rev : option N;             (* None = Revision("") / no revision; Some n = int value *)
  a_fullver : option str;       (* None when unversioned *)
  a_slot : option str; a_subslot : option str; a_slotop : option str;
  a_repo : option str;
  a_use : option (list str);    (* the raw, sorted USE dep tokens; None = no [..] block *)
  a_blocks : bool; a_strong : bool;
  a_negate_vers : bool }.

Record package := {
  p_cat : str; p_pkg : str;
  p_ver : str; p_rev : option N; p_fullver : str;
  p_slot : str; p_subslot : str; p_repo : str;
  p_use : list str; p_iuse : list str (* iuse_stripped *) }.

(* ------------------------------------------------------------------ strings and sets *)
Fixpoint startswith (s pre : str) {struct pre} : bool :=           (* s.startswith(pre) *)
  match pre, s with
  | [], _ => true
  | x :: pre', y :: s' => N.eqb x y && startswith s' pre'
  | _ :: _, [] => false
  end.
Definition smem (x : str) (l : list str) : bool := existsb (str_eqb x) l.
Definition subset (a b : list str) : bool := forallb (fun x => smem x b) a.     (* a.issubset(b) *)
Definition disjoint (a b : list str) : bool := forallb (fun x => negb (smem x b)) a.

(* values.ContainmentMatch.match on a set/sequence value (values.py:296) *)
Definition cm_match (vals : list str) (all negate : bool) (val : list str) : bool :=
  if all then xorb (subset vals val) negate
  else Bool.eqb (disjoint vals val) negate.

(* restricts._UseDepDefaultContainment.match (restricts.py:224); match_all is always True *)
Definition udc_match (if_missing negate : bool) (vals iuse use : list str) : bool :=
  if subset vals iuse then cm_match vals true negate use
  else if Bool.eqb if_missing negate then false
  else let red := filter (fun x => smem x iuse) vals in
       if is_nil red then true else cm_match red true negate use.

(* ------------------------------------------------------------------ USE dep tokens *)
(* one iteration of the loop of _parse_nontransitive_use (restricts.py:299): which of the three
   targets (None = normal, Some false = default_off, Some true = default_on), the sign
   (false = a leading "-"), and the flag name *)
Definition parse_use_token (tok : str) : option bool * bool * str :=
  let '(dflt, t) :=
    match List.rev tok with
    | 41%N :: c2 :: rest => (Some (N.eqb c2 43), List.rev (tl rest))    (* token[-1]==")" ; token[:-3] *)
    | _ => (None, tok)
    end in
  match t with
  | 45%N :: f => (dflt, false, f)
  | _ => (dflt, true, t)
  end.

Definition dflt_eqb (a b : option bool) : bool :=
  match a, b with
  | None, None => true
  | Some x, Some y => Bool.eqb x y
  | _, _ => false
  end.
(* the flags appended to trg[0] (sign=false) / trg[1] (sign=true) of one target, in token order *)
Definition group (dflt : option bool) (sign : bool) (toks : list str) : list str :=
  map (fun t => snd (parse_use_token t))
      (filter (fun t => let '(d, s, _) := parse_use_token t in dflt_eqb d dflt && Bool.eqb s sign) toks).

(* ------------------------------------------------------------------ restrictions *)
Inductive restr :=
| RRepo (s : str) | RPackage (s : str) | RCategory (s : str)
| RVersion (op : N) (v : str) (r : option N) (negate : bool)
| RGlob (fullver : str)
| RSlot (s : str) | RSubSlot (s : str)
| RStaticUse (false_use true_use : list str)
| RUseDefault (if_missing : bool) (false_use true_use : list str).

Definition use_restrictions (toks : list str) : list restr :=
  let nf := group None false toks in let nt := group None true toks in
  let ff := group (Some false) false toks in let ft := group (Some false) true toks in
  let tf := group (Some true) false toks in let tt := group (Some true) true toks in
  (if is_nil nf && is_nil nt then [] else [RStaticUse nf nt])
  ++ (if is_nil ff && is_nil ft then [] else [RUseDefault false ff ft])
  ++ (if is_nil tf && is_nil tt then [] else [RUseDefault true tf tt]).

(* atom.restrictions (atom.py:361) *)
Definition atom_restrictions (a : atom) : list restr :=
  (match a_repo a with Some r => [RRepo r] | None => [] end)
  ++ [RPackage (a_pkg a); RCategory (a_cat a)]
  ++ (match a_fullver a with
      | Some fv => if N.eqb (a_op a) 6 then [RGlob fv]
                   else [RVersion (a_op a) (a_ver a) (a_rev a) (a_negate_vers a)]
      | None => []
      end)
  ++ (match a_slot a with
      | Some s => RSlot s :: match a_subslot a with Some ss => [RSubSlot ss] | None => [] end
      | None => []
      end)
  ++ (match a_use a with Some toks => use_restrictions toks | None => [] end).

(* ------------------------------------------------------------------ evaluation *)
Section WithVerCmp.
Variable vc : str -> option N -> str -> option N -> Z.

(* _VersionMatch: operator -> accepted comparison results (restricts.py:43, :80) *)
Definition opv (op : N) : list Z :=
  match op with
  | 0%N => [-1] | 1%N => [-1; 0] | 2%N => [0] | 3%N => [0; 1] | 4%N => [1] | 5%N => [0] | _ => []
  end%Z.
Definition op_droprev (op : N) : bool := N.eqb op 5.

(* _VersionMatch.match (restricts.py:89) *)
Definition vmatch (op : N) (negate : bool) (v : str) (r : option N) (pv : str) (pr : option N) : bool :=
  let '(r1, r2) := if op_droprev op then (None, None) else (r, pr) in
  xorb (memZ (vc pv r2 v r1) (opv op)) negate.

(* StaticUseDep / UseDepDefault value restriction: zero, one or two containment matches *)
Definition static_use_eval (false_use true_use use : list str) : bool :=
  (if is_nil false_use then true else cm_match false_use true true use)
  && (if is_nil true_use then true else cm_match true_use true false use).
Definition default_use_eval (if_missing : bool) (false_use true_use iuse use : list str) : bool :=
  (if is_nil false_use then true else udc_match if_missing true false_use iuse use)
  && (if is_nil true_use then true else udc_match if_missing false true_use iuse use).

Definition eval_restr (p : package) (r : restr) : bool :=
  match r with
  | RRepo s => str_eqb s (p_repo p)
  | RPackage s => str_eqb s (p_pkg p)
  | RCategory s => str_eqb s (p_cat p)
  | RVersion op v rv negate => vmatch op negate v rv (p_ver p) (p_rev p)
  | RGlob fv => startswith (p_fullver p) fv
  | RSlot s => str_eqb s (p_slot p)
  | RSubSlot s => str_eqb s (p_subslot p)
  | RStaticUse f t => static_use_eval f t (p_use p)
  | RUseDefault d f t => default_use_eval d f t (p_iuse p) (p_use p)
  end.

(* atom.match = AndRestriction.match with negate = False *)
Definition atom_match (a : atom) (p : package) : bool := forallb (eval_restr p) (atom_restrictions a).
End WithVerCmp.

(* ------------------------------------------------------------------ encoders for the harness *)
Definition enc_strs (l : list str) : val := VL (map VS l).
Definition enc_rev (r : option N) : val := match r with Some n => VZ (Z.of_N n) | None => VNone end.
Definition enc_restr (r : restr) : val :=
  match r with
  | RRepo s => VL [VZ 0; VS s]
  | RPackage s => VL [VZ 1; VS s]
  | RCategory s => VL [VZ 2; VS s]
  | RVersion op v rv n => VL [VZ 3; VZ (Z.of_N op); VS v; enc_rev rv; VB n]
  | RGlob fv => VL [VZ 4; VS fv]
  | RSlot s => VL [VZ 5; VS s]
  | RSubSlot s => VL [VZ 6; VS s]
  | RStaticUse f t => VL [VZ 7; enc_strs f; enc_strs t]
  | RUseDefault d f t => VL [VZ 8; VB d; enc_strs f; enc_strs t]
  end.
(* stream "restr": the structure of atom.restrictions *)
Definition run_restr (a : atom) : val := VL (map enc_restr (atom_restrictions a)).
(* stream "match": atom.match(pkg) through C01's ver_cmp *)
Definition run_amatch (i : atom * package) : val := VB (atom_match ver_cmp (fst i) (snd i)).
(* stream "usetok": the parse of one USE dep token *)
Definition run_usetok (t : str) : val :=
  let '(d, s, f) := parse_use_token t in
  VL [match d with Some b => VB b | None => VNone end; VB s; VS f].
