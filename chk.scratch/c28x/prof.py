import sys, os, time, subprocess, shutil
from harness.common import Check
from harness import c28
from pkgcore.ebuild import digest
chk = Check("C28")
work = chk.scratch / "c28"; work.mkdir()
rows = c28.stream_line(chk, digest)
import harness.common as C
orig = shutil.rmtree
t=time.time()
r = chk.coq_eval("line", c28.IMPORTS, "bstr", rows, ["mismatches run_line cases"], shard=120)
print("coq_eval", time.time()-t, r)
f = chk.scratch / "cases_line_0.v"
print(f.stat().st_size)
print(subprocess.run(["coqc","-time","-R","/verif/coq","Verif","-Q",str(chk.scratch),"Cases",str(f)],capture_output=True,text=True,cwd=chk.scratch).stdout[-1500:])
shutil.copy(f, "/verif/chk.scratch/c28x/cases_line_0.v")
