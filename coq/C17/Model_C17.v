(* Model_C17.v — executable model of pkgcore.resolver.state.plan_state, its operation classes
   (add_op, add_hardref_op, add_backref_op, remove_op, replace_op, incref/decref_forward_block_op:
   apply and revert), plan_state.backtrack, and pkgcore.resolver.pigeonholes.PigeonHoledSlots.
   No proofs here.  The model is bug-compatible: exceptions leave the partially mutated state.

   Representation (faithful up to what Python can observe):
   * packages, choice points, blockers, forced restrictions are ids (N); `is`, dict hashing and
     list.remove's == are id equality;
   * a package has a key and a slot, a blocker matches a package: the environment [env];
   * PigeonHoledSlots.slot_dict (key -> [pkg]) is the flat list [slots] in insertion order: the
     dict key is always obj.key, so slot_dict[k] = the packages of [slots] with key k, same order;
   * PigeonHoledSlots.limiters (key -> [blocker]) is the flat list [lims] of (key, blocker);
   * pkg_choices is an association list with unique keys; rev_blockers (choices -> [(blocker,key)])
     is the flat list [rb] of (choices,(blocker,key)); blockers_refcnt / forced_restrictions
     (snakeoil RefCountingSet) are multisets = lists; vdb_filter is a duplicate-free list. *)
From Coq Require Import List NArith ZArith Bool Arith.
Import ListNotations.
From Verif Require Import Base.Val.

(* peq: the equality class of a package object.  `is` (PigeonHoledSlots.remove_slotting) compares
   ids; dict/set keys (pkg_choices, vdb_filter) compare and hash by value: packages compare by cpv,
   so the installed a/b-1 and the a/b-1 of a source repo are two objects with the same peq. *)
Record env := { pkey : N -> N; pslot : N -> N; bkey : N -> N; bmatch : N -> N -> bool; peq : N -> N }.

(* entries of plan_state.plan *)
Inductive op :=
| OAdd (c p : N) (force : bool)
| OHardref (r : N)
| OBackref (c p : N)
| ORemove (c p : N)
| OReplace (c p : N) (force : bool) (old oldc : N) (force_old : bool)
| OIncref (c b k : N)
| ODecref (c b k : N).

Record state := mkS {
  slots : list N; lims : list (N * N); plan : list op; pc : list (N * N);
  rb : list (N * (N * N)); brc : list N; vf : list N; fr : list N }.

Definition init : state := mkS [] [] [] [] [] [] [] [].

Definition set_slots v s := mkS v (lims s) (plan s) (pc s) (rb s) (brc s) (vf s) (fr s).
Definition set_lims v s := mkS (slots s) v (plan s) (pc s) (rb s) (brc s) (vf s) (fr s).
Definition set_plan v s := mkS (slots s) (lims s) v (pc s) (rb s) (brc s) (vf s) (fr s).
Definition set_pc v s := mkS (slots s) (lims s) (plan s) v (rb s) (brc s) (vf s) (fr s).
Definition set_rb v s := mkS (slots s) (lims s) (plan s) (pc s) v (brc s) (vf s) (fr s).
Definition set_brc v s := mkS (slots s) (lims s) (plan s) (pc s) (rb s) v (vf s) (fr s).
Definition set_vf v s := mkS (slots s) (lims s) (plan s) (pc s) (rb s) (brc s) v (fr s).
Definition set_fr v s := mkS (slots s) (lims s) (plan s) (pc s) (rb s) (brc s) (vf s) v.

(* exceptions *)
Inductive exc := KeyError | ValueError | AssertionError | AttributeError.

Inductive Res (A : Type) := Ok (a : A) | Ex (e : exc).
Arguments Ok {A} a.
Arguments Ex {A} e.
Definition M (A : Type) := state -> state * Res A.
Definition ret {A} (a : A) : M A := fun s => (s, Ok a).
Definition raise {A} (e : exc) : M A := fun s => (s, Ex e).
Definition bind {A B} (m : M A) (f : A -> M B) : M B :=
  fun s => match m s with (s', Ok a) => f a s' | (s', Ex e) => (s', Ex e) end.
Notation "x <- m ;; f" := (bind m (fun x => f)) (at level 61, m at next level, right associativity).
Notation "m ;;; f" := (bind m (fun _ => f)) (at level 61, right associativity).
Definition modify (f : state -> state) : M unit := fun s => (f s, Ok tt).
Definition gets {A} (f : state -> A) : M A := fun s => (s, Ok (f s)).

(* ------------------------------------------------------------------ list helpers *)
Definition memN (x : N) (l : list N) : bool := existsb (N.eqb x) l.
Definition is_nil {A} (l : list A) : bool := match l with [] => true | _ => false end.
Definition pair_eqb (a b : N * N) : bool := N.eqb (fst a) (fst b) && N.eqb (snd a) (snd b).
Definition trip_eqb (a b : N * (N * N)) : bool := N.eqb (fst a) (fst b) && pair_eqb (snd a) (snd b).
Fixpoint remove1 {A} (eqb : A -> A -> bool) (x : A) (l : list A) : list A :=
  match l with [] => [] | y :: r => if eqb x y then r else y :: remove1 eqb x r end.
Fixpoint lookup (p : N) (l : list (N * N)) : option N :=
  match l with [] => None | (q, c) :: r => if N.eqb p q then Some c else lookup p r end.

(* conflicts returned by fill_slotting: limiters first, then packages *)
Inductive item := IB (b : N) | IP (p : N).

Section WithEnv.
Variable E : env.

Definition same_slot (p x : N) : bool :=
  N.eqb (pkey E x) (pkey E p) && N.eqb (pslot E x) (pslot E p).

(* ------------------------------------------------------------------ PigeonHoledSlots *)
Definition check_limiters (p : N) (s : state) : list N :=
  map snd (filter (fun kb => N.eqb (fst kb) (pkey E p) && bmatch E (snd kb) p) (lims s)).

Definition slot_conflicts (p : N) (s : state) : list N := filter (same_slot p) (slots s).

Definition fill_slotting (p : N) (force : bool) : M (list item) := fun s =>
  let l := map IB (check_limiters p s) ++ map IP (slot_conflicts p s) in
  ((if is_nil l || force then set_slots (slots s ++ [p]) s else s), Ok l).

Definition get_conflicting_slot (p : N) (s : state) : option N := find (same_slot p) (slots s).

Definition find_atom_matches (b k : N) (s : state) : list N :=
  filter (fun x => N.eqb (pkey E x) k && bmatch E b x) (slots s).

Definition add_limiter (b k : N) : M (list item) := fun s =>
  let s' := set_lims (lims s ++ [(k, b)]) s in (s', Ok (map IP (find_atom_matches b k s'))).

Definition remove_slotting (p : N) : M unit := fun s =>
  if memN p (slots s) then (set_slots (filter (fun x => negb (N.eqb x p)) (slots s)) s, Ok tt)
  else (s, Ex KeyError).

Definition remove_limiter (b k : N) : M unit := fun s =>
  if existsb (pair_eqb (k, b)) (lims s)
  then (set_lims (filter (fun kb => negb (pair_eqb (k, b) kb)) (lims s)) s, Ok tt)
  else (s, Ex KeyError).

(* ------------------------------------------------------------------ plan_state containers *)
Definition pc_set (p c : N) : M unit :=
  modify (fun s => set_pc ((p, c) :: filter (fun qc => negb (N.eqb (fst qc) p)) (pc s)) s).
Definition pc_del (p : N) : M unit := fun s =>
  match lookup p (pc s) with
  | Some _ => (set_pc (filter (fun qc => negb (N.eqb (fst qc) p)) (pc s)) s, Ok tt)
  | None => (s, Ex KeyError)
  end.
Definition rb_of (c : N) (s : state) : list (N * N) :=
  map snd (filter (fun e => N.eqb (fst e) c) (rb s)).
Definition rb_append (c b k : N) : M unit := modify (fun s => set_rb (rb s ++ [(c, (b, k))]) s).
(* rev_blockers[c].remove((b,k)); delete the key when the list becomes empty *)
Definition rb_remove (c b k : N) : M unit := fun s =>
  if is_nil (rb_of c s) then (s, Ex KeyError)
  else if existsb (trip_eqb (c, (b, k))) (rb s)
       then (set_rb (remove1 trip_eqb (c, (b, k)) (rb s)) s, Ok tt)
       else (s, Ex ValueError).
Definition brc_add (b : N) : M unit := modify (fun s => set_brc (brc s ++ [b]) s).
Definition brc_remove (b : N) : M unit := fun s =>
  if memN b (brc s) then (set_brc (remove1 N.eqb b (brc s)) s, Ok tt) else (s, Ex KeyError).
Definition vf_add (p : N) : M unit :=
  modify (fun s => if memN p (vf s) then s else set_vf (vf s ++ [p]) s).
Definition vf_remove (p : N) : M unit := fun s =>
  if memN p (vf s) then (set_vf (filter (fun x => negb (N.eqb x p)) (vf s)) s, Ok tt) else (s, Ex KeyError).
Definition fr_add (r : N) : M unit := modify (fun s => set_fr (fr s ++ [r]) s).
Definition fr_remove (r : N) : M unit := fun s =>
  if memN r (fr s) then (set_fr (remove1 N.eqb r (fr s)) s, Ok tt) else (s, Ex KeyError).
Definition plan_append (o : op) : M unit := modify (fun s => set_plan (plan s ++ [o]) s).
Definition when (b : bool) (m : M unit) : M unit := if b then m else ret tt.

(* ------------------------------------------------------------------ blocker ops *)
(* incref_forward_block_op.apply (state.py:290) *)
Definition incref_apply (c b k : N) : M (list item) :=
  plan_append (OIncref c b k) ;;;
  inb <- gets (fun s => memN b (brc s)) ;;
  l <- (if inb then ret [] else add_limiter b k) ;;
  rb_append c b k ;;; brc_add b ;;; ret l.
(* incref_forward_block_op.revert (state.py:300) *)
Definition incref_revert (c b k : N) : M unit :=
  rb_remove c b k ;;; brc_remove b ;;;
  inb <- gets (fun s => memN b (brc s)) ;;
  when (negb inb) (remove_limiter b k).
(* decref_forward_block_op.apply (state.py:313) *)
Definition decref_apply (c b k : N) : M unit :=
  plan_append (ODecref c b k) ;;; brc_remove b ;;;
  inb <- gets (fun s => memN b (brc s)) ;;
  when (negb inb) (remove_limiter b k) ;;;
  rb_remove c b k.
(* decref_forward_block_op.revert (state.py:322) *)
Definition decref_revert (c b k : N) : M unit :=
  rb_append c b k ;;;
  inb <- gets (fun s => memN b (brc s)) ;;
  (if inb then ret tt else (add_limiter b k ;;; ret tt)) ;;;
  brc_add b.

(* plan_state._remove_pkg_blockers: walks a copy of rev_blockers.get(choices, ()) *)
Fixpoint decref_all (c : N) (l : list (N * N)) : M unit :=
  match l with
  | [] => ret tt
  | (b, k) :: r => decref_apply c b k ;;; decref_all c r
  end.
Definition remove_pkg_blockers (c : N) : M unit := fun s => decref_all c (rb_of c s) s.

(* ------------------------------------------------------------------ revert of a plan entry *)
Definition revert (o : op) : M unit :=
  match o with
  | OAdd c p f => remove_slotting p ;;; pc_del (peq E p)
  | OHardref r => fr_remove r
  | OBackref c p => ret tt
  | ORemove c p => fill_slotting p true ;;; pc_set (peq E p) c ;;; vf_remove (peq E p)
  | OReplace c p f old oldc fo =>
      remove_slotting p ;;;
      l <- fill_slotting old fo ;;
      if Bool.eqb (negb (is_nil l)) fo
      then pc_del (peq E p) ;;; pc_set (peq E old) oldc ;;; vf_remove (peq E old)
      else raise AssertionError
  | OIncref c b k => incref_revert c b k
  | ODecref c b k => decref_revert c b k
  end.

(* plan_state.backtrack (state.py:49): revert plan[k:] newest first; the `finally` prunes exactly
   the entries whose revert completed, also when a revert raises *)
Fixpoint revert_seq (l : list op) (done : nat) : M nat :=
  match l with
  | [] => ret done
  | o :: r => fun s => match revert o s with
                        | (s', Ok _) => revert_seq r (S done) s'
                        | (s', Ex e) => (set_plan (firstn (length (plan s') - done) (plan s')) s', Ex e)
                        end
  end.
Definition backtrack (k : nat) : M unit := fun s =>
  if Nat.ltb (length (plan s)) k then (s, Ex AssertionError)
  else if Nat.eqb (length (plan s)) k then (s, Ok tt)
  else match revert_seq (rev (skipn k (plan s))) 0 s with
       | (s', Ok n) => (set_plan (firstn (length (plan s') - n) (plan s')) s', Ok tt)
       | (s', Ex e) => (s', Ex e)
       end.

(* ------------------------------------------------------------------ the API calls *)
Inductive api :=
| AAdd (c p : N) (force : bool)
| AHardref (r : N)
| ABackref (c p : N)
| ARemove (c p : N)
| AReplace (c p : N) (force : bool)
| ABlock (c b k : N)      (* plan_state.add_blocker = incref_forward_block_op.apply *)
| ADecref (c b k : N).

(* add_op.apply (state.py:136) *)
Definition add_apply (c p : N) (f : bool) : M (option (list item)) :=
  l <- fill_slotting p f ;;
  if negb (is_nil l) && negb f then ret (Some l)
  else pc_set (peq E p) c ;;; plan_append (OAdd c p f) ;;; ret None.
(* remove_op.apply (state.py:183) *)
Definition remove_apply (c p : N) : M (option (list item)) :=
  remove_slotting p ;;; remove_pkg_blockers c ;;; pc_del (peq E p) ;;;
  plan_append (ORemove c p) ;;; vf_add (peq E p) ;;; ret None.
(* replace_op.apply (state.py:205) *)
Definition replace_apply (c p : N) (f : bool) : M (option (list item)) :=
  rp <- gets (fun s => length (plan s)) ;;
  oldo <- gets (get_conflicting_slot p) ;;
  match oldo with
  | None => raise AttributeError            (* check_limiters(None): None.key *)
  | Some old =>
      fo <- gets (fun s => negb (is_nil (check_limiters old s))) ;;
      remove_slotting old ;;;
      oco <- gets (fun s => lookup (peq E old) (pc s)) ;;
      match oco with
      | None => raise KeyError
      | Some oc =>
          remove_pkg_blockers oc ;;;
          l <- fill_slotting p f ;;
          if negb (is_nil l)
          then l2 <- fill_slotting old false ;;
               backtrack rp ;;;
               if negb (is_nil l2) then raise AssertionError else ret (Some l)
          else pc_del (peq E old) ;;; pc_set (peq E p) c ;;; plan_append (OReplace c p f old oc fo) ;;;
               vf_add (peq E old) ;;; ret None
      end
  end.

Definition call (a : api) : M (option (list item)) :=
  match a with
  | AAdd c p f => add_apply c p f
  | AHardref r => plan_append (OHardref r) ;;; fr_add r ;;; ret None
  | ABackref c p => plan_append (OBackref c p) ;;; ret None
  | ARemove c p => remove_apply c p
  | AReplace c p f => replace_apply c p f
  | ABlock c b k => l <- incref_apply c b k ;; ret (Some l)
  | ADecref c b k => decref_apply c b k ;;; ret None
  end.

(* a history: API calls interleaved with rollbacks *)
Inductive event := C (a : api) | R (k : nat).

Definition step (e : event) : M (option (list item)) :=
  match e with
  | C a => call a
  | R k => backtrack k ;;; ret None
  end.

(* state-only versions used by the theorems *)
Definition call_s (a : api) (s : state) : state := fst (call a s).
Definition backtrack_s (k : nat) (s : state) : state := fst (backtrack k s).
Definition step_s (e : event) (s : state) : state := fst (step e s).
Definition run (h : list event) (s : state) : state := fold_left (fun s e => step_s e s) h s.
Definition replay (l : list api) (s : state) : state := fold_left (fun s a => call_s a s) l s.

(* ------------------------------------------------------------------ encoders for the harness *)
(* A step of a history is rendered as a list of fields, each a list of small numbers (< 64):
   outcome; per key the slotted packages; per key the limiters; per choice point its
   (blocker,key) pairs [multiset fields, order = the implementation's list order];
   pkg_choices per package; refcount per blocker; vdb_filter per package; forced_restrictions
   per restriction; len(plan) [positional fields]; the plan entries appended by this step. *)
Definition bN (b : bool) : N := if b then 1%N else 0%N.
Definition enc_item (i : item) : N := match i with IP p => p | IB b => (8 + b)%N end.
Definition exc_id (e : exc) : N :=
  match e with KeyError => 1 | ValueError => 2 | AssertionError => 3 | AttributeError => 4 end%N.
Definition enc_out (r : Res (option (list item))) : list N :=
  match r with
  | Ok None => [0%N]
  | Ok (Some l) => 1%N :: map enc_item l
  | Ex e => [2%N; exc_id e]
  end.
Definition enc_op (o : op) : list N :=
  match o with
  | OAdd c p f => [0; c; p; bN f]
  | OHardref r => [1; r]
  | OBackref c p => [2; c; p]
  | ORemove c p => [3; c; p]
  | OReplace c p f old oc fo => [4; c; p; bN f; old; oc; bN fo]
  | OIncref c b k => [5; c; b; k]
  | ODecref c b k => [6; c; b; k]
  end%N.
Fixpoint upto (n : nat) : list N :=
  match n with O => [] | S m => upto m ++ [N.of_nat m] end.
Fixpoint countN (x : N) (l : list N) : nat :=
  match l with [] => O | y :: r => (if N.eqb x y then 1 else 0) + countN x r end.

(* finite universe: nk keys, np packages, nc choice points, nb blockers, nr restrictions *)
Definition snap_ms (nk nc : nat) (s : state) : list (list N) :=
  map (fun k => filter (fun p => N.eqb (pkey E p) k) (slots s)) (upto nk)
  ++ map (fun k => map snd (filter (fun kb => N.eqb (fst kb) k) (lims s))) (upto nk)
  ++ map (fun c => map (fun bk => (fst bk * 8 + snd bk)%N) (rb_of c s)) (upto nc).
Definition snap_pos (np nb nr : nat) (s : state) : list (list N) :=
  [ map (fun p => match lookup (peq E p) (pc s) with Some c => (c + 1)%N | None => 0%N end) (upto np);
    map (fun b => N.of_nat (countN b (brc s))) (upto nb);
    map (fun p => bN (memN (peq E p) (vf s))) (upto np);
    map (fun r => N.of_nat (countN r (fr s))) (upto nr);
    [N.of_nat (length (plan s))] ].
Definition snapshot (nk np nc nb nr : nat) (from : nat) (s : state) : list (list N) :=
  snap_ms nk nc s ++ snap_pos np nb nr s ++ [flat_map enc_op (skipn from (plan s))].

End WithEnv.

(* the environment as data: per package its key and slot; per blocker the packages it matches *)
Record cfg := { ckeys : list N; cslots : list N; cbkeys : list N; cmatch : list (list bool); ceqs : list N }.
Definition env_of (c : cfg) : env :=
  {| pkey := fun p => nth (N.to_nat p) (ckeys c) 0%N;
     pslot := fun p => nth (N.to_nat p) (cslots c) 0%N;
     bkey := fun b => nth (N.to_nat b) (cbkeys c) 0%N;
     bmatch := fun b p => nth (N.to_nat p) (nth (N.to_nat b) (cmatch c) []) false;
     peq := fun p => nth (N.to_nat p) (ceqs c) p |}.

Definition NK := 2%nat.
Definition NC := 3%nat.
Definition NR := 2%nat.
Definition snap_cfg (c : cfg) (from : nat) (s : state) : list (list N) :=
  snapshot (env_of c) NK (length (ckeys c)) NC (length (cmatch c)) NR from s.

(* stream "hist": run a history from the empty planner state; after every event the outcome
   (returned conflicts / None / exception) and a full snapshot *)
Fixpoint run_trace (c : cfg) (h : list event) (s : state) : list (list (list N)) :=
  match h with
  | [] => []
  | e :: r => let (s', o) := step (env_of c) e s in
              (enc_out o :: snap_cfg c (Nat.min (length (plan s)) (length (plan s'))) s')
              :: run_trace c r s'
  end.

(* wire form: every list is length-prefixed; tokens are < 64.  The harness ships the
   implementation's trace as a [tl]: one constructor application per token (parsed by coqc an
   order of magnitude faster than numerals or list notation). *)
Definition wire_field (f : list N) : list N := N.of_nat (length f) :: f.
Definition wire_step (st : list (list N)) : list N := N.of_nat (length st) :: flat_map wire_field st.
Definition wire_trace (t : list (list (list N))) : list N := N.of_nat (length t) :: flat_map wire_step t.
Inductive tl := E | T0 (r : tl) | T1 (r : tl) | T2 (r : tl) | T3 (r : tl) | T4 (r : tl) | T5 (r : tl) | T6 (r : tl) | T7 (r : tl) | T8 (r : tl) | T9 (r : tl) | T10 (r : tl) | T11 (r : tl) | T12 (r : tl) | T13 (r : tl) | T14 (r : tl) | T15 (r : tl) | T16 (r : tl) | T17 (r : tl) | T18 (r : tl) | T19 (r : tl) | T20 (r : tl) | T21 (r : tl) | T22 (r : tl) | T23 (r : tl) | T24 (r : tl) | T25 (r : tl) | T26 (r : tl) | T27 (r : tl) | T28 (r : tl) | T29 (r : tl) | T30 (r : tl) | T31 (r : tl) | T32 (r : tl) | T33 (r : tl) | T34 (r : tl) | T35 (r : tl) | T36 (r : tl) | T37 (r : tl) | T38 (r : tl) | T39 (r : tl) | T40 (r : tl) | T41 (r : tl) | T42 (r : tl) | T43 (r : tl) | T44 (r : tl) | T45 (r : tl) | T46 (r : tl) | T47 (r : tl) | T48 (r : tl) | T49 (r : tl) | T50 (r : tl) | T51 (r : tl) | T52 (r : tl) | T53 (r : tl) | T54 (r : tl) | T55 (r : tl) | T56 (r : tl) | T57 (r : tl) | T58 (r : tl) | T59 (r : tl) | T60 (r : tl) | T61 (r : tl) | T62 (r : tl) | T63 (r : tl).
Fixpoint tl_list (t : tl) : list N :=
  match t with
  | E => []
  | T0 r => 0%N :: tl_list r
  | T1 r => 1%N :: tl_list r
  | T2 r => 2%N :: tl_list r
  | T3 r => 3%N :: tl_list r
  | T4 r => 4%N :: tl_list r
  | T5 r => 5%N :: tl_list r
  | T6 r => 6%N :: tl_list r
  | T7 r => 7%N :: tl_list r
  | T8 r => 8%N :: tl_list r
  | T9 r => 9%N :: tl_list r
  | T10 r => 10%N :: tl_list r
  | T11 r => 11%N :: tl_list r
  | T12 r => 12%N :: tl_list r
  | T13 r => 13%N :: tl_list r
  | T14 r => 14%N :: tl_list r
  | T15 r => 15%N :: tl_list r
  | T16 r => 16%N :: tl_list r
  | T17 r => 17%N :: tl_list r
  | T18 r => 18%N :: tl_list r
  | T19 r => 19%N :: tl_list r
  | T20 r => 20%N :: tl_list r
  | T21 r => 21%N :: tl_list r
  | T22 r => 22%N :: tl_list r
  | T23 r => 23%N :: tl_list r
  | T24 r => 24%N :: tl_list r
  | T25 r => 25%N :: tl_list r
  | T26 r => 26%N :: tl_list r
  | T27 r => 27%N :: tl_list r
  | T28 r => 28%N :: tl_list r
  | T29 r => 29%N :: tl_list r
  | T30 r => 30%N :: tl_list r
  | T31 r => 31%N :: tl_list r
  | T32 r => 32%N :: tl_list r
  | T33 r => 33%N :: tl_list r
  | T34 r => 34%N :: tl_list r
  | T35 r => 35%N :: tl_list r
  | T36 r => 36%N :: tl_list r
  | T37 r => 37%N :: tl_list r
  | T38 r => 38%N :: tl_list r
  | T39 r => 39%N :: tl_list r
  | T40 r => 40%N :: tl_list r
  | T41 r => 41%N :: tl_list r
  | T42 r => 42%N :: tl_list r
  | T43 r => 43%N :: tl_list r
  | T44 r => 44%N :: tl_list r
  | T45 r => 45%N :: tl_list r
  | T46 r => 46%N :: tl_list r
  | T47 r => 47%N :: tl_list r
  | T48 r => 48%N :: tl_list r
  | T49 r => 49%N :: tl_list r
  | T50 r => 50%N :: tl_list r
  | T51 r => 51%N :: tl_list r
  | T52 r => 52%N :: tl_list r
  | T53 r => 53%N :: tl_list r
  | T54 r => 54%N :: tl_list r
  | T55 r => 55%N :: tl_list r
  | T56 r => 56%N :: tl_list r
  | T57 r => 57%N :: tl_list r
  | T58 r => 58%N :: tl_list r
  | T59 r => 59%N :: tl_list r
  | T60 r => 60%N :: tl_list r
  | T61 r => 61%N :: tl_list r
  | T62 r => 62%N :: tl_list r
  | T63 r => 63%N :: tl_list r
  end.
(* (A): the model's trace of history i equals the implementation's recorded trace *)
Definition run_hist (i : (cfg * list event) * tl) : val :=
  VB (str_eqb (wire_trace (run_trace (fst (fst i)) (snd (fst i)) init)) (tl_list (snd i))).
