(* Prop_C06.v — the property theorems of C06 and nothing else. *)
From Coq Require Import List NArith ZArith Bool.
Import ListNotations.
From Verif Require Import Base.Val C06.Restr C06.Model_C06 C06.Spec_C06 C06.Proofs_C06.

(* any composition of leaves under all-of / any-of / exactly-one-of / at-most-one-of nodes with
   negate flags and Negate wrappers matches exactly when its propositional formula is true *)
Theorem match_is_propositional : forall e r, eval e r = prop_eval e r.
Proof. exact match_is_propositional_proof. Qed.
Print Assumptions match_is_propositional.

(* every DNF pkgcore derives denotes the tree, for every environment — outside the known class
   (the expansion reaches an any-of without alternatives); PARTIAL: the unrestricted statement
   [dnf_equiv_full] is false of the code, see dnf_equiv_refuted *)
Theorem dnf_equiv_partial : forall fse r s,
  dnf_class fse r = false -> dnf fse r = inl s -> forall e, eval_dnf e s = eval e r.
Proof. exact dnf_equiv_partial_proof. Qed.
Print Assumptions dnf_equiv_partial.

Theorem cnf_equiv_partial : forall fse r s,
  cnf_class fse r = false -> cnf fse r = inl s -> forall e, eval_cnf e s = eval e r.
Proof. exact cnf_equiv_partial_proof. Qed.
Print Assumptions cnf_equiv_partial.

(* the same against the declarative reading of both sides *)
Theorem dnf_denotes_formula : forall fse r s,
  dnf_class fse r = false -> dnf fse r = inl s -> forall e, sem_dnf e s = prop_eval e r.
Proof. exact dnf_denotes_formula_proof. Qed.
Print Assumptions dnf_denotes_formula.

Theorem cnf_denotes_formula : forall fse r s,
  cnf_class fse r = false -> cnf fse r = inl s -> forall e, sem_cnf e s = prop_eval e r.
Proof. exact cnf_denotes_formula_proof. Qed.
Print Assumptions cnf_denotes_formula.

(* refusals: dnf_solutions never refuses (and never returns no clause, so its `assert` is dead);
   cnf_solutions refuses only with NotImplementedError *)
Theorem dnf_never_refuses : forall fse r, exists s, dnf fse r = inl s /\ s <> [].
Proof. exact dnf_never_refuses_proof. Qed.
Print Assumptions dnf_never_refuses.

Theorem cnf_refusal_kind : forall fse r e, cnf fse r = inr e -> e = ENotImpl.
Proof. exact cnf_refusal_kind_proof. Qed.
Print Assumptions cnf_refusal_kind.

(* the unrestricted statements are false of the faithful model (known finding: empty any-of) *)
Theorem dnf_equiv_refuted : ~ dnf_equiv_full.
Proof. exact dnf_equiv_refuted_proof. Qed.
Print Assumptions dnf_equiv_refuted.

Theorem cnf_equiv_refuted : ~ cnf_equiv_full.
Proof. exact cnf_equiv_refuted_proof. Qed.
Print Assumptions cnf_equiv_refuted.
