(* Model_C35.v — the line protocol between EbuildProcessor (src/pkgcore/ebuild/processor.py, ebd.py)
   and the bash daemon (data/lib/pkgcore/ebd/ebuild-daemon.bash, ebuild-daemon-lib.bash,
   exit-handling.bash) as a labelled transition system: two processes, two unbounded FIFO channels
   of LINES.  No proofs here.

   Alphabet.  Lines are abstracted to tokens ([cmd]: python -> daemon, [rep]: daemon -> python); the
   abstraction maps [classify_w]/[classify_r] and the three agreement predicates
       cmd_ok c   the literal python writes for c is dispatched by the daemon's `case` arms to c
       ack_ok c   the literal python expect()s after c is one the arm of c writes
       req_ok r   the literal the daemon writes for request/notice r is one python handles as r
   are computed from gen/Tables_protocol.v, which is regenerated from BOTH sources on every run.
   Where they disagree the model behaves as the code does: the daemon sees an unknown command
   ([see]), python sees a reply it does not accept ([reply] gives RNak) or an unknown request ([tok]).

   Ghost data (not on the wire): every written command gets a sequence number; a reply carries the
   number of the command it answers; an expect remembers the number of the command it follows.

   Daemon (sstate): SInit0/SInit1 __ebd_exec_main handshake; SMain __ebd_main_loop; SSetup the
   inner loop of __ebd_process_ebuild_phases; SRun k executing phases (k: process_ebuild /
   gen_metadata / gen_ebuild_env) — the only states with free choices (key, receive_env,
   request_inherit, request_bashrcs, an IPC helper call, __request_sandbox_summary, finish, die);
   SInh1/SInh2 __internal_inherit; SRc1/SRc2 __source_bashrcs; SIpcW __ebd_ipc_cmd; SSbx
   __request_sandbox_summary; SDead.  die() is one step: "dying", "dead" (the free text between
   them is stderr, dropped from traces); in the subshell of a phase the main loop then reports
   "phases failed" and goes on, in the main shell the daemon exits.
   A read and the reply lines it causes are one step (nothing else can happen in between).
   SIGINT/SIGTERM: one notice line, then the daemon is gone.

   Python (pstate/prog): public operations are straight-line programs over write / expect (sync or
   queued in _outstanding_expects) / _consume_async_expects / read / generic_handler; every read
   intercepts SIGINT, SIGTERM, dying (readlines).  expect(timeout=..) (is_responsive) is the SAME
   discipline as any synchronous expect: with expects outstanding it queues behind them and all are
   consumed together (only the alarm, outside the model, differs).  run_phase is modelled WITH the repair
   fixes/C35-env-failure-drain.patch (outstanding async expects are collected first; the
   "phases failed" line that follows env_receiving_failed is consumed).  After an UnhandledCommand/InternalError the session is in PErr: only cleanup
   (timed probes, kill) happens there.

   Outside the model: OS pipe buffering, EPIPE, signal delivery and the 10 s alarm of
   is_responsive, waitpid, the raw (non-line) payloads that follow a byte count. *)
From Coq Require Import List NArith ZArith Bool Arith String Ascii.
Import ListNotations.
From Verif Require Import Base.Val C41.Lts gen.Tables_protocol.

(* ------------------------------------------------------------------ strings / table lookups *)
Definition L (s : string) : str := map N_of_ascii (list_ascii_of_string s).

Fixpoint prefixb (p l : str) : bool :=
  match p, l with
  | [], _ => true
  | x :: p', y :: l' => N.eqb x y && prefixb p' l'
  | _ :: _, [] => false
  end.

Fixpoint lookup (k : string) (t : list (string * list string)) : list string :=
  match t with
  | [] => []
  | (k', v) :: t' => if String.eqb k k' then v else lookup k t'
  end.
Definition lit (t : list (string * list string)) (f : string) (i : nat) : string := nth i (lookup f t) "<missing>"%string.

Definition first_word (s : string) : string :=
  (fix go (s : string) : string :=
     match s with
     | EmptyString => EmptyString
     | String a s' => if Ascii.eqb a " "%char then EmptyString else String a (go s')
     end) s.
Definition mem (x : string) (l : list string) : bool := existsb (String.eqb x) l.

(* ------------------------------------------------------------------ tokens *)
Inductive cmd :=
| CEbdQ | CNoSandbox | CSandboxLogQ
| CProcess | CStartEnv | CSetSandbox | CLogging | CStartProc
| CShutdown | CAlive | CPreload | CClear | CSetMeta | CGenMeta | CGenEnv
| CPath | CTransfer | CEndRequest | CEndSbx
| COther.                 (* any other line: data (a path, eclass text, an IPC result) or an unknown command *)

Inductive rep :=
| RAck (c : cmd)          (* the reply python accepts after c *)
| RNak (c : cmd)          (* another reply of c's arm (… failed / a literal python does not expect) *)
| RPhasesOk | RPhasesFail
| RReqInherit | RReqBashrcs | RNext | RFailed | RReqSbx | RKey | RRecvEnv | RIpc
| RDying | RDead | RSigint | RSigterm
| RLine.                  (* any other line: data, die text, an unknown request *)

Definition cmd_eqb (a b : cmd) : bool :=
  match a, b with
  | CEbdQ, CEbdQ | CNoSandbox, CNoSandbox | CSandboxLogQ, CSandboxLogQ | CProcess, CProcess
  | CStartEnv, CStartEnv | CSetSandbox, CSetSandbox | CLogging, CLogging | CStartProc, CStartProc
  | CShutdown, CShutdown | CAlive, CAlive | CPreload, CPreload | CClear, CClear | CSetMeta, CSetMeta
  | CGenMeta, CGenMeta | CGenEnv, CGenEnv | CPath, CPath | CTransfer, CTransfer
  | CEndRequest, CEndRequest | CEndSbx, CEndSbx | COther, COther => true
  | _, _ => false
  end.

Definition rep_eqb (a b : rep) : bool :=
  match a, b with
  | RAck x, RAck y | RNak x, RNak y => cmd_eqb x y
  | RPhasesOk, RPhasesOk | RPhasesFail, RPhasesFail | RReqInherit, RReqInherit
  | RReqBashrcs, RReqBashrcs | RNext, RNext | RFailed, RFailed | RReqSbx, RReqSbx | RKey, RKey
  | RRecvEnv, RRecvEnv | RIpc, RIpc | RDying, RDying | RDead, RDead | RSigint, RSigint
  | RSigterm, RSigterm | RLine, RLine => true
  | _, _ => false
  end.

(* ------------------------------------------------------------------ the daemon's dispatch (from the tables) *)
Definition arm := ((bool * string) * list string)%type.
Definition arm_matches (a : arm) (l : str) : bool :=
  let '((pre, p), _) := a in if pre then prefixb (L p) l else str_eqb (L p) l.
Fixpoint find_arm (arms : list arm) (l : str) : option arm :=
  match arms with
  | [] => None
  | a :: arms' => if arm_matches a l then Some a else find_arm arms' l
  end.

(* which token an arm (named by its pattern text) is *)
Definition arm_cmd (p : string) : cmd :=
  if String.eqb p "process_ebuild" then CProcess
  else if String.eqb p "shutdown_daemon" then CShutdown
  else if String.eqb p "preload_eclass " then CPreload
  else if String.eqb p "clear_preloaded_eclasses" then CClear
  else if String.eqb p "set_metadata_path " then CSetMeta
  else if String.eqb p "gen_metadata " then CGenMeta
  else if String.eqb p "gen_ebuild_env " then CGenEnv
  else if String.eqb p "alive" then CAlive
  else if String.eqb p "start_receiving_env" then CStartEnv
  else if String.eqb p "logging" then CLogging
  else if String.eqb p "set_sandbox_state" then CSetSandbox
  else if String.eqb p "start_processing" then CStartProc
  else if String.eqb p "sandbox_log?" then CSandboxLogQ
  else if String.eqb p "no_sandbox" then CNoSandbox
  else COther.
Definition arm_tok (a : arm) : cmd := arm_cmd (snd (fst a)).

(* literals the daemon compares a line it read with *)
Definition sh_ebdq := lit sh_fn_reads "__ebd_exec_main" 0.
Definition sh_path := lit sh_fn_reads "__internal_inherit" 0.
Definition sh_transfer := lit sh_fn_reads "__internal_inherit" 1.
Definition sh_end_request := lit sh_fn_reads "__source_bashrcs" 0.
Definition sh_rc_path := lit sh_fn_reads "__source_bashrcs" 1.
Definition sh_rc_transfer := lit sh_fn_reads "__source_bashrcs" 2.
Definition sh_end_sbx := lit sh_fn_reads "__request_sandbox_summary" 0.

(* a written line as the daemon will dispatch it (main loop arms, then phase loop arms, then the
   handshake and the answers to its own requests) *)
Definition classify_w (l : str) : cmd :=
  match find_arm sh_main_arms l with
  | Some a => arm_tok a
  | None =>
    match find_arm sh_phase_arms l with
    | Some a => arm_tok a
    | None =>
      match find_arm sh_sandbox_arms l with
      | Some a => arm_tok a
      | None =>
        if str_eqb (L sh_ebdq) l then CEbdQ
        else if str_eqb (L sh_path) l && str_eqb (L sh_rc_path) l then CPath
        else if str_eqb (L sh_transfer) l && str_eqb (L sh_rc_transfer) l then CTransfer
        else if str_eqb (L sh_end_request) l then CEndRequest
        else if str_eqb (L sh_end_sbx) l then CEndSbx
        else COther
      end
    end
  end.

(* the literal python writes for a command *)
Definition py_lit (c : cmd) : string :=
  match c with
  | CEbdQ => lit py_fn_writes "__init__" 0
  | CSandboxLogQ => lit py_fn_writes "__init__" 1
  | CNoSandbox => lit py_fn_writes "__init__" 2
  | CProcess => lit py_fn_writes "run_phase" 0
  | CSetSandbox => lit py_fn_writes "run_phase" 1
  | CStartProc => lit py_fn_writes "run_phase" 2
  | CStartEnv => lit py_fn_writes "send_env" 1
  | CLogging => lit py_fn_writes "set_logfile" 0
  | CShutdown => lit py_fn_writes "shutdown_processor" 0
  | CAlive => lit py_fn_writes "is_responsive" 0
  | CPreload => lit py_fn_writes "_preload_eclass" 0
  | CClear => lit py_fn_writes "clear_preloaded_eclasses" 0
  | CSetMeta => lit py_fn_writes "_ensure_metadata_paths" 0
  | CGenMeta => (lit py_extra_handlers "get_keys:command" 0 ++ " ")%string
  | CGenEnv => (lit py_extra_handlers "get_ebuild_environment:command" 0 ++ " ")%string
  | CPath => lit py_fn_writes "inherit_handler" 0
  | CTransfer => lit py_fn_writes "inherit_handler" 2
  | CEndRequest => lit py_fn_writes "ebd._request_bashrcs" 1
  | CEndSbx => lit py_fn_writes "sandbox_summary" 0
  | COther => "<data>"
  end.
Definition py_lit_env_file := lit py_fn_writes "send_env" 0.
Definition py_lit_rc_path := lit py_fn_writes "ebd._request_bashrcs" 0.

Definition cmd_ok (c : cmd) : bool :=
  cmd_eqb (classify_w (L (py_lit c))) c
  && match c with
     | CStartEnv => cmd_eqb (classify_w (L py_lit_env_file)) CStartEnv
     | CPath => cmd_eqb (classify_w (L py_lit_rc_path)) CPath
     | _ => true
     end.

(* what python expect()s after a command, and what the daemon's arm can write *)
Definition py_want (c : cmd) : string :=
  match c with
  | CEbdQ => lit py_fn_expects "__init__" 0
  | CSetMeta => lit py_fn_expects "_ensure_metadata_paths" 0
  | CPreload => lit py_fn_expects "_preload_eclass" 0
  | CClear => lit py_fn_expects "clear_preloaded_eclasses" 0
  | CAlive => lit py_fn_expects "is_responsive" 0
  | CStartEnv => lit py_fn_expects "send_env" 0
  | CLogging => lit py_fn_expects "set_logfile" 0
  | _ => "<none>"
  end.
Definition expects_reply (c : cmd) : bool :=
  match c with CEbdQ | CSetMeta | CPreload | CClear | CAlive | CStartEnv | CLogging => true | _ => false end.

Definition arm_replies (c : cmd) : list string :=
  match c with
  | CEbdQ => [lit sh_fn_writes "__ebd_exec_main" 0]
  | _ => flat_map (fun a : arm => if cmd_eqb (arm_tok a) c then snd a else []) (sh_main_arms ++ sh_phase_arms)
  end.
(* every arm that is dispatched for c (main loop and phase loop both list `alive`) must be able to
   write the reply python expects *)
Definition ack_ok (c : cmd) : bool :=
  mem (py_want c) (arm_replies c)
  && forallb (fun a : arm => implb (cmd_eqb (arm_tok a) c) (mem (py_want c) (snd a)))
             (sh_main_arms ++ sh_phase_arms).

(* requests and notices: the literal the daemon writes, and whether python takes it as that *)
Definition sh_lit (r : rep) : string :=
  match r with
  | RPhasesOk => nth 0 (arm_replies CGenMeta) "<missing>"
  | RPhasesFail => nth 1 (arm_replies CGenMeta) "<missing>"
  | RReqInherit => lit sh_fn_writes "__internal_inherit" 0
  | RReqBashrcs => lit sh_fn_writes "__source_bashrcs" 0
  | RFailed => lit sh_fn_writes "__source_bashrcs" 1
  | RNext => lit sh_fn_writes "__source_bashrcs" 2
  | RReqSbx => lit sh_fn_writes "__request_sandbox_summary" 0
  | RKey => lit sh_fn_writes "__dump_metadata_keys" 1
  | RRecvEnv => lit sh_fn_writes "__execute_phases" 0
  | RDying => lit sh_fn_writes "die" 0
  | RDead => lit sh_fn_writes "die" 1
  | RSigint => lit sh_fn_writes "__ebd_sigint_handler" 0
  | RSigterm => lit sh_fn_writes "__ebd_sigterm_handler" 0
  | _ => "<none>"
  end.
Definition second_word (s : string) : string :=
  (fix go (s : string) : string :=
     match s with
     | EmptyString => EmptyString
     | String a s' => if Ascii.eqb a " "%char then first_word s' else go s'
     end) s.
(* every `key` line the daemon writes contains '=' (checked by the table scanner, fail-closed):
   receive_key never raises FinishedProcessing early *)
Definition req_ok (r : rep) : bool :=
  let w := first_word (sh_lit r) in
  match r with
  | RPhasesOk => mem w py_handlers && String.eqb (second_word (sh_lit r)) py_stop_ok
  | RPhasesFail => mem w py_handlers && negb (String.eqb (second_word (sh_lit r)) py_stop_ok)
  | RReqInherit => mem w (lookup "_run_depend_like_phase" py_extra_handlers) && mem w (lookup "ebd.setup" py_extra_handlers)
  | RReqBashrcs => mem w (lookup "ebd._generic_phase" py_extra_handlers)
  | RNext => String.eqb (sh_lit r) (lit py_fn_expects "ebd._request_bashrcs" 0)
  | RFailed => mem w py_handlers
  | RReqSbx => mem w py_handlers
  | RKey => mem w (lookup "get_keys" py_extra_handlers)
  | RRecvEnv => mem w (lookup "get_ebuild_environment" py_extra_handlers)
  | RDying | RSigint | RSigterm => mem w py_intercepts && mem w py_handlers
  | RDead => String.eqb (sh_lit r) py_dead
  | _ => true
  end.

(* a line python read, as the daemon meant it *)
Definition is_reply_of (c : cmd) (l : str) : bool :=
  existsb (fun s => if String.eqb s "$" then false
                    else if orb (String.eqb (second_word s) "") (negb (prefixb (L "phases failed") (L s)))
                         then str_eqb (L s) l else prefixb (L s) l)
          (arm_replies c).
Definition ipc_names : list string := lookup "ebd.ipc" py_extra_handlers.
Fixpoint str_first_word (l : str) : str :=
  match l with [] => [] | x :: l' => if N.eqb x 32 then [] else x :: str_first_word l' end.
Definition classify_r (l : str) : rep :=
  let pre r := prefixb (L (sh_lit r)) l in
  let eq r := str_eqb (L (sh_lit r)) l in
  if eq RPhasesOk then RPhasesOk
  else if pre RPhasesFail then RPhasesFail
  else if pre RDying then RDying
  else if eq RDead then RDead
  else if eq RSigint then RSigint
  else if eq RSigterm then RSigterm
  else if pre RReqInherit then RReqInherit
  else if eq RReqBashrcs then RReqBashrcs
  else if eq RNext then RNext
  else if eq RFailed then RFailed
  else if pre RReqSbx then RReqSbx
  else if pre RKey then RKey
  else if pre RRecvEnv then RRecvEnv
  else match find (fun c => is_reply_of c l) [CEbdQ; CAlive; CPreload; CClear; CSetMeta; CStartEnv; CLogging] with
       | Some c => if str_eqb (L (py_want c)) l then RAck c else RNak c
       | None => if existsb (fun s => str_eqb (L s) (str_first_word l)) ipc_names then RIpc else RLine
       end.

(* the three agreement predicates as the protocol uses them *)
Definition see (c : cmd) : cmd := if cmd_ok c then c else COther.
Definition reply (c : cmd) (fate : bool) : rep := if ack_ok c && fate then RAck c else RNak c.
Definition tok (r : rep) : rep := if req_ok r then r else RLine.

Definition all_cmds : list cmd :=
  [CEbdQ; CNoSandbox; CSandboxLogQ; CProcess; CStartEnv; CSetSandbox; CLogging; CStartProc; CShutdown;
   CAlive; CPreload; CClear; CSetMeta; CGenMeta; CGenEnv; CPath; CTransfer; CEndRequest; CEndSbx].
Definition all_reqs : list rep :=
  [RPhasesOk; RPhasesFail; RReqInherit; RReqBashrcs; RNext; RFailed; RReqSbx; RKey; RRecvEnv;
   RDying; RDead; RSigint; RSigterm].
(* the whole table obligation, as one boolean *)
Definition tables_agree : bool :=
  forallb cmd_ok all_cmds
  && forallb (fun c => implb (expects_reply c) (ack_ok c)) all_cmds
  && forallb req_ok all_reqs.

(* ------------------------------------------------------------------ daemon *)
Inductive rk := KPhase | KMeta | KEnv.
Inductive sstate :=
| SInit0 | SInit1 | SMain | SSetup
| SRun (k : rk) | SInh1 (k : rk) | SInh2 (k : rk) | SRc1 | SRc2 | SIpcW | SSbx (k : rk)
| SDead.

Definition sh_reads (s : sstate) : bool :=
  match s with SRun _ | SDead => false | _ => true end.

(* reaction of a reading daemon to one line: next state and the lines it writes *)
Definition sreact (s : sstate) (c0 : cmd) (fate : bool) : option (sstate * list rep) :=
  let c := see c0 in
  (* die: "dying", free text (stderr, not protocol lines: dropped from traces), "dead"; in the
     subshell of a phase the main loop then reports the failed phase and goes on, in the main shell
     the daemon exits *)
  let die (sub : bool) := if sub then Some (SMain, [tok RDying; tok RDead; tok RPhasesFail])
                          else Some (SDead, [tok RDying; tok RDead]) in
  match s with
  | SInit0 => match c with CEbdQ => Some (SInit1, [reply CEbdQ true]) | _ => Some (SDead, []) end
  | SInit1 => match c with
              | CNoSandbox => Some (SMain, [RLine])
              | CSandboxLogQ => Some (SMain, [RLine; RLine])
              | _ => die false
              end
  | SMain => match c with
             | CProcess => Some (SSetup, [])
             | CShutdown => Some (SDead, [])
             | CPreload => Some (SMain, [reply CPreload fate])
             | CClear => Some (SMain, [reply CClear true])
             | CSetMeta => Some (SMain, [reply CSetMeta true])
             | CGenMeta => Some (SRun KMeta, [])
             | CGenEnv => Some (SRun KEnv, [])
             | CAlive => Some (SMain, [reply CAlive true])
             | _ => die false
             end
  | SSetup => match c with
              | CStartEnv => if fate then Some (SSetup, [reply CStartEnv true])
                             else Some (SMain, [RNak CStartEnv; tok RPhasesFail])
              | CLogging => Some (SSetup, [reply CLogging true])
              | CSetSandbox => Some (SSetup, [])
              | CStartProc => Some (SRun KPhase, [])
              | CShutdown => Some (SMain, [tok RPhasesOk])
              | CAlive => Some (SSetup, [reply CAlive true])
              | _ => die true
              end
  | SInh1 k => match c with CPath | CTransfer => Some (SInh2 k, []) | _ => die true end
  | SInh2 k => Some (SRun k, [])
  | SRc1 => match c with
            | CEndRequest => Some (SRun KPhase, [])
            | CPath | CTransfer => Some (SRc2, [])
            | _ => Some (SMain, [tok RFailed; tok RDying; tok RDead; tok RPhasesFail])
            end
  | SRc2 => Some (SRc1, [tok RNext])
  | SIpcW => Some (SRun KPhase, [])
  | SSbx k => match c with CEndSbx => Some (SRun k, []) | _ => Some (SSbx k, []) end
  | SRun _ | SDead => None
  end.

(* free choices of a running / dying daemon *)
Inductive emit := EKey | ERecvEnv | EInherit | EBashrc | EIpc | ESbx | EFinish (ok : bool) | EDie.
Definition semit (s : sstate) (e : emit) : option (sstate * list rep) :=
  match s, e with
  | SRun KMeta, EKey => Some (s, [tok RKey])
  | SRun KEnv, ERecvEnv => Some (s, [tok RRecvEnv])
  | SRun k, EInherit => Some (SInh1 k, [tok RReqInherit])
  | SRun KPhase, EBashrc => Some (SRc1, [tok RReqBashrcs])
  | SRun KPhase, EIpc => Some (SIpcW, [RIpc; RLine; RLine; RLine; RLine; RLine])
  | SRun k, ESbx => Some (SSbx k, [tok RReqSbx])
  | SRun _, EFinish ok => Some (SMain, [tok (if ok then RPhasesOk else RPhasesFail)])
  | SRun _, EDie => Some (SMain, [tok RDying; tok RDead; tok RPhasesFail])
  | _, _ => None
  end.
Definition signalable (s : sstate) : bool :=
  match s with SInit0 | SInit1 | SDead => false | _ => true end.

(* ------------------------------------------------------------------ python *)
Inductive hk := HPhase | HMeta | HEnv.
Inductive prog :=
| Ret (b alive : bool)        (* the operation returns b; alive=false: the processor is shut down *)
| Fail                        (* raises, the daemon is back in its main loop (phases failed) *)
| Err                         (* raises UnhandledCommand / InternalError *)
| GoneExc                     (* raises after killing the daemon (die, unknown eclass, SIGINT) *)
| Wr (c : cmd) (k : prog)
| Exp (w : rep) (async : bool) (kok kbad : prog)   (* expect(): about the command written last *)
| Cons (kok kbad : prog)                           (* _consume_async_expects *)
| Rd (k : prog)                                    (* read(): one line, whatever it is *)
| Handle (h : hk) (kt : prog).                     (* generic_handler; kt after FinishedProcessing(True) *)

Definition Req (c : cmd) (async : bool) (kok kbad : prog) : prog := Wr c (Exp (RAck c) async kok kbad).
Definition Done (b : bool) : prog := Ret b true.

Inductive op :=
| OAlive | OClear | OShutdown
| OPreload (n : nat) (sync : bool)
| OKeys (setmeta : bool) (npre : nat) | OEnv (setmeta : bool) (npre : nat)
| ORunPhase (logging : bool)
| ORaw.                                            (* a client writes a line that is not a command *)

Fixpoint preload (n : nat) (k : prog) : prog :=
  match n with 0 => k | S m => Req CPreload true (preload m k) (preload m k) end.
Definition shutdown_prog (b : bool) : prog := Req CAlive false (Wr CShutdown (Ret b false)) (Ret b false).
Definition depend_prog (c : cmd) (h : hk) (setmeta : bool) (npre : nat) : prog :=
  let k := Wr c (Handle h (preload npre (Done true))) in
  if setmeta then Req CSetMeta false k k else k.
Definition prog_of (o : op) : prog :=
  match o with
  | OAlive => Req CAlive false (Done true) (Done false)
  | OClear => Req CAlive false (Req CClear false (Done true) (shutdown_prog false)) (Done true)
  | OShutdown => shutdown_prog true
  | OPreload n sync => preload n (if sync then Cons (Done true) (Done false) else Done true)
  | OKeys sm n => depend_prog CGenMeta HMeta sm n
  | OEnv sm n => depend_prog CGenEnv HEnv sm n
  | ORunPhase lg =>
      let p := Wr CStartProc (Handle HPhase (Done true)) in
      let body := Wr CProcess (Req CStartEnv false
                       (Wr CSetSandbox (if lg then Req CLogging false p (Done false) else p))
                       (Rd (Done false))) in
      Cons body body
  | ORaw => Wr COther (Done true)
  end.
Definition init_prog (sandbox : bool) : prog :=
  Req CEbdQ false (if sandbox then Wr CSandboxLogQ (Rd (Rd (Done true))) else Wr CNoSandbox (Rd (Done true))) Err.

Fixpoint rc_prog (m : nat) (back : prog) : prog :=
  match m with
  | 0 => Wr CEndRequest back
  | S m' => Wr CPath (Wr COther (Exp RNext false (rc_prog m' back) Err))
  end.
Fixpoint sbx_prog (m : nat) (back : prog) : prog :=
  match m with 0 => Wr CEndSbx back | S m' => Wr COther (sbx_prog m' back) end.

Inductive pstate :=
| PIdle | PErr | PGone
| PExec (p : prog)
| PRead1 (w : nat * rep) (kok kbad : prog)
| PCons (rem : list (nat * rep)) (ok : bool) (kok kbad : prog)
| PRd (k : prog)
| PHand (h : hk) (kt : prog)
| PDie.

(* what the handler loop does with one line; ch is the environment's choice on the python side
   (inherit: 0 unknown eclass, 1 path, 2 transfer; bashrcs/sandbox summary: how many; IPC: 0 = IpcError) *)
Definition handle (h : hk) (kt : prog) (r : rep) (ch : nat) : pstate * bool (* killed the daemon *) :=
  let back := Handle h kt in
  match r with
  | RPhasesOk => (PExec kt, false)
  | RPhasesFail => (PExec Fail, false)
  | RReqInherit =>
      match ch with
      | 0 => (PExec GoneExc, true)
      | 1 => (PExec (Wr CPath (Wr COther back)), false)
      | _ => (PExec (Wr CTransfer (Wr COther back)), false)
      end
  | RReqBashrcs => match h with HPhase => (PExec (rc_prog ch back), false) | _ => (PExec Err, false) end
  | RKey => match h with HMeta => (PHand h kt, false) | _ => (PExec Err, false) end
  | RRecvEnv => match h with HEnv => (PHand h kt, false) | _ => (PExec Err, false) end
  | RIpc => match h with
            | HPhase => (PExec (Rd (Rd (Rd (Rd (Rd (Wr COther (match ch with 0 => Err | _ => back end))))))), false)
            | _ => (PExec Err, false)
            end
  | RReqSbx => (PExec (sbx_prog ch back), false)
  | _ => (PExec Err, false)
  end.

(* ------------------------------------------------------------------ configurations and steps *)
Record conf := mk {
  py : pstate;
  outs : list (nat * rep);               (* _outstanding_expects: (command number, wanted reply) *)
  sh : sstate;
  p2d : list (cmd * nat * bool);         (* command, its number, its fate (preload/env transfer succeeds) *)
  d2p : list (rep * option nat);         (* line, the command number it answers *)
  nxt : nat
}.

Inductive endk := ERet (b : bool) | EExc.
Inductive label :=
| LCall (o : op)
| LW (c : cmd) (fate : bool)
| LR (r : rep) (ch : nat)
| LEof
| LEnd (e : endk)
| LTau
| LKill
| LShRead
| LShEmit (e : emit)
| LShSig (term : bool).

Definition conf0 (sandbox : bool) : conf := mk (PExec (init_prog sandbox)) [] SInit0 [] [] 0.

Definition set_py (c : conf) (p : pstate) : conf := mk p (outs c) (sh c) (p2d c) (d2p c) (nxt c).

Definition tag (i : nat) (rs : list rep) : list (rep * option nat) := map (fun r => (r, Some i)) rs.
Definition untag (rs : list rep) : list (rep * option nat) := map (fun r => (r, None)) rs.

(* python consumes one line r (None = EOF) in a reading state; intercepts first (readlines) *)
Definition py_read (c : conf) (r : option rep) (ch : nat) : option conf :=
  let stay p := Some (set_py c p) in
  match r with
  | Some RSigint =>
      match py c with
      | PRead1 _ _ _ | PCons _ _ _ _ | PRd _ | PHand _ _ | PDie =>
          Some (mk (PExec GoneExc) (outs c) SDead (p2d c) (d2p c) (nxt c))
      | _ => None
      end
  | Some RSigterm =>
      (* chuck_TermInterrupt(ebp): the daemon announced that it is terminating; python probes and
         reaps it (is_responsive/waitpid) and the operation fails one way or another: cleanup *)
      match py c with
      | PRead1 _ _ _ | PCons _ _ _ _ | PRd _ | PHand _ _ | PDie => stay PErr
      | _ => None
      end
  | Some RDying =>
      match py c with
      | PRead1 _ _ _ | PCons _ _ _ _ | PRd _ | PHand _ _ | PDie => stay PDie
      | _ => None
      end
  | _ =>
      let is r' := match r with Some x => rep_eqb x r' | None => false end in
      match py c with
      | PRead1 (_, w) kok kbad => stay (PExec (if is w then kok else kbad))
      | PCons [] _ _ _ => None
      | PCons [(_, w)] ok kok kbad => stay (PExec (if ok && is w then kok else kbad))
      | PCons ((_, w) :: rem) ok kok kbad => stay (PCons rem (ok && is w) kok kbad)
      | PRd k => stay (PExec k)
      | PHand h kt =>
          match r with
          | Some x => let '(p, kill) := handle h kt x ch in
                      Some (mk p (outs c) (if kill then SDead else sh c) (p2d c) (d2p c) (nxt c))
          | None => stay (PExec Err)
          end
      | PDie => match r with
                | Some RDead => Some (mk (PExec GoneExc) (outs c) SDead (p2d c) (d2p c) (nxt c))
                | _ => stay PDie
                end
      | _ => None
      end
  end.

Definition stepf (c : conf) (l : label) : option conf :=
  match l with
  | LCall o => match py c with PIdle => Some (set_py c (PExec (prog_of o))) | _ => None end
  | LW cm fate =>
      match py c with
      | PExec (Wr cm' k) =>
          if cmd_eqb cm cm'
          then Some (mk (PExec k) (outs c) (sh c) (p2d c ++ [(cm, nxt c, fate)]) (d2p c) (S (nxt c)))
          else None
      | PErr => Some (mk PErr (outs c) (sh c) (p2d c ++ [(cm, nxt c, fate)]) (d2p c) (S (nxt c)))
      | _ => None
      end
  | LTau =>
      match py c with
      | PExec (Exp w true kok _) => Some (mk (PExec kok) (outs c ++ [(pred (nxt c), w)]) (sh c) (p2d c) (d2p c) (nxt c))
      | PExec (Exp w false kok kbad) =>
          match outs c with
          | [] => Some (set_py c (PRead1 (pred (nxt c), w) kok kbad))
          | _ => Some (mk (PExec (Cons kok kbad)) (outs c ++ [(pred (nxt c), w)]) (sh c) (p2d c) (d2p c) (nxt c))
          end
      | PExec (Cons kok kbad) =>
          match outs c with
          | [] => Some (set_py c (PExec kok))
          | o => Some (mk (PCons o true kok kbad) [] (sh c) (p2d c) (d2p c) (nxt c))
          end
      | PExec (Rd k) => Some (set_py c (PRd k))
      | PExec (Handle h kt) =>
          match outs c with
          | [] => Some (set_py c (PHand h kt))
          | _ => Some (set_py c (PExec (Cons (Handle h kt) Err)))
          end
      | _ => None
      end
  | LEnd e =>
      match py c, e with
      | PExec (Ret b alive), ERet b' => if Bool.eqb b b' then Some (set_py c (if alive then PIdle else PGone)) else None
      | PExec Fail, EExc => Some (set_py c PIdle)
      | PExec Err, EExc => Some (set_py c PErr)
      | PExec GoneExc, EExc => Some (set_py c PGone)
      | PErr, _ => Some c            (* the operation ends after its cleanup *)
      | _, _ => None
      end
  | LR r ch =>
      match d2p c with
      | (r', _) :: rest =>
          if rep_eqb r r' then
            match py c with
            | PErr => Some (mk PErr (outs c) (sh c) (p2d c) rest (nxt c))
            | _ => py_read (mk (py c) (outs c) (sh c) (p2d c) rest (nxt c)) (Some r) ch
            end
          else None
      | [] => None
      end
  | LEof =>
      match d2p c, sh c with
      | [], SDead => match py c with PErr => Some c | _ => py_read c None 0 end
      | _, _ => None
      end
  | LKill => match py c with
             | PErr => Some (mk PGone (outs c) SDead (p2d c) (d2p c) (nxt c))
             | _ => None
             end
  | LShRead =>
      match p2d c with
      | (cm, i, fate) :: rest =>
          match sreact (sh c) cm fate with
          | Some (s', out) => Some (mk (py c) (outs c) s' rest (d2p c ++ tag i out) (nxt c))
          | None => None
          end
      | [] => None
      end
  | LShEmit e =>
      match semit (sh c) e with
      | Some (s', out) => Some (mk (py c) (outs c) s' (p2d c) (d2p c ++ untag out) (nxt c))
      | None => None
      end
  | LShSig term =>
      if signalable (sh c)
      then Some (mk (py c) (outs c) SDead (p2d c) (d2p c ++ untag [tok (if term then RSigterm else RSigint)]) (nxt c))
      else None
  end.

Definition init (c : conf) : Prop := exists b, c = conf0 b.
Definition protocol_step := fstep conf label stepf.
Definition reach (c : conf) : Prop := reachable conf label protocol_step init c.

(* blocking reads (no timeout in the code): every reading state of a live session *)
Definition py_waits (c : conf) : bool :=
  match py c with PRead1 _ _ _ | PCons _ _ _ _ | PRd _ | PHand _ _ | PDie => true | _ => false end.
Definition sh_waits (c : conf) : bool := sh_reads (sh c).
Definition chans_empty (c : conf) : bool :=
  match p2d c, d2p c with [], [] => true | _, _ => false end.

(* ------------------------------------------------------------------ observed traces *)
(* what the hook (writes, reads) and the harness (operation begin/end) record on the python side *)
Inductive obs := OC (o : op) | OW (c : cmd) | OR (r : rep) | OEof | OE (e : endk).

Definition obs_of (l : label) : option obs :=
  match l with
  | LCall o => Some (OC o) | LW c _ => Some (OW c) | LR r _ => Some (OR r) | LEof => Some OEof
  | LEnd e => Some (OE e) | _ => None
  end.
Fixpoint project (ls : list label) : list obs :=
  match ls with
  | [] => []
  | l :: ls' => match obs_of l with Some o => o :: project ls' | None => project ls' end
  end.

Definition is_reply (r : rep) : bool := match r with RAck _ | RNak _ => true | _ => false end.
(* the n-th (0-based) reply token among the coming reads *)
Fixpoint nth_reply (n : nat) (os : list obs) : option rep :=
  match os with
  | [] => None
  | OR r :: os' => if is_reply r then match n with 0 => Some r | S m => nth_reply m os' end else nth_reply n os'
  | _ :: os' => nth_reply n os'
  end.
Fixpoint count_w (c stop : cmd) (os : list obs) : nat :=
  match os with
  | OW c' :: os' => if cmd_eqb c' stop then 0 else (if cmd_eqb c' c then 1 else 0) + count_w c stop os'
  | OR _ :: os' => count_w c stop os'
  | _ => 0
  end.

(* choices python makes when it reads r in the handler, read off what it does next *)
Definition choice (r : rep) (os : list obs) : nat :=
  match r with
  | RReqInherit => match os with OW CPath :: _ => 1 | OW CTransfer :: _ => 2 | _ => 0 end
  | RReqBashrcs => count_w CPath CEndRequest os
  | RReqSbx => count_w COther CEndSbx os
  | RIpc => match os with
            | OR _ :: OR _ :: OR _ :: OR _ :: OR _ :: OW _ :: OE _ :: _ => 0
            | _ => 1
            end
  | _ => 0
  end.

(* which step makes the daemon produce the line python reads next *)
Definition emit_for (s : sstate) (r : rep) : option label :=
  match s with
  | SRun k =>
      if rep_eqb r (tok RKey) && match k with KMeta => true | _ => false end then Some (LShEmit EKey)
      else if rep_eqb r (tok RRecvEnv) && match k with KEnv => true | _ => false end then Some (LShEmit ERecvEnv)
      else if rep_eqb r (tok RReqInherit) then Some (LShEmit EInherit)
      else if rep_eqb r (tok RReqBashrcs) then Some (LShEmit EBashrc)
      else if rep_eqb r RIpc then Some (LShEmit EIpc)
      else if rep_eqb r (tok RReqSbx) then Some (LShEmit ESbx)
      else if rep_eqb r (tok RPhasesOk) then Some (LShEmit (EFinish true))
      else if rep_eqb r (tok RPhasesFail) then Some (LShEmit (EFinish false))
      else if rep_eqb r (tok RDying) then Some (LShEmit EDie)
      else if rep_eqb r (tok RSigint) then Some (LShSig false)
      else if rep_eqb r (tok RSigterm) then Some (LShSig true)
      else None
  | _ => None
  end.

(* lazy scheduling of the daemon: it moves only when python needs a line.  Returns the inserted
   daemon labels (newest first) and the configuration. *)
Fixpoint feed (fuel : nat) (c : conf) (want : option rep) (acc : list label) : option (list label * conf) :=
  match fuel with
  | 0 => None
  | S f =>
      match d2p c, want with
      | _ :: _, Some _ => Some (acc, c)
      | [], None => match sh c with SDead => Some (acc, c) | _ => step_daemon f c want acc end
      | [], Some _ => step_daemon f c want acc
      | _ :: _, None => None
      end
  end
with step_daemon (fuel : nat) (c : conf) (want : option rep) (acc : list label) : option (list label * conf) :=
  match fuel with
  | 0 => None
  | S f =>
      let go l := match stepf c l with Some c' => feed f c' want (l :: acc) | None => None end in
      if sh_reads (sh c) then
        match p2d c with
        | _ :: _ => go LShRead
        | [] => match want with
                | Some r => if rep_eqb r (tok RSigint) then go (LShSig false)
                            else if rep_eqb r (tok RSigterm) then go (LShSig true) else None
                | None => None
                end
        end
      else
        match want with
        | Some r => match emit_for (sh c) r with Some l => go l | None => None end
        | None => None
        end
  end.

(* python-internal steps that need no observation *)
Fixpoint taus (fuel : nat) (c : conf) (acc : list label) : list label * conf :=
  match fuel with
  | 0 => (acc, c)
  | S f => match stepf c LTau with Some c' => taus f c' (LTau :: acc) | None => (acc, c) end
  end.

Definition fate_for (c : conf) (cm : cmd) (rest : list obs) : bool :=
  match cm with
  | CPreload | CStartEnv =>
      match nth_reply (List.length (outs c)) rest with Some (RNak _) => false | _ => true end
  | _ => true
  end.

Fixpoint elab (c : conf) (os : list obs) (acc : list label) : option (list label) :=
  match os with
  | [] => Some (rev acc)
  | o :: rest =>
      let '(acc1, c1) := taus 4 c acc in
      match o with
      | OC op => match stepf c1 (LCall op) with Some c2 => elab c2 rest (LCall op :: acc1) | None => None end
      | OW cm => let l := LW cm (fate_for c1 cm rest) in
                 match stepf c1 l with Some c2 => elab c2 rest (l :: acc1) | None => None end
      | OE e => match stepf c1 (LEnd e) with Some c2 => elab c2 rest (LEnd e :: acc1) | None => None end
      | OR r =>
          match feed 64 c1 (Some r) acc1 with
          | Some (acc2, c2) =>
              let l := LR r (choice r rest) in
              match stepf c2 l with Some c3 => elab c3 rest (l :: acc2) | None => None end
          | None => None
          end
      | OEof =>
          match feed 64 c1 None acc1 with
          | Some (acc2, c2) => match stepf c2 LEof with Some c3 => elab c3 rest (LEof :: acc2) | None => None end
          | None => None
          end
      end
  end.

(* trace acceptance: the elaborated label sequence is a run of the LTS (checked by Lts.accepts on
   [stepf] itself) and projects back onto exactly the observed trace *)
Definition obs_eqb (a b : obs) : bool :=
  match a, b with
  | OC _, OC _ => true   (* operations are compared through the steps they enable *)
  | OW x, OW y => cmd_eqb x y
  | OR x, OR y => rep_eqb x y
  | OEof, OEof => true
  | OE (ERet x), OE (ERet y) => Bool.eqb x y
  | OE EExc, OE EExc => true
  | _, _ => false
  end.
Fixpoint obs_list_eqb (a b : list obs) : bool :=
  match a, b with
  | [], [] => true
  | x :: a', y :: b' => obs_eqb x y && obs_list_eqb a' b'
  | _, _ => false
  end.
Definition accepts_obs (sandbox : bool) (os : list obs) : bool :=
  match elab (conf0 sandbox) os [] with
  | Some ls => accepts conf label stepf (conf0 sandbox) ls && obs_list_eqb (project ls) os
  | None => false
  end.
(* index of the first observation at which elaboration gets stuck (diagnostics) *)
Fixpoint stuck_at (n : nat) (os : list obs) : option nat :=
  match n with
  | 0 => None
  | S m => match stuck_at m os with
           | Some i => Some i
           | None => match elab (conf0 false) (firstn n os) [] with Some _ => None | None => Some m end
           end
  end.

(* ------------------------------------------------------------------ recorded traces (harness input) *)
Local Open Scope N_scope.
(* one byte string per session; records separated by byte 10:
     C<k><args>  operation begins   (a alive, c clear, s shutdown, p<sync><n> preload, k<setmeta><n> get_keys,
                                     e<setmeta><n> get_ebuild_environment, r<logging> run_phase, x raw line)
     W<line>     line written       R<line> line read       Z  read returned EOF
     E0 | E1 | EX  operation returned False / True-or-value / raised *)
Fixpoint split_nl (s cur : str) : list str :=
  match s with
  | [] => match cur with [] => [] | _ => [rev cur] end
  | x :: s' => if N.eqb x 10 then rev cur :: split_nl s' [] else split_nl s' (x :: cur)
  end.
Fixpoint parse_nat (s : str) (acc : nat) : nat :=
  match s with
  | [] => acc
  | x :: s' => if andb (N.leb 48 x) (N.leb x 57) then parse_nat s' (10 * acc + N.to_nat (x - 48))%nat else acc
  end.
Definition bit (x : N) : bool := N.eqb x 49.
Definition parse_op (s : str) : option op :=
  match s with
  | [97] => Some OAlive
  | [99] => Some OClear
  | [115] => Some OShutdown
  | [120] => Some ORaw
  | 112 :: b :: n => Some (OPreload (parse_nat n 0%nat) (bit b))
  | 107 :: b :: n => Some (OKeys (bit b) (parse_nat n 0%nat))
  | 101 :: b :: n => Some (OEnv (bit b) (parse_nat n 0%nat))
  | [114; b] => Some (ORunPhase (bit b))
  | _ => None
  end.
Definition parse_rec (l : str) : option obs :=
  match l with
  | 67 :: rest => match parse_op rest with Some o => Some (OC o) | None => None end
  | 87 :: rest => Some (OW (classify_w rest))
  | 82 :: rest => Some (OR (classify_r rest))
  | [90] => Some OEof
  | [69; 48] => Some (OE (ERet false))
  | [69; 49] => Some (OE (ERet true))
  | [69; 88] => Some (OE EExc)
  | _ => None
  end.
Fixpoint parse_recs (ls : list str) : option (list obs) :=
  match ls with
  | [] => Some []
  | l :: ls' => match parse_rec l, parse_recs ls' with
                | Some o, Some os => Some (o :: os)
                | _, _ => None
                end
  end.
(* the lines between "dying" and "dead" are die()'s stderr, not protocol lines *)
Fixpoint strip_die_text (inside : bool) (os : list obs) : list obs :=
  match os with
  | [] => []
  | OR RDying :: os' => OR RDying :: strip_die_text true os'
  | OR RDead :: os' => OR RDead :: strip_die_text false os'
  | OR r :: os' => if inside then strip_die_text inside os' else OR r :: strip_die_text inside os'
  | o :: os' => o :: strip_die_text false os'
  end.
Definition parse_trace (s : str) : option (list obs) :=
  match parse_recs (split_nl s []) with Some os => Some (strip_die_text false os) | None => None end.

Definition run_trace (s : str) : val :=
  match parse_trace s with
  | Some os => VB (accepts_obs false os)
  | None => VErr (L "unparsable")
  end.
(* diagnostics: number of observations that elaborate *)
Definition run_stuck (s : str) : val :=
  match parse_trace s with
  | Some os => match stuck_at (List.length os) os with
               | Some i => VZ (Z.of_nat i)
               | None => VNone
               end
  | None => VErr (L "unparsable")
  end.
