import sys, os, time
sys.path.insert(0,"/verif")
from harness import c47, common, fsx
chk = common.Check("C47")
import pkgcore.sync.tar
work = str(chk.scratch/"c47"); os.makedirs(work); spool=work+"/spool"; os.mkdir(spool); root=work+"/root"
proc, port = c47.start_server(spool)
try:
    case = c47.gen_case(chk.rng, "good"); case["chunk"]=0
    c47.publish(spool, "x", case["srv"], case["ext"])
    url=f"tar+http://127.0.0.1:{port}/x/r.tar.{case['ext']}"
    c47.build_root(root, c47.state_of(case))
    import cProfile, pstats
    pr = cProfile.Profile(); pr.enable()
    t=time.time()
    res,_ = c47._child(root, url, False, None, None, spool, 0)
    pr.disable()
    sys.stdout = sys.__stdout__
    print("child", time.time()-t, res["code"], res["detail"])
    pstats.Stats(pr).sort_stats("cumtime").print_stats(25)
finally:
    proc.terminate()
    import shutil; shutil.rmtree(chk.scratch)
