#!/bin/sh
# usage: show.sh LINE  -> goals right before LINE of Proofs_C38.v
cd /verif/coq
head -$(($1-1)) C38/Proofs_C38.v > /verif/chk.scratch/T38.v
echo "Show. Abort." >> /verif/chk.scratch/T38.v
timeout 600 coqc -R . Verif /verif/chk.scratch/T38.v 2>&1 | tail -${2:-40}
