#!/bin/sh
# usage: mut.sh NAME FILE 'python-expr-editing s'
NAME="$1"; FILE="$2"; EDIT="$3"
WT=/tmp/wt_C07m
cd $WT && git checkout -q -- . && git apply /verif/fixes/C07-versionmatch-eq-hash.patch /verif/fixes/C07-depset-hash.patch || exit 9
/venv/bin/python - "$WT/$FILE" "$EDIT" <<'PY'
import sys
p, edit = sys.argv[1], sys.argv[2]
s = open(p).read()
old, new = edit.split("=>>")
assert s.count(old) >= 1, "pattern not found"
s = s.replace(old, new, 1)
open(p, "w").write(s)
PY
[ $? = 0 ] || exit 8
cd $WT && git diff --stat | tail -1
cd /verif && VERIF_REPO=$WT ./check C07 > chk.scratch/c07/mut/$NAME.out 2>&1
echo "$NAME exit=$?"; grep -c VIOLATION chk.scratch/c07/mut/$NAME.out; tail -1 chk.scratch/c07/mut/$NAME.out
for f in $(grep -o 'replay=[^ ]*' chk.scratch/c07/mut/$NAME.out | head -3 | cut -d= -f2); do /venv/bin/python -c "
import json,sys; d=json.load(open('$f')); print('   ', d['kind'], d['no_input'], json.dumps(d['detail'].get('what'))[:160], json.dumps(d['detail'].get('input'))[:200])"; done
