(* Model_C19.v — the model of C19 is the model of C18 (C18/Model_C18.v: [merge_ops], the op
   list merge_contents issues) observed at every crash prefix [firstn k] with writes split
   into arbitrary chunks, and at every EIO point ([fault_state], [eio_cleanup]).  This file
   only names the op blocks of one merge step, so that the step-level theorems can be
   stated without unfolding the planner.  No proofs. *)
From Coq Require Import List NArith ZArith Bool.
Import ListNotations.
From Verif Require Import Base.Val C18.Fs C18.Model_C18.

(* copyfile over an existing non-directory: stage at tmp = '<cp>#new', then rename *)
Definition staged_file_ops (um : N) (x : entry) (d : list N) (cp : path) : list op :=
  let tmp := sibling_new cp in
  (Create tmp (file_create_mode um) :: (if is_nil d then [] else [Append tmp d]))
  ++ perms_new x tmp ++ [Rename tmp cp].

(* the same with the write split into chunks (any chunking) *)
Definition staged_file_ops_chunked (um : N) (x : entry) (chunks : list (list N)) (cp : path) : list op :=
  let tmp := sibling_new cp in
  replace_ops tmp cp (file_create_mode um) chunks (perms_new x tmp).

(* do_link when the target name exists: link at '<b>#new', then rename *)
Definition link_ops (pre : list op) (a b : path) : list op :=
  pre ++ [Link a (sibling_new b); Rename (sibling_new b) b].
